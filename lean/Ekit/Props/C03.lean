/-
C03 — Hash-backed maps and sets are correct under arbitrary hash collisions.

Property theorems only (helper lemmas: Ekit/Lemmas/HashMap*.lean).  The models are in
Ekit/Model/HashMap.lean; `Ekit.Gen.HashMapFacts` (what `formatting`/`newNode`/`Delete` do to a
pooled node) is regenerated from /repo/mapx/hashmap.go on every run.

Every theorem is for an arbitrary user-supplied `h : Hashable` subject only to the `Hashable`
contract `h.Law` (`Equals` is an equivalence; `Equals` keys have equal `Code`s) — a constant `code`
is one instance — and for arbitrary run-time choices (which pooled node `sync.Pool` hands out, in
which order the Go map is iterated).
-/
import Ekit.Lemmas.HashMapRefine
import Ekit.Lemmas.HashMapDecor
import Ekit.Lemmas.HashMapLinked

namespace Ekit.HashMap
open Ekit.Go

variable {V : Type}

section hashmap
variable [Inhabited V]

/-! #### HashMap -/

/-- **One call refines the abstract map.**  "Put/Get/Delete return the model's answers, Len equals the
    number of distinct live keys, and Keys/Values list each live entry exactly once":
    from related states, every call on the `HashMap` returns what the abstract map keyed by `Equals`
    returns (`Keys`/`Values` up to order) and leaves related states — for every `Code` function
    allowed by the contract, every pooled-node choice and every legal iteration order. -/
theorem c03_step_refines {h : Hashable} (hl : h.Law) {m : HMap V} {s : Spec.State V} (hR : R h m s)
    (o : Oracle) (ho : o.Valid m) (op : Op V) :
    R h (m.step h o op).1 (Spec.step h s op).1 ∧ OutEquiv (m.step h o op).2 (Spec.step h s op).2 := by
  have hnd := hR.inv.codes_nodup
  cases op with
  | put k v =>
    obtain ⟨h1, h2⟩ := put_refines hl hR o k v
    exact ⟨h1, OutEquiv.of_eq (by rw [h2]; rfl)⟩
  | get k =>
    rw [get_refines hl hR o k]
    exact ⟨hR, OutEquiv.of_eq rfl⟩
  | delete k =>
    obtain ⟨h1, h2⟩ := delete_refines hl hR o k
    exact ⟨h1, OutEquiv.of_eq (by rw [h2]; rfl)⟩
  | len =>
    refine ⟨hR, OutEquiv.of_eq ?_⟩
    simp only [HMap.step, Spec.step]
    rw [len_eq_keys_length, (keys_perm hnd ho).length_eq, List.length_map, hR.perm.length_eq]
  | keys =>
    refine ⟨hR, ?_⟩
    simp only [HMap.step, Spec.step, OutEquiv, Ret.Equiv]
    exact (keys_perm hnd ho).trans (hR.perm.map _)
  | values =>
    refine ⟨hR, ?_⟩
    simp only [HMap.step, Spec.step, OutEquiv, Ret.Equiv]
    exact (values_perm hnd ho).trans (hR.perm.map _)

/-- the empty map (`NewHashMap`) is related to the empty abstract map -/
theorem c03_empty_refines (h : Hashable) : R h (HMap.empty : HMap V) [] :=
  ⟨⟨by simp [HMap.empty], by simp [HMap.empty], by simp [HMap.empty, HMap.entries, NoDupKeys],
    by simp [HMap.empty]⟩, by simp [HMap.empty, HMap.entries]⟩

/-- **`run_refines_assoc`: every history.**  For every `Code`/`Equals` pair satisfying the contract
    (constant `Code` included), every history of calls with every sequence of run-time choices
    returns what the abstract map returns, and the final state abstracts to the abstract map's. -/
theorem c03_run_refines_assoc {h : Hashable} (hl : h.Law) {m : HMap V} {s : Spec.State V} (hR : R h m s)
    (hist : List (Oracle × Op V)) (hv : HMap.ValidRun h m hist) :
    R h (HMap.run h m hist).1 (Spec.run h s (hist.map (·.2))).1 ∧
      OutsEquiv (HMap.run h m hist).2 (Spec.run h s (hist.map (·.2))).2 := by
  induction hist generalizing m s with
  | nil => exact ⟨hR, trivial⟩
  | cons x rest ih =>
    obtain ⟨o, op⟩ := x
    obtain ⟨hv1, hv2⟩ := hv
    obtain ⟨h1, h2⟩ := c03_step_refines hl hR o hv1 op
    obtain ⟨h3, h4⟩ := ih h1 hv2
    exact ⟨h3, h2, h4⟩

/-- every history from `NewHashMap`, stated from the empty map -/
theorem c03_run_from_new {h : Hashable} (hl : h.Law) (hist : List (Oracle × Op V))
    (hv : HMap.ValidRun h (HMap.empty : HMap V) hist) :
    R h (HMap.run h HMap.empty hist).1 (Spec.run h [] (hist.map (·.2))).1 ∧
      OutsEquiv (HMap.run h (HMap.empty : HMap V) hist).2 (Spec.run h [] (hist.map (·.2))).2 :=
  c03_run_refines_assoc hl (c03_empty_refines h) hist hv

/-- **`len_eq_card`**: `Len()` (the two nested loops of the source, in any iteration order) is the
    number of live entries, and those have pairwise non-`Equals` keys — the number of distinct live
    keys.  (On the pinned tree `Len` returned the number of buckets; the 6-keys-2-codes history is
    in the harness corpus.) -/
theorem c03_len_eq_card {h : Hashable} (hl : h.Law) {m : HMap V} {s : Spec.State V} (hR : R h m s)
    {order : List Int} (ho : order.Perm (m.buckets.map (·.1))) :
    m.len order = s.length ∧ NoDupKeys h s := by
  refine ⟨?_, NoDupKeys.perm hl hR.perm hR.inv.keys_nodup⟩
  rw [len_eq_keys_length, (keys_perm hR.inv.codes_nodup ho).length_eq, List.length_map, hR.perm.length_eq]

/-- **`keys_nodup_perm`**: `Keys()` and `Values()` list each live entry exactly once: they are
    permutations of the abstract map's keys/values, and no two listed keys are `Equals`. -/
theorem c03_keys_nodup_perm {h : Hashable} (hl : h.Law) {m : HMap V} {s : Spec.State V} (hR : R h m s)
    {order : List Int} (ho : order.Perm (m.buckets.map (·.1))) :
    (m.keys order).Perm (s.map (·.1)) ∧ (m.values order).Perm (s.map (·.2)) ∧
      (m.keys order).Pairwise (fun a b => h.equals a b = false) := by
  have hk := (keys_perm hR.inv.codes_nodup ho).trans (hR.perm.map (·.1))
  refine ⟨hk, (values_perm hR.inv.codes_nodup ho).trans (hR.perm.map _), ?_⟩
  have hs : NoDupKeys h s := NoDupKeys.perm hl hR.perm hR.inv.keys_nodup
  have : (s.map (·.1)).Pairwise (fun a b => h.equals a b = false) := by
    rw [List.pairwise_map]; exact hs
  refine hk.symm.pairwise this ?_
  intro x y hxy
  cases hyx : h.equals y x with
  | false => rfl
  | true => rw [hl.symm _ _ hyx] at hxy; exact absurd hxy (by simp)

/-- **`delete_other_untouched`** — "Deleting or overwriting one key never disturbs another key that
    shares its hash code": if `k` and `k'` are not `Equals` (whatever their codes), `Get k` answers the
    same before and after `Delete k'` and before and after `Put k' v`. -/
theorem c03_delete_other_untouched {h : Hashable} (hl : h.Law) {m : HMap V} (hI : Inv h m)
    (o o' o'' : Oracle) {k k' : Int} (hne : h.equals k k' = false) (v : V) :
    ((m.step h o (.delete k')).1.step h o' (.get k)).2 = (m.step h o'' (.get k)).2 ∧
    ((m.step h o (.put k' v)).1.step h o' (.get k)).2 = (m.step h o'' (.get k)).2 := by
  have hR : R h m m.entries := ⟨hI, List.Perm.refl _⟩
  have hn := hI.keys_nodup
  constructor
  · rw [get_refines hl (delete_refines hl hR o k').1 o' k, get_refines hl hR o'' k]
    simp only [Spec.get_delete_other hl hne]
  · rw [get_refines hl (put_refines hl hR o k' v).1 o' k, get_refines hl hR o'' k]
    simp only [Spec.get_put_other hl hne]

/-- **`pool_nodes_clean`** — "recycled internal nodes never leak a previous key or value": in every
    state reachable from `NewHashMap` by any history, every node sitting in the pool carries the zero
    key, the zero value and no successor; and whichever node the pool hands out, `newNode(k, v)`
    contributes exactly the one entry `(k, v)` to the chain it joins. -/
theorem c03_pool_nodes_clean {h : Hashable} (hl : h.Law) (hist : List (Oracle × Op V))
    (hv : HMap.ValidRun h (HMap.empty : HMap V) hist) :
    (∀ n ∈ (HMap.run h (HMap.empty : HMap V) hist).1.pool, n.key = 0 ∧ n.value = default ∧ n.tail = []) ∧
      ∀ (choice : Option Nat) (k : Int) (v : V),
        (newNode (HMap.run h (HMap.empty : HMap V) hist).1.pool choice k v).1 = [(k, v)] := by
  have hI := (c03_run_from_new hl hist hv).1.inv
  constructor
  · intro n hn
    rw [hI.pool_clean n hn]
    exact ⟨rfl, rfl, rfl⟩
  · intro c k v
    exact (newNode_clean hI.pool_clean c k v).1

/-- the invariant behind all of the above holds in every reachable state: one slot per code, no empty
    chain (so `Put` never dereferences a nil `pre`), every node under the code of its key, no two live
    keys `Equals` -/
theorem c03_reachable_inv {h : Hashable} (hl : h.Law) (hist : List (Oracle × Op V))
    (hv : HMap.ValidRun h (HMap.empty : HMap V) hist) : Inv h (HMap.run h (HMap.empty : HMap V) hist).1 :=
  (c03_run_from_new hl hist hv).1.inv

/-- no call on a reachable `HashMap` panics or fails -/
theorem c03_no_panic {h : Hashable} (hl : h.Law) {m : HMap V} (hI : Inv h m) (o : Oracle) (ho : o.Valid m)
    (op : Op V) : (m.step h o op).2.isOk = true := by
  have hR : R h m m.entries := ⟨hI, List.Perm.refl _⟩
  have h2 := (c03_step_refines hl hR o ho op).2
  cases op <;> simp only [Spec.step] at h2 <;>
    (cases hh : (m.step h o _).2 <;> simp_all [OutEquiv, Outcome.isOk])

end hashmap

/-! #### LinkedMap over the HashMap -/

/-- **The hash-backed linked map is the abstract map, order included.**  From related states every call
    returns exactly what the abstract map returns — `Keys`/`Values` in the abstract map's order, which
    is first-insertion order — and leaves related states; for every lawful `Code`/`Equals`, every pool
    choice.  (`LR` also says: the inner hash map holds exactly the list's entries, `length` is the
    list length.) -/
theorem c03_linked_step_refines {h : Hashable} (hl : h.Law) {l : LMap V} {s : Spec.State V} (hR : LR h l s)
    (o : Oracle) (op : Op V) :
    LR h (l.step h o op).1 (Spec.step h s op).1 ∧ (l.step h o op).2 = (Spec.step h s op).2 :=
  linked_refines hl hR o op

/-- every history on a `NewLinkedHashMap`: all results equal the abstract map's -/
theorem c03_linked_run_refines {h : Hashable} (hl : h.Law) (hist : List (Oracle × Op V)) :
    LR h (LMap.run h (LMap.empty : LMap V) hist).1 (Spec.run h [] (hist.map (·.2))).1 ∧
      (LMap.run h (LMap.empty : LMap V) hist).2 = (Spec.run h [] (hist.map (·.2))).2 := by
  have : ∀ (l : LMap V) (s : Spec.State V), LR h l s →
      LR h (LMap.run h l hist).1 (Spec.run h s (hist.map (·.2))).1 ∧
        (LMap.run h l hist).2 = (Spec.run h s (hist.map (·.2))).2 := by
    induction hist with
    | nil => intro l s hR; exact ⟨hR, rfl⟩
    | cons x rest ih =>
      intro l s hR
      obtain ⟨o, op⟩ := x
      obtain ⟨h1, h2⟩ := linked_refines hl hR o op
      obtain ⟨h3, h4⟩ := ih _ _ h1
      refine ⟨h3, ?_⟩
      simp only [LMap.run, List.map_cons, Spec.run]
      rw [h2, h4]
  exact this _ _ (linked_empty_refines h)

/-- **first-insertion order; overwrite keeps position** — what the abstract map's order is:
    `Keys()` of the linked map is the abstract key list; a `Put` of a key `Equals` to a live one leaves
    that list unchanged, a `Put` of a new key appends it, a `Delete` removes just the matching key. -/
theorem c03_linked_keys_order {h : Hashable} (hl : h.Law) {l : LMap V} {s : Spec.State V} (hR : LR h l s)
    (o : Oracle) (k : Int) (v : V) :
    (l.step h o .keys).2 = .ok (.keys (s.map (·.1))) ∧
    (Spec.put h s k v).map (·.1) =
      (if s.any (fun e => h.equals e.1 k) then s.map (·.1) else s.map (·.1) ++ [k]) ∧
    (Spec.delete h s k).map (·.1) = (s.map (·.1)).filter (fun a => !h.equals a k) := by
  refine ⟨(linked_refines hl hR o .keys).2, ?_, ?_⟩
  · unfold Spec.put
    split
    · rw [List.map_map]
      apply List.map_congr_left
      intro e _
      simp only [Function.comp]
      split <;> rfl
    · simp
  · unfold Spec.delete
    rw [List.filter_map]
    rfl

/-! #### MultiMap -/

/-- **MultiMap over the HashMap** refines the abstract multi map (`Put`/`PutMany` append to the key's
    values, everything else as the abstract map keyed by `Equals`) -/
theorem c03_multi_step_refines {h : Hashable} (hl : h.Law) {m : HMap (List Int)} {s : Spec.State (List Int)}
    (hR : R h m s) (o : Oracle) (ho : o.Valid m) (op : Op (List Int)) :
    R h (multiStep (hashMapi h (List Int)) m o op).1 (Spec.multiStep h s op).1 ∧
      OutEquiv (multiStep (hashMapi h (List Int)) m o op).2 (Spec.multiStep h s op).2 := by
  refine multi_refines_generic (hashMapi h (List Int)) h (R h) (fun o m => o.Valid m) ?_ hR o ho op
  intro st s' o' op' hR' hv
  cases op' with
  | put k v =>
    obtain ⟨h1, h2⟩ := put_refines hl hR' o' k v
    exact ⟨h1, OutEquiv.of_eq (by simp only [hashMapi]; rw [h2]; rfl)⟩
  | get k =>
    simp only [hashMapi]; rw [get_refines hl hR' o' k]
    exact ⟨hR', OutEquiv.of_eq rfl⟩
  | delete k =>
    obtain ⟨h1, h2⟩ := delete_refines hl hR' o' k
    exact ⟨h1, OutEquiv.of_eq (by simp only [hashMapi]; rw [h2]; rfl)⟩
  | len =>
    rcases hv with hv | ⟨_, _, e⟩ | ⟨_, e⟩ | ⟨_, e⟩ <;> first | exact c03_step_refines hl hR' o' hv .len | cases e
  | keys =>
    rcases hv with hv | ⟨_, _, e⟩ | ⟨_, e⟩ | ⟨_, e⟩ <;> first | exact c03_step_refines hl hR' o' hv .keys | cases e
  | values =>
    rcases hv with hv | ⟨_, _, e⟩ | ⟨_, e⟩ | ⟨_, e⟩ <;> first | exact c03_step_refines hl hR' o' hv .values | cases e

/-- **append semantics per key**: after `PutMany(k, vs...)` the key holds its previous values followed
    by `vs` (just `vs` if it was absent), and a key that is not `Equals` to `k` holds what it held. -/
theorem c03_multi_append {h : Hashable} (hl : h.Law) {m : HMap (List Int)} {s : Spec.State (List Int)}
    (hR : R h m s) (o o' : Oracle) (ho : o.Valid m) (k : Int) (vs : List Int) :
    let m' := (multiStep (hashMapi h (List Int)) m o (.put k vs)).1
    (multiStep (hashMapi h (List Int)) m' o' (.get k)).2 = .ok (.found ((Spec.get h s k).getD [] ++ vs)) ∧
    ∀ k', h.equals k' k = false →
      (multiStep (hashMapi h (List Int)) m' o' (.get k')).2 = (multiStep (hashMapi h (List Int)) m o' (.get k')).2 := by
  intro m'
  have h1 : R h m' (Spec.put h s k ((Spec.get h s k).getD [] ++ vs)) :=
    (c03_multi_step_refines hl hR o ho (.put k vs)).1
  have hget : ∀ (mm : HMap (List Int)) (ss : Spec.State (List Int)), R h mm ss → ∀ kk,
      (multiStep (hashMapi h (List Int)) mm o' (.get kk)).2 = .ok (Spec.lookupRet (Spec.get h ss kk)) := by
    intro mm ss hRR kk
    simp only [multiStep, hashMapi]
    rw [get_refines hl hRR o' kk]
    cases Spec.get h ss kk <;> rfl
  constructor
  · rw [hget m' _ h1 k, Spec.get_put_same hl]; rfl
  · intro k' hne
    rw [hget m' _ h1 k', hget m s hR k', Spec.get_put_other hl hne]

/-! #### Go-map wrappers: builtinMap, MapSet, MultiMap over builtinMap -/

/-- `builtinMap` behaves as the abstract map keyed by Go's `==` -/
theorem c03_builtin_step_refines {b : BMap V} (hn : NoDupKeys idHashable b) (o : Oracle)
    (ho : BMap.OrderValid o b) (op : Op V) :
    (b.step o op).1 = (Spec.step idHashable b op).1 ∧ NoDupKeys idHashable (b.step o op).1 ∧
      OutEquiv (b.step o op).2 (Spec.step idHashable b op).2 :=
  builtin_refines hn o ho op

/-- `MapSet` behaves as the abstract set -/
theorem c03_mapset_step_refines {b : BMap Unit} (hn : NoDupKeys idHashable b) (o : Oracle)
    (ho : BMap.OrderValid o b) (op : SetOp) :
    (MapSet.step b o op).1 = (Spec.setStep b op).1 ∧ NoDupKeys idHashable (MapSet.step b o op).1 ∧
      OutEquiv (MapSet.step b o op).2 (Spec.setStep b op).2 :=
  mapset_refines hn o ho op

/-- `MultiMap` over `builtinMap` refines the abstract multi map -/
theorem c03_multib_step_refines {b : BMap (List Int)} (hn : NoDupKeys idHashable b) (o : Oracle)
    (ho : BMap.OrderValid o b) (op : Op (List Int)) :
    (fun st s => st = s ∧ NoDupKeys idHashable st)
        (multiStep (builtinMapi (List Int)) b o op).1 (Spec.multiStep idHashable b op).1 ∧
      OutEquiv (multiStep (builtinMapi (List Int)) b o op).2 (Spec.multiStep idHashable b op).2 := by
  refine multi_refines_generic (builtinMapi (List Int)) idHashable
    (fun st s => st = s ∧ NoDupKeys idHashable st) (fun o b => BMap.OrderValid o b) ?_ ⟨rfl, hn⟩ o ho op
  intro st s' o' op' hR' hv
  obtain ⟨rfl, hn'⟩ := hR'
  have point : ∀ (op'' : Op (List Int)), (BMap.OrderValid o' st ∨ op'' ≠ .len ∧ op'' ≠ .keys ∧ op'' ≠ .values) →
      ((builtinMapi (List Int)).step st o' op'').1 = (Spec.step idHashable st op'').1 ∧
        NoDupKeys idHashable ((builtinMapi (List Int)).step st o' op'').1 ∧
        OutEquiv ((builtinMapi (List Int)).step st o' op'').2 (Spec.step idHashable st op'').2 := by
    intro op'' hv'
    rcases hv' with hv' | hv'
    · exact builtin_refines hn' o' hv' op''
    · cases op'' with
      | put k v => exact builtin_refines hn' ⟨none, st.map (fun x => x.1)⟩ (by unfold BMap.OrderValid; exact List.Perm.refl _) (.put k v)
      | get k => exact builtin_refines hn' ⟨none, st.map (fun x => x.1)⟩ (by unfold BMap.OrderValid; exact List.Perm.refl _) (.get k)
      | delete k => exact builtin_refines hn' ⟨none, st.map (fun x => x.1)⟩ (by unfold BMap.OrderValid; exact List.Perm.refl _) (.delete k)
      | len => exact absurd rfl hv'.1
      | keys => exact absurd rfl hv'.2.1
      | values => exact absurd rfl hv'.2.2
  have := point op' (by
    rcases hv with hv | ⟨_, _, e⟩ | ⟨_, e⟩ | ⟨_, e⟩
    · exact Or.inl hv
    all_goals (subst e; exact Or.inr ⟨by simp, by simp, by simp⟩))
  exact ⟨⟨this.1, this.2.1⟩, this.2.2⟩

/-! #### every history of the decorators and wrappers -/

/-- every history on a hash-backed `MultiMap` returns what the abstract multi map returns -/
theorem c03_multi_run_refines {h : Hashable} (hl : h.Law) (hist : List (Oracle × Op (List Int)))
    (hv : ValidRunWith (fun o m => o.Valid m) (multiStep (hashMapi h (List Int))) HMap.empty hist) :
    R h (runWith (multiStep (hashMapi h (List Int))) HMap.empty hist).1
        (foldRun (Spec.multiStep h) [] (hist.map (·.2))).1 ∧
      ListRel OutEquiv (runWith (multiStep (hashMapi h (List Int))) HMap.empty hist).2
        (foldRun (Spec.multiStep h) [] (hist.map (·.2))).2 :=
  sim_run _ _ (R h) _ OutEquiv (fun _ _ o op hR ho => c03_multi_step_refines hl hR o ho op) hist _ _
    (c03_empty_refines h) hv

/-- every history on a `builtinMap` -/
theorem c03_builtin_run_refines (hist : List (Oracle × Op V))
    (hv : ValidRunWith (fun o b => BMap.OrderValid o b) (BMap.step (V := V)) [] hist) :
    (runWith (BMap.step (V := V)) [] hist).1 = (foldRun (Spec.step idHashable) [] (hist.map (·.2))).1 ∧
      ListRel OutEquiv (runWith (BMap.step (V := V)) [] hist).2
        (foldRun (Spec.step idHashable) ([] : Spec.State V) (hist.map (·.2))).2 := by
  have := sim_run (BMap.step (V := V)) (Spec.step idHashable) (fun st s => st = s ∧ NoDupKeys idHashable st)
    (fun o b => BMap.OrderValid o b) OutEquiv
    (fun st s o op hR ho => by
      obtain ⟨rfl, hn⟩ := hR
      have := builtin_refines hn o ho op
      exact ⟨⟨this.1, this.2.1⟩, this.2.2⟩) hist [] [] ⟨rfl, by simp [NoDupKeys]⟩ hv
  exact ⟨this.1.1, this.2⟩

/-- every history on a `MapSet` -/
theorem c03_mapset_run_refines (hist : List (Oracle × SetOp))
    (hv : ValidRunWith (fun o b => BMap.OrderValid o b) MapSet.step [] hist) :
    (runWith MapSet.step [] hist).1 = (foldRun Spec.setStep [] (hist.map (·.2))).1 ∧
      ListRel OutEquiv (runWith MapSet.step [] hist).2 (foldRun Spec.setStep [] (hist.map (·.2))).2 := by
  have := sim_run MapSet.step Spec.setStep (fun st s => st = s ∧ NoDupKeys idHashable st)
    (fun o b => BMap.OrderValid o b) OutEquiv
    (fun st s o op hR ho => by
      obtain ⟨rfl, hn⟩ := hR
      have := mapset_refines hn o ho op
      exact ⟨⟨this.1, this.2.1⟩, this.2.2⟩) hist [] [] ⟨rfl, by simp [NoDupKeys]⟩ hv
  exact ⟨this.1.1, this.2⟩

/-- the constant hash function is an instance: with `Code() = c` for every key the contract only asks
    `Equals` to be an equivalence, and all of the above applies (one chain holds every key) -/
theorem c03_constant_code_lawful (c : Int) (eq : Int → Int → Bool) (hrefl : ∀ a, eq a a = true)
    (hsymm : ∀ a b, eq a b = true → eq b a = true)
    (htrans : ∀ a b c, eq a b = true → eq b c = true → eq a c = true) :
    (⟨fun _ => c, eq⟩ : Hashable).Law :=
  ⟨hrefl, hsymm, htrans, fun _ _ _ => rfl⟩

/-! #### the harness's key types satisfy the contract (so the theorems apply to the runs that are checked) -/

theorem c03_keyKind_law {name : String} {h : Hashable} (e : keyKind name = some h) : h.Law := by
  unfold keyKind at e
  split at e <;> first
    | (cases e
       constructor
       · intro a; simp
       · intro a b; simp only [beq_iff_eq]; exact fun e => e.symm
       · intro a b c; simp only [beq_iff_eq]; exact fun e1 e2 => e1.trans e2
       · intro a b; simp only [beq_iff_eq]; intro e; simp [e])
    | cases e

/-! #### non-vacuity: concrete states satisfy the hypotheses and take the interesting branches -/

/-- a constant hash code -/
def constKey : Hashable := ⟨fun _ => 7, fun a b => a == b⟩

example : constKey.Law := c03_keyKind_law (name := "const") rfl

-- three keys in one chain; delete the middle one; the freed node is clean and is recycled
example :
    let m0 : HMap Int := HMap.empty
    let m1 := (m0.step constKey {} (.put 1 10)).1
    let m2 := (m1.step constKey {} (.put 2 20)).1
    let m3 := (m2.step constKey {} (.put 3 30)).1
    let m4 := (m3.step constKey {} (.delete 2)).1
    let m5 := (m4.step constKey { choice := some 0 } (.put 4 40)).1
    m3.buckets = [(7, [(1, 10), (2, 20), (3, 30)])] ∧
    m4.buckets = [(7, [(1, 10), (3, 30)])] ∧ m4.pool = [⟨0, 0, []⟩] ∧
    m5.buckets = [(7, [(1, 10), (3, 30), (4, 40)])] ∧ m5.pool = [] ∧
    m5.len [7] = 3 := by decide

-- an `Equals` coarser than identity: 2 and 3 are the same key; the stored key is the first one
example :
    let h : Hashable := ⟨fun a => (a.tdiv 2).tmod 2, fun a b => a.tdiv 2 == b.tdiv 2⟩
    let m1 := ((HMap.empty : HMap Int).step h {} (.put 2 1)).1
    let m2 := (m1.step h {} (.put 3 2)).1
    m2.buckets = [(1, [(2, 2)])] ∧ (m2.step h {} (.get 3)).2 = .ok (.found 2) := by decide

-- linked map: overwrite keeps position
example :
    let l1 := ((LMap.empty : LMap Int).step constKey {} (.put 1 10)).1
    let l2 := (l1.step constKey {} (.put 2 20)).1
    let l3 := (l2.step constKey {} (.put 1 30)).1
    (l3.step constKey {} .keys).2 = .ok (.keys [1, 2]) ∧ (l3.step constKey {} .values).2 = .ok (.vals [30, 20]) := by
  decide

end Ekit.HashMap
