/-
C08 — DelayQueue never releases an element early and always the earliest one.

Property theorems only.  The model (transition system `sys P`, `P = ⟨timer discipline, capacity⟩`) is
Ekit/Model/DelayQ.lean; invariants are in Ekit/Lemmas/DelayQ*.lean.  Every theorem is universally
quantified over `P` — in particular over BOTH timer-channel disciplines (`Disc.async` =
GODEBUG=asynctimerchan=1, `Disc.sync` = Go ≥ 1.23 default) and every capacity — and over every
reachable state, i.e. every schedule of any number of producers and consumers, every timing
(`tick`), every firing instant of every timer (`fire`), every cancellation (`cancel`).
-/
import Ekit.Lemmas.DelayQInv
import Ekit.Lemmas.DelayQLin
import Ekit.Model.DelayQSkel
import Ekit.Generated.SkelC08

namespace Ekit.DelayQ
open Ekit.Conc

/-! #### The model is the model of the code that is there now (regenerated sync skeletons) -/

theorem c08_skel_DelayQueue_Dequeue : Ekit.Gen.SkelC08.DelayQueue_Dequeue = Skel.expected_DelayQueue_Dequeue := by rfl
theorem c08_skel_DelayQueue_Enqueue : Ekit.Gen.SkelC08.DelayQueue_Enqueue = Skel.expected_DelayQueue_Enqueue := by rfl
theorem c08_skel_NewDelayQueue : Ekit.Gen.SkelC08.NewDelayQueue = Skel.expected_NewDelayQueue := by rfl
theorem c08_skel_cond_broadcast : Ekit.Gen.SkelC08.cond_broadcast = Skel.expected_cond_broadcast := by rfl
theorem c08_skel_cond_signalCh : Ekit.Gen.SkelC08.cond_signalCh = Skel.expected_cond_signalCh := by rfl
theorem c08_skel_newCond : Ekit.Gen.SkelC08.newCond = Skel.expected_newCond := by rfl

/-! #### "Dequeue never returns an element whose Delay() is still positive" -/

/-- An element leaves the queue only by the `q.Dequeue()` step of some Dequeue call (`pop`), and that
    step removes exactly the element it reports. -/
theorem c08_only_pop_removes (P : Params) (s s' : State) (l : Label)
    (h : step P s l = some s') (x : Elem) (hx : x ∈ s.q) (hx' : x ∉ s'.q) : ∃ t, l = .pop t (some x) := by
  rcases step_q P s l s' h with hq | ⟨t, y, _, _, hq, _⟩ | ⟨t, y, hl, _, hq, _⟩
  · rw [hq] at hx'; exact absurd hx hx'
  · rw [hq] at hx'; exact absurd (List.mem_cons_of_mem _ hx) hx'
  · refine ⟨t, ?_⟩
    by_cases hxy : x = y
    · rw [hl, hxy]
    · rw [hq] at hx'; exact absurd ((List.mem_erase_of_ne hxy).mpr hx) hx'

/-- **dequeue_expired**: at the removing step the removed element is expired (`deadline ≤ now`, i.e.
    `Delay() ≤ 0`) — whichever way the call got there (first Peek, or the re-lock/re-Peek after a
    timer tick, stale or not), under both timer disciplines. -/
theorem c08_dequeue_expired (P : Params) (s s' : State) (t : Nat) (y : Elem) (hr : (sys P).Reachable s)
    (h : step P s (.pop t (some y)) = some s') : y.dl ≤ s.now := by
  have hi := inv_reachable P s hr
  simp only [step] at h
  split at h
  · rename_i x hpc
    split at h
    · rename_i hmin
      have hx := hi.pop t x hpc
      have := isMin_le hmin x hx.1
      omega
    · cases h
  · cases h

/-- **dequeue_earliest**: at the removing step no element in the queue has an earlier deadline than
    the removed one — hence in particular none that was in the queue for the whole duration of the
    call (such an element is in the queue at the removing step). -/
theorem c08_dequeue_earliest (P : Params) (s s' : State) (t : Nat) (y : Elem)
    (h : step P s (.pop t (some y)) = some s') : y ∈ s.q ∧ ∀ z ∈ s.q, y.dl ≤ z.dl := by
  simp only [step] at h
  split at h
  · split at h
    · rename_i hmin
      exact ⟨isMin_mem hmin, isMin_le hmin⟩
    · cases h
  · cases h

/-- What the caller sees: a Dequeue that returns `x` does so at an instant `now ≥ deadline x`
    (time never goes back, so `x.Delay() ≤ 0` whenever the caller looks). -/
theorem c08_returned_expired (P : Params) (s : State) (t : Nat) (x : Elem) (hr : (sys P).Reachable s)
    (h : s.pc t = .ret (.deqOk x)) : x.dl ≤ s.now :=
  (inv_reachable P s hr).ret t x (by rw [h]; rfl)

/-- The `q.Dequeue()` after a successful Peek never fails (the comment in the code is right):
    no call is ever about to return the internal error. -/
theorem c08_dequeue_no_internal_error (P : Params) (s : State) (t : Nat) (hr : (sys P).Reachable s) :
    s.pc t ≠ .ret .deqErr := by
  intro h
  exact (inv_reachable P s hr).noErr t (by rw [h]; rfl)

/-- **stale_tick_harmless**: a timer tick that is received while the head is missing or still delayed
    (under `async` this can be a stale tick left in the channel by `Reset`) only sends the call back
    to the head of its loop: the re-Peek changes nothing. -/
theorem c08_stale_tick_harmless (P : Params) (s s' : State) (t : Nat) (h : Option Elem)
    (hs : step P s (.repeek t h) = some s') (hd : ∀ x, h = some x → s.now < x.dl) :
    s'.pc t = .dReUnlock ∧ s'.q = s.q ∧ s'.deqd = s.deqd ∧ s'.enqd = s.enqd ∧ s'.mutex = s.mutex := by
  simp only [step, State.setPc] at hs
  split at hs
  · split at hs
    · split at hs
      · cases hs; simp
      · cases hs
    · rename_i x
      have := hd x rfl
      split at hs
      · split at hs
        · omega
        · cases hs; simp
      · cases hs
  · cases hs

/-! #### "Each successfully enqueued element is dequeued exactly once" -/

/-- `enqd` = elements whose insertion succeeded, `deqd` = elements removed, `retd` = elements returned
    by completed Dequeue calls.  Nothing is lost or duplicated: the queue content plus the removed
    elements is a permutation of the inserted ones, all distinct; every returned element was removed,
    and no element is returned twice. -/
theorem c08_exactly_once (P : Params) (s : State) (hr : (sys P).Reachable s) :
    (s.q ++ s.deqd).Perm s.enqd ∧ s.enqd.Nodup ∧ s.deqd.Nodup ∧ s.retd.Nodup ∧
      (∀ x ∈ s.retd, x ∈ s.deqd) ∧ (∀ x ∈ s.deqd, x ∈ s.enqd ∧ x ∉ s.q) := by
  have hi := inv_reachable P s hr
  have hnd := hi.once.all_nodup
  refine ⟨hi.once.perm, hi.once.nodup, (List.nodup_append.mp hnd).2.1, hi.retd.nodup, hi.retd.sub, ?_⟩
  intro x hx
  refine ⟨hi.once.perm.subset (List.mem_append_right _ hx), ?_⟩
  intro hq
  exact (List.nodup_append.mp hnd).2.2 x hq x hx rfl

/-- a call about to return `x` is the only one to do so, and `x` has not been returned before -/
theorem c08_returned_once (P : Params) (s : State) (t u : Nat) (x : Elem) (hr : (sys P).Reachable s)
    (h : s.pc t = .ret (.deqOk x)) : x ∈ s.deqd ∧ x ∉ s.retd ∧ (u ≠ t → s.pc u ≠ .ret (.deqOk x)) := by
  have hi := inv_reachable P s hr
  have h1 := hi.retd.inflight t x (by rw [h]; rfl)
  refine ⟨h1.1, h1.2, fun hne hu => ?_⟩
  exact hi.retd.distinct t u x (Ne.symm hne) (by rw [h]; rfl) (by rw [hu]; rfl)

/-! #### "the bounded variant never holds more than its capacity" -/

theorem c08_bounded_len_le_cap (P : Params) (s : State) (hr : (sys P).Reachable s) (hc : 0 < P.cap) :
    s.q.length ≤ P.cap :=
  (inv_reachable P s hr).cap hc

/-! #### "calls that fail with a context error have no effect" -/

/-- `eff t` records whether the current call of `t` has modified the queue (`c08_effect_marked`:
    every modification sets it; `step_eff`: only a new invocation clears it).  A call that is about to
    return a context error has not modified the queue. -/
theorem c08_ctx_err_no_effect (P : Params) (s : State) (t : Nat) (hr : (sys P).Reachable s)
    (h : s.pc t = .ret .enqCtx ∨ s.pc t = .ret .deqCtx) : s.eff t = false := by
  have hi := (inv_reachable P s hr).eff t
  cases he : s.eff t with
  | false => rfl
  | true =>
    rcases hi he with h1 | h1 | ⟨x, h1⟩ <;> rcases h with h | h <;> rw [h] at h1 <;> simp [Pc.retOf] at h1

theorem c08_effect_marked (P : Params) (s s' : State) (l : Label) (h : step P s l = some s')
    (hq : s'.q ≠ s.q) : ∃ t, ((l = .enq t) ∨ ∃ y, l = .pop t (some y)) ∧ s'.eff t = true := by
  rcases step_q P s l s' h with h1 | ⟨t, x, hl, _, _, he⟩ | ⟨t, y, hl, _, _, he⟩
  · exact absurd h1 hq
  · exact ⟨t, Or.inl hl, he⟩
  · exact ⟨t, Or.inr ⟨y, hl⟩, he⟩

theorem c08_effect_cleared_only_by_invocation (P : Params) (s s' : State) (l : Label)
    (h : step P s l = some s') (t : Nat) (h1 : s.eff t = true) (h2 : s'.eff t = false) :
    (∃ x, l = .invEnq t x) ∨ l = .invDeq t :=
  step_eff P s l s' h t h1 h2

/-! #### All of the above at once: the DelayQueue is linearizable w.r.t. the atomic timed specification -/

/-- Every history (sequence of invocations and responses) of the model — any number of threads, any
    schedule, any timing, both timer disciplines — is a history of the ATOMIC specification `timedSpec`:
    a multiset with a monotone clock where `Enqueue` inserts unless the bounded queue is full,
    `Dequeue` removes an element that is present, EXPIRED at the specification's clock and of MINIMAL
    deadline, and either call may instead fail with a context error WITHOUT effect; every call takes
    effect exactly once between its invocation and its response (`Ekit.Conc.Linearizable`).
    This is also what the driver's `model` mode searches for in an observed history.
    CAVEAT (review): clock advances are not events of the history and `timedSpec.apply` may advance
    its clock by any `n`, so the conjunct "expired at the specification's clock" does not constrain the
    history; the time-dependent statement, in which `tick`s ARE events and only they move the
    specification's clock, is `c08_linearizable_clocked` in Ekit/Props/C08Rev.lean.  "Never early" for
    the model's own clock is `c08_dequeue_expired` / `c08_returned_expired`. -/
theorem c08_linearizable_timed (P : Params) (ls : List Label) (s : State)
    (hrun : (sys P).toSystem.run (sys P).init ls = some s) :
    Linearizable (timedSpec P) ((sys P).history ls) :=
  linearizable_timed P ls s hrun

/-! #### Non-vacuity: concrete schedules (checked by evaluation of the model's `step`) -/

def exA : Elem := ⟨1, 5⟩
def exB : Elem := ⟨2, 20⟩

/-- Consumer 2 parks on element A (deadline 5); its timer fires at 5 (tick buffered); at the same
    moment a producer broadcasts a new element B (deadline 20) and consumer 2 takes the *signal* arm;
    consumer 3 removes A; consumer 2 loops, sees B with delay 15 and `Reset`s its timer. -/
def staleRun : List Label :=
  soloEnqOk 1 exA ++
  [.invDeq 2, .ctxOk 2, .lock 2, .peek 2 (some exA), .fetch 2, .unlock 2, .arm 2, .tick 5, .fire 2] ++
  soloEnqOk 1 exB ++ [.selSig 2] ++ soloDeqOk 3 exA ++
  [.ctxOk 2, .lock 2, .peek 2 (some exB), .fetch 2, .unlock 2, .arm 2]

/-- … the stale tick is received at once, the call re-locks, re-peeks, finds B still delayed, unlocks -/
def staleTail : List Label := [.selTimer 2, .lock 2, .repeek 2 (some exB), .unlock 2]

def runView (P : Params) (ls : List Label) : Option (List Elem × Nat × Pc) :=
  ((sys P).toSystem.run init ls).map fun s => (s.q, s.now, s.pc 2)

/-- async: the stale tick IS received at instant 5 < 20, and B stays in the queue -/
example : runView ⟨.async, 0⟩ (staleRun ++ staleTail) = some ([exB], 5, .dTop) := by decide
/-- sync: the same schedule up to the `Reset` is possible, but then no tick can be received -/
example : runView ⟨.sync, 0⟩ staleRun = some ([exB], 5, .dWaitT 2) := by decide
example : runView ⟨.sync, 0⟩ (staleRun ++ [.selTimer 2]) = none := by decide
/-- a Dequeue about to return A exists (hypotheses of `c08_returned_expired` are satisfiable),
    here through the timer path: park, fire, re-lock, re-peek, pop -/
example : runView ⟨.async, 3⟩ (soloEnqOk 1 exA ++
    [.invDeq 2, .ctxOk 2, .lock 2, .peek 2 (some exA), .fetch 2, .unlock 2, .arm 2, .tick 7, .fire 2,
     .selTimer 2, .lock 2, .repeek 2 (some exA), .pop 2 (some exA), .swap 2, .unlock 2, .close 2])
    = some ([], 7, .ret (.deqOk exA)) := by decide
/-- an early removal is NOT a step of the model: at instant 4 the pop of A is not reachable -/
example : runView ⟨.async, 0⟩ (soloEnqOk 1 exA ++ [.tick 4, .invDeq 2, .ctxOk 2, .lock 2, .peek 2 (some exA),
    .pop 2 (some exA)]) = none := by decide
/-- a bounded queue of capacity 1 sends the second producer to wait on the dequeue signal -/
example : ((sys ⟨.sync, 1⟩).toSystem.run init (soloEnqOk 1 exA ++
    [.invEnq 2 exB, .ctxOk 2, .lock 2, .enq 2, .fetch 2, .unlock 2])).map (fun s => (s.q, s.pc 2))
    = some ([exA], .eWait exB 0) := by decide

end Ekit.DelayQ
