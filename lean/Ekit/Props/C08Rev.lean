/-
C08 — review additions (hostile-referee pass).

1. **Whole-call form of "always the earliest one"** (`c08_call_removes_by_pop`,
   `c08_whole_call_earliest`): the property speaks about elements "in the queue for the whole duration
   of that call"; `c08_dequeue_earliest` only speaks about the removing step and left the bridge to a
   doc comment.  Here: every Dequeue call that returns `y` contains a `pop t (some y)` step of its own
   between its invocation and its response; at that step `y` is expired and minimal; hence every `z`
   that is in the queue in every state the run passes through during the call has `y.dl ≤ z.dl`.
2. **Clocked linearizability** (`c08_linearizable_clocked`).  In `c08_linearizable_timed` the clock of
   `timedSpec` may jump by an arbitrary `n` inside every `apply` and clock advances are not part of
   the history, so the conjunct "`x.dl ≤ s'.now`" of that specification constrains nothing (choose `n`
   large): that theorem says "linearizable w.r.t. the min-deadline multiset" and nothing about time.
   Here `tick n` IS an observable event of the (timed) history and the specification's clock moves
   ONLY by those events; a Dequeue may take effect only when its element is expired at that clock.
   `tlin_clock` shows the specification's clock is the sum of the ticks so far, i.e. the real virtual
   clock of the run.
3. Non-vacuity examples missing before (already-expired element, equal deadlines, ctx-error call
   without effect, a bounded queue whose parked producer gets in after a removal).
-/
import Ekit.Props.C08

namespace Ekit.DelayQ
open Ekit.Conc

/-! ### 1. the whole call -/

/-- a thread gets to "about to return `y`" only by its own `pop t (some y)` -/
theorem retOf_deqOk_by_pop (P : Params) (s s' : State) (l : Label) (t : Nat) (y : Elem)
    (h : step P s l = some s') (h0 : (s.pc t).retOf ≠ some (.deqOk y))
    (h1 : (s'.pc t).retOf = some (.deqOk y)) : l = .pop t (some y) := by
  step_cases h <;> dsimp only at h0 h1 <;>
    first
    | exact absurd h1 h0
    | (simp only [upd] at h1; split at h1
       · rename_i heq; subst heq
         first
         | (simp [Pc.retOf, *] at h0 h1; done)
         | (simp only [Pc.retOf, Option.some.injEq, Ret.deqOk.injEq] at h1; subst h1; rfl)
         | (simp [Pc.retOf, *] at h0 h1; obtain ⟨rfl⟩ := h1; first | rfl | exact absurd rfl h0)
       · exact absurd h1 h0)

/-- `p` holds in every state a run passes through (start and end included) -/
def Along (P : Params) (p : State → Prop) : State → List Label → Prop
  | s, [] => p s
  | s, l :: ls => p s ∧ ∀ s1, step P s l = some s1 → Along P p s1 ls

theorem Along.split (P : Params) (p : State → Prop) : ∀ (ls1 ls2 : List Label) (s s1 : State),
    Along P p s (ls1 ++ ls2) → (sys P).toSystem.run s ls1 = some s1 → Along P p s1 ls2
  | [], _, s, s1, h, hr => by simp [System.run] at hr; subst hr; exact h
  | l :: ls1, ls2, s, s1, h, hr => by
    simp only [System.run] at hr
    cases hs : (sys P).toSystem.step s l with
    | none => rw [hs] at hr; cases hr
    | some s0 =>
      rw [hs] at hr
      exact Along.split P p ls1 ls2 s0 s1 (h.2 s0 hs) hr

theorem Along.head (P : Params) (p : State → Prop) : ∀ (ls : List Label) (s : State), Along P p s ls → p s
  | [], _, h => h
  | _ :: _, _, h => h.1

/-- **Every Dequeue call that returns `y` removed `y` itself, by a `pop` step inside the call.**
    From any reachable state in which `t` is not already on its way out with `y` (e.g. `t` idle, the run
    starting with `invDeq t`), a run that ends with `t` about to return `y` splits at a
    `pop t (some y)` step; at that step `y` is in the queue, expired, and of minimal deadline. -/
theorem c08_call_removes_by_pop (P : Params) (t : Nat) (y : Elem) :
    ∀ (ls : List Label) (s0 s' : State), (sys P).Reachable s0 → (sys P).toSystem.run s0 ls = some s' →
      (s0.pc t).retOf ≠ some (.deqOk y) → (s'.pc t).retOf = some (.deqOk y) →
      ∃ ls1 ls2 s1 s2, ls = ls1 ++ .pop t (some y) :: ls2 ∧ (sys P).toSystem.run s0 ls1 = some s1 ∧
        step P s1 (.pop t (some y)) = some s2 ∧ (sys P).toSystem.run s2 ls2 = some s' ∧
        y ∈ s1.q ∧ y.dl ≤ s1.now ∧ ∀ z ∈ s1.q, y.dl ≤ z.dl
  | [], s0, s', _, hrun, h0, h1 => by
    simp [System.run] at hrun; subst hrun; exact absurd h1 h0
  | l :: ls, s0, s', hr, hrun, h0, h1 => by
    simp only [System.run] at hrun
    cases hs : (sys P).toSystem.step s0 l with
    | none => rw [hs] at hrun; cases hrun
    | some sa =>
      rw [hs] at hrun
      have hs' : step P s0 l = some sa := hs
      by_cases hy : (sa.pc t).retOf = some (.deqOk y)
      · have hl := retOf_deqOk_by_pop P s0 sa l t y hs' h0 hy
        subst hl
        obtain ⟨hm, hmin⟩ := c08_dequeue_earliest P s0 sa t y hs'
        exact ⟨[], ls, s0, sa, rfl, rfl, hs', hrun, hm, c08_dequeue_expired P s0 sa t y hr hs', hmin⟩
      · obtain ⟨ls1, ls2, s1, s2, e, r1, st, r2, rest⟩ :=
          c08_call_removes_by_pop P t y ls sa s' (System.Reachable.step hr hs) hrun hy h1
        refine ⟨l :: ls1, ls2, s1, s2, by rw [e]; rfl, ?_, st, r2, rest⟩
        simp only [System.run, hs]; exact r1

/-- **"no other element that was in the queue for the whole duration of that call had an earlier
    expiry"**, literally: `s0` is the state in which `t` invokes Dequeue, `ls` the rest of the run up to
    the state `s'` in which `t` is at its `return y`.  Any `z` that is in the queue in every state of
    that segment has `y.dl ≤ z.dl`; and `y` is expired at the removal and at the return. -/
theorem c08_whole_call_earliest (P : Params) (t : Nat) (y z : Elem) (s0 s' : State) (ls : List Label)
    (hr : (sys P).Reachable s0) (hidle : s0.pc t = .idle)
    (hrun : (sys P).toSystem.run s0 (.invDeq t :: ls) = some s') (hret : s'.pc t = .ret (.deqOk y))
    (hz : Along P (fun s => z ∈ s.q) s0 (.invDeq t :: ls)) :
    y.dl ≤ z.dl ∧ y.dl ≤ s'.now := by
  have h0 : (s0.pc t).retOf ≠ some (.deqOk y) := by rw [hidle]; simp [Pc.retOf]
  have h1 : (s'.pc t).retOf = some (.deqOk y) := by rw [hret]; rfl
  obtain ⟨ls1, ls2, s1, s2, e, r1, _, _, _, _, hmin⟩ :=
    c08_call_removes_by_pop P t y _ s0 s' hr hrun h0 h1
  rw [e] at hz
  have hz1 := Along.head P _ _ _ (Along.split P _ ls1 _ s0 s1 hz r1)
  exact ⟨hmin z hz1, c08_returned_expired P s' t y (System.reachable_of_run _ _ hr hrun) hret⟩

/-! ### 2. linearizability against a clock that only the run's own `tick`s move -/

/-- the atomic specification WITHOUT a free clock: an operation does not move the clock, and a Dequeue
    may take effect only if its element is expired NOW -/
def exactSpec (P : Params) : SeqSpec SpecS Op Ret where
  init := ⟨0, []⟩
  apply s op s' r := s'.now = s.now ∧
    match op, r with
    | .enq x, .enqOk => isFull P s.q = false ∧ s'.q = x :: s.q
    | .enq _, .enqCtx => s'.q = s.q
    | .deq, .deqOk x => isMin s.q x = true ∧ x.dl ≤ s.now ∧ s'.q = s.q.erase x
    | .deq, .deqCtx => s'.q = s.q
    | _, _ => False

/-- timed events: call / return events and clock advances -/
inductive TEv
  | ev (e : Ev Op Ret)
  | tick (n : Nat)
  deriving DecidableEq

/-- what of a label is visible in the timed history: invocations, responses AND clock advances -/
def tobs : Label → Option TEv
  | .tick n => some (.tick n)
  | l => (obs l).map .ev

def thistory (ls : List Label) : List TEv := ls.filterMap tobs

inductive TLabel
  | a (l : ALabel SpecS Op Ret)
  | tick (n : Nat)

def TLabel.obs : TLabel → Option TEv
  | .a l => l.obs.map .ev
  | .tick n => some (.tick n)

/-- the timed canonical automaton: the canonical atomic automaton of `exactSpec`, plus `tick` -/
inductive TStep (P : Params) : AState SpecS Op Ret → TLabel → AState SpecS Op Ret → Prop
  | a {x l y} : AStep (exactSpec P) x l y → TStep P x (.a l) y
  | tick {x n} : TStep P x (.tick n) ⟨⟨x.s.now + n, x.s.q⟩, x.th⟩

inductive TRun (P : Params) : AState SpecS Op Ret → List TLabel → AState SpecS Op Ret → Prop
  | nil {x} : TRun P x [] x
  | cons {x y z l ls} : TStep P x l y → TRun P y ls z → TRun P x (l :: ls) z

theorem TRun.append {P : Params} {x y z : AState SpecS Op Ret} {l1 l2 : List TLabel}
    (h1 : TRun P x l1 y) (h2 : TRun P y l2 z) : TRun P x (l1 ++ l2) z := by
  induction h1 with
  | nil => exact h2
  | cons hs _ ih => exact TRun.cons hs (ih h2)

/-- a timed history is linearizable iff it is a history of the timed canonical automaton -/
def TLinearizable (P : Params) (h : List TEv) : Prop :=
  ∃ tls x, TRun P (AInit (exactSpec P)) tls x ∧ tls.filterMap TLabel.obs = h

def tickSum : List TLabel → Nat
  | [] => 0
  | .tick n :: r => n + tickSum r
  | .a _ :: r => tickSum r

/-- the specification's clock is moved by the `tick` events of the history and by nothing else -/
theorem tlin_clock (P : Params) {x y : AState SpecS Op Ret} {tls : List TLabel} (h : TRun P x tls y) :
    y.s.now = x.s.now + tickSum tls := by
  induction h with
  | nil => simp [tickSum]
  | cons hs _ ih =>
    rename_i x y z l ls
    cases hs with
    | tick => rw [ih]; simp only [tickSum]; omega
    | a ha =>
      rw [ih]; simp only [tickSum]
      cases ha with
      | inv _ => rfl
      | res _ => rfl
      | lin _ happ => rw [happ.1]

/-- a successful Dequeue takes effect in the timed automaton only on an expired, minimal element -/
theorem tlin_deq_expired (P : Params) {x y : AState SpecS Op Ret} {t : Nat} {s' : SpecS} {e : Elem}
    (h : TStep P x (.a (.lin t s' (.deqOk e))) y) : e ∈ x.s.q ∧ e.dl ≤ x.s.now ∧ ∀ z ∈ x.s.q, e.dl ≤ z.dl := by
  cases h with
  | a ha =>
    cases ha with
    | lin hp happ =>
      rename_i op
      cases op with
      | enq _ => exact absurd happ.2 (by simp)
      | deq => exact ⟨isMin_mem happ.2.1, happ.2.2.1, isMin_le happ.2.1⟩

theorem arun_now_mono (P : Params) {x y : AState SpecS Op Ret} {als : List (ALabel SpecS Op Ret)}
    (h : ARun (timedSpec P) x als y) : x.s.now ≤ y.s.now := by
  induction h with
  | nil => exact Nat.le_refl _
  | cons hs _ ih =>
    refine Nat.le_trans ?_ ih
    cases hs with
    | inv _ => exact Nat.le_refl _
    | res _ => exact Nat.le_refl _
    | lin _ happ => obtain ⟨n, hn, _⟩ := happ; rw [hn]; omega

/-- a run of the lax specification during which the clock did not move is a run of the exact one -/
theorem arun_exact (P : Params) {x y : AState SpecS Op Ret} {als : List (ALabel SpecS Op Ret)}
    (h : ARun (timedSpec P) x als y) (hle : y.s.now ≤ x.s.now) :
    ARun (exactSpec P) x als y := by
  induction h with
  | nil => exact .nil
  | cons hs hrest ih =>
    rename_i x b c l ls
    have h2 := arun_now_mono P hrest
    have h1 : x.s.now ≤ b.s.now := arun_now_mono P (.cons hs .nil)
    have hb : b.s.now = x.s.now := by omega
    refine .cons ?_ (ih (by omega))
    cases hs with
    | inv h => exact .inv h
    | res h => exact .res h
    | lin hp happ =>
      rename_i t op s' r
      refine .lin hp ?_
      obtain ⟨n, hn, hm⟩ := happ
      have hb' : s'.now = x.s.now := hb
      refine ⟨hb', ?_⟩
      cases op <;> cases r <;> simp only at hm ⊢ <;> first | exact hm | (rw [← hb']; exact hm)

theorem arun_to_trun (P : Params) {x y : AState SpecS Op Ret} {als : List (ALabel SpecS Op Ret)}
    (h : ARun (exactSpec P) x als y) : TRun P x (als.map .a) y := by
  induction h with
  | nil => exact .nil
  | cons hs _ ih => exact .cons (.a hs) ih

/-- every label other than `tick` leaves the clock alone -/
theorem step_now (P : Params) (s s' : State) (l : Label) (h : step P s l = some s') :
    (∃ n, l = .tick n ∧ s' = { s with now := s.now + n }) ∨ ((∀ n, l ≠ .tick n) ∧ s'.now = s.now) := by
  step_cases h <;> first | exact Or.inl ⟨_, rfl, rfl⟩ | exact Or.inr ⟨fun _ => by simp, rfl⟩

/-- the simulation relation with the two clocks EQUAL -/
structure SimX (s : State) (a : AState SpecS Op Ret) : Prop where
  q : a.s.q = s.q
  now : a.s.now = s.now
  th : ∀ t, a.th t = absTh (s.pc t)

theorem simX_step (P : Params) (s s' : State) (a : AState SpecS Op Ret) (l : Label)
    (hi : Inv P s) (hR : SimX s a) (h : step P s l = some s') :
    ∃ tls a', TRun P a tls a' ∧ SimX s' a' ∧ tls.filterMap TLabel.obs = (tobs l).toList := by
  rcases step_now P s s' l h with ⟨n, rfl, rfl⟩ | ⟨hnt, hnow⟩
  · exact ⟨[.tick n], _, .cons .tick .nil, ⟨hR.q, by simp [hR.now], hR.th⟩, rfl⟩
  · have hlax : SimR s a := ⟨hR.q, Nat.le_of_eq hR.now, hR.th⟩
    obtain ⟨als, a', hrun, hR', hobs⟩ := sim_step P s a l s' hi hlax h
    have hle : a'.s.now ≤ a.s.now := by rw [hR.now, ← hnow]; exact hR'.now
    have hge := arun_now_mono P hrun
    have hRn := hR.now
    refine ⟨als.map .a, a', arun_to_trun P (arun_exact P hrun hle), ⟨hR'.q, by omega, hR'.th⟩, ?_⟩
    have ht : tobs l = (obs l).map .ev := by
      cases l <;> first | rfl | exact absurd rfl (hnt _)
    rw [ht, List.filterMap_map]
    have : (TLabel.obs ∘ TLabel.a) = fun l => (ALabel.obs l).map TEv.ev := rfl
    rw [this]
    have hmap : ∀ (xs : List (ALabel SpecS Op Ret)),
        xs.filterMap (fun l => (ALabel.obs l).map TEv.ev) = (xs.filterMap ALabel.obs).map TEv.ev := by
      intro xs
      induction xs with
      | nil => rfl
      | cons b bs ih => simp only [List.filterMap_cons]; cases ALabel.obs b <;> simp [ih]
    rw [hmap, hobs]
    cases obs l <;> rfl

/-- **Clocked linearizability.**  Every TIMED history of the model (invocations, responses and clock
    advances, in the order of the run; any number of threads, any schedule, both timer disciplines,
    every capacity) is a history of the timed canonical automaton of `exactSpec`: each call takes
    effect atomically between its invocation and its response, a successful Dequeue at an instant —
    of the clock that only the run's own ticks move (`tlin_clock`) — at which its element is present,
    EXPIRED and of minimal deadline (`tlin_deq_expired`); context-error calls have no effect; Enqueue
    succeeds only below capacity.  Moreover the specification state at the end of the run has the
    run's clock and the run's queue. -/
theorem c08_linearizable_clocked (P : Params) : ∀ (ls : List Label) (s : State),
    (sys P).toSystem.run (sys P).init ls = some s →
    ∃ tls x, TRun P (AInit (exactSpec P)) tls x ∧ tls.filterMap TLabel.obs = thistory ls ∧
      x.s.now = s.now ∧ x.s.q = s.q := by
  suffices H : ∀ (ls : List Label) (s0 s : State) (a0 : AState SpecS Op Ret), (sys P).Reachable s0 →
      SimX s0 a0 → (sys P).toSystem.run s0 ls = some s →
      ∃ tls x, TRun P a0 tls x ∧ tls.filterMap TLabel.obs = thistory ls ∧ SimX s x by
    intro ls s hrun
    obtain ⟨tls, x, h1, h2, h3⟩ := H ls init s (AInit (exactSpec P)) System.Reachable.init
      ⟨rfl, rfl, fun _ => rfl⟩ hrun
    exact ⟨tls, x, h1, h2, h3.now, h3.q⟩
  intro ls
  induction ls with
  | nil =>
    intro s0 s a0 _ hR hrun
    simp [System.run] at hrun; subst hrun
    exact ⟨[], a0, .nil, rfl, hR⟩
  | cons l rest ih =>
    intro s0 s a0 hreach hR hrun
    simp only [System.run] at hrun
    cases hs : (sys P).toSystem.step s0 l with
    | none => rw [hs] at hrun; cases hrun
    | some s1 =>
      rw [hs] at hrun
      obtain ⟨t1, a1, r1, hR1, o1⟩ := simX_step P s0 s1 a0 l (inv_reachable P s0 hreach) hR hs
      obtain ⟨t2, a2, r2, o2, hR2⟩ := ih s1 s a1 (System.Reachable.step hreach hs) hR1 hrun
      refine ⟨t1 ++ t2, a2, r1.append r2, ?_, hR2⟩
      simp only [List.filterMap_append, o1, o2, thistory, List.filterMap_cons]
      cases tobs l <;> simp

theorem c08_tlinearizable (P : Params) (ls : List Label) (s : State)
    (hrun : (sys P).toSystem.run (sys P).init ls = some s) : TLinearizable P (thistory ls) := by
  obtain ⟨tls, x, h1, h2, _⟩ := c08_linearizable_clocked P ls s hrun
  exact ⟨tls, x, h1, h2⟩

/-- the clocked statement implies the old one (the old name is kept; this is the direction
    "exact ⇒ lax" showing nothing was weakened) -/
theorem exactSpec_le_timedSpec (P : Params) (s : SpecS) (op : Op) (s' : SpecS) (r : Ret)
    (h : (exactSpec P).apply s op s' r) : (timedSpec P).apply s op s' r := by
  obtain ⟨hn, hm⟩ := h
  refine ⟨0, by simpa using hn, ?_⟩
  cases op <;> cases r <;> simp only at hm ⊢ <;> first | exact hm | (rw [hn]; exact hm)

/-! ### 3. non-vacuity -/

/-- the hypotheses of `c08_whole_call_earliest` are satisfiable with a `z` that really is in the queue
    during the whole call: B (deadline 20) is enqueued before consumer 2 starts and is still there
    when consumer 2 returns A (deadline 5) -/
def wholeCallRun : List Label :=
  [.ctxOk 2, .lock 2, .peek 2 (some exA), .fetch 2, .unlock 2, .arm 2, .tick 7, .fire 2,
   .selTimer 2, .lock 2, .repeek 2 (some exA), .pop 2 (some exA), .swap 2, .unlock 2, .close 2]

example : ∃ s0 s', (sys ⟨.async, 0⟩).toSystem.run init (soloEnqOk 1 exB ++ soloEnqOk 1 exA) = some s0 ∧
    s0.pc 2 = .idle ∧ (sys ⟨.async, 0⟩).toSystem.run s0 (.invDeq 2 :: wholeCallRun) = some s' ∧
    s'.pc 2 = .ret (.deqOk exA) ∧ s'.q = [exB] := by
  refine ⟨_, _, rfl, by decide, rfl, by decide, by decide⟩

/-- an already-expired element (deadline 0 at instant 0) is handed out at once; two elements with EQUAL
    deadlines: either may be handed out first (the label chooses; ties are the heap's business) -/
example : runView ⟨.sync, 0⟩ (soloEnqOk 1 ⟨7, 0⟩ ++ soloDeqOk 2 ⟨7, 0⟩) = some ([], 0, .idle) := by decide
example : runView ⟨.sync, 0⟩ (soloEnqOk 1 ⟨1, 3⟩ ++ soloEnqOk 1 ⟨2, 3⟩ ++ [.tick 3] ++ soloDeqOk 3 ⟨1, 3⟩)
    = some ([⟨2, 3⟩], 3, .idle) := by decide
example : runView ⟨.sync, 0⟩ (soloEnqOk 1 ⟨1, 3⟩ ++ soloEnqOk 1 ⟨2, 3⟩ ++ [.tick 3] ++ soloDeqOk 3 ⟨2, 3⟩)
    = some ([⟨1, 3⟩], 3, .idle) := by decide
/-- … but a strictly later element is never handed out while an earlier one is present, expired or not -/
example : runView ⟨.sync, 0⟩ (soloEnqOk 1 ⟨1, 3⟩ ++ soloEnqOk 1 ⟨2, 4⟩ ++ [.tick 9, .invDeq 3, .ctxOk 3, .lock 3,
    .peek 3 (some ⟨2, 4⟩)]) = none := by decide

/-- a call whose context ends while it is parked on its timer, with an EXPIRED head in the queue and a
    tick buffered, may still take the ctx arm: it returns the context error and the queue is intact
    (hypotheses of `c08_ctx_err_no_effect` in a state where an effect was possible) -/
example : ((sys ⟨.async, 0⟩).toSystem.run init (soloEnqOk 1 exA ++
    [.invDeq 2, .ctxOk 2, .lock 2, .peek 2 (some exA), .fetch 2, .unlock 2, .arm 2, .tick 9, .fire 2, .cancel 2,
     .selCtx 2])).map (fun s => (s.pc 2, s.q, s.eff 2, s.mutex)) = some (.ret .deqCtx, [exA], false, none) := by
  decide

/-- bounded queue, capacity 1: producer 2 parks on generation 0 of the dequeue signal, consumer 3
    removes A at instant 5 and broadcasts, producer 2 is woken and gets B in; never more than 1 element -/
example : ((sys ⟨.sync, 1⟩).toSystem.run init (soloEnqOk 1 exA ++
    [.invEnq 2 exB, .ctxOk 2, .lock 2, .enq 2, .fetch 2, .unlock 2, .tick 5] ++ soloDeqOk 3 exA ++
    [.selSig 2, .ctxOk 2, .lock 2, .enq 2, .swap 2, .unlock 2, .close 2, .ret 2 .enqOk])).map
      (fun s => (s.q, s.pc 2, s.enqd, s.deqd, s.retd)) = some ([exB], .idle, [exB, exA], [exA], [exA]) := by
  decide

/-- the clocked history of the stale-tick schedule: the ticks are part of it -/
example : (thistory (soloEnqOk 1 exA ++ [.tick 5] ++ soloDeqOk 2 exA)) =
    [.ev (.inv 1 (.enq exA)), .ev (.res 1 .enqOk), .tick 5, .ev (.inv 2 .deq), .ev (.res 2 (.deqOk exA))] := by
  decide

end Ekit.DelayQ
