/-
C03 — the REGENERATED hash map (partial: constructor, `Get`, `formatting`, the pool's factory).

`Ekit/Generated/HashMapGo.lean` is mapx/hashmap.go translated by a go/ast syntax dump (harness/minigohm) into the deep
embedding of Ekit/MiniGo/LangHM.lean; all semantics is in that interpreter (node heap, the Go map as a function code ↦ optional
head pointer, the node pool with the `sync.Pool.Get` choice as an oracle, nil dereference = panic, ill-typed = stuck, calls
and loop iterations consume fuel).  Lemmas/HMRefine.lean defines the simulation relation `Rel` between interpreter states and
the hand-written model `HMap Int` (Model/HashMap.lean) and proves: the translated constructor establishes it; the translated
`Get` returns, on related states and with fuel beyond the chain length, exactly what the model's `Get` returns and changes
nothing — composed with `get_refines` (the C03 refinement) it returns the abstract Equals-keyed map's answer; the
translated `formatting()` leaves a clean node and touches nothing else; the pool's factory allocates one clean node.
NOT proved here (see DESIGN §6): the simulation of the translated `Put` and `Delete` (the heap surgery, which needs the
separation part of `Rel`).
-/
import Ekit.Lemmas.HMRefine
import Ekit.Props.C03

namespace Ekit.MiniGo.HM.Refine
open Ekit.MiniGo.HM Ekit.Gen.HashMapGo
open Ekit.HashMap

/-- the constructor: `NewHashMap(n)` run by the interpreter yields a state related to the model's empty map -/
theorem c03_hm_new (ko : KeyOps) (fuel : Nat) (hf : 1 ≤ fuel) (n : Int) (hn : 0 ≤ n) (st : St) :
    ∃ st', call ko procs fuel .NewHashMap [.int n] st = .ok (.unit, st') ∧ Rel st' (HMap.empty : HMap Int) := by
  obtain ⟨f, rfl⟩ : ∃ f, fuel = f + 1 := ⟨fuel - 1, by omega⟩
  exact New_sim ko f n hn st

/-- **`Get`, model level**: on related states the translated `Get` does not panic / get stuck / run out of fuel (beyond a
    bound), returns the model's answer (the zero value next to `false` included) and leaves the state as it is -/
theorem c03_hm_get_refines_model (hk : Hashable) (st : St) (m : HMap Int) (o : Oracle) (k : Int) (r : Rel st m) :
    ∃ f0, ∀ fuel, f0 ≤ fuel →
      call (koOf hk) procs fuel .Get [.int k] st = .ok (retVal (m.step hk o (.get k)).2, st) := by
  obtain ⟨f0, h⟩ := Get_sim hk st m o k r
  refine ⟨f0 + 1, fun fuel hf => ?_⟩
  obtain ⟨f, rfl⟩ : ∃ f, fuel = f + 1 := ⟨fuel - 1, by omega⟩
  exact h f (by omega)

/-- **`Get`, specification level**: for every lawful `Code`/`Equals`, when the interpreter state is related to a model state
    that refines the abstract Equals-keyed map `s`, the translated `Get` returns `s`'s answer -/
theorem c03_hm_get_refines_spec {hk : Hashable} (hl : hk.Law) (st : St) (m : HMap Int) (s : Spec.State Int)
    (r : Rel st m) (hR : R hk m s) (k : Int) :
    ∃ f0, ∀ fuel, f0 ≤ fuel →
      call (koOf hk) procs fuel .Get [.int k] st = .ok (retVal (.ok (Spec.lookupRet (Spec.get hk s k))), st) := by
  obtain ⟨f0, h⟩ := c03_hm_get_refines_model hk st m {} k r
  refine ⟨f0, fun fuel hf => ?_⟩
  rw [h fuel hf, get_refines hl hR {} k]

/-- `formatting()` as translated: the node handed to the pool is clean, nothing else changes -/
theorem c03_hm_formatting_clean (ko : KeyOps) (fuel : Nat) (hf : 1 ≤ fuel) (a : Nat) (st : St) :
    ∃ st', call ko procs fuel .formatting [.ptr (some a)] st = .ok (.unit, st') ∧
      st'.h a = ⟨0, 0, none⟩ ∧ (∀ b, b ≠ a → st'.h b = st.h b) ∧
      st'.map = st.map ∧ st'.pool = st.pool ∧ st'.alloc = st.alloc ∧ st'.choice = st.choice := by
  obtain ⟨f, rfl⟩ : ∃ f, fuel = f + 1 := ⟨fuel - 1, by omega⟩
  exact formatting_spec ko f a st

/-- the pool's factory as translated: one new clean node -/
theorem c03_hm_factory_clean (ko : KeyOps) (fuel : Nat) (hf : 1 ≤ fuel) (st : St) :
    call ko procs fuel .poolNew [] st =
      .ok (.ptr (some st.alloc), { st with h := upd st.h st.alloc ⟨0, 0, none⟩, alloc := st.alloc + 1 }) := by
  obtain ⟨f, rfl⟩ : ∃ f, fuel = f + 1 := ⟨fuel - 1, by omega⟩
  exact poolNew_spec ko f st

end Ekit.MiniGo.HM.Refine
