/-
C05 — the priority queue at the level of the Go source.

The theorems of Props/C05.lean are about the hand-written value-level model `Ekit.Heap.PQ` / `Ekit.Heap.step`
(Model/Heap.lean), in which `data` is `(contents, capacity)`.  Here the Go source itself —
`internal/queue/priority_queue.go` translated statement by statement by `harness/minigopq` (Generated/PQGo.lean) and run
by the MiniGo interpreter of MiniGo/LangPQ.lean (aliasing slices on a heap of backing arrays, the receiver
`capacity`/`data`, method calls under the real call handler `call cmp procs fuel`, `for {}` with `break`, the parallel
swap, `slice.Shrink` = the translated internal/slice.Shrink) — is proved to compute that model: from a state that
represents the model queue `q` (`Rel`), every call whose model outcome is not a panic returns the corresponding MiniGo
value (`OutIs`) and leaves a state that represents the model's next queue; `heapify(p.data, …)` writes through the slice
it received by value into `p.data`'s backing array, which is what the value-level model assumes.  With the model's
no-panic theorem (`c05_pq_no_panic`) the translated methods never panic, get stuck or run out of fuel on a well-formed
queue.  Property theorems only; proofs are in Lemmas/PQRefine.lean.
-/
import Ekit.Lemmas.PQRefine
import Ekit.Props.C05

namespace Ekit.Props.C05PQ
open Ekit.MiniGo.SL (Val Res)
open Ekit.MiniGo.PQ Ekit.Gen.PQGo Ekit.MiniGo.PQ.Refine
open Ekit.Heap (PQ Op Out step)

/-- `NewPriorityQueue(capacity, compare)` as translated, run in any state, leaves a state that represents
    `PQ.new capacity` (one unit of fuel suffices; the oracle `grow` is untouched).  `make` cannot panic: its capacity
    argument is `capacity + 1 ≥ 2` or `64`. -/
theorem c05_pq_new_refines (cmp : Int → Int → Int) (capacity : Int) (compare : Val) (st : St) (fuel : Nat) (hf : 1 ≤ fuel) :
    ∃ v st', call cmp procs fuel .NewPriorityQueue [.int capacity, compare] st = .ok (v, st') ∧
      Rel st' (PQ.new capacity) ∧ st'.mem.grow = st.mem.grow :=
  new_sim cmp capacity compare st fuel hf

/-- One public call of the translated source computes `Ekit.Heap.step` (the oracle offers room for one more element;
    `len(data) + 8` units of fuel suffice). -/
theorem c05_pq_step_refines (cmp : Int → Int → Int) (st : St) (q : PQ) (hR : Rel st q) (op : Op) (g : Nat) (rest : List Nat)
    (hg : st.mem.grow = g :: rest) (hroom : q.data.vals.length + 1 ≤ g) (fuel : Nat) (hf : q.data.vals.length + 8 ≤ fuel) :
    match step cmp q g op with
    | (q', out) => out.isPanic = false →
        ∃ v st', runOp cmp fuel st op = .ok (v, st') ∧ Rel st' q' ∧ OutIs out v ∧
          (st'.mem.grow = g :: rest ∨ st'.mem.grow = rest) := by
  generalize hs : step cmp q g op = p
  obtain ⟨q', out⟩ := p
  intro hnp
  exact step_sim cmp st q hR op g rest hg hroom fuel hf q' out hs (by intro m e; rw [e] at hnp; cases hnp)

/-- On a well-formed queue (lawful comparator) the translated method never panics, gets stuck or runs out of fuel:
    it returns the model's result and the model's next queue. -/
theorem c05_pq_step_refines_wf {cmp : Int → Int → Int} (hc : Ekit.Cmp.Lawful cmp) (st : St) (q : PQ) (hq : Ekit.Heap.WF cmp q)
    (hR : Rel st q) (op : Op) (g : Nat) (rest : List Nat) (hg : st.mem.grow = g :: rest)
    (hroom : q.data.vals.length + 1 ≤ g) (fuel : Nat) (hf : q.data.vals.length + 8 ≤ fuel) :
    ∃ v st', runOp cmp fuel st op = .ok (v, st') ∧ Rel st' (step cmp q g op).1 ∧ OutIs (step cmp q g op).2 v ∧
      Ekit.Heap.WF cmp (step cmp q g op).1 ∧ (st'.mem.grow = g :: rest ∨ st'.mem.grow = rest) := by
  have hnp := Ekit.Heap.c05_pq_no_panic hc hq g op
  have hwf := Ekit.Heap.c05_pq_step_wf hc hq g op
  generalize hs : step cmp q g op = p at hnp hwf ⊢
  obtain ⟨q', out⟩ := p
  obtain ⟨v, st', h1, h2, h3, h4⟩ := step_sim cmp st q hR op g rest hg hroom fuel hf q' out hs
    (by intro m e; rw [e] at hnp; cases hnp)
  exact ⟨v, st', h1, h2, h3, hwf, h4⟩

end Ekit.Props.C05PQ

