/-
C19 — Retry honours attempt budget, backoff bounds and the wait between attempts.

Property theorems only.  Model: Ekit/Model/Retry.lean (`newExp`, `newFixed`, `next`, the transition
system `step`/`run` with `Next` split into its atomic actions, `retryLoop` on a virtual clock).
Helper lemmas: Ekit/Lemmas/Retry{Arith,Seq,Conc,Loop}.lean.

Two corners of the stated quantifier are NOT satisfied by the code (DESIGN §6 #14, #15); for each the
full statement is written down, the `_partial` theorem carries the excluding hypothesis, and a
negative-witness theorem exhibits the violating history in the model:
  * C19-W  the `int32` counter wraps: call number 2^31 is granted again  (`c19_counter_wrap_witness`)
  * C19-R  concurrent callers can obtain a wrapped positive product below `initial` because the
           product is computed before the sticky flag is stored           (`c19_stale_flag_witness`)
-/
import Ekit.Lemmas.RetryConc
import Ekit.Lemmas.RetryLoop
import Ekit.Lemmas.RetryUnlimited

namespace Ekit.Retry

/-! ### Constructors -/

/-- `NewExponentialBackoffRetryStrategy` rejects `initial ≤ 0` and `initial > max` with the matching
    error and otherwise builds a strategy with exactly the given fields, which is `Valid`. -/
theorem c19_ctor_exp (arch : Arch) (i m r : Int) (hm : m ≤ maxInt64) :
    (i ≤ 0 → newExp arch i m r = .error (.interval i)) ∧
    (0 < i → m < i → newExp arch i m r = .error (.maxInterval m i)) ∧
    (0 < i → i ≤ m → Valid ⟨.exp, i, m, r, arch⟩ ∧ newExp arch i m r = .ok ⟨.exp, i, m, r, arch⟩) := by
  refine ⟨fun h => by simp [newExp, h], fun h1 h2 => ?_, fun h1 h2 => ?_⟩
  · have : ¬ i ≤ 0 := by omega
    simp [newExp, this, h2]
  · have h3 : ¬ i ≤ 0 := by omega
    have h4 : ¬ i > m := by omega
    exact ⟨⟨h1, h2, hm⟩, by simp [newExp, h3, h4]⟩

/-- `NewFixedIntervalRetryStrategy` rejects `interval ≤ 0` and otherwise builds a valid strategy. -/
theorem c19_ctor_fixed (arch : Arch) (i r : Int) (hm : i ≤ maxInt64) :
    (i ≤ 0 → newFixed arch i r = .error (.interval i)) ∧
    (0 < i → Valid ⟨.fixed, i, i, r, arch⟩ ∧ newFixed arch i r = .ok ⟨.fixed, i, i, r, arch⟩) := by
  refine ⟨fun h => by simp [newFixed, h], fun h1 => ?_⟩
  have h3 : ¬ i ≤ 0 := by omega
  exact ⟨⟨h1, Int.le_refl _, hm⟩, by simp [newFixed, h3]⟩

/-! ### The budget under arbitrary interleavings

Full statement (FALSE for the code, see `c19_counter_wrap_witness`):
  for every trace `tr` of the transition system, the number of granted calls is
  `if maxRetries ≤ 0 then N else min N maxRetries` where `N` is the number of calls.
Proved: the same with `N < 2^31`. -/

/-- "A retry strategy grants exactly maxRetries retries in total (unlimited when maxRetries ≤ 0)
    however many goroutines call Next concurrently": for ANY interleaving `tr` of the atomic actions
    of any number of goroutines, with `N < 2^31` calls started, the granted calls (returned or still
    inside `Next` past the budget test) number exactly `Spec.grants maxRetries N`; every call
    returns at most once; and at quiescence the count of returned `ok = true` is exact. -/
theorem c19_budget_exact_partial (cfg : Cfg) (tr : List Label) (s : St)
    (h : run cfg St.init tr = some s) (hN : tr.countP isAdd < 2147483648) :
    okCount s.rets + s.active.length = Spec.grants cfg.maxRetries (tr.countP isAdd) ∧
    s.rets.length + s.active.length = tr.countP isAdd ∧
    (s.active = [] →
      okCount s.rets = (if cfg.maxRetries ≤ 0 then tr.countP isAdd else min (tr.countP isAdd) cfg.maxRetries.toNat) ∧
      s.rets.length = tr.countP isAdd) := by
  have hc := run_calls tr h
  have hc' : s.calls = tr.countP isAdd := by simpa [St.init] using hc
  have inv := budgetInv_run tr (budgetInv_init cfg) h (by omega)
  rw [← hc']
  refine ⟨inv.count, inv.total, fun hq => ?_⟩
  have h1 := inv.count
  have h2 := inv.total
  rw [hq] at h1 h2
  simp only [List.length_nil, Nat.add_zero] at h1 h2
  exact ⟨by rw [h1]; rfl, h2⟩

/-- "unlimited when maxRetries ≤ 0": for ANY interleaving and ANY number of calls (no bound on `N`,
    the wrapping counter is irrelevant) every call that returns is granted. -/
theorem c19_budget_unlimited (cfg : Cfg) (hb : cfg.maxRetries ≤ 0) (tr : List Label) (s : St)
    (h : run cfg St.init tr = some s) : ∀ r ∈ s.rets, r.ok = true :=
  allOk_run hb tr (by intro r hr; simp [St.init] at hr) h

/-- The budget test of the `i`-th sequential call, for EVERY `i` (also beyond the counter's range):
    granted iff `maxRetries ≤ 0` or the wrapped counter `wrap32 i ≤ maxRetries`. -/
theorem c19_seq_granted_iff (cfg : Cfg) (i : Nat) (hi : 1 ≤ i) :
    (callResult cfg i).2 = budgetOk cfg (wrap32 (i : Int)) :=
  callResult_ok cfg i hi

/-- a fixed-interval strategy with `maxRetries = 1` -/
def wrapCfg : Cfg := ⟨.fixed, 1, 1, 1, .satMin⟩

/-- **Negative witness C19-W** (DESIGN §6 #14): with `maxRetries = 1` the first call is granted and
    so is call number 2 147 483 648 — two grants on a budget of one.  (`atomic.AddInt32` wraps to
    `MinInt32`, which is `≤ maxRetries`.) -/
theorem c19_counter_wrap_witness :
    Valid wrapCfg ∧ wrapCfg.maxRetries = 1 ∧
    (callResult wrapCfg 1).2 = true ∧ (callResult wrapCfg 2147483648).2 = true ∧
    Spec.granted wrapCfg.maxRetries 2147483648 = false := by
  refine ⟨⟨by decide, by decide, by decide⟩, rfl, ?_, ?_, by decide⟩
  · rw [c19_seq_granted_iff _ _ (by decide)]; decide
  · rw [c19_seq_granted_iff _ _ (by decide)]; decide

/-! ### Sequential calls: the i-th interval

Full statement: for every `i ≥ 1`, `callResult cfg i = specResult cfg i`.  FALSE for the code when
`maxRetries > 0` and `i ≥ 2^31` (same counter wrap as above).  Proved for `i < 2^31`. -/

/-- "called sequentially the exponential strategy's i-th interval is min(initial·2^(i-1), max) …
    never overflowing" together with the budget: the `i`-th call on a fresh strategy returns
    exactly `(min (initial·2^(i-1)) max, true)` when `maxRetries ≤ 0 ∨ i ≤ maxRetries` and
    `(0, false)` otherwise — mathematical integers on the right-hand side, the code's wrapped
    64-bit product and float conversion on the left; both architectures. -/
theorem c19_seq_result_partial (cfg : Cfg) (hv : Valid cfg) (i : Nat) (h1 : 1 ≤ i) (h31 : i < 2147483648) :
    callResult cfg i = specResult cfg i := by
  have inv := seqInv_iter cfg hv (i - 1) (by omega) 0 Core.init (by omega) (seqInv_init cfg)
  have := (next_step cfg hv (0 + (i - 1)) (by omega) _ inv).1
  unfold callResult
  rw [this]
  congr 1
  omega

/-- the interval itself, for the exponential strategy -/
theorem c19_seq_interval_partial (cfg : Cfg) (hv : Valid cfg) (hk : cfg.kind = .exp) (i : Nat)
    (h1 : 1 ≤ i) (h31 : i < 2147483648) (hg : cfg.maxRetries ≤ 0 ∨ (i : Int) ≤ cfg.maxRetries) :
    callResult cfg i = (min (cfg.initial * (2 : Int) ^ (i - 1)) cfg.max, true) := by
  rw [c19_seq_result_partial cfg hv i h1 h31]
  have : Spec.granted cfg.maxRetries i = true := by simpa [Spec.granted] using hg
  simp [specResult, this, Spec.interval, hk]

/-- With an unlimited budget the sequential interval theorem holds for EVERY call number, also far
    beyond the counter's range: by the time the `int32` counter wraps the sticky flag is set (in the
    one configuration where it is not — `initial = 1ns`, `max = MaxInt64`, saturating conversion — the
    two calls around the wrap are computed explicitly and set it). -/
theorem c19_seq_interval_unlimited (cfg : Cfg) (hv : Valid cfg) (hk : cfg.kind = .exp)
    (hb : cfg.maxRetries ≤ 0) (i : Nat) (h1 : 1 ≤ i) :
    callResult cfg i = (min (cfg.initial * (2 : Int) ^ (i - 1)) cfg.max, true) := by
  by_cases h31 : i < 2147483648
  · exact c19_seq_interval_partial cfg hv hk i h1 h31 (Or.inl hb)
  · have hspec := spec_interval_late cfg hv hk i (by omega)
    simp only [Spec.interval, hk] at hspec
    rw [hspec]
    by_cases hs : Special cfg
    · obtain ⟨r1, r2, hf⟩ := special_wrap cfg hv hk hb hs
      by_cases e1 : i = 2147483648
      · rw [e1]; exact r1
      · by_cases e2 : i = 2147483649
        · rw [e2]; exact r2
        · exact flagged_forever cfg hk hb 2147483649 hf i (by omega)
    · exact flagged_forever cfg hk hb 64 (flag_after_64 cfg hv hk hb hs) i (by omega)

/-- the same for a run of `n` consecutive calls from the fresh strategy (what the driver replays) -/
theorem c19_seq_outputs_partial (cfg : Cfg) (hv : Valid cfg) (n : Nat) (hn : n < 2147483648) :
    outputs cfg n Core.init = (List.range n).map fun j => specResult cfg (j + 1) := by
  have := outputs_spec cfg hv n 0 Core.init (by omega) (seqInv_init cfg)
  simpa using this

/-- "every interval it returns lies between the initial and the maximum interval" (specification
    side; with `c19_seq_result_partial` this is what sequential calls return) -/
theorem c19_seq_in_bounds (cfg : Cfg) (hv : Valid cfg) (i : Nat) :
    cfg.initial ≤ Spec.interval cfg i ∧ Spec.interval cfg i ≤ cfg.max := by
  have := le_mul_p2 hv.pos (i - 1)
  have := hv.le
  unfold Spec.interval
  cases cfg.kind <;> simp only <;> omega

/-- "never decreasing" -/
theorem c19_seq_monotone (cfg : Cfg) (hv : Valid cfg) (i j : Nat) (hij : i ≤ j) :
    Spec.interval cfg i ≤ Spec.interval cfg j := by
  have := mul_p2_mono hv.pos (show i - 1 ≤ j - 1 by omega)
  unfold Spec.interval
  cases cfg.kind <;> simp only <;> omega

/-- the three together on what the code returns: granted sequential calls `i ≤ j < 2^31` return
    intervals within bounds and in non-decreasing order -/
theorem c19_seq_returned_bounds_monotone (cfg : Cfg) (hv : Valid cfg) (i j : Nat) (h1 : 1 ≤ i) (hij : i ≤ j)
    (h31 : j < 2147483648) (hgi : (callResult cfg i).2 = true) (hgj : (callResult cfg j).2 = true) :
    cfg.initial ≤ (callResult cfg i).1 ∧ (callResult cfg i).1 ≤ (callResult cfg j).1 ∧
      (callResult cfg j).1 ≤ cfg.max := by
  rw [c19_seq_result_partial cfg hv i h1 (by omega)] at hgi ⊢
  rw [c19_seq_result_partial cfg hv j (by omega) h31] at hgj ⊢
  unfold specResult at *
  cases hi : Spec.granted cfg.maxRetries i <;> simp [hi] at hgi
  cases hj : Spec.granted cfg.maxRetries j <;> simp [hj] at hgj
  simp only [if_true]
  exact ⟨(c19_seq_in_bounds cfg hv i).1, c19_seq_monotone cfg hv i j hij, (c19_seq_in_bounds cfg hv j).2⟩

/-- Why the sticky flag is enough sequentially: the FIRST product that does not fit in 63 bits wraps
    to a negative number (so `interval <= 0` catches it and sets the flag) — the only other case is
    `initial = 1` at exponent 63, where the product is the architecture's out-of-range conversion
    result (`MinInt64`: caught; `MaxInt64`: caught unless it equals `max`, and then it is the right
    answer). -/
theorem c19_first_overflow_negative (cfg : Cfg) (hv : Valid cfg) (i : Nat) (h2 : 2 ≤ i) (h31 : i < 2147483648)
    (hprev : cfg.initial * (2 : Int) ^ (i - 2) < 9223372036854775808)
    (hge : 9223372036854775808 ≤ cfg.initial * (2 : Int) ^ (i - 1)) :
    rawInterval cfg (i : Int) < 0 ∨ (i = 64 ∧ cfg.initial = 1 ∧ rawInterval cfg (i : Int) = cfg.arch.ovf) :=
  rawInterval_first_overflow cfg hv.pos h2 h31 hprev hge

/-- sequential use of the transition system (each goroutine finishes its call before the next one
    starts) is `next` iterated: the theorems above are theorems about the transition system -/
theorem c19_seq_is_run (cfg : Cfg) (ts : List Tid) :
    runSeq cfg ts St.init = some ⟨iter cfg ts.length Core.init, [], ts.length, seqRets cfg ts Core.init []⟩ ∧
    (seqRets cfg ts Core.init []).map (fun r => (r.iv, r.ok)) = (outputs cfg ts.length Core.init).reverse := by
  refine ⟨by simpa [St.init] using runSeq_eq cfg ts St.init rfl, by simpa using seqRets_outputs cfg ts Core.init []⟩

/-! ### Bounds under arbitrary interleavings

Full statement (FALSE for the code, see `c19_stale_flag_witness`): for every trace, every returned
`(iv, true)` has `initial ≤ iv ≤ max`.  Proved for the fixed strategy, and for the exponential
strategy when `initial² ≤ 2^63` (initial ≤ 3.03 s) — for any number of goroutines and calls,
including beyond the counter's range; sequentially it holds without that hypothesis
(`c19_seq_returned_bounds_monotone`). -/

/-- "every interval it returns lies between the initial and the maximum interval", any interleaving -/
theorem c19_conc_in_bounds_partial (cfg : Cfg) (hv : Valid cfg)
    (hsafe : cfg.kind = .fixed ∨ cfg.initial * cfg.initial ≤ 9223372036854775808)
    (tr : List Label) (s : St) (h : run cfg St.init tr = some s) :
    ∀ r ∈ s.rets, r.ok = true → cfg.initial ≤ r.iv ∧ r.iv ≤ cfg.max := by
  rcases hsafe with hk | hsq
  · have inv := fixedInv_run hk tr ⟨rfl, by simp [St.init]⟩ h
    intro r hr hok
    have := inv.ivs r hr hok
    have := hv.le
    omega
  · exact inBounds_run hv (fun r hpos => rawInterval_pos_ge_initial cfg hv.pos hsq r hpos) tr
      (by intro r hr; simp [St.init] at hr) h

/-- the configuration of DESIGN §6 #15 -/
def staleCfg (arch : Arch) : Cfg := ⟨.exp, 4611686018427387905, 9223372036854775807, 0, arch⟩

/-- **Negative witness C19-R** (DESIGN §6 #15): `initial = 2^62+1 ns`, `max = MaxInt64`, three
    goroutines.  Goroutine 0 gets `initial`; goroutine 1 computes the overflowing (negative) product
    and is about to store the flag; goroutine 2 loads the still-unset flag, computes
    `initial·4 mod 2^64 = 4` and returns `4ns < initial`. -/
theorem c19_stale_flag_witness (arch : Arch) :
    Valid (staleCfg arch) ∧
    ∃ s, run (staleCfg arch) St.init [.add 0, .load 0, .add 1, .load 1, .add 2, .load 2] = some s ∧
      (⟨2, 4, true⟩ : Ret) ∈ s.rets ∧ (4 : Int) < (staleCfg arch).initial ∧ s.core.flag = false := by
  cases arch <;>
    exact ⟨⟨by decide, by decide, by decide⟩,
      ⟨⟨⟨3, false⟩, [(1, .needStore)], 3, [⟨2, 4, true⟩, ⟨0, 4611686018427387905, true⟩]⟩,
        by decide +kernel, by decide +kernel, by decide +kernel, by decide +kernel⟩⟩

/-- The hypothesis of `c19_conc_in_bounds_partial` cannot be weakened to DESIGN's `initial·4 < 2^63`
    (which only covers three calls): with `initial = 2^60+1 ns` (so `initial·4 < 2^63`) and two goroutines,
    the fourth call overflows and is parked before its store, and the fifth call returns
    `initial·16 mod 2^64 = 16ns < initial`. -/
theorem c19_stale_flag_witness_five_calls (arch : Arch) :
    let cfg : Cfg := ⟨.exp, 1152921504606846977, 9223372036854775807, 0, arch⟩
    Valid cfg ∧ cfg.initial * 4 < 9223372036854775808 ∧
    ∃ s, run cfg St.init [.add 0, .load 0, .add 0, .load 0, .add 0, .load 0, .add 1, .load 1, .add 0, .load 0] = some s ∧
      (⟨0, 16, true⟩ : Ret) ∈ s.rets ∧ (16 : Int) < cfg.initial := by
  cases arch <;>
    exact ⟨⟨by decide, by decide, by decide⟩, by decide,
      ⟨⟨⟨5, false⟩, [(1, .needStore)], 5,
          [⟨0, 16, true⟩, ⟨0, 4611686018427387908, true⟩, ⟨0, 2305843009213693954, true⟩, ⟨0, 1152921504606846977, true⟩]⟩,
        by decide +kernel, by decide +kernel, by decide +kernel⟩⟩

/-! ### Retry -/

/-- "Retry invokes the operation until it succeeds, the strategy is exhausted (returning an error
    that wraps the last failure) or the context ends": for every strategy, oracle and starting
    point, the log of a run has the shape that belongs to its result —
    `nil`: every invocation but the last failed and was followed by a granted wait, the last succeeded
           and `Next` was not consulted again;
    `exhausted e`: all failed, the last `Next` said stop, and `e` is the LAST invocation's error;
    `ctxErr`: all failed, all were granted, and the context had ended (no later than the pending
           timer fires and no later than `select` returned);
    `running` (out of fuel): every simulated invocation failed and was granted. -/
theorem c19_retry_outcome {σ : Type} (next : σ → σ × (Int × Bool)) (env : Env) (fuel k now : Nat) (st : σ) :
    OutcomeShape env (retryLoop next env fuel k now st).1 (retryLoop next env fuel k now st).2 :=
  retryLoop_shape next env fuel k now st

/-- invocation `j` of the log is invocation `k + j` of bizFunc (its error, its duration), so
    "the last failure" above is the error the operation returned last -/
theorem c19_retry_log_is_script {σ : Type} (next : σ → σ × (Int × Bool)) (env : Env) (fuel k now : Nat)
    (st : σ) (j : Nat) (a : Att) (h : (retryLoop next env fuel k now st).2[j]? = some a) :
    a.err = (env.biz (k + j)).2 ∧ a.fin = a.start + (env.biz (k + j)).1 :=
  retryLoop_script next env fuel k now st j a h

/-- returns nil on the FIRST success: if the result is nil after `n+1` invocations then invocation
    `n` of the script succeeded and all earlier ones failed -/
theorem c19_retry_nil_first_success {σ : Type} (next : σ → σ × (Int × Bool)) (env : Env) (fuel now : Nat) (st : σ)
    (h : (retryLoop next env fuel 0 now st).1 = .nil) :
    ∃ n, (retryLoop next env fuel 0 now st).2.length = n + 1 ∧ (env.biz n).2 = none ∧
      ∀ j < n, (env.biz j).2 ≠ none := by
  have hs := retryLoop_shape next env fuel 0 now st
  rw [h] at hs
  obtain ⟨pre, a, hlog, hpre, herr, _⟩ := hs
  refine ⟨pre.length, by simp [hlog], ?_, ?_⟩
  · have := (retryLoop_script next env fuel 0 now st pre.length a (by simp [hlog])).1
    rw [herr] at this
    simpa using this.symm
  · intro j hj
    have hget : (retryLoop next env fuel 0 now st).2[j]? = some pre[j] := by
      simp [hlog, List.getElem?_append_left hj]
    have := (retryLoop_script next env fuel 0 now st j pre[j] hget).1
    obtain ⟨⟨e, he⟩, _⟩ := hpre pre[j] (List.getElem_mem hj)
    rw [he] at this
    simp at this
    simp [← this]

/-- exhausted: the wrapped error is the error of the last invocation, and the strategy said stop
    exactly then (it granted every earlier request) -/
theorem c19_retry_exhausted_wraps_last {σ : Type} (next : σ → σ × (Int × Bool)) (env : Env) (fuel now : Nat)
    (st : σ) (e : Nat) (h : (retryLoop next env fuel 0 now st).1 = .exhausted e) :
    ∃ n, (retryLoop next env fuel 0 now st).2.length = n + 1 ∧ (env.biz n).2 = some e ∧
      (stratOutputs next (n + 1) st).map (·.2) = List.replicate n true ++ [false] := by
  have hs := retryLoop_shape next env fuel 0 now st
  have hn := retryLoop_nexts next env fuel 0 now st
  rw [h] at hs
  obtain ⟨pre, a, d, hlog, hpre, herr, hnxt⟩ := hs
  refine ⟨pre.length, by simp [hlog], ?_, ?_⟩
  · have := (retryLoop_script next env fuel 0 now st pre.length a (by simp [hlog])).1
    rw [herr] at this
    simpa using this.symm
  · have hlen : ((retryLoop next env fuel 0 now st).2.filterMap (·.nxt)).length = pre.length + 1 := by
      rw [hlog, List.filterMap_append]
      have : (pre.filterMap (·.nxt)).length = pre.length := by
        clear hlog
        induction pre with
        | nil => rfl
        | cons b bs ih =>
          obtain ⟨_, d', hd'⟩ := hpre b List.mem_cons_self
          simp [hd', ih (fun x hx => hpre x (List.mem_cons_of_mem _ hx))]
      simp [this, hnxt]
    rw [hlen] at hn
    rw [← hn, hlog, List.filterMap_append, List.map_append]
    congr 1
    · clear hlog hlen hn
      induction pre with
      | nil => rfl
      | cons b bs ih =>
        obtain ⟨_, d', hd'⟩ := hpre b List.mem_cons_self
        simp [hd', List.replicate_succ, ih (fun x hx => hpre x (List.mem_cons_of_mem _ hx))]
    · simp [hnxt]

/-- ctx.Err() is returned only when the context has really ended, during a wait that followed a
    failed invocation and a granted retry -/
theorem c19_retry_ctx_only_when_ended {σ : Type} (next : σ → σ × (Int × Bool)) (env : Env) (fuel k now : Nat)
    (st : σ) (h : (retryLoop next env fuel k now st).1 = .ctxErr) :
    ∃ c a, env.ctxEnd = some c ∧ (retryLoop next env fuel k now st).2.getLast? = some a ∧
      Waited a ∧ c ≤ a.fire ∧ c ≤ a.resume := by
  have hs := retryLoop_shape next env fuel k now st
  rw [h] at hs
  obtain ⟨pre, a, c, hlog, _, hw, hc, h1, h2⟩ := hs
  exact ⟨c, a, hc, by simp [hlog], hw, h1, h2⟩

/-- `Next` is consulted exactly once per failed invocation, in order: the intervals Retry waits for
    are the successive outputs of the strategy -/
theorem c19_retry_consults_strategy_in_order {σ : Type} (next : σ → σ × (Int × Bool)) (env : Env)
    (fuel k now : Nat) (st : σ) :
    (retryLoop next env fuel k now st).2.filterMap (·.nxt) =
      stratOutputs next ((retryLoop next env fuel k now st).2.filterMap (·.nxt)).length st :=
  retryLoop_nexts next env fuel k now st

/-- **"consecutive invocations are always separated by at least the interval the strategy returned,
    however long the operation itself takes"**: for ANY strategy, ANY durations of the operation, ANY
    scheduling delays, ANY lateness of the timers and ANY context, if `a` and `b` are consecutive
    invocations then the strategy returned some `(d, true)` after `a` and `b` starts no earlier than
    `a` ended plus `d` (a fresh timer per wait is armed after `a` ended and fires `d` later or more).
    Moreover Retry only went on because the timer arm was enabled: the timer fired before the
    context ended (or was already ready on entry). -/
theorem c19_gap_ge_interval {σ : Type} (next : σ → σ × (Int × Bool)) (env : Env) (fuel k now : Nat) (st : σ)
    (i : Nat) (a b : Att)
    (ha : (retryLoop next env fuel k now st).2[i]? = some a)
    (hb : (retryLoop next env fuel k now st).2[i + 1]? = some b) :
    ∃ d : Int, a.nxt = some (d, true) ∧ (a.fin : Int) + d ≤ (b.start : Int) ∧
      a.fin ≤ a.armed ∧ a.armed + d.toNat ≤ a.fire ∧ a.fire ≤ b.start ∧
      timerEnabled env.ctxEnd a.armed a.fire = true :=
  retryLoop_gap next env fuel k now st i a b ha hb

/-- Retry driven by an ekit strategy: the `j`-th wait is the specified `j`-th interval (and the
    strategy stops Retry exactly when the budget is used up), while fewer than 2^31 calls are made -/
theorem c19_retry_waits_spec_intervals (cfg : Cfg) (hv : Valid cfg) (env : Env) (fuel now : Nat)
    (hf : fuel < 2147483648) :
    (retryLoop (next cfg) env fuel 0 now Core.init).2.filterMap (·.nxt) =
      (List.range ((retryLoop (next cfg) env fuel 0 now Core.init).2.filterMap (·.nxt)).length).map
        fun j => specResult cfg (j + 1) := by
  have h1 := retryLoop_nexts (next cfg) env fuel 0 now Core.init
  have hl : ((retryLoop (next cfg) env fuel 0 now Core.init).2.filterMap (·.nxt)).length ≤ fuel :=
    Nat.le_trans (List.length_filterMap_le _ _) (retryLoop_length_le (next cfg) env fuel 0 now Core.init)
  rw [stratOutputs_eq_outputs, c19_seq_outputs_partial cfg hv _ (by omega)] at h1
  exact h1

/-! ### The defect fixed by commit 9886278 (shared ticker), as a negative witness -/

def fixed50 : Cfg := ⟨.fixed, 50, 50, 0, .satMin⟩

/-- the operation always fails and takes 120 time units; no lags; no context -/
def slowEnv : Env :=
  { biz := fun _ => (120, some 0), startLag := fun _ => 0, nextLag := fun _ => 0, fireLate := fun _ => 0,
    arm := fun _ => .timer, wakeLag := fun _ => 0, ctxEnd := none }

/-- **Negative witness C19-F1 (fixed)**: the OLD code (one `time.Ticker` reused for all waits) under
    the legacy buffered timer channel: interval 50, operation 120.  The tick at 220 is buffered while
    the second invocation runs; `Reset` does not drain it; the second wait ends immediately: the
    third invocation starts at 290, exactly when the second ended — gap 0 < 50.
    (Observed on the pinned tree: gaps 50 ms, 6 µs, 7 µs.) -/
theorem c19_old_ticker_violates_gap :
    ((oldLoop (next fixed50) slowEnv true 3 0 0 Core.init none).2.map fun a => (a.start, a.fin, a.nxt)) =
      [(0, 120, some (50, true)), (170, 290, some (50, true)), (290, 410, some (50, true))] := by
  decide

/-- the same run of the CURRENT code (fresh timer per wait): gaps of 50, as `c19_gap_ge_interval` says -/
theorem c19_new_timer_same_run :
    ((retryLoop (next fixed50) slowEnv 3 0 0 Core.init).2.map fun a => (a.start, a.fin, a.nxt)) =
      [(0, 120, some (50, true)), (170, 290, some (50, true)), (340, 460, some (50, true))] := by
  decide

/-! ### Non-vacuity -/

/-- a valid exponential configuration whose doubling overflows 64 bits after two calls -/
example : Valid (staleCfg .satMin) := ⟨by decide, by decide, by decide⟩

/-- three goroutines interleaved, all calls completed: the hypotheses of `c19_budget_exact_partial`
    and `c19_conc_in_bounds_partial` are satisfiable by a genuinely concurrent trace -/
example : ∃ s, run ⟨.exp, 100, 250, 2, .satMin⟩ St.init
      [.add 0, .add 1, .add 2, .load 1, .load 0, .add 3] = some s ∧
    s.active = [] ∧ s.calls = 4 ∧ okCount s.rets = 2 :=
  ⟨⟨⟨4, false⟩, [], 4, [⟨3, 0, false⟩, ⟨0, 100, true⟩, ⟨1, 200, true⟩, ⟨2, 0, false⟩]⟩,
    by decide +kernel, by decide +kernel, by decide +kernel, by decide +kernel⟩

/-- a trace on which the store path is taken and a later caller sees the flag -/
example : ∃ s, run ⟨.exp, 100, 250, 0, .satMin⟩ St.init
      [.add 0, .add 1, .add 2, .load 2, .store 2, .load 0, .load 1] = some s ∧
    s.active = [] ∧ s.core.flag = true ∧ s.rets.map (·.iv) = [250, 250, 250] :=
  ⟨⟨⟨3, true⟩, [], 3, [⟨1, 250, true⟩, ⟨0, 250, true⟩, ⟨2, 250, true⟩]⟩,
    by decide +kernel, by decide +kernel, by decide +kernel, by decide +kernel⟩

/-- every result of `Retry` is reachable in the model -/
example : (retryLoop (next fixed50) { slowEnv with biz := fun k => (10, if k < 2 then some k else none) } 9 0 0 Core.init).1 = .nil := by decide
example : (retryLoop (next ⟨.fixed, 50, 50, 2, .satMin⟩) { slowEnv with biz := fun k => (10, some k) } 9 0 0 Core.init).1 = .exhausted 2 := by decide
example : (retryLoop (next fixed50) { slowEnv with arm := fun k => if k = 1 then .ctx else .timer, ctxEnd := some 200 } 9 0 0 Core.init).1 = .ctxErr := by decide
/-- an oracle that lets the timer win although the context ended long before is rejected -/
example : (retryLoop (next fixed50) { slowEnv with ctxEnd := some 130 } 9 0 0 Core.init).1 = .invalid := by decide

end Ekit.Retry
