/-
C20 — Struct copiers copy every matching field faithfully and never panic.

Property theorems only (helper lemmas: Ekit/Lemmas/Copier*.lean; model: Ekit/Model/Copier*.lean;
abstract specification: Ekit/Spec/Copier.lean).

Quantifier.  `Ty` ranges over all finite type trees (struct or not, matching or not, kind
mismatches, pointer-vs-value, multi-level pointers, unexported and embedded fields, every element
type); values over everything `wt` accepts (what Go's type system admits); options over every list of
`IgnoreFields`/`ConvertField` items, given as defaults or per call.  Not in the family: recursive
type declarations (`type N struct{ Next *N }` is not a finite tree; since commit badc2e4
`NewReflectCopier[N, N]` returns an error through its `visiting` set of (src, dst) type pairs — that guard
is not modelled: on finite trees the source type's `Ty.depth` strictly decreases along the recursion, so a
pair can never recur; recursive declarations are probed dynamically only), cyclic *values* of such types
(`n.Next = n`: the pure `CopyTo(n, &N{})` recurses until a fatal stack overflow — review finding, values are
finite trees here), and nil `*Src` / `*Dst` arguments of the call itself (`c20_copyTo_nil_dst_panics`
records what happens).
-/
import Ekit.Lemmas.CopierSpecLoop
import Ekit.Lemmas.CopierAgreeLoop
import Ekit.Lemmas.CopierIdentical
import Ekit.Lemmas.CopierSpecRead
import Ekit.Lemmas.CopierPureSpec

namespace Ekit.Copier
open Ekit.Go

/-- "For any pair of struct types, building … a copier either succeeds or returns an error — it
    never panics": for EVERY pair of (finite) type trees, struct or not, every set of registered
    atomic types and every option list. In particular the recursion fuel `depth + 1` passed by
    `newReflectCopier` always suffices. -/
theorem c20_build_total (atomics : List Ty) (S D : Ty) (opts : List OptItem) :
    (newReflectCopier atomics S D opts).isPanic = false := by
  unfold newReflectCopier
  by_cases hs : (S.kind != Kind.struct) = true
  · simp [hs, Outcome.isPanic]
  · by_cases hd : (D.kind != Kind.struct) = true
    · simp [hs, hd, Outcome.isPanic]
    · rw [if_neg hs, if_neg hd]
      have hs' : S.kind = .struct := by simpa using hs
      have hd' : D.kind = .struct := by simpa using hd
      have := createFieldNodes_no_panic atomics (S.depth + 1) S D hs' hd' (Nat.le_succ _)
      cases h : createFieldNodes atomics (S.depth + 1) S D with
      | ok k => simp [Outcome.isPanic]
      | err e => simp [Outcome.isPanic]
      | panic m => rw [h] at this; simp [Outcome.isPanic] at this

/-- what a successful constructor call returned -/
theorem newReflectCopier_ok {atomics : List Ty} {S D : Ty} {opts : List OptItem} {c : Copier}
    (h : newReflectCopier atomics S D opts = .ok c) :
    S.kind = .struct ∧ D.kind = .struct ∧ ∃ kids, createFieldNodes atomics (S.depth + 1) S D = .ok kids ∧
      c = { srcTy := S, dstTy := D, root := .mk "" 0 0 false kids, defaults := ({} : Options).applyAll opts } := by
  unfold newReflectCopier at h
  by_cases hs : (S.kind != Kind.struct) = true
  · simp [hs] at h
  · by_cases hd : (D.kind != Kind.struct) = true
    · simp [hs, hd] at h
    · rw [if_neg hs, if_neg hd] at h
      refine ⟨by simpa using hs, by simpa using hd, ?_⟩
      cases hk : createFieldNodes atomics (S.depth + 1) S D with
      | ok kids =>
        rw [hk] at h
        simp at h
        exact ⟨kids, rfl, h.symm⟩
      | err e => rw [hk] at h; simp at h
      | panic m => rw [hk] at h; simp at h

/-- a call with non-nil arguments is the copy loop over the root's children -/
theorem copyTo_eq (S D : Ty) (kids : List Node) (defaults : Options) (sv d0 : Val) (callOpts : List OptItem) :
    (Copier.mk S D (.mk "" 0 0 false kids) defaults).copyTo (.ptr sv) (.ptr d0) callOpts =
      ⟨.ptr (copyChildren (defaults.applyAll callOpts) kids S sv false D d0 ⟨true, false⟩).dst,
       (copyChildren (defaults.applyAll callOpts) kids S sv false D d0 ⟨true, false⟩).res⟩ := by
  simp [Copier.copyTo, copyNode, derefSrc, derefDst, Ty.kind, Ty.ptrElem?, rewrap, Flags.elem]

/-- "… or running a copier either succeeds or returns an error — it never panics": every call of
    `CopyTo` on a built copier, with any source pointer (nil included), any non-nil destination
    pointer, any well-typed values (zero and non-zero leaves, nil and non-nil pointers, pre-filled
    destinations) and any per-call options; the destination stays well-typed. -/
theorem c20_copy_total (atomics : List Ty) (S D : Ty) (defaults : List OptItem) (c : Copier)
    (hb : newReflectCopier atomics S D defaults = .ok c) (src d0 : Val) (callOpts : List OptItem)
    (hs : wt (.ptr S) src = true) (hd : wt D d0 = true) (hc : ConvOK (c.defaults.applyAll callOpts)) :
    (c.copyTo src (.ptr d0) callOpts).res.isPanic = false ∧
      wt (.ptr D) (c.copyTo src (.ptr d0) callOpts).dst = true := by
  obtain ⟨hks, hkd, kids, hk, rfl⟩ := newReflectCopier_ok hb
  obtain ⟨sfs, dfs, hsfs, hdfs, hkids⟩ := createFieldNodes_ok atomics _ S D kids hks hkd hk
  apply copyNode_total _ hc _ (.ptr S) src (.ptr D) (.ptr d0) ⟨false, false⟩ _ hs (by simpa [wt] using hd)
  · exact ⟨rfl, Or.inr ⟨rfl, by simp⟩⟩
  · simp only [NodeOK]
    exact Or.inr ⟨sfs, dfs, by simpa [Ty.stripPtr, Ty.ptrElem?] using hsfs,
      by simpa [Ty.stripPtr, Ty.ptrElem?] using hdfs, hkids⟩

/-- `Copy` (fresh destination allocated by the copier) never panics either. -/
theorem c20_copy_fresh_total (atomics : List Ty) (S D : Ty) (defaults : List OptItem) (c : Copier)
    (hb : newReflectCopier atomics S D defaults = .ok c) (src : Val) (callOpts : List OptItem)
    (hs : wt (.ptr S) src = true) (hc : ConvOK (c.defaults.applyAll callOpts)) :
    (c.copy src callOpts).res.isPanic = false := by
  have hD : c.dstTy = D := by
    obtain ⟨_, _, kids, _, rfl⟩ := newReflectCopier_ok hb
    rfl
  unfold Copier.copy
  rw [hD]
  exact (c20_copy_total atomics S D defaults c hb src (zeroOf D) callOpts hs (wt_zeroOf D) hc).1

/-- Outside the property's quantifier, recorded because the real code does the same: `CopyTo` with a
    non-nil source and a nil `*Dst` panics (`reflect.Value.Set using unaddressable value`). -/
theorem c20_copyTo_nil_dst_panics (c : Copier) (x : Val) (callOpts : List OptItem) :
    (c.copyTo (.ptr x) .nil callOpts).res.isPanic = true := by
  cases c with
  | mk S D root defaults =>
    cases root with
    | mk n s d l k => simp [Copier.copyTo, copyNode, derefSrc, derefDst, Ty.kind, Ty.ptrElem?, Flags.canSet, Outcome.isPanic]

/-- "a successful Copy/CopyTo sets every exported, same-named, same-typed destination field
    (recursively through nested structs and single pointers) to the source's value, leaves ignored and
    unmatched destination fields untouched, applies registered converters": a successful call relates
    source, destination-before and destination-after exactly as the abstract specification
    `Spec.copyRel` (Ekit/Spec/Copier.lean) says — with the tree copier's zero-skip (`m = .skip`: a
    zero source leaf leaves the destination leaf as it was; a fortiori the weaker `m = .either`, which
    is what the driver's spec mode demands of the real code).  For every type pair, values, default and per-call
    options. The corollaries below spell out its clauses. -/
theorem c20_copy_refines_spec (atomics : List Ty) (S D : Ty) (defaults : List OptItem) (c : Copier)
    (hb : newReflectCopier atomics S D defaults = .ok c) (sv d0 : Val) (callOpts : List OptItem)
    (hs : wt S sv = true) (hd : wt D d0 = true) (hc : ConvOK (c.defaults.applyAll callOpts))
    (hres : (c.copyTo (.ptr sv) (.ptr d0) callOpts).res = .ok ()) (m : Spec.ZeroMode) (hm : m ≠ .copy) :
    ∃ d1, (c.copyTo (.ptr sv) (.ptr d0) callOpts).dst = .ptr d1 ∧
      Spec.copyRel (specParams atomics (c.defaults.applyAll callOpts) m) S sv D d0 d1 = true := by
  obtain ⟨hks, hkd, kids, hk, rfl⟩ := newReflectCopier_ok hb
  rw [copyTo_eq] at hres ⊢
  exact ⟨_, rfl, copyChildren_spec _ atomics m hm hc (S.depth + 1) S D kids hks hkd hk sv d0 ⟨true, false⟩ hs hd rfl hres⟩

/-! #### what `Spec.copyRel` says, clause by clause (top level; one level down the same relation holds
with `Spec.structRel`, see `c20_spec_nested`) -/

/-- "leaves ignored and unmatched destination fields untouched": an unexported destination field, an
    ignored name, or a name without exported source field keeps its value — whatever the types. -/
theorem c20_ignored_and_unmatched_untouched (p : Spec.Params) (S D : Ty) (sv d0 d1 : Val) (sfs dfs : List Field)
    (h : Spec.copyRel p S sv D d0 d1 = true) (hsfs : S.fields? = some sfs) (hdfs : D.fields? = some dfs)
    (j : Nat) (df : Field) (hdf : dfs[j]? = some df)
    (hun : fexp df = false ∨ p.ignore.contains (fname df) = true ∨ Spec.srcFieldIdx? sfs (fname df) = none) :
    d1.field? j = d0.field? j := by
  obtain ⟨svs, a, b, _, ha, hb, hcl⟩ := copyRel_field p S D sv d0 d1 sfs dfs h hsfs hdfs j df hdf
  rw [ha, hb]
  unfold Spec.fieldClause at hcl
  by_cases hc : (!fexp df || p.ignore.contains (fname df)) = true
  · rw [if_pos hc] at hcl
    simpa using hcl
  · rw [if_neg hc] at hcl
    simp only [Bool.or_eq_true, Bool.not_eq_true', not_or, Bool.not_eq_false, Bool.not_eq_true] at hc
    rcases hun with h1 | h1 | h1
    · rw [h1] at hc; exact absurd hc.1 (by simp)
    · rw [h1] at hc; exact absurd hc.2 (by simp)
    · rw [h1] at hcl
      simpa using hcl

/-- the clause of a matched, not ignored field -/
theorem c20_spec_matched (p : Spec.Params) (S D : Ty) (sv d0 d1 : Val) (sfs dfs : List Field)
    (h : Spec.copyRel p S sv D d0 d1 = true) (hsfs : S.fields? = some sfs) (hdfs : D.fields? = some dfs)
    (j : Nat) (df : Field) (hdf : dfs[j]? = some df) (he : fexp df = true)
    (hni : p.ignore.contains (fname df) = false) (i : Nat) (hi : Spec.srcFieldIdx? sfs (fname df) = some i) :
    ∃ sf x a b, sfs[i]? = some sf ∧ sv.field? i = some x ∧ d0.field? j = some a ∧ d1.field? j = some b ∧
      Spec.fieldRel p (Spec.structRel p S.depth) (fname df) (fty sf) x (fty df) a b = true := by
  obtain ⟨svs, a, b, rfl, ha, hb, hcl⟩ := copyRel_field p S D sv d0 d1 sfs dfs h hsfs hdfs j df hdf
  unfold Spec.fieldClause at hcl
  simp only [he, hni, Bool.not_true, Bool.or_self, Bool.false_eq_true, if_false, hi] at hcl
  cases hsf : sfs[i]? with
  | none => rw [hsf] at hcl; simp at hcl
  | some sf =>
    cases hx : svs[i]? with
    | none => rw [hsf, hx] at hcl; simp at hcl
    | some x =>
      rw [hsf, hx] at hcl
      exact ⟨sf, x, a, b, rfl, by simpa [Val.field?] using hx, ha, hb, hcl⟩

/-- "sets every exported, same-named, same-typed destination field … to the source's value": a
    matched field of a copyable leaf type `T` (the same on both sides, not a pointer), without
    converter: the destination field becomes the source's value — except that under `ZeroMode.skip`
    (the tree copier) a zero source value leaves it as it was. -/
theorem c20_copy_sets_matching (p : Spec.Params) (S D : Ty) (sv d0 d1 : Val) (sfs dfs : List Field)
    (h : Spec.copyRel p S sv D d0 d1 = true) (hsfs : S.fields? = some sfs) (hdfs : D.fields? = some dfs)
    (j : Nat) (df : Field) (hdf : dfs[j]? = some df) (he : fexp df = true)
    (hni : p.ignore.contains (fname df) = false) (i : Nat) (hi : Spec.srcFieldIdx? sfs (fname df) = some i)
    (sf : Field) (hsf : sfs[i]? = some sf) (hty : fty sf = fty df) (hnp : (fty df).kind ≠ .ptr)
    (hleaf : isLeafTy p.atomics (fty df) = true) (hnc : p.conv.lookup (fname df) = none) :
    ∃ x a b, sv.field? i = some x ∧ d0.field? j = some a ∧ d1.field? j = some b ∧
      Spec.leafRel p.zero x a b = true := by
  obtain ⟨sf', x, a, b, hsf', hx, ha, hb, hrel⟩ :=
    c20_spec_matched p S D sv d0 d1 sfs dfs h hsfs hdfs j df hdf he hni i hi
  rw [hsf] at hsf'
  cases hsf'
  refine ⟨x, a, b, hx, ha, hb, ?_⟩
  have hm : (fty df).isMultiPtr = false := by simp [Ty.isMultiPtr, elem_none_of_kind_ne_ptr _ hnp]
  have hkp : ((fty df).kind == Kind.ptr) = false := by simpa using hnp
  unfold Spec.fieldRel at hrel
  simp only [hty, hm, Bool.or_self, Bool.false_eq_true, if_false, stripPtr_of_not_ptr hnp, hleaf, if_true, hnc,
    ne_eq, not_true_eq_false, hkp, Spec.throughPtrs, Spec.throughDst] at hrel
  exact hrel

/-- … and through single pointers on both sides (`*T` against `*T`): a nil source pointer leaves the
    destination field untouched; otherwise the destination points (a nil pointer having been
    allocated) to the source's pointee — or, under zero-skip, to what it pointed to before. -/
theorem c20_copy_sets_matching_ptr (p : Spec.Params) (S D : Ty) (sv d0 d1 : Val) (sfs dfs : List Field)
    (h : Spec.copyRel p S sv D d0 d1 = true) (hsfs : S.fields? = some sfs) (hdfs : D.fields? = some dfs)
    (j : Nat) (df : Field) (hdf : dfs[j]? = some df) (he : fexp df = true)
    (hni : p.ignore.contains (fname df) = false) (i : Nat) (hi : Spec.srcFieldIdx? sfs (fname df) = some i)
    (sf : Field) (hsf : sfs[i]? = some sf) (hty : fty sf = fty df) (E : Ty) (hE : (fty df).ptrElem? = some E)
    (hnp : E.kind ≠ .ptr) (hleaf : isLeafTy p.atomics E = true) (hnc : p.conv.lookup (fname df) = none) :
    ∃ s a b, sv.field? i = some s ∧ d0.field? j = some a ∧ d1.field? j = some b ∧
      (s = .nil → b = a) ∧
      (∀ x, s = .ptr x → ∃ y, b = .ptr y ∧
        Spec.leafRel p.zero x (match a with | .ptr y0 => y0 | _ => zeroOf E) y = true) := by
  obtain ⟨sf', s, a, b, hsf', hs, ha, hb, hrel⟩ :=
    c20_spec_matched p S D sv d0 d1 sfs dfs h hsfs hdfs j df hdf he hni i hi
  rw [hsf] at hsf'
  cases hsf'
  refine ⟨s, a, b, hs, ha, hb, ?_⟩
  have hm : (fty df).isMultiPtr = false := by simp [Ty.isMultiPtr, hE, hnp]
  have hkp : ((fty df).kind == Kind.ptr) = true := by simp [kind_ptr_of_elem _ _ hE]
  unfold Spec.fieldRel at hrel
  simp only [hty, hm, Bool.or_self, Bool.false_eq_true, if_false, stripPtr_of_elem hE, hleaf, if_true, hnc,
    ne_eq, not_true_eq_false, hkp, Spec.throughPtrs] at hrel
  constructor
  · intro hnil
    subst hnil
    simpa using hrel
  · intro x hx
    subst hx
    simp only [Spec.throughDst, if_true] at hrel
    cases b with
    | ptr y => exact ⟨y, rfl, hrel⟩
    | _ => simp at hrel

/-- "recursively through nested structs and single pointers": a matched field whose types are
    struct-kinded on both sides (after stripping one pointer) and not copied whole satisfies the same
    relation one level down, through the pointers. -/
theorem c20_spec_nested (p : Spec.Params) (S D : Ty) (sv d0 d1 : Val) (sfs dfs : List Field)
    (h : Spec.copyRel p S sv D d0 d1 = true) (hsfs : S.fields? = some sfs) (hdfs : D.fields? = some dfs)
    (j : Nat) (df : Field) (hdf : dfs[j]? = some df) (he : fexp df = true)
    (hni : p.ignore.contains (fname df) = false) (i : Nat) (hi : Spec.srcFieldIdx? sfs (fname df) = some i)
    (sf : Field) (hsf : sfs[i]? = some sf) (hm1 : (fty sf).isMultiPtr = false) (hm2 : (fty df).isMultiPtr = false)
    (hleaf : isLeafTy p.atomics (fty sf).stripPtr = false)
    (hks : (fty sf).stripPtr.kind = .struct) (hkd : (fty df).stripPtr.kind = .struct) :
    ∃ s a b, sv.field? i = some s ∧ d0.field? j = some a ∧ d1.field? j = some b ∧
      Spec.throughPtrs ((fty sf).kind == .ptr) ((fty df).kind == .ptr) (fty df).stripPtr s a b
        (fun x y0 y => Spec.structRel p S.depth (fty sf).stripPtr x (fty df).stripPtr y0 y) = true := by
  obtain ⟨sf', s, a, b, hsf', hs, ha, hb, hrel⟩ :=
    c20_spec_matched p S D sv d0 d1 sfs dfs h hsfs hdfs j df hdf he hni i hi
  rw [hsf] at hsf'
  cases hsf'
  refine ⟨s, a, b, hs, ha, hb, ?_⟩
  unfold Spec.fieldRel at hrel
  simpa [hm1, hm2, hleaf, hks, hkd] using hrel

/-- "applies registered converters": a matched field of a copyable leaf type with a converter
    registered for its name holds the converter's result (unless the source field is a nil pointer,
    which leaves it untouched). -/
theorem c20_converter_applied (p : Spec.Params) (S D : Ty) (sv d0 d1 : Val) (sfs dfs : List Field)
    (h : Spec.copyRel p S sv D d0 d1 = true) (hsfs : S.fields? = some sfs) (hdfs : D.fields? = some dfs)
    (j : Nat) (df : Field) (hdf : dfs[j]? = some df) (he : fexp df = true)
    (hni : p.ignore.contains (fname df) = false) (i : Nat) (hi : Spec.srcFieldIdx? sfs (fname df) = some i)
    (sf : Field) (hsf : sfs[i]? = some sf) (hm1 : (fty sf).isMultiPtr = false) (hm2 : (fty df).isMultiPtr = false)
    (hleaf : isLeafTy p.atomics (fty sf).stripPtr = true) (c : Conv) (hc : p.conv.lookup (fname df) = some c) :
    ∃ s a b, sv.field? i = some s ∧ d0.field? j = some a ∧ d1.field? j = some b ∧
      (((fty sf).kind = .ptr ∧ s = .nil) → b = a) ∧
      (¬ ((fty sf).kind = .ptr ∧ s = .nil) → ∀ r, c.apply (fty sf) s = .ok (fty df, r) → b = r) := by
  obtain ⟨sf', s, a, b, hsf', hs, ha, hb, hrel⟩ :=
    c20_spec_matched p S D sv d0 d1 sfs dfs h hsfs hdfs j df hdf he hni i hi
  rw [hsf] at hsf'
  cases hsf'
  refine ⟨s, a, b, hs, ha, hb, ?_⟩
  unfold Spec.fieldRel at hrel
  simp only [hm1, hm2, Bool.or_self, Bool.false_eq_true, if_false, hleaf, if_true, hc] at hrel
  constructor
  · rintro ⟨hk, rfl⟩
    simpa [hk] using hrel
  · intro hn r hr
    have : ((fty sf).kind == Kind.ptr && s == Val.nil) = false := by
      by_cases hk : (fty sf).kind = .ptr
      · have : s ≠ .nil := fun e => hn ⟨hk, e⟩
        simp [hk, this]
      · simp [hk]
    rw [this, hr] at hrel
    simpa using hrel

/-- The pure recursive `CopyTo(src, dst any)` never panics either: for EVERY pair of dynamic argument
    types (pointer or not, to a struct or not) and non-nil pointers to well-typed values; the
    destination stays well-typed. (A nil `*Src`/`*Dst` makes it panic in `reflect`, see the model's
    `pureCopyTo` and the `nilarg` lines of the harness.) -/
theorem c20_pure_total (srcT dstT : Ty) (sv dv : Val)
    (hs : wt srcT (.ptr sv) = true) (hd : wt dstT (.ptr dv) = true) :
    (pureCopyTo srcT (.ptr sv) dstT (.ptr dv)).res.isPanic = false ∧
      wt dstT (pureCopyTo srcT (.ptr sv) dstT (.ptr dv)).dst = true := by
  unfold pureCopyTo
  cases hse : srcT.ptrElem? with
  | none => exact ⟨rfl, hd⟩
  | some S =>
    simp only []
    by_cases h1 : (S.kind != Kind.struct) = true
    · rw [if_pos h1]; exact ⟨rfl, hd⟩
    · rw [if_neg h1]
      cases hde : dstT.ptrElem? with
      | none => exact ⟨rfl, hd⟩
      | some D =>
        simp only []
        by_cases h2 : (D.kind != Kind.struct) = true
        · rw [if_pos h2]; exact ⟨rfl, hd⟩
        · rw [if_neg h2]
          simp only []
          have hws : wt S sv = true := by
            rcases wt_ptr srcT S _ hse hs with h | ⟨x, h, hx⟩
            · cases h
            · cases h; exact hx
          have hwd : wt D dv = true := by
            rcases wt_ptr dstT D _ hde hd with h | ⟨x, h, hx⟩
            · cases h
            · cases h; exact hx
          have := pureStruct_total (S.depth + 1) S sv D dv ⟨true, false⟩ (by simpa using h1) (by simpa using h2)
            (Nat.le_succ _) hws hwd rfl
          exact ⟨this.1, wt_of_ptr dstT D _ hde this.2⟩

/-- The same sentence for the pure `CopyTo`: a successful call relates source, destination-before and
    destination-after as `Spec.copyRel` says with no atomic types, no options and `ZeroMode.copy` (it
    has no zero-skip: a zero source leaf overwrites) — a fortiori with `.either`, which is what the
    driver's spec mode demands. The clause-by-clause corollaries above apply to it verbatim. -/
theorem c20_pure_refines_spec (S D : Ty) (sv d0 : Val) (hks : S.kind = .struct) (hkd : D.kind = .struct)
    (hs : wt S sv = true) (hd : wt D d0 = true)
    (hres : (pureCopyTo (.ptr S) (.ptr sv) (.ptr D) (.ptr d0)).res = .ok ()) (m : Spec.ZeroMode) (hm : m ≠ .skip) :
    ∃ d1, (pureCopyTo (.ptr S) (.ptr sv) (.ptr D) (.ptr d0)).dst = .ptr d1 ∧
      Spec.copyRel (pureParams m) S sv D d0 d1 = true := by
  have hks' : (S.kind != Kind.struct) = false := by simp [hks]
  have hkd' : (D.kind != Kind.struct) = false := by simp [hkd]
  simp only [pureCopyTo, Ty.ptrElem?, hks', hkd', Bool.false_eq_true, if_false] at hres ⊢
  exact ⟨_, rfl, pureStruct_spec m hm (S.depth + 1) S sv D d0 ⟨true, false⟩ hks hkd (Nat.le_succ _) hs hd rfl hres⟩

/-- "On structs built from basic kinds, slices, maps, nested structs and pointers to them, the
    reflection-tree copier and the plain recursive CopyTo agree on a fresh destination": for every pair of
    struct types of that family (`Spec.family`: no arrays/chans/funcs/interfaces/unsafe pointers, no
    multi-level pointers, no registered atomic type), every well-typed source value, no options — whenever
    both calls succeed, the two destinations are equal. (That both do succeed when corresponding field
    types are identical is `c20_tree_succeeds_identical` / `c20_pure_succeeds_identical`.) -/
theorem c20_agree_on_fresh (atomics : List Ty) (S D : Ty) (c : Copier)
    (hb : newReflectCopier atomics S D [] = .ok c)
    (hfS : Spec.family atomics S = true) (hfD : Spec.family atomics D = true)
    (sv : Val) (hs : wt S sv = true)
    (h1 : (c.copy (.ptr sv) []).res = .ok ())
    (h2 : (pureCopyTo (.ptr S) (.ptr sv) (.ptr D) (.ptr (zeroOf D))).res = .ok ()) :
    (c.copy (.ptr sv) []).dst = (pureCopyTo (.ptr S) (.ptr sv) (.ptr D) (.ptr (zeroOf D))).dst := by
  obtain ⟨hks, hkd, kids, hk, rfl⟩ := newReflectCopier_ok hb
  have hks' : (S.kind != Kind.struct) = false := by simp [hks]
  have hkd' : (D.kind != Kind.struct) = false := by simp [hkd]
  simp only [Copier.copy] at h1 ⊢
  rw [copyTo_eq] at h1 ⊢
  simp only [pureCopyTo, Ty.ptrElem?, hks', hkd', Bool.false_eq_true, if_false] at h2 ⊢
  have := agree_struct atomics (S.depth + 1) S D kids hks hkd hfS hfD hk sv ⟨true, false⟩ ⟨true, false⟩ hs rfl rfl
  simp only [Options.applyAll, List.foldl] at h1 ⊢
  have e := this h1 h2
  simp only [opts0] at e
  rw [e]

/-- "both succeed when corresponding field types are identical" (`Spec.Identical`), tree copier: the
    constructor succeeds, and so does every copy of well-typed values under options that register no
    converter (ignored fields are fine). -/
theorem c20_tree_succeeds_identical (atomics : List Ty) (S D : Ty) (defaults : List OptItem)
    (hks : S.kind = .struct) (hkd : D.kind = .struct) (hid : Spec.Identical atomics (S.depth + 1) S D) :
    ∃ c, newReflectCopier atomics S D defaults = .ok c ∧
      ∀ sv d0 callOpts, wt S sv = true → wt D d0 = true → (c.defaults.applyAll callOpts).conv = [] →
        (c.copyTo (.ptr sv) (.ptr d0) callOpts).res = .ok () := by
  obtain ⟨kids, hk⟩ := build_identical atomics (S.depth + 1) S D hid
  refine ⟨{ srcTy := S, dstTy := D, root := .mk "" 0 0 false kids, defaults := ({} : Options).applyAll defaults },
    by simp [newReflectCopier, hks, hkd, hk], ?_⟩
  intro sv d0 callOpts hs hd hnc
  rw [copyTo_eq]
  exact copy_identical _ hnc atomics (S.depth + 1) S D kids hid hk sv d0 ⟨true, false⟩ hs hd rfl

/-- … and the pure CopyTo (which knows no atomic types, hence `Identical []`). -/
theorem c20_pure_succeeds_identical (S D : Ty) (hks : S.kind = .struct) (hkd : D.kind = .struct)
    (hid : Spec.Identical [] (S.depth + 1) S D) (sv d0 : Val) (hs : wt S sv = true) (hd : wt D d0 = true) :
    (pureCopyTo (.ptr S) (.ptr sv) (.ptr D) (.ptr d0)).res = .ok () := by
  have hks' : (S.kind != Kind.struct) = false := by simp [hks]
  have hkd' : (D.kind != Kind.struct) = false := by simp [hkd]
  simp only [pureCopyTo, Ty.ptrElem?, hks', hkd', Bool.false_eq_true, if_false]
  exact (pure_identical (S.depth + 1) S D hid sv d0 ⟨true, false⟩ hs hd rfl).1

/-- the executable test the driver's spec mode uses for "corresponding field types are identical"
    implies the hypothesis of the two theorems above -/
theorem c20_identicalB_sound (atomics : List Ty) (fuel : Nat) (S D : Ty)
    (h : Spec.identicalB atomics fuel S D = true) : Spec.Identical atomics fuel S D :=
  identicalB_sound atomics fuel S D h

/-! "never modifies the source": in the model the source is an input that no function returns or
rebinds — `Set` is only ever applied to values reached from the destination — so there is nothing
to prove that would not be a tautology. What ties the sentence to the real code is the per-call deep
comparison of the source before and after the call (`same=1`, and `psame=1` for the pure CopyTo), which
the driver demands in both modes. (Aliasing set up by the caller between `*src` and `*dst` is outside
the model: values are trees.) -/

/-! non-vacuity -/
section examples
def exS : Ty := .struct [("A", true, .basic .int), ("B", true, .ptr (.struct [("X", true, .basic .string)])), ("c", false, .basic .int)]
def exD : Ty := .struct [("B", true, .struct [("X", true, .basic .string)]), ("A", true, .basic .int), ("Z", true, .basic .int)]

example : (newReflectCopier defaultAtomics exS exD []).isOk = true := by decide
/-- the defect fixed in /repo: a struct-typed source field against a scalar destination field is an
    error, not a panic -/
example : (newReflectCopier defaultAtomics (.struct [("A", true, .struct [])]) (.struct [("A", true, .basic .int)]) []).isErr
    = true := by decide
example : (match newReflectCopier defaultAtomics exS exD [] with
    | .ok c => (c.copyTo (.ptr (.struct [.int 5, .ptr (.struct [.str "x"]), .int 9])) (.ptr (.struct [.struct [.str "old"], .int 1, .int 2])) []).dst
    | _ => .nil) = .ptr (.struct [.struct [.str "x"], .int 5, .int 2]) := by decide

/-- the hypotheses of `c20_agree_on_fresh` are satisfiable, with both calls succeeding -/
def exF : Ty := .struct [("A", true, .basic .int), ("P", true, .ptr (.struct [("X", true, .slice (.basic .string))])), ("c", false, .basic .int)]
example : Spec.family defaultAtomics exF = true := by decide
example : (match newReflectCopier defaultAtomics exF exF [] with
    | .ok c => decide ((c.copy (.ptr (.struct [.int 5, .ptr (.struct [.seq [.str "x"]]), .int 9])) []).res = .ok () ∧
        (c.copy (.ptr (.struct [.int 5, .ptr (.struct [.seq [.str "x"]]), .int 9])) []).dst
          = (pureCopyTo (.ptr exF) (.ptr (.struct [.int 5, .ptr (.struct [.seq [.str "x"]]), .int 9])) (.ptr exF) (.ptr (zeroOf exF))).dst)
    | _ => false) = true := by decide
/-- `Spec.Identical` holds of a concrete pair (so `c20_tree_succeeds_identical` is not vacuous) -/
example : Spec.Identical defaultAtomics 2 (.struct [("A", true, .basic .int), ("b", false, .basic .string)])
    (.struct [("A", true, .basic .int)]) := by
  refine ⟨_, _, rfl, rfl, ?_⟩
  intro j df h he i hi
  match j, h with
  | 0, h =>
    simp at h
    subst h
    simp [Spec.srcFieldIdx?, Spec.srcFieldIdxFrom] at hi
    subst hi
    exact ⟨_, rfl, rfl, rfl, by simp [Ty.stripPtr, Ty.ptrElem?, Ty.kind]⟩
  | j + 1, h => simp at h
/-- a zero source leaf leaves a pre-filled destination leaf as it was (zero-skip), a non-zero one overwrites it -/
example : (match newReflectCopier defaultAtomics exS exD [] with
    | .ok c => (c.copyTo (.ptr (.struct [.int 0, .nil, .int 9])) (.ptr (.struct [.struct [.str "old"], .int 1, .int 2])) []).dst
    | _ => .nil) = .ptr (.struct [.struct [.str "old"], .int 1, .int 2]) := by decide
example : Spec.identicalB defaultAtomics (exF.depth + 1) exF exF = true := by decide
end examples

end Ekit.Copier
