/-
C04 — review addition: the LinkedList at pointer level.

`c04_linked_step_refines` (Props/C04.lean) is about `LinkedList.step`, a model in which the linked list
already IS the Lean list of its values — so that theorem only checks index arithmetic, and the pointer
surgery of list/linked_list.go (sentinel ring, `findNode` from either end, splice in `Append`/`Add`,
unlink in `Delete`, the `length` counter, the traversal of `AsSlice`/`Range`) was covered by the
dynamic correspondence only.  Model/LinkedRing.lean is that code over a heap of nodes with nil-able
`prev`/`next`; here it is proved that, from `NewLinkedList()` and after every history,

* no call dereferences nil (the operation never returns the panic outcome `none`),
* the ring invariant holds (forward and backward threads `head ⇄ e₀ ⇄ … ⇄ tail` agree, addresses
  distinct, `length` = number of element nodes),
* every call returns, and leaves as list of values, exactly what `LinkedList.step` — the function the
  trace acceptor executes against the real list — returns, hence (with `c04_linked_step_refines`)
  what the abstract sequence returns.
-/
import Ekit.Lemmas.LinkedRingOps
import Ekit.Props.C04

namespace Ekit.Lists.Ring
open Ekit.Go

theorem vals_length (l : LL) (as : List Nat) : (vals l as).length = as.length := by simp [vals]

theorem split_at {α} (as : List α) (k : Nat) (hk : k < as.length) : ∃ L x R, as = L ++ x :: R ∧ L.length = k :=
  ⟨as.take k, as[k], as.drop (k + 1), by simp, by simp; omega⟩

theorem nodup_mid {hd tl x : Nat} {L R : List Nat} (h : (hd :: (L ++ x :: R) ++ [tl]).Nodup) : x ∉ L ∧ x ∉ R := by
  rw [List.cons_append, List.nodup_cons] at h
  have h1 : (L ++ x :: R).Nodup := (List.nodup_append.1 h.2).1
  rw [List.nodup_append] at h1
  exact ⟨fun hh => h1.2.2 x hh x (by simp) rfl, (List.nodup_cons.1 h1.2.1).1⟩

/-- `Append(ts...)`: one splice before `tail` per element -/
theorem append_spec (l : LL) (as : List Nat) (ts : List Int) (hi : Inv l as) :
    ∃ l' as', append l ts = some l' ∧ Inv l' (as ++ as') ∧ vals l' (as ++ as') = vals l as ++ ts ∧
      l'.head = l.head ∧ l'.tail = l.tail := by
  induction ts generalizing l as with
  | nil => exact ⟨l, [], rfl, by simpa using hi, by simp, rfl, rfl⟩
  | cons t ts ih =>
    obtain ⟨l1, h1, hi1, hv1, hh1, ht1⟩ := spliceBefore_spec l as [] t (by simpa using hi)
    have h1' : spliceBefore l l.tail t = some l1 := h1
    obtain ⟨l2, as2, h2, hi2, hv2, hh2, ht2⟩ := ih l1 (as ++ [l.alloc]) hi1
    refine ⟨l2, l.alloc :: as2, ?_, by simpa using hi2, ?_, hh2.trans hh1, ht2.trans ht1⟩
    · simp only [append, h1', h2]
    · have : as ++ l.alloc :: as2 = as ++ [l.alloc] ++ as2 := by simp
      rw [this, hv2, hv1]
      simp [vals]

/-- the traversal of `AsSlice` / `Range` -/
theorem collect_spec (h : Nat → Node) (u w : Nat) (xs : List Nat)
    (hc : Chain (fun a => (h a).next) (u :: xs ++ [w])) :
    collect h (h u).next xs.length = some (xs.map fun a => (h a).val) := by
  induction xs generalizing u with
  | nil => rfl
  | cons c cs ih =>
    simp only [List.cons_append, Chain] at hc
    simp only [List.length_cons, hc.1, collect, ih c hc.2, List.map_cons]

/-- **one call**: from a ring satisfying the invariant the pointer-level code does not panic, keeps
    the invariant, and computes `LinkedList.step` on the values. -/
theorem c04_ring_step_refines (l : LL) (as : List Nat) (hi : Inv l as) (op : Op) :
    ∃ l' as' out, step l op = some (l', out) ∧ Inv l' as' ∧
      LinkedList.step (vals l as) op = (vals l' as', out) ∧ l'.head = l.head ∧ l'.tail = l.tail := by
  have hlen : l.length = ((vals l as).length : Int) := by rw [vals_length, hi.len]
  have hlen' : (vals l as).length = as.length := vals_length l as
  cases op with
  | get i =>
    by_cases hr : 0 ≤ i ∧ i < (as.length : Int)
    · obtain ⟨k, rfl⟩ : ∃ k : Nat, i = k := ⟨i.toNat, by omega⟩
      obtain ⟨L, x, R, rfl, hk⟩ := split_at as k (by omega)
      subst hk
      have hf := findNode_spec l L R x hi
      have hp := c04_linked_findPos (vals l (L ++ x :: R)).length L.length (by omega) (by rw [hlen']; simp; omega)
      refine ⟨l, _, .ok (.val (l.h x).val), ?_, hi, ?_, rfl, rfl⟩
      · simp only [step, checkIndex, hi.len]
        simp only [hf]
        have : (decide ((0 : Int) ≤ L.length) && decide ((L.length : Int) < ((L ++ x :: R).length : Nat))) = true := by
          simp; omega
        simp only [this, Bool.not_true, Bool.false_eq_true, if_false]
      · simp only [LinkedList.step, LinkedList.checkIndex, hp]
        have : (decide ((0 : Int) ≤ L.length) && decide ((L.length : Int) < ((vals l (L ++ x :: R)).length : Nat))) = true := by
          rw [hlen']; simp; omega
        simp only [this, Bool.not_true, Bool.false_eq_true, if_false, Int.toNat_natCast]
        simp only [vals, List.map_append, List.map_cons]
        rw [show L.length = (L.map fun a => (l.h a).val).length by simp, getD_length_append]
    · refine ⟨l, as, .err (.idx l.length i), ?_, hi, ?_, rfl, rfl⟩
      · simp only [step, checkIndex, hi.len]
        have : (decide (0 ≤ i) && decide (i < (as.length : Int))) = false := by
          by_cases h0 : 0 ≤ i
          · have : ¬ i < (as.length : Int) := by omega
            simp [h0, this]
          · simp [h0]
        simp only [this, Bool.not_false, if_true]
      · simp only [LinkedList.step, LinkedList.checkIndex, hlen']
        have : (decide (0 ≤ i) && decide (i < (as.length : Int))) = false := by
          by_cases h0 : 0 ≤ i
          · have : ¬ i < (as.length : Int) := by omega
            simp [h0, this]
          · simp [h0]
        simp only [this, Bool.not_false, if_true, hi.len]
  | append ts =>
    obtain ⟨l', as', h1, hi', hv, hh, ht⟩ := append_spec l as ts hi
    exact ⟨l', as ++ as', .ok .unit, by simp only [step, h1], hi', by simp only [LinkedList.step, hv], hh, ht⟩
  | add i t =>
    by_cases hr : i < 0 ∨ i > (as.length : Int)
    · refine ⟨l, as, .err (.idx l.length i), ?_, hi, ?_, rfl, rfl⟩
      · simp only [step, hi.len, hr, if_true]
      · simp only [LinkedList.step, hlen', hr, if_true, hi.len]
    · by_cases he : i = (as.length : Int)
      · subst he
        obtain ⟨l', as', h1, hi', hv, hh, ht⟩ := append_spec l as [t] hi
        refine ⟨l', as ++ as', .ok .unit, ?_, hi', ?_, hh, ht⟩
        · simp only [step, hi.len, hr, if_false, if_true, h1]
        · simp only [LinkedList.step, hlen', hr, if_false, if_true, hv]
      · obtain ⟨k, rfl⟩ : ∃ k : Nat, i = k := ⟨i.toNat, by omega⟩
        obtain ⟨L, x, R, rfl, hk⟩ := split_at as k (by omega)
        subst hk
        have hf := findNode_spec l L R x hi
        have hp := c04_linked_findPos (vals l (L ++ x :: R)).length L.length (by omega) (by rw [hlen']; simp; omega)
        obtain ⟨l', h1, hi', hv, hh, ht⟩ := spliceBefore_spec l L (x :: R) t hi
        have h1' : spliceBefore l x t = some l' := h1
        refine ⟨l', _, .ok .unit, ?_, hi', ?_, hh, ht⟩
        · simp only [step, hi.len, hr, if_false, he, hf, h1']
        · rw [hlen'] at hp
          simp only [LinkedList.step, hlen', hr, if_false, he, hp, Int.toNat_natCast, hv]
          simp only [vals, List.map_append, List.map_cons]
          rw [show L.length = (L.map fun a => (l.h a).val).length by simp, insertIdx_length_append]
  | set i t =>
    by_cases hr : 0 ≤ i ∧ i < (as.length : Int)
    · obtain ⟨k, rfl⟩ : ∃ k : Nat, i = k := ⟨i.toNat, by omega⟩
      obtain ⟨L, x, R, rfl, hk⟩ := split_at as k (by omega)
      subst hk
      have hf := findNode_spec l L R x hi
      have hp := c04_linked_findPos (vals l (L ++ x :: R)).length L.length (by omega) (by rw [hlen']; simp; omega)
      obtain ⟨hxL, hxR⟩ := nodup_mid hi.nodup
      refine ⟨{ l with h := upd l.h x { l.h x with val := t } }, L ++ x :: R, .ok .unit, ?_, ?_, ?_, rfl, rfl⟩
      · simp only [step, checkIndex, hi.len]
        simp only [hf]
        have : (decide ((0 : Int) ≤ L.length) && decide ((L.length : Int) < ((L ++ x :: R).length : Nat))) = true := by
          simp; omega
        simp only [this, Bool.not_true, Bool.false_eq_true, if_false]
      · -- pointers untouched
        have hn : ∀ u, ((upd l.h x { l.h x with val := t }) u).next = (l.h u).next := by
          intro u; by_cases h : u = x <;> simp [upd, h]
        have hpv : ∀ u, ((upd l.h x { l.h x with val := t }) u).prev = (l.h u).prev := by
          intro u; by_cases h : u = x <;> simp [upd, h]
        exact ⟨chain_congr _ _ _ hi.fwd (fun u _ => hn u), chain_congr _ _ _ hi.bwd (fun u _ => hpv u),
          hi.nodup, hi.fresh, hi.len⟩
      · simp only [LinkedList.step, LinkedList.checkIndex, hp]
        have : (decide ((0 : Int) ≤ L.length) && decide ((L.length : Int) < ((vals l (L ++ x :: R)).length : Nat))) = true := by
          rw [hlen']; simp; omega
        simp only [this, Bool.not_true, Bool.false_eq_true, if_false, Int.toNat_natCast]
        simp only [vals, List.map_append, List.map_cons]
        rw [show L.length = (L.map fun a => (l.h a).val).length by simp, set_length_append]
        have e1 : ∀ a ∈ L, (upd l.h x { l.h x with val := t } a).val = (l.h a).val := by
          intro a ha; have : a ≠ x := fun e => hxL (e ▸ ha); simp [upd, this]
        have e2 : ∀ a ∈ R, (upd l.h x { l.h x with val := t } a).val = (l.h a).val := by
          intro a ha; have : a ≠ x := fun e => hxR (e ▸ ha); simp [upd, this]
        rw [List.map_congr_left e1, List.map_congr_left e2]
        simp [upd]
    · refine ⟨l, as, .err (.idx l.length i), ?_, hi, ?_, rfl, rfl⟩
      · simp only [step, checkIndex, hi.len]
        have : (decide (0 ≤ i) && decide (i < (as.length : Int))) = false := by
          by_cases h0 : 0 ≤ i
          · have : ¬ i < (as.length : Int) := by omega
            simp [h0, this]
          · simp [h0]
        simp only [this, Bool.not_false, if_true]
      · simp only [LinkedList.step, LinkedList.checkIndex, hlen']
        have : (decide (0 ≤ i) && decide (i < (as.length : Int))) = false := by
          by_cases h0 : 0 ≤ i
          · have : ¬ i < (as.length : Int) := by omega
            simp [h0, this]
          · simp [h0]
        simp only [this, Bool.not_false, if_true, hi.len]
  | delete i =>
    by_cases hr : 0 ≤ i ∧ i < (as.length : Int)
    · obtain ⟨k, rfl⟩ : ∃ k : Nat, i = k := ⟨i.toNat, by omega⟩
      obtain ⟨L, x, R, rfl, hk⟩ := split_at as k (by omega)
      subst hk
      have hf := findNode_spec l L R x hi
      have hp := c04_linked_findPos (vals l (L ++ x :: R)).length L.length (by omega) (by rw [hlen']; simp; omega)
      obtain ⟨l', h1, hi', hv, hh, ht⟩ := unlink_spec l L R x hi
      refine ⟨l', L ++ R, .ok (.val (l.h x).val), ?_, hi', ?_, hh, ht⟩
      · simp only [step, checkIndex, hi.len]
        simp only [hf, h1]
        have : (decide ((0 : Int) ≤ L.length) && decide ((L.length : Int) < ((L ++ x :: R).length : Nat))) = true := by
          simp; omega
        simp only [this, Bool.not_true, Bool.false_eq_true, if_false]
      · simp only [LinkedList.step, LinkedList.checkIndex, hp]
        have : (decide ((0 : Int) ≤ L.length) && decide ((L.length : Int) < ((vals l (L ++ x :: R)).length : Nat))) = true := by
          rw [hlen']; simp; omega
        simp only [this, Bool.not_true, Bool.false_eq_true, if_false, Int.toNat_natCast, hv]
        simp only [vals, List.map_append, List.map_cons]
        rw [show L.length = (L.map fun a => (l.h a).val).length by simp, getD_length_append, eraseIdx_length_append]
    · refine ⟨l, as, .err (.idx l.length i), ?_, hi, ?_, rfl, rfl⟩
      · simp only [step, checkIndex, hi.len]
        have : (decide (0 ≤ i) && decide (i < (as.length : Int))) = false := by
          by_cases h0 : 0 ≤ i
          · have : ¬ i < (as.length : Int) := by omega
            simp [h0, this]
          · simp [h0]
        simp only [this, Bool.not_false, if_true]
      · simp only [LinkedList.step, LinkedList.checkIndex, hlen']
        have : (decide (0 ≤ i) && decide (i < (as.length : Int))) = false := by
          by_cases h0 : 0 ≤ i
          · have : ¬ i < (as.length : Int) := by omega
            simp [h0, this]
          · simp [h0]
        simp only [this, Bool.not_false, if_true, hi.len]
  | len => exact ⟨l, as, .ok (.int l.length), rfl, hi, by simp only [LinkedList.step, hlen], rfl, rfl⟩
  | asSlice =>
    have hc := collect_spec l.h l.head l.tail as (by simpa using hi.fwd)
    have hn : l.length.toNat = as.length := by rw [hi.len]; simp
    exact ⟨l, as, .ok (.slice (vals l as)), by simp only [step, hn, hc]; rfl, hi, rfl, rfl, rfl⟩
  | range =>
    have hc := collect_spec l.h l.head l.tail as (by simpa using hi.fwd)
    have hn : l.length.toNat = as.length := by rw [hi.len]; simp
    exact ⟨l, as, .ok (.slice (vals l as)), by simp only [step, hn, hc]; rfl, hi, rfl, rfl, rfl⟩

/-- running a history on the pointer-level list; `none` = some call dereferenced nil -/
def run (l : LL) : List Op → Option (LL × List Out)
  | [] => some (l, [])
  | op :: ops =>
    match step l op with
    | none => none
    | some (l', o) =>
      match run l' ops with
      | none => none
      | some (l'', os) => some (l'', o :: os)

/-- **every history from `NewLinkedList()`**: no nil dereference, and the outputs are exactly those of
    the abstract sequence started empty; the ring invariant holds at the end (hence at every instant,
    histories being prefix-closed) and the nodes hold the abstract sequence's contents. -/
theorem c04_ring_run_refines (ops : List Op) :
    ∃ l' as', run new ops = some (l', (Spec.run [] ops).2) ∧ Inv l' as' ∧ vals l' as' = (Spec.run [] ops).1 := by
  suffices ∀ (l : LL) (as : List Nat), Inv l as →
      ∃ l' as', run l ops = some (l', (Spec.run (vals l as) ops).2) ∧ Inv l' as' ∧
        vals l' as' = (Spec.run (vals l as) ops).1 by
    simpa [vals] using this new [] inv_new
  induction ops with
  | nil => intro l as hi; exact ⟨l, as, rfl, hi, rfl⟩
  | cons op rest ih =>
    intro l as hi
    obtain ⟨l1, as1, o, h1, hi1, hr, _, _⟩ := c04_ring_step_refines l as hi op
    obtain ⟨l2, as2, h2, hi2, hv2⟩ := ih l1 as1 hi1
    have hs : Spec.step (vals l as) op = (vals l1 as1, o) := by rw [← c04_linked_step_refines, hr]
    refine ⟨l2, as2, ?_, hi2, ?_⟩
    · simp only [run, h1, h2, Spec.run, hs]
    · simp only [Spec.run, hs, hv2]

/-! non-vacuity: the pointer-level list really runs (and the invariant is established by the constructor) -/
example : Inv new [] := inv_new
example : (run new [.append [1, 2, 3], .add 1 9, .delete 0, .get 2, .set 0 7, .delete 5, .asSlice, .len]).map (·.2) =
    some [.ok .unit, .ok .unit, .ok (.val 1), .ok (.val 3), .ok .unit, .err (.idx 3 5), .ok (.slice [7, 2, 3]), .ok (.int 3)] := by
  decide
/-- a list whose pointers are broken DOES panic in this model (nil is not totalised away) -/
example : (step { new with h := fun _ => ⟨none, none, 0⟩, length := 1 } (.get 0)).isNone = true := by decide

end Ekit.Lists.Ring
