/-
C18 — Encrypted and JSON SQL columns round-trip exactly and reject bad input.

Property theorems only (helper lemmas: Ekit/Lemmas/Sqlx.lean, Ekit/Lemmas/SqlxScan.lean).  The model
is Ekit/Model/Sqlx.lean.  AES-GCM (`AEAD`), encoding/json (`JsonCodec J`) and the random nonce are
parameters; `AEAD.Correct`, `IdealAEAD` and JSON-representability appear only as hypotheses.
-/
import Ekit.Lemmas.SqlxScan

namespace Ekit.Sqlx
open Ekit.Go

/-! #### "For every supported value type, every value …": the byte-level codecs -/

/-- Nat level: the `n` big-endian bytes of `v` decode to `v mod 256^n`. -/
theorem c18_be_roundtrip_nat (n v : Nat) : beNat (beBytes n v) = v % 256 ^ n := beNat_beBytes n v

/-- `binary.Read ∘ binary.Write = id` for every one of the ten sized types (all widths, signed,
    unsigned and float bit patterns), for EVERY value — and trailing bytes are ignored. -/
theorem c18_be_roundtrip (k : NumKind) (v : BitVec k.bits) (extra : Bytes) :
    decodeNum k (encodeNum k v ++ extra) = .ok v ∧ (encodeNum k v).length = k.bytes :=
  ⟨decodeNum_encodeNum_append k v extra, length_encodeNum k v⟩

/-- the four widths spelled out (signed and unsigned share the bit-pattern codec) -/
theorem c18_be_roundtrip_8 (v : BitVec 8) :
    decodeNum .i8 (encodeNum .i8 v) = .ok v ∧ decodeNum .u8 (encodeNum .u8 v) = .ok v :=
  ⟨decodeNum_encodeNum .i8 v, decodeNum_encodeNum .u8 v⟩
theorem c18_be_roundtrip_16 (v : BitVec 16) :
    decodeNum .i16 (encodeNum .i16 v) = .ok v ∧ decodeNum .u16 (encodeNum .u16 v) = .ok v :=
  ⟨decodeNum_encodeNum .i16 v, decodeNum_encodeNum .u16 v⟩
theorem c18_be_roundtrip_32 (v : BitVec 32) :
    decodeNum .i32 (encodeNum .i32 v) = .ok v ∧ decodeNum .u32 (encodeNum .u32 v) = .ok v ∧
      decodeNum .f32 (encodeNum .f32 v) = .ok v :=
  ⟨decodeNum_encodeNum .i32 v, decodeNum_encodeNum .u32 v, decodeNum_encodeNum .f32 v⟩
theorem c18_be_roundtrip_64 (v : BitVec 64) :
    decodeNum .i64 (encodeNum .i64 v) = .ok v ∧ decodeNum .u64 (encodeNum .u64 v) = .ok v ∧
      decodeNum .f64 (encodeNum .f64 v) = .ok v :=
  ⟨decodeNum_encodeNum .i64 v, decodeNum_encodeNum .u64 v, decodeNum_encodeNum .f64 v⟩

/-- `int` and `uint` travel through 64 bits without loss: for the model's 64-bit `int`, and for an
    `int`/`uint` of ANY width `w ≤ 64` (so 32-bit platforms too): `int(int64(x)) = x`. -/
theorem c18_int_via_i64 :
    (∀ v, i64ToInt (intToI64 v) = v) ∧ (∀ v, u64ToUint (uintToU64 v) = v) ∧
    (∀ w, w ≤ 64 → ∀ x : BitVec w, (x.signExtend 64).setWidth w = x) ∧
    (∀ w, w ≤ 64 → ∀ x : BitVec w, (x.setWidth 64).setWidth w = x) :=
  ⟨i64ToInt_intToI64, u64ToUint_uintToU64, setWidth_signExtend_64, setWidth_setWidth_64⟩

/-- A decrypted plaintext SHORTER than the width of a sized numeric `T` is an error and leaves
    `Valid = false`; nothing (`io.EOF`) and something (`io.ErrUnexpectedEOF`) are both covered. -/
theorem c18_short_plaintext_err {J} (c : JsonCodec J) (k : NumKind) (v : BitVec k.bits) (pt : Bytes)
    (h : pt.length < k.bytes) :
    ∃ er, deserialize c (.num k v) pt = (.num k v, .err er) := by
  by_cases h0 : pt = []
  · subst h0; exact ⟨eEOF, by simp [deserialize, decodeNum_nil]⟩
  · exact ⟨eUEOF, by simp [deserialize, decodeNum_short k pt h0 h]⟩

/-- the same for `int` / `uint` (read through 64 bits): fewer than 8 bytes is an error; the code
    then stores the zero temporary, so `Val` becomes 0. -/
theorem c18_short_plaintext_err_int {J} (c : JsonCodec J) (v : BitVec 64) (pt : Bytes) (h : pt.length < 8) :
    (∃ er, deserialize c (.int v) pt = (.int 0, .err er)) ∧
    (∃ er, deserialize c (.uint v) pt = (.uint 0, .err er)) := by
  by_cases h0 : pt = []
  · subst h0; exact ⟨⟨eEOF, by simp [deserialize, decodeNum_nil]⟩, ⟨eEOF, by simp [deserialize, decodeNum_nil]⟩⟩
  · exact ⟨⟨eUEOF, by simp [deserialize, decodeNum_short .i64 pt h0 h]⟩,
           ⟨eUEOF, by simp [deserialize, decodeNum_short .u64 pt h0 h]⟩⟩

/-! #### "Scan applied to the output of Value restores an equal value with Valid=true" -/

/-- **Round trip.** For every arm of the type switch (every supported `T`), every value, every key
    of length 16/24/32 (implied by `Value` succeeding), every 12-byte nonce, and EVERY receiver
    state (any previous `Val` of the same type, any previous `Valid`), under the same key:
    `Scan(Value(x))` returns nil, restores `x` and sets `Valid = true` — for a `[]byte` and for a
    `string` src.  AEAD correctness is a hypothesis; for JSON-serialised `T` so is the
    representability of `x` for the receiver. -/
theorem c18_scan_value_roundtrip {J} (a : AEAD) (ha : a.Correct) (c : JsonCodec J)
    (e r : Col J) (nonce ct : Bytes)
    (hn : nonce.length = nonceSize) (hv : value a c e nonce = .ok ct)
    (hk : r.key = e.key) (hty : r.val.ty = e.val.ty) (hj : Val.RepresentableFor c r.val e.val) :
    scan a c r (.bytes ct) = ({ r with val := e.val, valid := true }, .ok ()) ∧
    scan a c r (.str ct) = ({ r with val := e.val, valid := true }, .ok ()) := by
  obtain ⟨_, hkl, b, hb, rfl⟩ := value_ok hv
  have hd : aesDecrypt a r.key (nonce ++ a.sealAE e.key nonce b) = .ok b := by
    rw [hk, aesDecrypt_framed a e.key nonce _ hkl hn, ha]
  have hds := deserialize_serialize c r.val e.val b hty hb hj
  have : scan a c r (.bytes (nonce ++ a.sealAE e.key nonce b)) = ({ r with val := e.val, valid := true }, .ok ()) := by
    rw [scan_bytes, hd]
    simp [hds, Outcome.isOk]
  exact ⟨this, by rw [scan_str]; exact this⟩

/-- `Value` succeeds on every valid column whose key has a legal length and whose value
    serialises (always, for the raw and binary arms). -/
theorem c18_value_succeeds {J} (a : AEAD) (c : JsonCodec J) (e : Col J) (nonce : Bytes)
    (hv : e.valid = true) (hk : keyLenOk e.key.length = true) (hs : e.val.ty ≠ .other) :
    ∃ b, serialize c e.val = .ok b ∧ value a c e nonce = .ok (nonce ++ a.sealAE e.key nonce b) := by
  cases hval : e.val with
  | other x => simp [hval, Val.ty] at hs
  | str s => exact ⟨_, rfl, value_of_ok a c e nonce _ hv hk (by rw [hval]; rfl)⟩
  | bytes s => exact ⟨_, rfl, value_of_ok a c e nonce _ hv hk (by rw [hval]; rfl)⟩
  | num k v => exact ⟨_, rfl, value_of_ok a c e nonce _ hv hk (by rw [hval]; rfl)⟩
  | int v => exact ⟨_, rfl, value_of_ok a c e nonce _ hv hk (by rw [hval]; rfl)⟩
  | uint v => exact ⟨_, rfl, value_of_ok a c e nonce _ hv hk (by rw [hval]; rfl)⟩

/-- "… while two encryptions of the same value differ": whenever the two nonces differ (nonce
    freshness itself is `crypto/rand`'s), the two outputs differ. -/
theorem c18_fresh_nonce_distinct {J} (a : AEAD) (c : JsonCodec J) (e : Col J) (n1 n2 ct1 ct2 : Bytes)
    (h1 : n1.length = nonceSize) (h2 : n2.length = nonceSize) (hn : n1 ≠ n2)
    (hv1 : value a c e n1 = .ok ct1) (hv2 : value a c e n2 = .ok ct2) : ct1 ≠ ct2 := by
  obtain ⟨_, _, b1, _, rfl⟩ := value_ok hv1
  obtain ⟨_, _, b2, _, rfl⟩ := value_ok hv2
  intro h
  exact hn (List.append_inj_left h (by rw [h1, h2]))

/-! #### "… returns an error and never panics" -/

/-- **Totality.** `Scan` never panics: for EVERY AEAD, codec, column state, key (any length) and
    EVERY src — in particular every byte string, however short (the nonce split is guarded).
    `Value` never panics either. -/
theorem c18_scan_total {J} (a : AEAD) (c : JsonCodec J) (e : Col J) (src : Src) (nonce : Bytes) (m : String) :
    (scan a c e src).2 ≠ .panic m ∧ value a c e nonce ≠ .panic m := by
  refine ⟨?_, value_no_panic a c e nonce m⟩
  cases src with
  | null => simp [scan]
  | other t => simp [scan]
  | str d =>
    rw [scan_str, scan_bytes]
    cases h : aesDecrypt a e.key d with
    | ok pt => exact deserialize_no_panic c e.val pt m
    | err er => simp
    | panic m' => exact absurd h (aesDecrypt_no_panic a e.key d m')
  | bytes d =>
    rw [scan_bytes]
    cases h : aesDecrypt a e.key d with
    | ok pt => exact deserialize_no_panic c e.val pt m
    | err er => simp
    | panic m' => exact absurd h (aesDecrypt_no_panic a e.key d m')

/-- A stored value shorter than the nonce (every length 0..11) is an error and changes nothing
    (the defect fixed in /repo: this used to be a slice-bounds panic). -/
theorem c18_short_ciphertext_err {J} (a : AEAD) (c : JsonCodec J) (e : Col J) (d : Bytes)
    (hk : keyLenOk e.key.length = true) (h : d.length < nonceSize) :
    scan a c e (.bytes d) = (e, .err eShort) ∧ scan a c e (.str d) = (e, .err eShort) := by
  have : scan a c e (.bytes d) = (e, .err eShort) := by
    rw [scan_bytes, aesDecrypt_eq]; simp [hk, h]
  exact ⟨this, by rw [scan_str]; exact this⟩

/-- A key whose length is not 16, 24 or 32 is rejected by `Value` and by `Scan` (for every src
    bytes), and the column is unchanged. -/
theorem c18_bad_key_len_err {J} (a : AEAD) (c : JsonCodec J) (e : Col J) (d nonce : Bytes)
    (hk : keyLenOk e.key.length = false) :
    (value a c e nonce).isErr = true ∧
    scan a c e (.bytes d) = (e, .err eKeySize) ∧ scan a c e (.str d) = (e, .err eKeySize) := by
  have : scan a c e (.bytes d) = (e, .err eKeySize) := by
    rw [scan_bytes, aesDecrypt_eq]; simp [hk]
  refine ⟨?_, this, by rw [scan_str]; exact this⟩
  unfold value
  cases e.valid <;> simp [hk, Outcome.isErr]

/-- the key-length test accepts exactly 16, 24 and 32 -/
theorem c18_key_len_exact (n : Nat) : keyLenOk n = true ↔ n = 16 ∨ n = 24 ∨ n = 32 := by
  simp [keyLenOk, or_assoc]

/-- `Valid = false` ⇒ `Value` returns an error (never a ciphertext). -/
theorem c18_invalid_value_err {J} (a : AEAD) (c : JsonCodec J) (e : Col J) (nonce : Bytes)
    (h : e.valid = false) : value a c e nonce = .err eInvalid := by
  simp [value, h]

/-- A src that is neither `[]byte` nor `string` (nil, int64, float64, bool, time.Time) is an
    error and leaves the column untouched. -/
theorem c18_wrong_src_type_err {J} (a : AEAD) (c : JsonCodec J) (e : Col J) (t : String) :
    scan a c e .null = (e, .err eSrcType) ∧ scan a c e (.other t) = (e, .err eSrcType) :=
  ⟨rfl, rfl⟩

/-- When `Scan` returns an error the column is never left `Valid` by that call: either it is
    untouched (decryption failed) or `Valid = false` (deserialisation failed). -/
theorem c18_err_not_validated {J} (a : AEAD) (c : JsonCodec J) (e : Col J) (src : Src) (er : Err)
    (h : (scan a c e src).2 = .err er) :
    (scan a c e src).1 = e ∨ (scan a c e src).1.valid = false := by
  cases src with
  | null => left; rfl
  | other t => left; rfl
  | str d =>
    rw [scan_str, scan_bytes] at h ⊢
    cases hd : aesDecrypt a e.key d with
    | ok pt => right; simp only [hd] at h ⊢; simp [h, Outcome.isOk]
    | err er => left; rfl
    | panic m => left; rfl
  | bytes d =>
    rw [scan_bytes] at h ⊢
    cases hd : aesDecrypt a e.key d with
    | ok pt => right; simp only [hd] at h ⊢; simp [h, Outcome.isOk]
    | err er => left; rfl
    | panic m => left; rfl

/-! #### "Scanning with a different key, or any stored value that was truncated, extended or altered in any bit, returns an error"

This is AES-GCM's authenticity.  `IdealAEAD a Q` — nothing opens except the triples genuinely
sealed (`Q`) — is the explicit hypothesis; what is proved is that the glue turns it into the stated
behaviour: every src that is not *byte for byte* a genuine stored value under the scanning key is
rejected and leaves the column untouched. -/

/-- the general statement: a src whose split is not a genuine triple is rejected -/
theorem c18_altered_rejected {J} (a : AEAD) (Q : List (Bytes × Bytes × Bytes)) (hI : IdealAEAD a Q)
    (c : JsonCodec J) (e : Col J) (d : Bytes)
    (hq : (e.key, d.take nonceSize, d.drop nonceSize) ∉ Q) :
    ∃ er, scan a c e (.bytes d) = (e, .err er) ∧ scan a c e (.str d) = (e, .err er) := by
  have hopen := hI _ _ _ hq
  have hd : ∃ er, aesDecrypt a e.key d = .err er := by
    rw [aesDecrypt_eq]
    split
    · exact ⟨_, rfl⟩
    · split
      · exact ⟨_, rfl⟩
      · rw [hopen]; exact ⟨_, rfl⟩
  obtain ⟨er, hd⟩ := hd
  have h : scan a c e (.bytes d) = (e, .err er) := by rw [scan_bytes, hd]
  exact ⟨er, h, by rw [scan_str]; exact h⟩

/-- one genuine stored value `nonce ++ sealed` under `key`: ANY different byte string, and ANY
    byte string at all under a different key, is rejected -/
theorem c18_only_genuine_accepted {J} (a : AEAD) (key nonce sealed : Bytes)
    (hI : IdealAEAD a [(key, nonce, sealed)]) (c : JsonCodec J) (e : Col J) (d : Bytes)
    (h : d ≠ nonce ++ sealed ∨ e.key ≠ key) :
    ∃ er, scan a c e (.bytes d) = (e, .err er) ∧ scan a c e (.str d) = (e, .err er) := by
  apply c18_altered_rejected a _ hI
  intro hmem
  simp only [List.mem_singleton, Prod.mk.injEq] at hmem
  obtain ⟨hk, ht, hd⟩ := hmem
  rcases h with h | h
  · exact h (by rw [← ht, ← hd, List.take_append_drop])
  · exact h hk

/-- every single-bit flip of a genuine stored value is rejected -/
theorem c18_bit_flip_rejected {J} (a : AEAD) (key nonce sealed : Bytes)
    (hI : IdealAEAD a [(key, nonce, sealed)]) (c : JsonCodec J) (e : Col J)
    (i : Nat) (hi : i < 8 * (nonce ++ sealed).length) :
    ∃ er, scan a c e (.bytes (flipBit (nonce ++ sealed) i)) = (e, .err er) :=
  let ⟨er, h, _⟩ := c18_only_genuine_accepted a key nonce sealed hI c e _ (.inl (flipBit_ne _ i hi))
  ⟨er, h⟩

/-- every truncation (every length `0..n-1`) of a genuine stored value is rejected -/
theorem c18_truncation_rejected {J} (a : AEAD) (key nonce sealed : Bytes)
    (hI : IdealAEAD a [(key, nonce, sealed)]) (c : JsonCodec J) (e : Col J)
    (n : Nat) (h : n < (nonce ++ sealed).length) :
    ∃ er, scan a c e (.bytes ((nonce ++ sealed).take n)) = (e, .err er) := by
  have hne : (nonce ++ sealed).take n ≠ nonce ++ sealed := by
    intro heq
    have := congrArg List.length heq
    simp only [List.length_take] at this
    omega
  let ⟨er, h, _⟩ := c18_only_genuine_accepted a key nonce sealed hI c e _ (.inl hne)
  exact ⟨er, h⟩

/-- every extension (appended bytes) of a genuine stored value is rejected -/
theorem c18_extension_rejected {J} (a : AEAD) (key nonce sealed : Bytes)
    (hI : IdealAEAD a [(key, nonce, sealed)]) (c : JsonCodec J) (e : Col J)
    (extra : Bytes) (h : extra ≠ []) :
    ∃ er, scan a c e (.bytes ((nonce ++ sealed) ++ extra)) = (e, .err er) := by
  have hne : (nonce ++ sealed) ++ extra ≠ nonce ++ sealed := by
    intro heq
    have := congrArg List.length heq
    simp only [List.length_append] at this
    have : extra.length = 0 := by omega
    exact h (List.eq_nil_of_length_eq_zero this)
  let ⟨er, h, _⟩ := c18_only_genuine_accepted a key nonce sealed hI c e _ (.inl hne)
  exact ⟨er, h⟩

/-- scanning the genuine stored value with a different key is rejected -/
theorem c18_wrong_key_rejected {J} (a : AEAD) (key nonce sealed : Bytes)
    (hI : IdealAEAD a [(key, nonce, sealed)]) (c : JsonCodec J) (e : Col J) (h : e.key ≠ key) :
    ∃ er, scan a c e (.bytes (nonce ++ sealed)) = (e, .err er) :=
  let ⟨er, h, _⟩ := c18_only_genuine_accepted a key nonce sealed hI c e _ (.inr h)
  ⟨er, h⟩

/-! #### JsonColumn -/

/-- "an invalid column yields SQL NULL": `Valid = false` ⇒ `Value()` is `(nil, nil)`. -/
theorem c18_json_null_when_invalid {J} (c : JsonCodec J) (j : JCol J) (h : j.valid = false) :
    j.value c = .ok none := by
  simp [JCol.value, h]

/-- "JsonColumn.Scan(Value(x)) restores x for every JSON-representable x": for every receiver
    state `r` for which `x` is representable, from a `[]byte` and from a `string` src, with
    `Valid = true` afterwards. -/
theorem c18_json_roundtrip {J} (c : JsonCodec J) (j r : JCol J) (hv : j.valid = true)
    (hrep : c.Representable r.val j.val) :
    ∃ b, j.value c = .ok (some b) ∧
      r.scan c (.bytes b) = ({ val := j.val, valid := true }, .ok ()) ∧
      r.scan c (.str b) = ({ val := j.val, valid := true }, .ok ()) := by
  obtain ⟨b, hm, hu⟩ := hrep
  refine ⟨b, by simp [JCol.value, hv, hm], ?_, ?_⟩ <;> simp [JCol.scan, hu]

/-- "malformed or wrongly typed input yields an error": bytes that encoding/json rejects for `T`
    give an error and never set `Valid`; a src of another Go type gives an error and changes
    nothing; nil is a no-op; and `Scan`/`Value` never panic. -/
theorem c18_json_bad_input_err {J} (c : JsonCodec J) (j : JCol J) :
    (∀ b, (c.unmarshal j.val b).2 = false →
        (j.scan c (.bytes b)).2 = .err eJson ∧ (j.scan c (.str b)).2 = .err eJson ∧
        (j.scan c (.bytes b)).1.valid = j.valid ∧ (j.scan c (.str b)).1.valid = j.valid) ∧
    (∀ t, j.scan c (.other t) = (j, .err eSrcType)) ∧
    j.scan c .null = (j, .ok ()) ∧
    (∀ src m, (j.scan c src).2 ≠ .panic m) ∧ (∀ m, j.value c ≠ .panic m) := by
  refine ⟨?_, fun _ => rfl, rfl, ?_, ?_⟩
  · intro b hb
    simp [JCol.scan, hb]
  · intro src m
    cases src <;> simp [JCol.scan] <;> split <;> simp
  · intro m
    unfold JCol.value
    split
    · simp
    · split <;> simp

/-- a successful `JsonColumn.Scan` of bytes always leaves `Valid = true` and the decoded value -/
theorem c18_json_scan_ok_valid {J} (c : JsonCodec J) (j : JCol J) (b : Bytes)
    (h : (c.unmarshal j.val b).2 = true) :
    j.scan c (.bytes b) = ({ val := (c.unmarshal j.val b).1, valid := true }, .ok ()) := by
  simp [JCol.scan, h]

/-! #### Non-vacuity: the hypotheses are satisfiable and the conclusions are about real states -/

/-- a toy AEAD that is `Correct` -/
def toyAEAD : AEAD where
  sealAE _ _ p := 0xAA :: p
  openAE _ _ c := match c with
    | 0xAA :: p => some p
    | _ => none

example : toyAEAD.Correct := fun _ _ _ => rfl

/-- an AEAD that is correct at a genuine triple AND ideal w.r.t. it -/
def pointToy (key nonce sealed pt : Bytes) : AEAD where
  sealAE _ _ _ := sealed
  openAE k n c := if k = key ∧ n = nonce ∧ c = sealed then some pt else none

example (key nonce sealed pt : Bytes) : IdealAEAD (pointToy key nonce sealed pt) [(key, nonce, sealed)] := by
  intro k n c h
  simp only [List.mem_singleton, Prod.mk.injEq] at h
  simp [pointToy, h]

/-- a JSON codec for `J = Bool` for which both values are representable for every receiver -/
def toyJson : JsonCodec Bool where
  marshal x := some [if x then 1 else 0]
  unmarshal prior b := match b with
    | [1] => (true, true)
    | [0] => (false, true)
    | _ => (prior, false)

example (p x : Bool) : toyJson.Representable p x := by
  cases x <;> exact ⟨_, rfl, rfl⟩

/-- a concrete int16 column really round-trips through the model (`0xBEEF`, 16-byte key) -/
example :
    let e : Col Bool := { val := .num .i16 0xBEEF#16, valid := true, key := List.replicate 16 7 }
    let r : Col Bool := { val := .num .i16 0#16, valid := false, key := List.replicate 16 7 }
    let nonce : Bytes := List.replicate 12 9
    value toyAEAD toyJson e nonce = .ok (nonce ++ [0xAA, 0xBE, 0xEF]) ∧
    scan toyAEAD toyJson r (.bytes (nonce ++ [0xAA, 0xBE, 0xEF])) = ({ r with val := e.val, valid := true }, .ok ()) := by
  constructor <;> rfl

/-- … and a 3-byte stored value is an error, not a panic (the pinned-tree defect) -/
example :
    let r : Col Bool := { val := .str [], valid := false, key := List.replicate 16 7 }
    scan toyAEAD toyJson r (.bytes [1, 2, 3]) = (r, .err eShort) := by
  rfl

end Ekit.Sqlx
