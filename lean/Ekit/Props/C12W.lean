/-
C12 — non-vacuity witnesses (review additions).

`c12_done_not_early` / `c12_done_all_ran` assume `graceful ∧ cancelled` (the channel returned by a successful
Shutdown is closed); `c12_shutdown_completes_partial` assumes `HP`.  Neither file showed that these hypotheses
are satisfiable.  Here a complete graceful shutdown is replayed through the model: Start, two Submits, Shutdown
(CAS + close) while both tasks are still queued, the worker drains the closed queue, sees `!ok`, brings `totalGo`
to 0, wins the closing→stopped CAS and cancels.  Along the way (just after Shutdown returned) `HP` holds.
-/
import Ekit.Props.C12
import Ekit.Props.C10W

namespace Ekit.Pool
open Ekit.Conc Ekit.Pool.Witness

def shutdownW : List CAct := [.invShutdown, .sdLoad1, .sdLoad2, .sdLoad3, .sdCas, .sdClose, .ret]

/-- up to the return of Shutdown: both accepted tasks still queued, one worker alive -/
def traceGrace1 : List Label :=
  startW ++ callSteps 0 (subRunning .ret) ++ callSteps 0 (subRunning .ret) ++ callSteps 1 shutdownW

/-- the worker runs both tasks from the closed queue, then takes the `!ok` exit and closes the done channel -/
def traceGrace2 : List Label :=
  workSteps 0 runRet2 ++ workSteps 0 runRet ++
  workSteps 0 [.selClosed, .leaveGroup, .clLock, .clWrite, .clRLock, .clRead, .clCas, .clCancel]

structure Obs12 where
  life : Life
  graceful : Bool
  cancelled : Bool
  badExits : Nat
  liveAtShut : Nat
  totalGo : Nat
  queue : List Nat
  pcs : List WPc
  runs : List Nat
  subRes : List Res
  deriving DecidableEq, Repr

def obs12 (s : St) : Obs12 :=
  ⟨s.life, s.graceful, s.cancelled, s.badExits, s.liveAtShut, s.totalGo, s.queue, s.workers.map (·.pc),
   s.tasks.map (·.runs), s.tasks.map (·.subRes)⟩

theorem c12_grace_replay1 : ((sys cfgW).run init traceGrace1).map obs12 =
    some ⟨.closing, true, false, 0, 1, 1, [0, 1], [.sel], [0, 0], [.ok, .ok]⟩ := by rfl

theorem c12_grace_replay2 : ((sys cfgW).run init (traceGrace1 ++ traceGrace2)).map obs12 =
    some ⟨.stopped, true, true, 0, 1, 0, [], [.exited], [1, 1], [.ok, .ok]⟩ := by rfl

/-- **Non-vacuity of the partial-liveness hypothesis**: a reachable state satisfying `HP` (Shutdown succeeded
    with a worker alive, nothing closed yet, no bad exit), with two accepted tasks still queued. -/
theorem c12_witness_HP : ∃ s, (sys cfgW).Reachable s ∧ cfgW.Valid ∧ HP s ∧ s.queue = [0, 1] := by
  have hrep := c12_grace_replay1
  cases hrun : (sys cfgW).run init traceGrace1 with
  | none => rw [hrun] at hrep; cases hrep
  | some s =>
    rw [hrun] at hrep
    simp only [Option.map_some, Option.some.injEq] at hrep
    refine ⟨s, System.reachable_of_run (sys cfgW) traceGrace1 System.Reachable.init hrun, cfgW_valid,
      ⟨congrArg Obs12.graceful hrep, congrArg Obs12.cancelled hrep, congrArg Obs12.badExits hrep, ?_⟩,
      congrArg Obs12.queue hrep⟩
    have : s.liveAtShut = 1 := congrArg Obs12.liveAtShut hrep
    omega

/-- **Graceful Shutdown can complete** (non-vacuity of `c12_done_not_early` / `c12_done_all_ran`): from that
    state the model reaches a state in which the done channel IS closed by the graceful path
    (`graceful ∧ cancelled`), both accepted tasks have run exactly once, the queue is empty and `totalGo = 0`. -/
theorem c12_witness_graceful_completion :
    ∃ s, (sys cfgW).Reachable s ∧ cfgW.Valid ∧ s.graceful = true ∧ s.cancelled = true ∧ s.life = .stopped ∧
      s.queue = [] ∧ s.totalGo = 0 ∧ s.tasks.map (·.runs) = [1, 1] ∧ s.tasks.map (·.subRes) = [.ok, .ok] := by
  have hrep := c12_grace_replay2
  cases hrun : (sys cfgW).run init (traceGrace1 ++ traceGrace2) with
  | none => rw [hrun] at hrep; cases hrep
  | some s =>
    rw [hrun] at hrep
    simp only [Option.map_some, Option.some.injEq] at hrep
    exact ⟨s, System.reachable_of_run (sys cfgW) _ System.Reachable.init hrun, cfgW_valid,
      congrArg Obs12.graceful hrep, congrArg Obs12.cancelled hrep, congrArg Obs12.life hrep,
      congrArg Obs12.queue hrep, congrArg Obs12.totalGo hrep, congrArg Obs12.runs hrep, congrArg Obs12.subRes hrep⟩

end Ekit.Pool
