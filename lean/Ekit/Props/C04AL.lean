/-
C04 — the REGENERATED ArrayList.

`Ekit/Generated/ArrayListGo.lean` is list/array_list.go translated by a go/ast syntax dump (harness/minigoal) into the deep
embedding of Ekit/MiniGo/LangAL.lean; all semantics is in that interpreter (index out of range = panic, ill-typed = stuck,
calls consume fuel; slices alias their backing arrays; `slice.Add` / `slice.Delete` / `slice.Shrink` mean the TRANSLATED
internal/slice functions of Ekit/Generated/SliceGo.lean run by the LangSL interpreter on the same heap; the runtime's
capacity choice for an allocating `append` is an oracle).  Lemmas/ALRefine.lean proves that every translated public call
simulates the hand-written value-level model `ArrayList.step` (Model/Lists.lean) — `Rel`: the receiver's slice is a
well-formed slice of the heap whose first `len` slots and capacity are the model's slice — using `add_sim`, `delete_sim`,
`shrink_sim` (Lemmas/SLRefine.lean) for the calls into internal/slice.  Composed with `c04_arrayList_step_refines` /
`c04_arrayList_run_refines` (Props/C04.lean) this transfers C04 to the program text that is regenerated from the current
tree: from `NewArrayList(cap)` (or `NewArrayListOf` of a well-formed slice), after every history of translated calls, with
fuel for two nested calls, slice fuel `len + 2` and an oracle offering room, the interpreter does not panic / get stuck,
returns exactly what the abstract sequence returns and its backing array holds the abstract sequence's contents.
Property theorems only; proofs are in Lemmas/ALRefine.lean.
-/
import Ekit.Lemmas.ALRefine

namespace Ekit.MiniGo.AL.Refine
open Ekit.MiniGo.AL Ekit.Gen.ArrayListGo
open Ekit.Lists (Op Out Ret ArrayList)
open Ekit.MiniGo.SL (Val)

/-- the constructor `NewArrayList(cap)` run by the interpreter builds (a state related to) the model's `ArrayList.new cap` -/
theorem c04_al_new (sf fuel : Nat) (hf : 1 ≤ fuel) (cap : Int) (hc : 0 ≤ cap) :
    ∃ v s m, call sf procs fuel .NewArrayList [.int cap] emptySt = .ok (v, s) ∧ ArrayList.new cap = .ok m ∧ Rel s m ∧
      contents s = [] := by
  obtain ⟨f, rfl⟩ : ∃ f, fuel = f + 1 := ⟨fuel - 1, by omega⟩
  obtain ⟨v, s, m, h1, h2, h3⟩ := New_sim sf f emptySt cap hc
  refine ⟨v, s, m, h1, h2, h3, ?_⟩
  rw [rel_contents h3]
  have h1 : ¬ cap < 0 := by omega
  simp only [ArrayList.new, if_neg h1] at h2
  injection h2 with h2; subst h2; rfl

/-- `NewArrayListOf(ts)` on a well-formed slice of the heap: the list IS that slice (no copy) -/
theorem c04_al_newOf (sf fuel : Nat) (hf : 1 ≤ fuel) (st : St) (a l c : Nat) (hw : Ekit.MiniGo.SL.Refine.WFS st.mem a l c) :
    ∃ v s, call sf procs fuel .NewArrayListOf [.slice (some a) l c] st = .ok (v, s) ∧
      Rel s (ArrayList.ofSlice ((st.mem.arrs a).take l) c) ∧ contents s = (st.mem.arrs a).take l := by
  obtain ⟨f, rfl⟩ : ∃ f, fuel = f + 1 := ⟨fuel - 1, by omega⟩
  obtain ⟨v, s, h1, h2⟩ := NewOf_sim sf f st a l c hw
  exact ⟨v, s, h1, h2, rel_contents h2⟩

/-- **one call**: from a related state the translated procedure does not panic / get stuck / diverge, returns the model's
    — hence the abstract sequence's — result, and re-establishes the relation; the contents of its backing array are the
    abstract sequence's. -/
theorem c04_al_step_refines (sf fuel g : Nat) (st : St) (m : ArrayList) (h : Rel st m) (op : Op)
    (ht : translated op = true) (hf : 2 ≤ fuel) (hsf : m.s.vals.length + 2 ≤ sf) (hroom : need m.s.vals.length op ≤ g) :
    ∃ v st', runOp sf fuel st g op = .ok (v, st') ∧ Rel st' (m.step g op).1 ∧
      contents st' = (Ekit.Lists.Spec.step (contents st) op).1 ∧ OutIs (Ekit.Lists.Spec.step (contents st) op).2 v := by
  obtain ⟨v, st', h1, h2, h3⟩ := step_sim sf fuel g st m h op ht hf hsf hroom
  have hs := Ekit.Lists.c04_arrayList_step_refines m g op
  rw [rel_contents h, ← hs]
  exact ⟨v, st', h1, h2, rel_contents h2, h3⟩

/-- C04 for the regenerated ArrayList: every admissible history of translated calls (growth choice per call) from a related
    state is executed by the interpreter without panic, returns exactly what the abstract sequence returns and leaves the
    abstract sequence's contents in the backing array. -/
theorem c04_al_run_refines (sf fuel : Nat) (hf : 2 ≤ fuel) (ops : List (Nat × Op)) (st : St) (m : ArrayList) (h : Rel st m)
    (had : Admissible sf m ops) :
    ∃ vs st', runOps sf fuel st ops = .ok (vs, st') ∧ Rel st' (Ekit.Lists.ArrayList.run m ops).1 ∧
      contents st' = (Ekit.Lists.Spec.run (contents st) (ops.map (·.2))).1 ∧
      Forall₂ OutIs (Ekit.Lists.Spec.run (contents st) (ops.map (·.2))).2 vs := by
  obtain ⟨vs, st', h1, h2, h3⟩ := run_sim sf fuel hf ops st m h had
  have hs := Ekit.Lists.c04_arrayList_run_refines m ops
  rw [rel_contents h, ← hs]
  exact ⟨vs, st', h1, h2, rel_contents h2, h3⟩

/-! non-vacuity (cheap for the kernel: no interpreter run on a heap closure) -/
example : translated (.append [1, 2]) = true ∧ translated (.delete 0) = true ∧ translated .asSlice = false := ⟨rfl, rfl, rfl⟩
/-- a concrete history is admissible from `NewArrayList(2)` with growth choice 4 and slice fuel 10 -/
example : Admissible 10 ⟨⟨[], 2⟩⟩ [(4, .append [1, 2, 3]), (0, .delete 0), (0, .get 2)] := by
  simp [Admissible, translated, need, ArrayList.step, Ekit.Lists.GoSlice.append, Ekit.Lists.sliceDelete, Ekit.Lists.shiftLeft,
    Ekit.Lists.sliceShrink, Ekit.Gen.calCapacity]
/-- the results really have the advertised shapes -/
example : OutIs (.ok (.val 3)) (.pair (.int 3) .nilErr) ∧ OutIs (.err (.idx 3 5)) (.errIdx 3 5) ∧
    ¬ OutIs (.ok .unit) (.int 0) := ⟨rfl, Or.inl rfl, by simp [OutIs]⟩

end Ekit.MiniGo.AL.Refine
