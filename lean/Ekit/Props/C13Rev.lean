/-
C13 — review additions (hostile-referee pass over Ekit/Props/C13.lean).

What was missing / weak and is added here (all about `Ekit.Cond.step`, the system of C13.lean):

* `c13_thread_progress`, `c13_mu_holder_can_move`, `c13_no_deadlock` — the *complete* enabledness
  statement: every thread inside a call either has an enabled step of its own, or is a waiter
  parked in the outer select that is still linked (or is just being sent to) with a live context,
  or is blocked on `mu` / on `c.L` held by **another** thread; the holder of `mu` can always move,
  and the waits-for chain has length ≤ 2, so no state is deadlocked inside the library.
  (C13.lean had the pieces for the holder of `mu` and for the outer select only.)
* `c13_trace_nil_eq_signals_enough` — clause "while enough non-cancelled waiters remain #nil =
  #Signals" with the hypothesis stated as a *cause* (at every Signal / hand-off length check of the
  run some enqueued waiter is still unsignalled) instead of the *outcome* (`sigEmpty = 0`,
  `dropped = 0`) that `c13_nil_eq_signals` assumes.
* `c13_quiescent_general` — the quiescent count with Broadcasts and empty-list events.
* `c13_snap_set_only_at_lock`, `c13_sent_log_faithful`, `c13_ghost_irrelevant` — the ghost fields
  mean what the doc comments of C13.lean say (snapshot = list at lock time, log = tokens really put
  into channels) and never influence a guard or a non-ghost field.
* `c13_broadcast_covers_waiting`, `c13_broadcast_whole_call` — "Broadcast releases every goroutine
  waiting when it is called", as a statement over a run segment from the lock to the unlock.
* `c13_fresh_node_clean` — a (new or re-used) node starts its life with an empty channel, so the
  token a Wait receives was sent during *this* call.
* non-vacuity: explicit runs from `init` (Broadcast with two waiters, pool reuse after giving up with
  a signaller that holds `c.L`, a double hand-off through two cancelled waiters, a state with a token
  in hand, a waiter blocked on `c.L` held by a client).
-/
import Ekit.Props.C13
import Ekit.Lemmas.CondRev

namespace Ekit.Cond
open Ekit.Conc

theorem reach_step {s s' : State} {l : Label} (hr : Reachable s) (hs : step s l = some s') : Reachable s' :=
  System.Reachable.step hr (show sys.toSystem.step s l = some s' from hs)

/-! ### Thread progress / no deadlock (enabledness, safety) -/

/-- the thread is about to acquire `notifyList.mu` -/
def Pc.wantsMu : Pc → Bool
  | .wAddLock | .wCtxLock _ | .sLock | .bLock => true
  | _ => false

theorem actor_ex {s : State} {t : Tid} (l : Label) (ha : l.actor = some t) (h : (step s l).isSome = true) :
    ∃ l s', l.actor = some t ∧ step s l = some s' := by
  cases hs : step s l with
  | none => simp [hs] at h
  | some s' => exact ⟨l, s', ha, hs⟩

/-- **Thread progress.**  In every reachable state, every thread that is inside a call
    (1) has an enabled step of its own, or
    (2) is a waiter at the outer select with an empty channel and a live context — and then its node
        is linked (the next Signal/Broadcast/hand-off reaches it) or is the node the holder of `mu`
        is just sending to, or
    (3) is about to lock `mu`, which another thread holds, or
    (4) is at the deferred `c.L.Lock()`, and another thread holds `c.L`. -/
theorem c13_thread_progress {s : State} (hr : Reachable s) (t : Tid) (hne : s.pc t ≠ .idle) :
    (∃ l s', l.actor = some t ∧ step s l = some s')
    ∨ (∃ n, s.pc t = .wSelect n ∧ n ∉ s.full ∧ s.ctx t = false ∧ (n ∈ s.list ∨ s.tgt = some n))
    ∨ ((s.pc t).wantsMu = true ∧ ∃ u, u ≠ t ∧ s.mu = some u)
    ∨ (∃ r u, s.pc t = .wRelock r ∧ u ≠ t ∧ s.L = some u) := by
  have hi := inv_reachable hr
  have hsend : ∀ m, (s.pc t).target = some m → m ∉ s.full := fun m hm => (c13_send_never_blocks hr t m hm).1
  have hmuNe : ∀ u, (s.pc t).inMu = false → s.mu = some u → u ≠ t := by
    intro u h1 h2 h3; subst h3; have := hi.muHeld u h2; simp [h1] at this
  have lockCase : (s.pc t).inMu = false → (s.mu = none → ∃ l s', l.actor = some t ∧ step s l = some s') →
      (s.pc t).wantsMu = true →
      (∃ l s', l.actor = some t ∧ step s l = some s') ∨
      (∃ n, s.pc t = .wSelect n ∧ n ∉ s.full ∧ s.ctx t = false ∧ (n ∈ s.list ∨ s.tgt = some n)) ∨
      ((s.pc t).wantsMu = true ∧ ∃ u, u ≠ t ∧ s.mu = some u) ∨
      (∃ r u, s.pc t = .wRelock r ∧ u ≠ t ∧ s.L = some u) := by
    intro h1 h2 h3
    cases hm : s.mu with
    | none => exact Or.inl (h2 hm)
    | some u => exact Or.inr (Or.inr (Or.inl ⟨h3, u, hmuNe u h1 hm, rfl⟩))
  cases hp : s.pc t
  case idle => exact absurd hp hne
  case fault f => exact absurd hp (c13_no_fault hr t f)
  case ccLoad k => exact Or.inl (actor_ex (.ccLoad t) rfl (by simp [step, hp]))
  case ccCas k => exact Or.inl (actor_ex (.ccCas t) rfl (by simp only [step, hp]; split <;> rfl))
  case ccLoad2 k => exact Or.inl (actor_ex (.ccLoad2 t) rfl (by simp [step, hp]))
  case firstUse k => exact Or.inl (actor_ex (.firstUse t) rfl (by simp [step, hp]))
  case wAddLock =>
    have hin := hi.initOK t (by simp [hp, Pc.pastInit])
    rw [← hp]
    exact lockCase (by simp [hp, Pc.inMu])
      (fun hm => actor_ex (.addLock t) rfl (by simp [step, hp, hin, hm])) (by simp [hp, Pc.wantsMu])
  case wAlloc => exact Or.inl (actor_ex (.alloc t none) rfl (by simp [step, hp]))
  case wPush n => exact Or.inl (actor_ex (.push t) rfl (by simp [step, hp]))
  case wAddUnlock n => exact Or.inl (actor_ex (.addUnlock t) rfl (by simp [step, hp]))
  case wUnlockL n => exact Or.inl (actor_ex (.waitUnlockL t) rfl (by simp only [step, hp]; split <;> rfl))
  case wSelect n =>
    by_cases hf : n ∈ s.full
    · exact Or.inl (actor_ex (.selRecv t) rfl (by simp [step, hp, hf]))
    · cases hc : s.ctx t with
      | true => exact Or.inl (actor_ex (.selCtx t) rfl (by simp [step, hp, hc]))
      | false =>
        have := hi.must t n (by simp [hp, Pc.node]) (by simp [hp, Pc.listPc])
        refine Or.inr (Or.inl ⟨n, rfl, hf, rfl, ?_⟩)
        rcases this with h | h | h
        · exact Or.inl h
        · exact absurd h hf
        · exact Or.inr h
  case wCtxLock n =>
    rw [← hp]
    exact lockCase (by simp [hp, Pc.inMu])
      (fun hm => actor_ex (.ctxLock t) rfl (by simp [step, hp, hm])) (by simp [hp, Pc.wantsMu])
  case wInner n =>
    by_cases hf : n ∈ s.full
    · exact Or.inl (actor_ex (.innerRecv t) rfl (by simp [step, hp, hf]))
    · exact Or.inl (actor_ex (.innerDefault t) rfl (by simp [step, hp, hf]))
  case wFwdLen n => exact Or.inl (actor_ex (.fwdLen t) rfl (by simp only [step, hp]; split <;> rfl))
  case wFwdPop n => exact Or.inl (actor_ex (.fwdPop t) rfl (by simp only [step, hp]; split <;> rfl))
  case wFwdSend n m =>
    have := hsend m (by simp [hp, Pc.target])
    exact Or.inl (actor_ex (.fwdSend t) rfl (by simp [step, hp, this]))
  case wRemove n => exact Or.inl (actor_ex (.remove t) rfl (by simp only [step, hp]; split <;> rfl))
  case wCtxErr n => exact Or.inl (actor_ex (.ctxErr t) rfl (by simp [step, hp]))
  case wCtxUnlock n r => exact Or.inl (actor_ex (.ctxUnlock t) rfl (by simp [step, hp]))
  case wFree n r => exact Or.inl (actor_ex (.free t) rfl (by simp [step, hp]))
  case wRelock r =>
    cases hL : s.L with
    | none => exact Or.inl (actor_ex (.relockL t) rfl (by simp [step, hp, hL]))
    | some u =>
      refine Or.inr (Or.inr (Or.inr ⟨r, u, rfl, ?_, rfl⟩))
      intro h; subst h
      exact offL_reachable hr u (by simp [hp, Pc.offL]) hL
  case wRet r => exact Or.inl (actor_ex (.resWait t r) rfl (by cases r <;> simp [step, hp]))
  case sLock =>
    have hin := hi.initOK t (by simp [hp, Pc.pastInit])
    rw [← hp]
    exact lockCase (by simp [hp, Pc.inMu])
      (fun hm => actor_ex (.sLock t) rfl (by simp [step, hp, hin, hm])) (by simp [hp, Pc.wantsMu])
  case sLen => exact Or.inl (actor_ex (.sLen t) rfl (by simp only [step, hp, if_true]; split <;> rfl))
  case sPop => exact Or.inl (actor_ex (.sPop t) rfl (by simp only [step, hp, if_true]; split <;> rfl))
  case sSend m =>
    have := hsend m (by simp [hp, Pc.target])
    exact Or.inl (actor_ex (.sSend t) rfl (by simp [step, hp, this]))
  case sUnlock => exact Or.inl (actor_ex (.sUnlock t) rfl (by simp [step, hp]))
  case sRet => exact Or.inl (actor_ex (.resSignal t) rfl (by simp [step, hp]))
  case bLock =>
    have hin := hi.initOK t (by simp [hp, Pc.pastInit])
    rw [← hp]
    exact lockCase (by simp [hp, Pc.inMu])
      (fun hm => actor_ex (.bLock t) rfl (by simp [step, hp, hin, hm])) (by simp [hp, Pc.wantsMu])
  case bLen => exact Or.inl (actor_ex (.bLen t) rfl (by simp only [step, hp, if_true]; split <;> rfl))
  case bPop => exact Or.inl (actor_ex (.bPop t) rfl (by simp only [step, hp, if_true]; split <;> rfl))
  case bSend m =>
    have := hsend m (by simp [hp, Pc.target])
    exact Or.inl (actor_ex (.bSend t) rfl (by simp [step, hp, this]))
  case bUnlock => exact Or.inl (actor_ex (.bUnlock t) rfl (by simp [step, hp]))
  case bRet => exact Or.inl (actor_ex (.resBroadcast t) rfl (by simp [step, hp]))

/-- Referee's evidence: the conclusion of `c13_mu_holder_enabled_partial` (`∃ l s', step s l = some s'`)
    holds in **every** state, reachable or not, lock held or not, because the environment label
    `expire` is always enabled — as stated, that theorem says nothing.  (Its proof does exhibit the
    holder's own labels; the statement just fails to say so.)  `c13_mu_holder_can_move` is the
    repaired statement. -/
example (s : State) : ∃ l s', step s l = some s' := ⟨.expire 0, _, rfl⟩

/-- The holder of `mu` can always move — with its own label (strengthens
    `c13_mu_holder_enabled_partial`, which does not say *whose* step is enabled). -/
theorem c13_mu_holder_can_move {s : State} (hr : Reachable s) (u : Tid) (h : s.mu = some u) :
    ∃ l s', l.actor = some u ∧ step s l = some s' := by
  have hi := inv_reachable hr
  have hin := hi.muHeld u h
  have hne : s.pc u ≠ .idle := by intro h0; simp [h0, Pc.inMu] at hin
  rcases c13_thread_progress hr u hne with h1 | ⟨n, hp, _⟩ | ⟨hw, _⟩ | ⟨r, v, hp, _⟩
  · exact h1
  · simp [hp, Pc.inMu] at hin
  · cases hp : s.pc u <;> simp_all [Pc.inMu, Pc.wantsMu]
  · simp [hp, Pc.inMu] at hin

/-- **No deadlock inside the library.**  If some thread `t` is inside a call, then either `t` is a
    legitimately parked waiter (outer select, empty channel, live context, node linked or being sent
    to), or *some* thread inside a call has an enabled step, or `t` waits at the deferred
    `c.L.Lock()` for a **client** (a thread outside any call) that holds `c.L`.  The waits-for chain
    is: deferred `L.Lock()` → holder of `L` (a Wait before its `L.Unlock()`, or a Signal/Broadcast
    called with `L` held) → holder of `mu` → always enabled. -/
theorem c13_no_deadlock {s : State} (hr : Reachable s) (t : Tid) (hne : s.pc t ≠ .idle) :
    (∃ n, s.pc t = .wSelect n ∧ n ∉ s.full ∧ s.ctx t = false ∧ (n ∈ s.list ∨ s.tgt = some n))
    ∨ (∃ u l s', l.actor = some u ∧ step s l = some s')
    ∨ (∃ r u, s.pc t = .wRelock r ∧ s.L = some u ∧ s.pc u = .idle) := by
  rcases c13_thread_progress hr t hne with h1 | h2 | ⟨_, u, _, hm⟩ | ⟨r, u, hp, hut, hL⟩
  · exact Or.inr (Or.inl ⟨t, h1⟩)
  · exact Or.inl h2
  · exact Or.inr (Or.inl ⟨u, c13_mu_holder_can_move hr u hm⟩)
  · by_cases hu : s.pc u = .idle
    · exact Or.inr (Or.inr ⟨r, u, hp, hL, hu⟩)
    · refine Or.inr (Or.inl ?_)
      have hoff := offL_reachable hr u
      rcases c13_thread_progress hr u hu with h1 | ⟨n, hpu, _⟩ | ⟨_, v, _, hm⟩ | ⟨r', v, hpu, _⟩
      · exact ⟨u, h1⟩
      · exact absurd hL (hoff (by simp [hpu, Pc.offL]))
      · exact ⟨v, c13_mu_holder_can_move hr v hm⟩
      · exact absurd hL (hoff (by simp [hpu, Pc.offL]))

/-- A token sitting in a channel is not stuck: its owner is enqueued (`c13_token_has_receiver`) and
    either can move itself, or waits for `mu` whose holder can move.  (Gap of C13.lean: there the
    receive was shown enabled only for an owner standing *at* the outer select.) -/
theorem c13_token_receiver_can_progress {s : State} (hr : Reachable s) (n : NodeId) (h : n ∈ s.full) :
    ∃ u, (s.pc u).node = some n ∧
      ((∃ l s', l.actor = some u ∧ step s l = some s') ∨
       (∃ v, v ≠ u ∧ s.mu = some v ∧ ∃ l s', l.actor = some v ∧ step s l = some s')) := by
  obtain ⟨u, hn, hf⟩ := c13_token_has_receiver hr n h
  refine ⟨u, hn, ?_⟩
  have hne : s.pc u ≠ .idle := by intro h0; simp [h0, Pc.node] at hn
  rcases c13_thread_progress hr u hne with h1 | ⟨k, hp, hk, _⟩ | ⟨_, v, hv, hm⟩ | ⟨r, v, hp, _⟩
  · exact Or.inl h1
  · simp [hp, Pc.node] at hn; subst hn; exact absurd h hk
  · exact Or.inr ⟨v, hv, hm, c13_mu_holder_can_move hr v hm⟩
  · simp [hp, Pc.node] at hn

/-! ### Ghost fields: meaning and irrelevance -/

/-- `snap t` changes only when `t` acquires `mu` in a Signal / Broadcast / ctx arm, and then it is the
    list at that instant (and `sent t` is reset, `mu` was free and is now held by `t`). -/
theorem c13_snap_set_only_at_lock {s s' : State} {l : Label} (hs : step s l = some s') (t : Tid)
    (h : s'.snap t ≠ s.snap t) :
    (l = .ctxLock t ∨ l = .sLock t ∨ l = .bLock t) ∧ s'.snap t = s.list ∧ s'.sent t = [] ∧
      s.mu = none ∧ s'.mu = some t ∧ s'.list = s.list := by
  step_cases hs <;> simp_all [upd_apply] <;> (split at h <;> simp_all)

/-- `sent t` changes only by the reset at a lock acquisition of `t`, or by appending the node `m` that
    `t` really puts a token into (`full` gains exactly `m`). -/
theorem c13_sent_log_faithful {s s' : State} {l : Label} (hs : step s l = some s') (t : Tid)
    (h : s'.sent t ≠ s.sent t) :
    ((l = .ctxLock t ∨ l = .sLock t ∨ l = .bLock t) ∧ s'.sent t = []) ∨
    (∃ m, (s.pc t).target = some m ∧ (l = .sSend t ∨ l = .bSend t ∨ l = .fwdSend t) ∧
      s'.sent t = s.sent t ++ [m] ∧ s'.full = m :: s.full ∧ m ∉ s.full) := by
  step_cases hs <;> simp_all [upd_apply] <;> (try (split at h <;> simp_all [Pc.target])) <;>
    simp_all [Pc.target]

/-- the state with all ghost fields (counters, `nilPend`, `snap`, `sent`) erased -/
def State.eraseGhost (s : State) : State :=
  { s with sigChecks := 0, sigIssued := 0, sigEmpty := 0, bcIssued := 0, fwd := 0, dropped := 0,
           consumedNil := 0, retNil := 0, retErr := 0, nilPend := [], snap := fun _ => [], sent := fun _ => [] }

/-- **Ghost fields are ghost**: no guard reads them and no non-ghost field depends on them — a label
    is enabled in `s` iff it is enabled with all ghost fields erased, and the non-ghost parts of the
    successors agree.  (Model/Cond.lean only *says* "never read by a guard".) -/
theorem c13_ghost_irrelevant (s : State) (l : Label) :
    (step s.eraseGhost l).map State.eraseGhost = (step s l).map State.eraseGhost := by
  cases l
  case addLock t =>
    simp only [step, State.setPc]
    by_cases hp : s.pc t = .wAddLock <;> cases hI : s.inited <;> cases hM : s.mu <;>
      simp [hp, hI, hM, State.eraseGhost]
  case sLock t =>
    simp only [step, State.setPc]
    by_cases hp : s.pc t = .sLock <;> cases hI : s.inited <;> cases hM : s.mu <;>
      simp [hp, hI, hM, State.eraseGhost]
  case bLock t =>
    simp only [step, State.setPc]
    by_cases hp : s.pc t = .bLock <;> cases hI : s.inited <;> cases hM : s.mu <;>
      simp [hp, hI, hM, State.eraseGhost]
  case alloc t c =>
    simp only [step]
    by_cases hp : s.pc t = .wAlloc <;> cases c <;> simp [hp, State.eraseGhost]
    rename_i n
    by_cases hn : n ∈ s.pool <;> simp [hn, State.eraseGhost]
  case resWait t r =>
    simp only [step]
    by_cases hp : s.pc t = .wRet r <;> cases r <;> simp [hp, State.eraseGhost]
  case sPop t =>
    simp only [step, State.setPc]
    by_cases hp : s.pc t = .sPop <;> cases hl : s.list <;> simp [hp, hl, State.eraseGhost]
  case bPop t =>
    simp only [step, State.setPc]
    by_cases hp : s.pc t = .bPop <;> cases hl : s.list <;> simp [hp, hl, State.eraseGhost]
  all_goals
    (simp only [step, State.setPc, show ∀ s : State, s.eraseGhost.pc = s.pc from fun _ => rfl,
      show ∀ s : State, s.eraseGhost.ctx = s.ctx from fun _ => rfl,
      show ∀ s : State, s.eraseGhost.L = s.L from fun _ => rfl,
      show ∀ s : State, s.eraseGhost.mu = s.mu from fun _ => rfl,
      show ∀ s : State, s.eraseGhost.checker = s.checker from fun _ => rfl,
      show ∀ s : State, s.eraseGhost.list = s.list from fun _ => rfl,
      show ∀ s : State, s.eraseGhost.full = s.full from fun _ => rfl,
      show ∀ s : State, s.eraseGhost.pool = s.pool from fun _ => rfl]) <;>
    (repeat' split) <;>
    (first
      | rfl
      | (simp [*, apply_ite (Option.map State.eraseGhost), State.eraseGhost]; done))

/-! ### Fresh / re-used nodes, Broadcast as a whole call -/

/-- A node handed out by the pool (new, or re-used after an earlier waiter gave up or was woken) starts
    with an empty channel, unlinked, and is not a send target: the token its Wait may later receive
    was sent **during this call** (sharpening of clause "returns only after a Signal/Broadcast" from a
    count to the individual call; with `c13_pool_clean` this is the pooled-node-reuse clause). -/
theorem c13_fresh_node_clean {s : State} (hr : Reachable s) (t : Tid) (n : NodeId) (h : s.pc t = .wPush n) :
    n ∉ s.full ∧ n ∉ s.list ∧ s.tgt ≠ some n := by
  have hi := inv_reachable hr
  have hn : (s.pc t).node = some n := by simp [h, Pc.node]
  have a := hi.inList t n hn
  have b := hi.inFull t n hn
  have c := hi.isTgt t n hn
  simp [h, Pc.listPc, Pc.fullPc, Pc.parked] at a b c
  exact ⟨b, a, c⟩

/-- a token enters a channel only by a send of the holder of `mu` to its target -/
theorem c13_full_grows_only_by_send {s s' : State} {l : Label} (hs : step s l = some s') (n : NodeId)
    (h1 : n ∈ s'.full) (h0 : n ∉ s.full) :
    ∃ t, (l = .sSend t ∨ l = .bSend t ∨ l = .fwdSend t) ∧ (s.pc t).target = some n := by
  step_cases hs <;> simp_all [Pc.target] <;> (first | (exact absurd (List.mem_of_mem_erase h1) h0) | skip)

/-- **Broadcast reaches everybody waiting when it is called.**  At the instant a Broadcast acquires
    `mu`, the node of every enqueued waiter that has not yet been signalled is in its snapshot — in
    particular of every goroutine that has released `c.L` inside `Wait` and is parked. -/
theorem c13_broadcast_covers_waiting {s s' : State} (hr : Reachable s) (t : Tid)
    (hs : step s (.bLock t) = some s') :
    s'.pc t = .bLen ∧ s'.snap t = s.list ∧ s'.sent t = [] ∧
    ∀ u n, (s.pc u).node = some n → (s.pc u).parked = true → n ∉ s.full → n ∈ s'.snap t := by
  have hi := inv_reachable hr
  have hr' : Reachable s' := reach_step hr hs
  have hnf := c13_no_fault hr' t
  simp only [step, State.setPc] at hs
  split at hs
  · rename_i hp
    have hin := hi.initOK t (by simp [hp, Pc.pastInit])
    simp [hin] at hs
    obtain ⟨hm, hs⟩ := hs
    subst hs
    refine ⟨by simp, by simp, by simp, ?_⟩
    intro u n hn hpk hf
    have htg : s.tgt ≠ some n := by simp [State.tgt, hm]
    simpa using c13_unsignalled_is_linked hr u n hn hpk hf htg
  · simp at hs

/-- The snapshot of `t` is stable over any run segment in which `t` does not acquire `mu` again. -/
theorem snap_stable (t : Tid) (ls : List Label) (s1 s2 : State) (hrun : sys.toSystem.run s1 ls = some s2)
    (hnl : ∀ l ∈ ls, l ≠ .bLock t ∧ l ≠ .sLock t ∧ l ≠ .ctxLock t) : s2.snap t = s1.snap t := by
  induction ls generalizing s1 with
  | nil => simp [System.run] at hrun; subst hrun; rfl
  | cons l rest ih =>
    simp only [System.run] at hrun
    cases hs : sys.toSystem.step s1 l with
    | none => simp [hs] at hrun
    | some s' =>
      simp only [hs] at hrun
      have h1 := ih s' hrun (fun l' hl' => hnl l' (List.mem_cons_of_mem _ hl'))
      rw [h1]
      apply Classical.byContradiction
      intro hne
      have := (c13_snap_set_only_at_lock (s := s1) (s' := s') (l := l) hs t hne).1
      have h0 := hnl l (List.mem_cons_self ..)
      rcases this with h | h | h <;> simp [h] at h0

/-- **broadcast_all as a statement about one whole call** (no ghost field in the statement except the
    send log, whose meaning is `c13_sent_log_faithful`): if a Broadcast locks `mu` in `s0` and, after
    any run segment in which it does not lock again, stands at its `mu.Unlock()`, it has put one token
    into the channel of every node that was linked in `s0` — hence (with
    `c13_broadcast_covers_waiting`) of every goroutine waiting when it was called — and the list is empty. -/
theorem c13_broadcast_whole_call {s0 s1 s2 : State} (hr : Reachable s0) (t : Tid)
    (h0 : step s0 (.bLock t) = some s1) (ls : List Label) (hrun : sys.toSystem.run s1 ls = some s2)
    (hnl : ∀ l ∈ ls, l ≠ .bLock t ∧ l ≠ .sLock t ∧ l ≠ .ctxLock t) (hp : s2.pc t = .bUnlock) :
    s2.sent t = s0.list ∧ s2.list = [] ∧
    ∀ u n, (s0.pc u).node = some n → (s0.pc u).parked = true → n ∉ s0.full → n ∈ s2.sent t := by
  have hr1 : Reachable s1 := reach_step hr h0
  have hr2 : Reachable s2 := System.reachable_of_run sys.toSystem ls hr1 hrun
  obtain ⟨_, hsn, _, hcov⟩ := c13_broadcast_covers_waiting hr t h0
  have hst := snap_stable t ls s1 s2 hrun hnl
  obtain ⟨hb1, hb2⟩ := c13_broadcast_all hr2 t hp
  refine ⟨by rw [hb1, hst, hsn], hb2, ?_⟩
  intro u n a b c
  rw [hb1, hst]; exact hcov u n a b c

/-- the same for Signal: one token, to the node that was at the front when it locked -/
theorem c13_signal_whole_call {s0 s1 s2 : State} (hr : Reachable s0) (t : Tid)
    (h0 : step s0 (.sLock t) = some s1) (ls : List Label) (hrun : sys.toSystem.run s1 ls = some s2)
    (hnl : ∀ l ∈ ls, l ≠ .bLock t ∧ l ≠ .sLock t ∧ l ≠ .ctxLock t) (hp : s2.pc t = .sUnlock) :
    s2.sent t = s0.list.take 1 ∧ s2.list = s0.list.drop 1 := by
  have hr1 : Reachable s1 := reach_step hr h0
  have hr2 : Reachable s2 := System.reachable_of_run sys.toSystem ls hr1 hrun
  have hst := snap_stable t ls s1 s2 hrun hnl
  have hsn : s1.snap t = s0.list := by
    have hnf := c13_no_fault hr1 t
    simp only [step, State.setPc] at h0
    split at h0
    · split at h0
      · simp at h0; subst h0; simp at hnf
      · split at h0
        · simp at h0; subst h0; simp
        · simp at h0
    · simp at h0
  obtain ⟨hb1, hb2⟩ := c13_signal_one hr2 t hp
  rw [hst, hsn] at hb1 hb2
  exact ⟨hb1, hb2⟩

/-! ### "While enough non-cancelled waiters remain": the hypothesis as a cause, not as an outcome -/

/-- some enqueued waiter (between `add` and the decision of its selects) has not been signalled -/
def State.hasUnsignalledWaiter (s : State) : Prop :=
  ∃ t n, (s.pc t).node = some n ∧ (s.pc t).parked = true ∧ n ∉ s.full

/-- a length check of `notifyOne` or of the hand-off (`if l.list.len() != 0`) -/
def Label.isLenCheck : Label → Bool
  | .sLen _ | .fwdLen _ => true
  | _ => false

/-- **Enough waiters remain** along a run: at every Signal length check and at every hand-off length
    check some enqueued waiter is still unsignalled.  (Weaker than the property's "non-cancelled":
    the waiter may already have an ended context — it then passes the token on.) -/
def EnoughWaiters : State → List Label → Prop
  | _, [] => True
  | s, l :: ls =>
    (l.isLenCheck = true → s.hasUnsignalledWaiter) ∧
    (match step s l with
     | some s' => EnoughWaiters s' ls
     | none => True)

/-- Under `EnoughWaiters` no Signal finds the list empty and no hand-off drops its token. -/
theorem enough_no_empty_event (ls : List Label) (s0 s : State) (hr : Reachable s0)
    (hrun : sys.toSystem.run s0 ls = some s) (hen : EnoughWaiters s0 ls) :
    s.sigEmpty = s0.sigEmpty ∧ s.dropped = s0.dropped := by
  induction ls generalizing s0 with
  | nil => simp [System.run] at hrun; subst hrun; exact ⟨rfl, rfl⟩
  | cons l rest ih =>
    simp only [System.run] at hrun
    cases hs : sys.toSystem.step s0 l with
    | none => simp [hs] at hrun
    | some s1 =>
      simp only [hs] at hrun
      have hs' : step s0 l = some s1 := hs
      obtain ⟨hchk, hrest⟩ := hen
      simp only [hs'] at hrest
      obtain ⟨h1, h2⟩ := ih s1 (reach_step hr hs') hrun hrest
      have hE : s1.sigEmpty = s0.sigEmpty := by
        apply Classical.byContradiction
        intro hne
        obtain ⟨⟨t, hl⟩, hempty⟩ := c13_sigEmpty_only_when_empty hs' hne
        subst hl
        obtain ⟨u, n, hn, hp, hf⟩ := hchk rfl
        have hpc : s0.pc t = .sLen := by
          simp only [step] at hs'; split at hs' <;> simp_all
        exact c13_enough_waiters hr t (Or.inl hpc) u n hn hp hf hempty
      have hD : s1.dropped = s0.dropped := by
        apply Classical.byContradiction
        intro hne
        obtain ⟨⟨t, hl⟩, hempty, _⟩ := c13_dropped_only_when_empty hs' hne
        subst hl
        obtain ⟨u, n, hn, hp, hf⟩ := hchk rfl
        have hpc : ∃ k, s0.pc t = .wFwdLen k := by
          simp only [step] at hs'; split at hs' <;> simp_all
        exact c13_enough_waiters hr t (Or.inr hpc) u n hn hp hf hempty
      exact ⟨h1.trans hE, h2.trans hD⟩

/-- **Clause "while enough non-cancelled waiters remain, #Waits returning nil = #Signals"**, with the
    hypothesis on the *waiters* (not on the outcome): over any run from the initial state along
    which at every Signal / hand-off length check some enqueued waiter is still unsignalled, with no
    Broadcast send, ending in a state with no token in flight (`mu` free, channels empty, no Wait
    between its receive and its return):  #(`resWait _ nil`) = #(`sLen _`). -/
theorem c13_trace_nil_eq_signals_enough (ls : List Label) (s : State)
    (h : sys.toSystem.run init ls = some s) (hen : EnoughWaiters init ls)
    (hB : ls.countP Label.isBcSend = 0)
    (hq1 : s.mu = none) (hq2 : s.full = []) (hq3 : s.nilPend = []) :
    ls.countP Label.isRetNil = ls.countP Label.isSigCheck := by
  obtain ⟨hE, hD⟩ := enough_no_empty_event ls init s System.Reachable.init h hen
  exact c13_trace_nil_eq_signals ls s h (by simpa [init] using hE) (by simpa [init] using hD) hB hq1 hq2 hq3

/-- At every instant (not only at quiescence) under the same hypothesis: Signals that took effect =
    nil returns + Waits committed to nil + tokens in channels + token in hand + Signal in flight,
    when no Broadcast sent a token. -/
theorem c13_enough_every_instant (ls : List Label) (s : State)
    (h : sys.toSystem.run init ls = some s) (hen : EnoughWaiters init ls) (hB : s.bcIssued = 0) :
    s.sigChecks = s.retNil + s.nilPend.length + s.full.length + s.inHand + s.sigInFlight := by
  obtain ⟨hE, hD⟩ := enough_no_empty_event ls init s System.Reachable.init h hen
  have hr : Reachable s := System.reachable_of_run sys.toSystem ls System.Reachable.init h
  have c := cnt_reachable hr
  have h1 := c.conserve; have h2 := c.nilAcc; have h3 := c.sigAcc
  simp [init] at hE hD
  omega

/-- **General quiescent count** (Broadcasts and empty-list events allowed): at a state with no token in
    flight, nil returns + dropped tokens + Signals that found the list empty = Signals that took
    effect + tokens sent by Broadcasts. -/
theorem c13_quiescent_general {s : State} (hr : Reachable s)
    (hq1 : s.mu = none) (hq2 : s.full = []) (hq3 : s.nilPend = []) :
    s.retNil + s.dropped + s.sigEmpty = s.sigChecks + s.bcIssued := by
  have c := cnt_reachable hr
  have h1 := c.conserve; have h2 := c.nilAcc; have h3 := c.sigAcc
  simp [State.inHand, State.sigInFlight, hq1, hq2, hq3] at h1 h2 h3
  omega

/-- executable sufficient check of `EnoughWaiters` over a finite set of candidate threads -/
def enoughB (tids : List Tid) : State → List Label → Bool
  | _, [] => true
  | s, l :: ls =>
    (!l.isLenCheck || tids.any (fun t => match (s.pc t).node with
        | some n => (s.pc t).parked && !(s.full.contains n)
        | none => false)) &&
    (match step s l with
     | some s' => enoughB tids s' ls
     | none => true)

theorem enoughB_sound (tids : List Tid) (ls : List Label) (s : State) (h : enoughB tids s ls = true) :
    EnoughWaiters s ls := by
  induction ls generalizing s with
  | nil => trivial
  | cons l rest ih =>
    simp only [enoughB, Bool.and_eq_true, Bool.or_eq_true, Bool.not_eq_true'] at h
    obtain ⟨h1, h2⟩ := h
    refine ⟨?_, ?_⟩
    · intro hl
      rcases h1 with h1 | h1
      · simp [hl] at h1
      · rw [List.any_eq_true] at h1
        obtain ⟨t, _, ht⟩ := h1
        cases hn : (s.pc t).node with
        | none => simp [hn] at ht
        | some n =>
          simp [hn] at ht
          exact ⟨t, n, hn, ht.1, ht.2⟩
    · cases hs : step s l with
      | none => trivial
      | some s' => simp only [hs] at h2 ⊢; exact ih s' h2

/-! ### Non-vacuity: explicit runs from `init` -/

theorem run_reach {α : Type} (ls : List Label) (f : State → α) (a : α)
    (h : (sys.toSystem.run init ls).map f = some a) :
    ∃ s, sys.toSystem.run init ls = some s ∧ Reachable s ∧ f s = a := by
  cases hs : sys.toSystem.run init ls with
  | none => simp [hs] at h
  | some s =>
    simp [hs] at h
    exact ⟨s, rfl, System.reachable_of_run sys.toSystem ls System.Reachable.init hs, h⟩

/-- the first waiter (it performs the checker CAS) enqueues and parks -/
def enq1 : List Label :=
  [.lockL 1, .invWait 1 false, .ccLoad 1, .ccCas 1, .firstUse 1, .addLock 1, .alloc 1 none, .push 1,
   .addUnlock 1, .waitUnlockL 1]
/-- a later waiter enqueues (fresh node) and parks -/
def enq (t : Tid) : List Label :=
  [.lockL t, .invWait t false, .ccLoad t, .firstUse t, .addLock t, .alloc t none, .push t, .addUnlock t,
   .waitUnlockL t]
/-- thread 0 performs a complete Signal on a non-empty list -/
def sig0 : List Label :=
  [.invSignal 0, .ccLoad 0, .firstUse 0, .sLock 0, .sLen 0, .sPop 0, .sSend 0, .sUnlock 0, .resSignal 0]
/-- a parked waiter receives its token and returns nil -/
def wake (t : Tid) : List Label := [.selRecv t, .free t, .relockL t, .resWait t .nil, .unlockL t]
/-- a waiter whose context ended takes the ctx arm, finds a token and passes it on -/
def fwdArm (t : Tid) : List Label :=
  [.selCtx t, .ctxLock t, .innerRecv t, .fwdLen t, .fwdPop t, .fwdSend t, .ctxErr t, .ctxUnlock t, .free t,
   .relockL t, .resWait t .ctxErr, .unlockL t]

/-- three waiters; one Signal; the contexts of waiters 1 and 2 end: the token travels 1 → 2 → 3 -/
def doubleHandoffRun : List Label :=
  enq1 ++ enq 2 ++ enq 3 ++ sig0 ++ [.expire 1, .expire 2] ++ fwdArm 1 ++ fwdArm 2 ++ wake 3

/-- The hypotheses of `c13_trace_nil_eq_signals_enough` are satisfiable by a run with **two
    hand-offs**: one Signal, two cancelled waiters returning the error, the third returns nil. -/
example : ∃ s, sys.toSystem.run init doubleHandoffRun = some s ∧ EnoughWaiters init doubleHandoffRun ∧
    doubleHandoffRun.countP Label.isBcSend = 0 ∧ s.mu = none ∧ s.full = [] ∧ s.nilPend = [] ∧
    doubleHandoffRun.countP Label.isSigCheck = 1 ∧ doubleHandoffRun.countP Label.isRetNil = 1 ∧
    s.fwd = 2 ∧ s.retErr = 2 ∧ s.dropped = 0 := by
  obtain ⟨s, h, _, hf⟩ := run_reach doubleHandoffRun
    (fun s => (s.mu, s.full, s.nilPend, s.fwd, s.retErr, s.dropped)) (none, [], [], 2, 2, 0) (by rfl)
  simp only [Prod.mk.injEq] at hf
  obtain ⟨a, b, c, d, e, f⟩ := hf
  exact ⟨s, h, enoughB_sound [1, 2, 3] _ _ (by rfl), by rfl, a, b, c, by rfl, by rfl, d, e, f⟩

/-- waiters 1 and 2 park; thread 0 broadcasts; both return nil -/
def broadcastRun : List Label :=
  enq1 ++ enq 2 ++
  [.invBroadcast 0, .ccLoad 0, .firstUse 0, .bLock 0, .bLen 0, .bPop 0, .bSend 0, .bLen 0, .bPop 0, .bSend 0,
   .bLen 0, .bUnlock 0, .resBroadcast 0] ++ wake 1 ++ wake 2

/-- `c13_quiescent_general` on a run with a Broadcast that releases two waiters -/
example : ∃ s, Reachable s ∧ s.mu = none ∧ s.full = [] ∧ s.nilPend = [] ∧ s.bcIssued = 2 ∧ s.retNil = 2 ∧
    s.pool = [1, 0] := by
  obtain ⟨s, _, hr, hf⟩ := run_reach broadcastRun
    (fun s => (s.mu, s.full, s.nilPend, s.bcIssued, s.retNil, s.pool)) (none, [], [], 2, 2, [1, 0]) (by rfl)
  simp only [Prod.mk.injEq] at hf
  obtain ⟨a, b, c, d, e, f⟩ := hf
  exact ⟨s, hr, a, b, c, d, e, f⟩

/-- The hypotheses of `c13_broadcast_whole_call` are satisfiable: a Broadcast that locks `mu` with two
    parked waiters linked and reaches its unlock having sent to both. -/
example : ∃ s0 s1 s2 ls, Reachable s0 ∧ step s0 (.bLock 0) = some s1 ∧ sys.toSystem.run s1 ls = some s2 ∧
    (∀ l ∈ ls, l ≠ .bLock 0 ∧ l ≠ .sLock 0 ∧ l ≠ .ctxLock 0) ∧ s2.pc 0 = .bUnlock ∧ s0.list = [0, 1] ∧
    (s0.pc 1).parked = true ∧ (s0.pc 2).parked = true := by
  let pre : List Label := enq1 ++ enq 2 ++ [.invBroadcast 0, .ccLoad 0, .firstUse 0]
  let ls : List Label := [.bLen 0, .bPop 0, .bSend 0, .bLen 0, .bPop 0, .bSend 0, .bLen 0]
  obtain ⟨s0, h0, hr0, hf0⟩ := run_reach pre (fun s => (s.list, (s.pc 1).parked, (s.pc 2).parked))
    ([0, 1], true, true) (by rfl)
  have e : ((sys.toSystem.run init pre).bind (fun s => sys.toSystem.run s (.bLock 0 :: ls))).map
      (fun s => s.pc 0) = some .bUnlock := by rfl
  rw [h0] at e
  simp only [Option.bind_some, System.run] at e
  cases h1 : sys.toSystem.step s0 (.bLock 0) with
  | none => simp [h1] at e
  | some s1 =>
    simp only [h1] at e
    cases h2 : sys.toSystem.run s1 ls with
    | none => simp [ls, System.run] at h2 e; simp [h2] at e
    | some s2 =>
      simp only [Prod.mk.injEq] at hf0
      refine ⟨s0, s1, s2, ls, hr0, h1, h2, by decide, ?_, hf0.1, hf0.2.1, hf0.2.2⟩
      have : sys.toSystem.run s1 ls = some s2 := h2
      simp only [ls, System.run] at this e
      simp only [this] at e
      simpa using e

/-- waiter 1 gives up without a token (default arm, unlinks itself, node 0 goes to the pool); a later
    Signal — issued by a thread that **holds `c.L`** — finds the list empty: the waiter that gave up
    absorbs nothing; waiter 2 then **re-uses pooled node 0** and is woken by the next Signal -/
def reuseRun : List Label :=
  enq1 ++
  [.expire 1, .selCtx 1, .ctxLock 1, .innerDefault 1, .remove 1, .ctxErr 1, .ctxUnlock 1, .free 1, .relockL 1,
   .resWait 1 .ctxErr, .unlockL 1,
   .lockL 0, .invSignal 0, .ccLoad 0, .firstUse 0, .sLock 0, .sLen 0, .sUnlock 0, .resSignal 0, .unlockL 0,
   .lockL 2, .invWait 2 false, .ccLoad 2, .firstUse 2, .addLock 2, .alloc 2 (some 0), .push 2, .addUnlock 2,
   .waitUnlockL 2, .lockL 0] ++ sig0 ++ [.unlockL 0] ++ wake 2

example : ∃ s, Reachable s ∧ s.sigChecks = 2 ∧ s.sigEmpty = 1 ∧ s.sigIssued = 1 ∧ s.retNil = 1 ∧ s.retErr = 1 ∧
    s.nextNode = 1 ∧ s.pool = [0] ∧ s.full = [] ∧ s.list = [] := by
  obtain ⟨s, _, hr, hf⟩ := run_reach reuseRun
    (fun s => (s.sigChecks, s.sigEmpty, s.sigIssued, s.retNil, s.retErr, s.nextNode, s.pool, s.full, s.list))
    (2, 1, 1, 1, 1, 1, [0], [], []) (by rfl)
  simp only [Prod.mk.injEq] at hf
  obtain ⟨a, b, c, d, e, f, g, h, i⟩ := hf
  exact ⟨s, hr, a, b, c, d, e, f, g, h, i⟩

/-- a reachable state with a token **in hand** (the `inHand` term of `c13_conservation` is not always
    0): waiter 1 has received, in its ctx arm, the token of a Signal and has not passed it on yet -/
example : ∃ s, Reachable s ∧ s.inHand = 1 ∧ s.issued = 1 ∧ s.full = [] ∧ s.consumedNil = 0 ∧ s.dropped = 0 ∧
    s.mu = some 1 ∧ s.list = [1] := by
  obtain ⟨s, _, hr, hf⟩ := run_reach (enq1 ++ enq 2 ++ sig0 ++ [.expire 1, .selCtx 1, .ctxLock 1, .innerRecv 1])
    (fun s => (s.inHand, s.issued, s.full, s.consumedNil, s.dropped, s.mu, s.list)) (1, 1, [], 0, 0, some 1, [1])
    (by rfl)
  simp only [Prod.mk.injEq] at hf
  obtain ⟨a, b, c, d, e, f, g⟩ := hf
  exact ⟨s, hr, a, b, c, d, e, f, g⟩

/-- the four alternatives of `c13_thread_progress` all occur: (2) a legitimately parked, linked waiter -/
example : ∃ s, Reachable s ∧ s.pc 1 = .wSelect 0 ∧ s.list = [0] ∧ s.full = [] ∧ s.ctx 1 = false ∧ s.L = none := by
  obtain ⟨s, _, hr, hf⟩ := run_reach enq1 (fun s => (s.pc 1, s.list, s.full, s.ctx 1, s.L))
    (.wSelect 0, [0], [], false, none) (by rfl)
  simp only [Prod.mk.injEq] at hf
  obtain ⟨a, b, c, d, e⟩ := hf
  exact ⟨s, hr, a, b, c, d, e⟩

/-- (3) a cancelled waiter blocked on `mu`, which a Signal holds -/
example : ∃ s, Reachable s ∧ s.pc 1 = .wCtxLock 0 ∧ s.mu = some 0 ∧ s.pc 0 = .sLen := by
  obtain ⟨s, _, hr, hf⟩ := run_reach
    (enq1 ++ [.expire 1, .selCtx 1, .invSignal 0, .ccLoad 0, .firstUse 0, .sLock 0])
    (fun s => (s.pc 1, s.mu, s.pc 0)) (.wCtxLock 0, some 0, .sLen) (by rfl)
  simp only [Prod.mk.injEq] at hf
  obtain ⟨a, b, c⟩ := hf
  exact ⟨s, hr, a, b, c⟩

/-- (4) a woken waiter blocked at its deferred `c.L.Lock()` because a client (thread 5, outside any
    call) took `c.L` between the waiter's `L.Unlock()` and its `L.Lock()`: `L` is a real lock -/
example : ∃ s, Reachable s ∧ s.pc 1 = .wRelock .nil ∧ s.L = some 5 ∧ s.pc 5 = .idle ∧ s.nilPend = [1] := by
  obtain ⟨s, _, hr, hf⟩ := run_reach (enq1 ++ [.lockL 5] ++ sig0 ++ [.selRecv 1, .free 1])
    (fun s => (s.pc 1, s.L, s.pc 5, s.nilPend)) (.wRelock .nil, some 5, .idle, [1]) (by rfl)
  simp only [Prod.mk.injEq] at hf
  obtain ⟨a, b, c, d⟩ := hf
  exact ⟨s, hr, a, b, c, d⟩

/-! ### `#Signals`: calls vs. length checks -/

/-- a Signal call that has performed its length check and has not yet returned -/
def Pc.sigPostCheck : Pc → Bool
  | .sPop | .sSend _ | .sUnlock | .sRet => true
  | _ => false

@[simp] theorem bodyStart_sigPostCheck (k : Kind) : (bodyStart k).sigPostCheck = false := by cases k <;> rfl

theorem sig_call_step {s s' : State} {l : Label} (hi : Inv s) (hs : step s l = some s') (t : Tid) :
    b2n (l == .sLen t) + b2n (s.pc t).sigPostCheck = b2n (l == .resSignal t) + b2n (s'.pc t).sigPostCheck := by
  have h4 := hi.popOK
  step_cases hs <;> simp only [upd_apply] <;> (repeat' split) <;>
    (first
      | (simp_all [b2n, Pc.sigPostCheck]; done)
      | (simp only [bodyStart_sigPostCheck] at *; simp_all [b2n, Pc.sigPostCheck]; done)
      | (simp only [bodyStart_sigPostCheck] at *; simp_all [b2n, Pc.sigPostCheck] <;> grind)
      | (simp_all [b2n, Pc.sigPostCheck] <;> grind [Pc.popPc]))


/-- over any run segment from a reachable state, for every thread `t`:
    #(`sLen t`) + [t past its check at the start] = #(`resSignal t`) + [t past its check at the end] -/
theorem sig_call_run (t : Tid) (ls : List Label) (s0 s : State) (hr : Reachable s0)
    (h : sys.toSystem.run s0 ls = some s) :
    ls.countP (· == .sLen t) + b2n (s0.pc t).sigPostCheck =
      ls.countP (· == .resSignal t) + b2n (s.pc t).sigPostCheck := by
  induction ls generalizing s0 with
  | nil => simp [System.run] at h; subst h; simp
  | cons l rest ih =>
    simp only [System.run] at h
    cases hs : sys.toSystem.step s0 l with
    | none => simp [hs] at h
    | some s1 =>
      simp only [hs] at h
      have hs' : step s0 l = some s1 := hs
      have h1 := sig_call_step (inv_reachable hr) hs' t
      have h2 := ih s1 (System.Reachable.step hr hs) h
      simp only [List.countP_cons]
      simp only [b2n] at h1 h2 ⊢
      repeat' split at h1 <;> repeat' split at h2 <;> repeat' split <;> simp_all <;> omega

/-- **Every completed Signal call took effect exactly once**: over any run from the initial state,
    per thread, the number of Signal calls that returned equals the number of length checks it
    performed, minus the one of a call still in progress past its check.  So for a thread that is
    idle at the end, #Signal calls = #Signals that took effect (`sLen`), which is the `#Signals` the
    counting theorems use. -/
theorem c13_signal_calls_take_effect_once (t : Tid) (ls : List Label) (s : State)
    (h : sys.toSystem.run init ls = some s) :
    ls.countP (· == .sLen t) = ls.countP (· == .resSignal t) + b2n (s.pc t).sigPostCheck := by
  have := sig_call_run t ls init s System.Reachable.init h
  simpa [init, Pc.sigPostCheck, b2n] using this

end Ekit.Cond

