/-
C09 (array / linked share) — review additions (adversarial review of `Ekit/Props/C09a.lean`).

What the review found missing between the enabledness theorems and the sentence "no wake-up is lost":

1. `c09a_lbq_no_lost_wakeup_*` are *state* facts ("now enabled, or the closer/swapper is now enabled").
   To conclude under weak fairness that the waiter does wake, enabledness must not be revocable by other
   threads, and the closer's chain must really end in the waiter's channel being closed.  Added:
   stability (`c09a_lbq_wake_stable_*`, `c09a_lbq_closed_stays_closed`, `c09a_lbq_close_duty_stable`) and the
   concrete chain (`c09a_lbq_closing_chain`).
2. The docstring of `c09a_lbq_generations` promises "a parked waiter never holds a generation newer than the
   current one" but the statement does not contain it: `c09a_lbq_parked_generation_le`.
3. A superseded waiter wakes whatever the queue looks like by then (the wait condition may have become
   true and false again — the waiter must still be woken to re-check): `c09a_lbq_superseded_waiter_wakes`
   has no hypothesis on fullness/emptiness.
4. "accepts and delivers **exactly** `capacity` elements" was one Enqueue plus a remark: for the array
   queue it is now a theorem about runs (`c09a_abq_fill`, `c09a_abq_drain`, `c09a_abq_full_blocks`,
   `c09a_abq_empty_blocks`, `c09a_abq_exactly_capacity`), and for the linked queue `c09a_lbq_fill`, `c09a_lbq_drain`.

Still NOT a theorem (and not claimed): that enabled actions are eventually scheduled (fairness of the Go
scheduler / RWMutex / semaphore hand-off), wall-clock promptness, and — for the array queue — the wake-up
inside `semaphore.Weighted` itself (the semaphore is a counter by definition of the model).
-/
import Ekit.Props.C09a
import Ekit.Props.C07
import Ekit.Lemmas.LinkedBQWakeStable
import Ekit.Lemmas.ArrayBQFill
import Ekit.Lemmas.LinkedBQFill

open Ekit.Conc Ekit.BQ

/-! ## Linked queue and `cond` -/
section Linked
open Ekit.LinkedBQ

/-- a parked waiter never holds a generation newer than the current one -/
theorem c09a_lbq_parked_generation_le (m : Int) (s : State) (hr : (sys m).Reachable s) (t : Nat) :
    (∀ v g, s.pc t = .eSelect v g → g ≤ s.notFull.cur) ∧ (∀ g, s.pc t = .dSelect g → g ≤ s.notEmpty.cur) := by
  obtain ⟨_, h2, _⟩ := inv123_reachable m s hr
  refine ⟨fun v g hp => ?_, fun g hp => ?_⟩
  · have := h2.parkF t; simp only [hp, parkFact] at this; exact this.1
  · have := h2.parkF t; simp only [hp, parkFact] at this; exact this.1

/-- **a superseded waiter wakes, unconditionally**: a waiter parked on a generation older than the
    current one (a broadcast happened after it fetched its channel) holds a closed channel and its
    `<-signal` arm is enabled, or the `close` is pending in exactly one thread whose next action is
    enabled — whether or not the queue is (again) full / empty by now. -/
theorem c09a_lbq_superseded_waiter_wakes (m : Int) (s : State) (hr : (sys m).Reachable s) (t : Nat) :
    (∀ v g, s.pc t = .eSelect v g → g < s.notFull.cur →
        (g ∈ s.notFull.closed ∧ tauEn s t) ∨ ∃ u, isCloser (s.pc u) .notFull g = true ∧ tauEn s u) ∧
    (∀ g, s.pc t = .dSelect g → g < s.notEmpty.cur →
        (g ∈ s.notEmpty.closed ∧ tauEn s t) ∨ ∃ u, isCloser (s.pc u) .notEmpty g = true ∧ tauEn s u) := by
  obtain ⟨_, h2, _⟩ := inv123_reachable m s hr
  refine ⟨fun v g hp hlt => ?_, fun g hp hlt => ?_⟩
  · cases h2.closerEx .notFull g hlt with
    | inl hc =>
      left
      refine ⟨hc, tauEn_of h2.noPanic ?_⟩
      unfold tauStep; simp only [hp]; simp [getCond] at hc; simp [hc]
    | inr hc =>
      obtain ⟨u, hu⟩ := hc
      exact Or.inr ⟨u, hu, tauEn_of h2.noPanic (tau_enabled_closer s u _ _ hu)⟩
  · cases h2.closerEx .notEmpty g hlt with
    | inl hc =>
      left
      refine ⟨hc, tauEn_of h2.noPanic ?_⟩
      unfold tauStep; simp only [hp]; simp [getCond] at hc; simp [hc]
    | inr hc =>
      obtain ⟨u, hu⟩ := hc
      exact Or.inr ⟨u, hu, tauEn_of h2.noPanic (tau_enabled_closer s u _ _ hu)⟩

/-- **a closed channel stays closed** (any state, any label) -/
theorem c09a_lbq_closed_stays_closed (s s' : State) (l : Label) (hs : step s l = some s') (w : Which) (g : Nat)
    (hg : g ∈ (getCond s w).closed) : g ∈ (getCond s' w).closed :=
  closed_mono hs w g hg

/-- **the wake-up of a blocked Enqueue is stable**: once its channel is closed, every step of every
    other thread (and the ending of its own context) leaves it parked on that closed channel — with
    its `<-signal` arm still enabled; only its own wake-up (`tau t`) or its own `ctx.Done()` arm moves it. -/
theorem c09a_lbq_wake_stable_enq (s s' : State) (l : Label) (t : Nat) (v : Int) (g : Nat)
    (hp : s.pc t = .eSelect v g) (hc : g ∈ s.notFull.closed) (hs : step s l = some s') :
    l = .tau t ∨ l = .ctxArm t ∨
      (s'.pc t = .eSelect v g ∧ g ∈ s'.notFull.closed ∧ (s'.panicked = false → tauEn s' t)) := by
  rcases parked_enq_stable t v g hp hc hs with h | h | ⟨h1, h2⟩
  · exact Or.inl h
  · exact Or.inr (Or.inl h)
  · refine Or.inr (Or.inr ⟨h1, h2, fun hnp => tauEn_of hnp ?_⟩)
    unfold tauStep; simp [h1, h2]

/-- the same for a blocked Dequeue -/
theorem c09a_lbq_wake_stable_deq (s s' : State) (l : Label) (t : Nat) (g : Nat)
    (hp : s.pc t = .dSelect g) (hc : g ∈ s.notEmpty.closed) (hs : step s l = some s') :
    l = .tau t ∨ l = .ctxArm t ∨
      (s'.pc t = .dSelect g ∧ g ∈ s'.notEmpty.closed ∧ (s'.panicked = false → tauEn s' t)) := by
  rcases parked_deq_stable t g hp hc hs with h | h | ⟨h1, h2⟩
  · exact Or.inl h
  · exact Or.inr (Or.inl h)
  · refine Or.inr (Or.inr ⟨h1, h2, fun hnp => tauEn_of hnp ?_⟩)
    unfold tauStep; simp [h1, h2]

/-- the duty to close `g` stays with its owner until the owner acts -/
theorem c09a_lbq_close_duty_stable (s s' : State) (l : Label) (u : Nat) (w : Which) (g : Nat)
    (hu : isCloser (s.pc u) w g = true) (hs : step s l = some s') :
    l = .tau u ∨ isCloser (s'.pc u) w g = true :=
  closer_stable u w g hu hs

/-- **the closing chain is concrete**: the owner of `close(g)` gets there by its own next actions —
    after `Unlock` (enabled, lock released, no panic) it is at the `close`; the `close` is enabled, does
    not panic ("close of closed channel"), and afterwards `g` is closed. -/
theorem c09a_lbq_closing_chain (m : Int) (s : State) (hr : (sys m).Reachable s) (u : Nat) (w : Which) (g : Nat) (r : Ret) :
    (s.pc u = .bcUnlock w g r →
      ∃ s', step s (.tau u) = some s' ∧ s'.pc u = .bcClose w g r ∧ s'.writer = none ∧ s'.panicked = false) ∧
    (s.pc u = .bcClose w g r →
      ∃ s', step s (.tau u) = some s' ∧ s'.pc u = .ret r ∧ g ∈ (getCond s' w).closed ∧ s'.panicked = false) :=
  ⟨closer_unlock_step m s hr u w g r, closer_close_step m s hr u w g r⟩

/-- **accepts `k` more** (linked queue): from every reachable quiescent state — after any pattern of
    cancellations — with room for `|vs|` more elements (`len + |vs| ≤ maxSize`; always, when unbounded),
    `|vs|` consecutive Enqueues each run to `return nil` by their own, always enabled, actions (none
    parks).  The history is exactly these completed calls; the run ends quiescent with `len + |vs|`. -/
theorem c09a_lbq_fill (m : Int) (t : Nat) (vs : List Int) (s : State) (hr : (sys m).Reachable s)
    (hq : ∀ u, s.pc u = .idle) (hroom : 0 < s.maxSize → (s.q.length : Int) + vs.length ≤ s.maxSize) :
    ∃ ls s', (sys m).run s ls = some s' ∧ (sys m).Reachable s' ∧ (∀ u, s'.pc u = .idle) ∧
      s'.q.length = s.q.length + vs.length ∧ (sys m).history ls = fillHist t vs :=
  fill m t vs s hr hq hroom

/-- **delivers `k`** (linked queue): `k ≤ len` consecutive Dequeues each return an element. -/
theorem c09a_lbq_drain (m : Int) (t : Nat) (k : Nat) (s : State) (hr : (sys m).Reachable s)
    (hq : ∀ u, s.pc u = .idle) (hle : k ≤ s.q.length) :
    ∃ (ls : List Label) (s' : State) (xs : List Int), (sys m).run s ls = some s' ∧ (sys m).Reachable s' ∧
      (∀ u, s'.pc u = .idle) ∧ s'.q.length + k = s.q.length ∧ xs.length = k ∧
      (sys m).history ls = xs.flatMap fun x => [.inv t .deq, .res t (.val x)] :=
  drain m t k s hr hq hle

end Linked

/-! ## Array queue: exactly `capacity` -/
section Array
open Ekit.ArrayBQ

/-- **accepts `k` more**: from every reachable quiescent state — after any pattern of cancellations —
    with `count + k ≤ cap`, `k` consecutive Enqueues (values `vs`) each run to `return nil` by their own,
    always enabled, actions.  The run's history is exactly the `k` completed calls, it ends quiescent,
    with `count + k` elements. -/
theorem c09a_abq_fill (cap : Nat) (hcap : 1 ≤ cap) (t : Nat) (vs : List Int) (s : State)
    (hr : (sys cap).Reachable s) (hq : ∀ u, s.pc u = .idle) (hle : s.count + vs.length ≤ cap) :
    ∃ ls s', (sys cap).run s ls = some s' ∧ (sys cap).Reachable s' ∧ (∀ u, s'.pc u = .idle) ∧
      s'.count = s.count + vs.length ∧ (sys cap).history ls = fillHist t vs :=
  fill hcap t vs s hr hq hle

/-- **delivers `k`**: `k ≤ count` consecutive Dequeues each return an element. -/
theorem c09a_abq_drain (cap : Nat) (hcap : 1 ≤ cap) (t : Nat) (k : Nat) (s : State)
    (hr : (sys cap).Reachable s) (hq : ∀ u, s.pc u = .idle) (hle : (k : Int) ≤ s.count) :
    ∃ (ls : List Label) (s' : State) (xs : List Int), (sys cap).run s ls = some s' ∧ (sys cap).Reachable s' ∧
      (∀ u, s'.pc u = .idle) ∧ s'.count = s.count - k ∧ xs.length = k ∧
      (sys cap).history ls = xs.flatMap fun x => [.inv t .deq, .res t (.val x)] :=
  drain hcap t k s hr hq hle

/-- **not one more**: on a quiescent full queue the next Enqueue parks in `Acquire` -/
theorem c09a_abq_full_blocks (cap : Nat) (hcap : 1 ≤ cap) (s : State) (hr : (sys cap).Reachable s)
    (hq : ∀ u, s.pc u = .idle) (hfull : s.count = cap) (t : Nat) (v : Int) :
    ∃ s0, step s (.inv t (.enq v)) = some s0 ∧ s0.pc t = .eAcq v ∧ step s0 (.tau t) = none :=
  full_blocks hcap s hr hq hfull t v

/-- on a quiescent empty queue the next Dequeue parks in `Acquire` -/
theorem c09a_abq_empty_blocks (cap : Nat) (hcap : 1 ≤ cap) (s : State) (hr : (sys cap).Reachable s)
    (hq : ∀ u, s.pc u = .idle) (hempty : s.count = 0) (t : Nat) :
    ∃ s0, step s (.inv t .deq) = some s0 ∧ s0.pc t = .dAcq ∧ step s0 (.tau t) = none :=
  empty_blocks hcap s hr hq hempty t

/-- **exactly `capacity`** ("after any pattern of cancellations the queue still accepts and delivers
    exactly `capacity` elements without blocking"): from every reachable quiescent state, the queue
    accepts exactly `cap - count` further elements (that many Enqueues complete unaided; the next one
    parks), and then delivers exactly `cap` elements (that many Dequeues complete unaided; the next
    one parks). -/
theorem c09a_abq_exactly_capacity (cap : Nat) (hcap : 1 ≤ cap) (t : Nat) (vs : List Int) (s : State)
    (hr : (sys cap).Reachable s) (hq : ∀ u, s.pc u = .idle) (hlen : s.count + vs.length = cap) :
    ∃ (ls1 ls2 : List Label) (s1 s2 : State) (xs : List Int),
      (sys cap).run s ls1 = some s1 ∧ (sys cap).history ls1 = fillHist t vs ∧ s1.count = cap ∧
      (∀ v, ∃ s0, step s1 (.inv t (.enq v)) = some s0 ∧ step s0 (.tau t) = none) ∧
      (sys cap).run s1 ls2 = some s2 ∧ xs.length = cap ∧
      (sys cap).history ls2 = (xs.flatMap fun x => [.inv t .deq, .res t (.val x)]) ∧ s2.count = 0 ∧
      (∃ s0, step s2 (.inv t .deq) = some s0 ∧ step s0 (.tau t) = none) := by
  obtain ⟨ls1, s1, hrun1, hr1, hq1, hc1, hh1⟩ := fill hcap t vs s hr hq (by omega)
  have hfull : s1.count = cap := by omega
  obtain ⟨ls2, s2, xs, hrun2, hr2, hq2, hc2, hxl, hh2⟩ := drain hcap t cap s1 hr1 hq1 (by omega)
  refine ⟨ls1, ls2, s1, s2, xs, hrun1, hh1, hfull, fun v => ?_, hrun2, hxl, hh2, by omega, ?_⟩
  · obtain ⟨s0, h1, _, h3⟩ := full_blocks hcap s1 hr1 hq1 hfull t v
    exact ⟨s0, h1, h3⟩
  · obtain ⟨s0, h1, _, h3⟩ := empty_blocks hcap s2 hr2 hq2 (by omega) t
    exact ⟨s0, h1, h3⟩

end Array

/-! ## Non-vacuity: each disjunct of `c09a_lbq_no_lost_wakeup_enq` occurs in a reachable state -/
section NonVacuity

/-- `lbqDemo` (Props/C07.lean): the producer (thread 1) is parked on generation 0 of `notFull`, the
    consumer (thread 2) has removed the element (queue no longer full) and is **about to swap** the
    channel, still holding the lock — third disjunct (`g = cur`, swap pending) -/
example : (((Ekit.LinkedBQ.sys 1).run (Ekit.LinkedBQ.init 1) (lbqDemo.take 20)).map
    (fun s => (s.pc 1, s.pc 2, Ekit.LinkedBQ.full s, s.notFull.cur, s.writer))) =
    some (.eSelect 6 0, .bcSwap .notFull (.val 5), false, 0, some 2) := by decide

/-- swapped, lock still held, `close(0)` owed — second disjunct (`g < cur`, closer pending) -/
example : (((Ekit.LinkedBQ.sys 1).run (Ekit.LinkedBQ.init 1) (lbqDemo.take 21)).map
    (fun s => (s.pc 1, s.pc 2, s.notFull.cur, s.notFull.closed, s.writer))) =
    some (.eSelect 6 0, .bcUnlock .notFull 0 (.val 5), 1, [], some 2) := by decide

/-- unlocked, `close(0)` still owed: the window "after Unlock, before close" — second disjunct -/
example : (((Ekit.LinkedBQ.sys 1).run (Ekit.LinkedBQ.init 1) (lbqDemo.take 22)).map
    (fun s => (s.pc 1, s.pc 2, s.notFull.cur, s.notFull.closed, s.writer))) =
    some (.eSelect 6 0, .bcClose .notFull 0 (.val 5), 1, [], none) := by decide

/-- closed: the waiter's `<-signal` arm is enabled — first disjunct -/
example : (((Ekit.LinkedBQ.sys 1).run (Ekit.LinkedBQ.init 1) (lbqDemo.take 23)).map
    (fun s => (s.pc 1, s.pc 2, s.notFull.cur, s.notFull.closed, (Ekit.LinkedBQ.step s (.tau 1)).isSome))) =
    some (.eSelect 6 0, .ret (.val 5), 1, [0], true) := by decide

/-- **two simultaneous waiters** on an empty queue (capacity 2) are both woken by ONE broadcast, and a
    waiter that finds the queue empty again after waking parks on the NEW generation:
    consumers 1 and 2 park on generation 0 of `notEmpty`; producer 0 enqueues (swap, unlock, close);
    consumer 1 wakes and takes the element; consumer 2 wakes too, re-locks, finds the list empty and parks
    on generation 1. -/
def lbqTwoWaiters : List Ekit.LinkedBQ.Label :=
  [.inv 1 .deq, .tau 1, .tau 1, .tau 1, .tau 1, .tau 1,          -- 1 parked at dSelect 0
   .inv 2 .deq, .tau 2, .tau 2, .tau 2, .tau 2, .tau 2,          -- 2 parked at dSelect 0
   .inv 0 (.enq 9), .tau 0, .tau 0, .tau 0, .tau 0, .tau 0, .tau 0, .tau 0, .res 0 .ok,
   .tau 1, .tau 2,                                               -- both take the `<-signal` arm
   .tau 1, .tau 1, .tau 1, .tau 1, .tau 1, .tau 1, .res 1 (.val 9),
   .tau 2, .tau 2, .tau 2, .tau 2]                               -- 2 re-checks: empty, parks on generation 1

example : (((Ekit.LinkedBQ.sys 2).run (Ekit.LinkedBQ.init 2) (lbqTwoWaiters.take 21)).map
    (fun s => (s.pc 1, s.pc 2, s.q, s.notEmpty.cur, s.notEmpty.closed))) =
    some (.dSelect 0, .dSelect 0, [9], 1, [0]) := by decide
example : (((Ekit.LinkedBQ.sys 2).run (Ekit.LinkedBQ.init 2) (lbqTwoWaiters.take 23)).map
    (fun s => (s.pc 1, s.pc 2))) = some (.dLock, .dLock) := by decide
example : (((Ekit.LinkedBQ.sys 2).run (Ekit.LinkedBQ.init 2) lbqTwoWaiters).map
    (fun s => (s.pc 1, s.pc 2, s.q, s.deqd, s.notEmpty.cur))) =
    some (.idle, .dSelect 1, [], [9], 1) := by decide

end NonVacuity
