/-
C06 — "Every concurrent execution of the lock-free ConcurrentLinkedQueue, ConcurrentPriorityQueue,
ConcurrentList, CopyOnWriteArrayList and syncx.Map is linearizable: the completed calls can be totally
ordered, consistently with real-time precedence, so that each returns what the sequential FIFO-queue /
priority-queue / sequence / map specification returns, and no call panics.  In particular no element is
lost, duplicated or reordered, and an 'empty' or 'absent' answer is given only if it was true at some
instant during the call."

Property theorems only.  Models: `Ekit/Model/CLQ.lean`, `LockWrapped.lean`, `LockWrappedInst.lean`,
`SyncMap.lean`; specifications: `Ekit/Model/LinzSpec.lean` (the driver's `spec` mode runs the same `step`
functions); proofs: `Ekit/Lemmas/CLQ*.lean`, `LockWrapped*.lean`, `SyncMap.lean`.

`Linearizable spec h` (Ekit/Conc/System.lean) = `h` is a history of the canonical atomic automaton of
`spec`: every call takes effect atomically at one instant between its invocation and its response
(hence the order of the effects respects real-time precedence), and answers what the specification
answers there.  All theorems quantify over **every** finite run of the model, i.e. every number of
threads (`Nat` ids), every mix of operations and every interleaving of their atomic steps.

Trusted (definitions of the models, not Lean axioms): sequential consistency of `sync/atomic`,
`unsafe.Pointer` identity = node identity (no reuse while referenced: Go's GC), the `sync.RWMutex` /
`sync.Mutex` semantics, atomicity of `sync.Map`'s own operations.
-/
import Ekit.Generated.SkelC06
import Ekit.Model.LinzSkel
import Ekit.Lemmas.CLQ
import Ekit.Lemmas.LockWrapped
import Ekit.Lemmas.LockWrappedInst
import Ekit.Lemmas.SyncMap
import Ekit.Model.CowUnlocked

namespace Ekit.Props.C06
open Ekit.Conc Ekit.Linz

/-! ## ConcurrentLinkedQueue (lock-free) -/
section CLQ
variable {α : Type} [DecidableEq α]

/-- **ConcurrentLinkedQueue is linearizable w.r.t. the FIFO queue** — every history of every run of
    the model (any threads, any interleaving of the atomic loads/CASes, including preemption between
    the two pointer updates of an enqueue) is a history of the atomic FIFO queue: nothing lost,
    duplicated or reordered. -/
theorem c06_clq_linearizable (ls : List (Lbl (QOp α) (QRet α))) (s : CLQ.St α)
    (hrun : (CLQ.sys α).run (CLQ.sys α).init ls = some s) :
    Linearizable (fifoSpec α) ((CLQ.sys α).history ls) :=
  CLQ.linearizable ls s hrun

/-- The structural invariants in every reachable state: `head ≤ tail`, `tail ≤ |nodes| ≤ tail+1`
    (at most one node is linked but not yet swung to), such a node exists iff exactly one thread is
    between its two CASes (`uniq`, `ex`, and `ok` at e4), local snapshots lag (`ok`). -/
theorem c06_clq_invariants (s : CLQ.St α) (hr : (CLQ.sys α).Reachable s) : CLQ.Inv s :=
  CLQ.inv_reachable s hr

/-- a linked-but-unswung node exists **iff** some (by `uniq`: exactly one) thread is at e4 -/
theorem c06_clq_unswung_iff (s : CLQ.St α) (hr : (CLQ.sys α).Reachable s) :
    s.nodes.length = s.tail + 1 ↔ ∃ t, CLQ.isE4 (s.pc t) = true := by
  have h := CLQ.inv_reachable s hr
  constructor
  · exact h.ex
  · rintro ⟨t, ht⟩
    cases hp : s.pc t <;> simp [hp, CLQ.isE4] at ht
    exact (h.e4_facts hp).2.2.1

/-- The enqueuer's CAS on `c.tail` (whose result the code ignores) always succeeds: nobody else moves
    the tail between a thread's two CASes — the other enqueuers spin on `tail.next != nil`. -/
theorem c06_clq_tail_cas_succeeds (s : CLQ.St α) (hr : (CLQ.sys α).Reachable s)
    (t : Nat) (v : α) (lt nw : Nat) (hpc : s.pc t = .e4 v lt nw) : s.tail = lt :=
  ((CLQ.inv_reachable s hr).e4_facts hpc).1.symm

/-- "no call panics": the nil dereference `headNext.val` is unreachable. -/
theorem c06_clq_no_panic (s : CLQ.St α) (hr : (CLQ.sys α).Reachable s) (t : Nat) : s.pc t ≠ .crash := by
  intro hc
  have := (CLQ.inv_reachable s hr).ok t
  simp [hc, CLQ.PcOk] at this

/-- "an 'empty' answer is given only if it was true at some instant during the call": when Dequeue's
    load of the tail finds `head snapshot = tail`, the abstract queue is empty at that instant. -/
theorem c06_clq_empty_was_true (s : CLQ.St α) (hr : (CLQ.sys α).Reachable s)
    (t : Nat) (lh : Nat) (hpc : s.pc t = .d2 lh) (he : lh = s.tail) : s.absq = [] := by
  have h := CLQ.inv_reachable s hr
  have hok := h.ok t
  simp only [hpc, CLQ.PcOk] at hok
  have hht : s.head = s.tail := by have := h.ht; omega
  simp only [CLQ.St.absq, hht]
  exact CLQ.absq_empty s.nodes s.tail

/-- Quiescent shape (what the driver's `model` mode checks on the real queue after all goroutines
    have returned): with nobody between the two CASes, `tail` is the last node (`tail.next = nil`) and the
    chain after `head` is exactly the abstract queue. -/
theorem c06_clq_quiescent (s : CLQ.St α) (hr : (CLQ.sys α).Reachable s)
    (hq : ∀ t, CLQ.isE4 (s.pc t) = false) :
    s.nodes.length = s.tail ∧ s.next s.tail = none ∧ s.absq = s.nodes.drop s.head := by
  have h := CLQ.inv_reachable s hr
  have hlen : s.nodes.length = s.tail := by
    have h1 := h.tl; have h2 := h.lt
    by_cases hc : s.nodes.length = s.tail + 1
    · obtain ⟨t, ht⟩ := h.ex hc; simp [hq t] at ht
    · omega
  refine ⟨hlen, by simp [CLQ.St.next, hlen], ?_⟩
  simp only [CLQ.St.absq, ← hlen, List.take_length]

end CLQ

/-! ## lock-wrapped containers -/
section LW
open LockWrapped

/-- **Generic theorem**: a container whose methods execute a sequential body `f` inside critical
    sections of one RWMutex (writers under `Lock`, read-only bodies under `RLock` or snapshot-style under
    `Lock`) is linearizable w.r.t. every specification `f` refines through `abs`; the linearization
    point is the body's write (`finish`) for writers and its read (`begin`) for read-only bodies. -/
theorem c06_lockWrapped_linearizable {S Op Ret A : Type} [DecidableEq Ret] (P : Params S Op Ret)
    (spec : SeqSpec A Op Ret) (abs : S → A) (hinit : abs P.init = spec.init)
    (href : ∀ s op, spec.apply (abs s) op (abs (P.f s op).1) (P.f s op).2)
    (hro : ∀ s op, (P.style op).readOnly = true → (P.f s op).1 = s)
    (ls : List (Lbl Op Ret)) (s : St S Op Ret) (hrun : (sys P).run (sys P).init ls = some s) :
    Linearizable spec ((sys P).history ls) :=
  LockWrapped.linearizable P spec abs hinit href hro ls s hrun

/-- The mutex invariants in every reachable state: writer excludes everybody, the reader count is the
    number of readers inside, a body between its read and its write has seen the current data, data are
    dirty only while an in-place writer is inside its critical section — and no torn read (`crash`). -/
theorem c06_lockWrapped_invariants {S Op Ret : Type} [DecidableEq Ret] (P : Params S Op Ret)
    (s : St S Op Ret) (hr : (sys P).Reachable s) : Inv P s :=
  inv_reachable P s hr

/-- no torn read: a body never starts reading while an in-place writer is half done -/
theorem c06_lockWrapped_no_torn_read {S Op Ret : Type} [DecidableEq Ret] (P : Params S Op Ret)
    (s : St S Op Ret) (hr : (sys P).Reachable s) (t : Nat) : s.pc t ≠ .crash :=
  (inv_reachable P s hr).nocrash t

/-- **ConcurrentList** over any of the C04 list models, any growth policy of the runtime: linearizable
    w.r.t. the abstract sequence (index errors included), by the C04 refinement theorem. -/
theorem c06_concurrentList_linearizable (x0 : Ekit.Lists.AnyList) (grow : Ekit.Lists.AnyList → SOp → Nat)
    (ls : List (Lbl SOp SRet)) (s : St Ekit.Lists.AnyList SOp SRet)
    (hrun : (sys (listParams x0 grow)).run (sys (listParams x0 grow)).init ls = some s) :
    Linearizable (seqSpec x0.vals) ((sys (listParams x0 grow)).history ls) :=
  LockWrapped.linearizable (listParams x0 grow) (seqSpec x0.vals) Ekit.Lists.AnyList.vals rfl
    (fun x op => seqStep_of_refines (Ekit.Lists.c04_anyList_step_refines x _ op))
    (fun x op h => list_readOnly x _ op h) ls s hrun

/-- **CopyOnWriteArrayList** (as fixed: every reader takes one snapshot under the mutex): linearizable
    w.r.t. the abstract sequence; readers take effect at the snapshot. -/
theorem c06_cow_linearizable (a0 : Ekit.Lists.CowList)
    (ls : List (Lbl SOp SRet)) (s : St Ekit.Lists.CowList SOp SRet)
    (hrun : (sys (cowParams a0)).run (sys (cowParams a0)).init ls = some s) :
    Linearizable (seqSpec a0.s.vals) ((sys (cowParams a0)).history ls) :=
  LockWrapped.linearizable (cowParams a0) (seqSpec a0.s.vals) (fun a => a.s.vals) rfl
    (fun a op => seqStep_of_refines (Ekit.Lists.c04_cow_step_refines a op))
    (fun a op h => cow_readOnly a op h) ls s hrun

/-- **ConcurrentPriorityQueue**: for every sequential heap implementation `f` on states `H` that refines
    the priority-queue specification through `absH` (that refinement for `internal/queue.PriorityQueue`
    is property C05) and whose `Peek/Len/Cap` do not modify it, the RWMutex wrapper is linearizable w.r.t.
    the priority-queue specification ("a minimum", `full` at capacity). -/
theorem c06_cpq_linearizable {H : Type} (capacity : Int) (h0 : H) (f : H → POp → H × PRet) (absH : H → PQS)
    (hinit : absH h0 = pqInit capacity)
    (href : ∀ h op, pqStep (absH h) op (f h op).2 = some (absH (f h op).1))
    (hro : ∀ h op, (pqStyle op).readOnly = true → (f h op).1 = h)
    (ls : List (Lbl POp PRet)) (s : St H POp PRet)
    (hrun : (sys (pqParams h0 f)).run (sys (pqParams h0 f)).init ls = some s) :
    Linearizable (pqSpec capacity) ((sys (pqParams h0 f)).history ls) :=
  LockWrapped.linearizable (pqParams h0 f) (pqSpec capacity) absH hinit href hro ls s hrun

/-- the hypotheses of `c06_cpq_linearizable` are satisfiable: the reference priority queue -/
theorem c06_cpq_ref_linearizable (capacity : Int)
    (ls : List (Lbl POp PRet)) (s : St PQS POp PRet)
    (hrun : (sys (pqParams (pqInit capacity) refPQ)).run (sys (pqParams (pqInit capacity) refPQ)).init ls = some s) :
    Linearizable (pqSpec capacity) ((sys (pqParams (pqInit capacity) refPQ)).history ls) :=
  c06_cpq_linearizable capacity (pqInit capacity) refPQ id rfl refPQ_refines refPQ_readOnly ls s hrun

end LW

/-- "no call panics" for the two lists: the sequence specification never answers with a panic, so a
    linearizable history contains none (the answer types of the queue, priority-queue and map
    specifications have no panic constructor at all). -/
theorem c06_seq_spec_never_panics (s : List Int) (op : SOp) (m : String) : seqStep s op (.panic m) = none := by
  have h : (Ekit.Lists.Spec.step s op).2 ≠ .panic m := by
    cases op <;> simp only [Ekit.Lists.Spec.step] <;> (try split) <;> simp
  simp only [seqStep]
  split
  · rename_i h'; exact absurd h' h
  · rfl

/-! ## syncx.Map -/

/-- **syncx.Map** (`sync.Map`'s own operations atomic): linearizable w.r.t. the map specification in
    which `LoadOrStoreFunc(key, fn)` atomically returns the existing value, or fails with `fn`'s error
    when the key is absent, or stores `fn`'s value — for every interleaving, including preemption between
    the `Load` and the `LoadOrStore` halves (`fn` may have been called although its value is then not stored). -/
theorem c06_syncMap_linearizable (ls : List (Lbl MOp MRet)) (s : SyncMap.St)
    (hrun : SyncMap.sys.run SyncMap.sys.init ls = some s) :
    Linearizable mapSpec (SyncMap.sys.history ls) :=
  SyncMap.linearizable ls s hrun

/-! ## negative witness for the recorded finding C06-F1 (fixed in /repo by 9d28ac0) -/

/-- the pre-fix `CopyOnWriteArrayList.Get` (two unlocked reads of `vals`): a 2-thread, 5-step run ends in
    the index-out-of-range panic — which is why `c06_cow_linearizable` needs the one-snapshot reader. -/
theorem c06_cow_unlocked_get_panics :
    (((CowUnlocked.sys [1]).run (CowUnlocked.sys [1]).init CowUnlocked.witness).map
        fun s => (s.vals, s.pc 1, s.pc 2)) = some ([], .crash, .ret (.ok (.val 1))) := by decide

/-! ## non-vacuity: concrete runs of the models reach the interesting states -/

/-- two enqueuers race: thread 1 links its node and is preempted before the tail swing; thread 2 sees
    `tail.next != nil` and retries; a dequeuer meanwhile answers `empty`; then the swing, and the value comes out -/
example :
    (((CLQ.sys Int).run (CLQ.sys Int).init
        [.call 1 (.enq 7), .call 2 (.enq 8), .tau 1, .tau 1, .tau 1,   -- 1: load tail, load next, CAS next ✓.
         .tau 2, .tau 2,                                               -- 2: load tail, load next ≠ nil → retry
         .call 3 .deq, .tau 3, .tau 3,                                 -- 3: head = tail → empty
         .tau 1, .ret 1 .ok,                                           -- 1: swing
         .ret 3 .empty, .call 3 .deq, .tau 3, .tau 3, .tau 3, .tau 3]).map
      fun s => (s.nodes, s.head, s.tail, s.pc 3)) = some ([7], 1, 1, .ret (.val 7)) := by decide

set_option synthInstance.maxSize 512 in
example :
    (((LockWrapped.sys (LockWrapped.cowParams ⟨⟨[1, 2], 2⟩⟩)).run (LockWrapped.sys (LockWrapped.cowParams ⟨⟨[1, 2], 2⟩⟩)).init
        [.call 1 (.get 1), .tau 1, .tau 1, .tau 1,        -- reader: Lock, snapshot, Unlock
         .call 2 (.delete 0), .tau 2, .tau 2, .tau 2, .tau 2, -- writer publishes [2]
         .tau 1]).map                                      -- reader answers from its snapshot
      fun s => (s.data.s.vals, s.w, s.rc, s.pc 1, s.pc 2)) =
    some ([2], false, 0, .ret (.ok (.val 2)), .ret (.ok (.val 1))) := by decide

example :
    ((SyncMap.sys.run SyncMap.sys.init
        [.call 1 (.losf 1 (some 10)), .call 2 (.losf 1 (some 20)), .tau 1, .tau 2,  -- both miss
         .tau 1, .tau 2, .tau 2, .tau 1]).map                                       -- both call fn; 2 stores first
      fun s => (s.m, s.pc 1, s.pc 2)) = some ([(1, 20)], .ret (.loaded 20), .ret (.stored 20)) := by decide

/-! ## regenerated tie: the synchronisation skeleton of every function of the five anchored files
is the one the models were written against -/
theorem c06_skel_ConcurrentLinkedQueue_Dequeue : Ekit.Gen.SkelC06.ConcurrentLinkedQueue_Dequeue = Ekit.Linz.Skel.expected_ConcurrentLinkedQueue_Dequeue := rfl
theorem c06_skel_ConcurrentLinkedQueue_Enqueue : Ekit.Gen.SkelC06.ConcurrentLinkedQueue_Enqueue = Ekit.Linz.Skel.expected_ConcurrentLinkedQueue_Enqueue := rfl
theorem c06_skel_ConcurrentList_Add : Ekit.Gen.SkelC06.ConcurrentList_Add = Ekit.Linz.Skel.expected_ConcurrentList_Add := rfl
theorem c06_skel_ConcurrentList_Append : Ekit.Gen.SkelC06.ConcurrentList_Append = Ekit.Linz.Skel.expected_ConcurrentList_Append := rfl
theorem c06_skel_ConcurrentList_AsSlice : Ekit.Gen.SkelC06.ConcurrentList_AsSlice = Ekit.Linz.Skel.expected_ConcurrentList_AsSlice := rfl
theorem c06_skel_ConcurrentList_Cap : Ekit.Gen.SkelC06.ConcurrentList_Cap = Ekit.Linz.Skel.expected_ConcurrentList_Cap := rfl
theorem c06_skel_ConcurrentList_Delete : Ekit.Gen.SkelC06.ConcurrentList_Delete = Ekit.Linz.Skel.expected_ConcurrentList_Delete := rfl
theorem c06_skel_ConcurrentList_Get : Ekit.Gen.SkelC06.ConcurrentList_Get = Ekit.Linz.Skel.expected_ConcurrentList_Get := rfl
theorem c06_skel_ConcurrentList_Len : Ekit.Gen.SkelC06.ConcurrentList_Len = Ekit.Linz.Skel.expected_ConcurrentList_Len := rfl
theorem c06_skel_ConcurrentList_Range : Ekit.Gen.SkelC06.ConcurrentList_Range = Ekit.Linz.Skel.expected_ConcurrentList_Range := rfl
theorem c06_skel_ConcurrentList_Set : Ekit.Gen.SkelC06.ConcurrentList_Set = Ekit.Linz.Skel.expected_ConcurrentList_Set := rfl
theorem c06_skel_ConcurrentPriorityQueue_Cap : Ekit.Gen.SkelC06.ConcurrentPriorityQueue_Cap = Ekit.Linz.Skel.expected_ConcurrentPriorityQueue_Cap := rfl
theorem c06_skel_ConcurrentPriorityQueue_Dequeue : Ekit.Gen.SkelC06.ConcurrentPriorityQueue_Dequeue = Ekit.Linz.Skel.expected_ConcurrentPriorityQueue_Dequeue := rfl
theorem c06_skel_ConcurrentPriorityQueue_Enqueue : Ekit.Gen.SkelC06.ConcurrentPriorityQueue_Enqueue = Ekit.Linz.Skel.expected_ConcurrentPriorityQueue_Enqueue := rfl
theorem c06_skel_ConcurrentPriorityQueue_Len : Ekit.Gen.SkelC06.ConcurrentPriorityQueue_Len = Ekit.Linz.Skel.expected_ConcurrentPriorityQueue_Len := rfl
theorem c06_skel_ConcurrentPriorityQueue_Peek : Ekit.Gen.SkelC06.ConcurrentPriorityQueue_Peek = Ekit.Linz.Skel.expected_ConcurrentPriorityQueue_Peek := rfl
theorem c06_skel_CopyOnWriteArrayList_Add : Ekit.Gen.SkelC06.CopyOnWriteArrayList_Add = Ekit.Linz.Skel.expected_CopyOnWriteArrayList_Add := rfl
theorem c06_skel_CopyOnWriteArrayList_Append : Ekit.Gen.SkelC06.CopyOnWriteArrayList_Append = Ekit.Linz.Skel.expected_CopyOnWriteArrayList_Append := rfl
theorem c06_skel_CopyOnWriteArrayList_AsSlice : Ekit.Gen.SkelC06.CopyOnWriteArrayList_AsSlice = Ekit.Linz.Skel.expected_CopyOnWriteArrayList_AsSlice := rfl
theorem c06_skel_CopyOnWriteArrayList_Cap : Ekit.Gen.SkelC06.CopyOnWriteArrayList_Cap = Ekit.Linz.Skel.expected_CopyOnWriteArrayList_Cap := rfl
theorem c06_skel_CopyOnWriteArrayList_Delete : Ekit.Gen.SkelC06.CopyOnWriteArrayList_Delete = Ekit.Linz.Skel.expected_CopyOnWriteArrayList_Delete := rfl
theorem c06_skel_CopyOnWriteArrayList_Get : Ekit.Gen.SkelC06.CopyOnWriteArrayList_Get = Ekit.Linz.Skel.expected_CopyOnWriteArrayList_Get := rfl
theorem c06_skel_CopyOnWriteArrayList_Len : Ekit.Gen.SkelC06.CopyOnWriteArrayList_Len = Ekit.Linz.Skel.expected_CopyOnWriteArrayList_Len := rfl
theorem c06_skel_CopyOnWriteArrayList_Range : Ekit.Gen.SkelC06.CopyOnWriteArrayList_Range = Ekit.Linz.Skel.expected_CopyOnWriteArrayList_Range := rfl
theorem c06_skel_CopyOnWriteArrayList_Set : Ekit.Gen.SkelC06.CopyOnWriteArrayList_Set = Ekit.Linz.Skel.expected_CopyOnWriteArrayList_Set := rfl
theorem c06_skel_CopyOnWriteArrayList_snapshot : Ekit.Gen.SkelC06.CopyOnWriteArrayList_snapshot = Ekit.Linz.Skel.expected_CopyOnWriteArrayList_snapshot := rfl
theorem c06_skel_Map_Delete : Ekit.Gen.SkelC06.Map_Delete = Ekit.Linz.Skel.expected_Map_Delete := rfl
theorem c06_skel_Map_Load : Ekit.Gen.SkelC06.Map_Load = Ekit.Linz.Skel.expected_Map_Load := rfl
theorem c06_skel_Map_LoadAndDelete : Ekit.Gen.SkelC06.Map_LoadAndDelete = Ekit.Linz.Skel.expected_Map_LoadAndDelete := rfl
theorem c06_skel_Map_LoadOrStore : Ekit.Gen.SkelC06.Map_LoadOrStore = Ekit.Linz.Skel.expected_Map_LoadOrStore := rfl
theorem c06_skel_Map_LoadOrStoreFunc : Ekit.Gen.SkelC06.Map_LoadOrStoreFunc = Ekit.Linz.Skel.expected_Map_LoadOrStoreFunc := rfl
theorem c06_skel_Map_Range : Ekit.Gen.SkelC06.Map_Range = Ekit.Linz.Skel.expected_Map_Range := rfl
theorem c06_skel_Map_Store : Ekit.Gen.SkelC06.Map_Store = Ekit.Linz.Skel.expected_Map_Store := rfl
theorem c06_skel_NewConcurrentLinkedQueue : Ekit.Gen.SkelC06.NewConcurrentLinkedQueue = Ekit.Linz.Skel.expected_NewConcurrentLinkedQueue := rfl
theorem c06_skel_NewConcurrentPriorityQueue : Ekit.Gen.SkelC06.NewConcurrentPriorityQueue = Ekit.Linz.Skel.expected_NewConcurrentPriorityQueue := rfl
theorem c06_skel_NewCopyOnWriteArrayList : Ekit.Gen.SkelC06.NewCopyOnWriteArrayList = Ekit.Linz.Skel.expected_NewCopyOnWriteArrayList := rfl
theorem c06_skel_NewCopyOnWriteArrayListOf : Ekit.Gen.SkelC06.NewCopyOnWriteArrayListOf = Ekit.Linz.Skel.expected_NewCopyOnWriteArrayListOf := rfl

end Ekit.Props.C06
