/-
C01 at the pointer level: the translated internal/tree/red_black_tree.go (MiniGo interpreter, regenerated on every run)
refines the abstract sorted map `Ekit.RB.SMap` — every call returns what the abstract map returns and leaves the entries
(read off the heap in in-order sequence) equal to the abstract map's, for every lawful comparator and every history.
Property theorems only; the work is in Lemmas/RBPtrFunFind, RBPtrFunAdd, RBPtrFunDel.
-/
import Ekit.Lemmas.RBPtrFunFind
import Ekit.Lemmas.RBPtrFunAdd
import Ekit.Lemmas.RBPtrFunDel
import Ekit.Props.C02Ptr

namespace Ekit.MiniGo.RBHeap
open Ekit.MiniGo Ekit.Gen.RBTreeGo

def POp.toTreeOp : POp → Ekit.RB.TreeOp Int Int
  | .add k v => .add k v
  | .delete k => .delete k
  | .find k => .find k
  | .set k v => .set k v

/-- C01: one call of the translated tree computes the abstract map's step on the entries -/
theorem c01_ptr_step_refines (cmpF : Int → Int → Int) (hLaw : Ekit.RB.LawfulCmp cmpF) (fuel : Nat) (st : St) (t : PT)
    (hH : Holds st t) (hO : Ordered cmpF st t) (op : POp) (r : Val) (st' : St)
    (h : op.run cmpF fuel st = .ok (r, st')) :
    ∃ t', Holds st' t' ∧ entries st' t' = (Ekit.RB.SMap.step cmpF (entries st t) op.toTreeOp).1 ∧
      RetIs (Ekit.RB.SMap.step cmpF (entries st t) op.toTreeOp).2 r := by
  cases op with
  | add k v => exact FunAdd.add_refines cmpF hLaw fuel k v st r st' t hH hO h
  | delete k => exact FunDel.delete_refines cmpF hLaw (FunFind.findNode_spec cmpF hLaw) fuel k st r st' t hH hO h
  | find k =>
    obtain ⟨h1, h2, h3⟩ := FunFind.find_refines cmpF hLaw fuel k st r st' t hH hO h
    refine ⟨t, h1, ?_, h3⟩
    rw [h2]
    simp only [POp.toTreeOp, Ekit.RB.SMap.step]
    split <;> rfl
  | set k v =>
    obtain ⟨h1, h2, h3⟩ := FunFind.set_refines cmpF hLaw fuel k v st r st' t hH hO h
    exact ⟨t, h1, h2, h3⟩

variable {cmpF : Int → Int → Int} in
theorem sorted_step' (hLaw : Ekit.RB.LawfulCmp cmpF) {s : List (Int × Int)} (hs : Ekit.RB.SMap.Sorted cmpF s)
    (op : Ekit.RB.TreeOp Int Int) : Ekit.RB.SMap.Sorted cmpF (Ekit.RB.SMap.step cmpF s op).1 := by
  cases op with
  | add k v =>
    simp only [Ekit.RB.SMap.step]
    cases hl : Ekit.RB.SMap.lookup cmpF k s with
    | some p => simpa using hs
    | none => simpa using Ekit.RB.SMap.sorted_insert hLaw hs hl
  | set k v =>
    simp only [Ekit.RB.SMap.step]
    cases hl : Ekit.RB.SMap.lookup cmpF k s with
    | some p => simpa using Ekit.RB.SMap.sorted_update hs
    | none => simpa using hs
  | find k =>
    simp only [Ekit.RB.SMap.step]
    cases hl : Ekit.RB.SMap.lookup cmpF k s <;> simpa using hs
  | delete k =>
    simp only [Ekit.RB.SMap.step]
    cases hl : Ekit.RB.SMap.lookup cmpF k s with
    | some p => simpa using Ekit.RB.SMap.sorted_erase hs
    | none => simpa using hs
  | keyValues => simpa [Ekit.RB.SMap.step] using hs
  | size => simpa [Ekit.RB.SMap.step] using hs

/-- the results of a history, collected -/
def runOpsR (cmpF : Int → Int → Int) (fuel : Nat) : St → List POp → Option (St × List Val)
  | st, [] => some (st, [])
  | st, op :: ops =>
    match op.run cmpF fuel st with
    | .ok (r, st1) =>
      match runOpsR cmpF fuel st1 ops with
      | some (st2, rs) => some (st2, r :: rs)
      | none => none
    | .error _ => none

inductive Forall₂ {α β : Type} (R : α → β → Prop) : List α → List β → Prop where
  | nil : Forall₂ R [] []
  | cons {a b l m} : R a b → Forall₂ R l m → Forall₂ R (a :: l) (b :: m)

/-- C01: every history from `NewRBTree` returns exactly what the abstract sorted map returns, and ends with its entries -/
theorem c01_ptr_run_refines (cmpF : Int → Int → Int) (hLaw : Ekit.RB.LawfulCmp cmpF) (fuel : Nat) (ops : List POp) :
    ∀ (st : St) (t : PT), Holds st t → Ordered cmpF st t → ∀ st' rs, runOpsR cmpF fuel st ops = some (st', rs) →
      ∃ t', Holds st' t' ∧ Ordered cmpF st' t' ∧
        entries st' t' = (Ekit.RB.SMap.run cmpF (entries st t) (ops.map POp.toTreeOp)).1 ∧
        Forall₂ RetIs (Ekit.RB.SMap.run cmpF (entries st t) (ops.map POp.toTreeOp)).2 rs := by
  induction ops with
  | nil =>
    intro st t hH hO st' rs h
    simp [runOpsR] at h
    obtain ⟨rfl, rfl⟩ := h
    exact ⟨t, hH, hO, rfl, .nil⟩
  | cons op ops ih =>
    intro st t hH hO st' rs h
    simp only [runOpsR] at h
    cases h1 : op.run cmpF fuel st with
    | error e => simp [h1] at h
    | ok r1 =>
      obtain ⟨r, st1⟩ := r1
      rw [h1] at h
      simp only at h
      cases h2 : runOpsR cmpF fuel st1 ops with
      | none => simp [h2] at h
      | some p =>
        obtain ⟨st2, rs2⟩ := p
        simp [h2] at h
        obtain ⟨rfl, rfl⟩ := h
        obtain ⟨t1, H1, E1, R1⟩ := c01_ptr_step_refines cmpF hLaw fuel st t hH hO op r st1 h1
        -- the order of the new tree follows from its entries being the abstract map's, which stay sorted
        have O1 : Ordered cmpF st1 t1 := by
          rw [ordered_iff_sorted, E1]
          exact sorted_step' hLaw ((ordered_iff_sorted cmpF st t).1 hO) op.toTreeOp
        obtain ⟨t2, H2, O2, E2, R2⟩ := ih st1 t1 H1 O1 st2 rs2 h2
        refine ⟨t2, H2, O2, ?_, ?_⟩
        · simp only [List.map_cons, Ekit.RB.SMap.run]; rw [← E1]; exact E2
        · simp only [List.map_cons, Ekit.RB.SMap.run]; rw [← E1]; exact .cons R1 R2

end Ekit.MiniGo.RBHeap
