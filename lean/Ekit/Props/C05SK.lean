/-
C05 — the REGENERATED skip list (PARTIAL simulation).

`Ekit/Generated/SkipListGo.lean` is internal/list/skip_list.go translated by a go/ast syntax dump (harness/minigosk) into the
deep embedding of Ekit/MiniGo/LangSK.lean; all semantics is in that interpreter (nil dereference / index out of range =
panic, ill-typed = stuck, calls and loop iterations consume fuel, `randomLevel`'s random test = a coin oracle).
Lemmas/SKRefine.lean relates the interpreter running that program to the hand-written model of C05
(Ekit/Model/SkipList.lean, theorems `c05_sl_*`) through the representation relation `Rep`.  Proved so far: the constructor,
`traverse` (both loops: the jumps along the level-`i` forward pointers compute the model's `scanLevel`/`traverseFrom` position;
Lemmas/SKTraverse.lean) and with it `Search`, `Get`, `randomLevel` (for EVERY coin stream: the height contract `1 ≤ h ≤ MaxLevel` that every `c05_sl_*` theorem assumes of
Insert's height input is a theorem about the translated code), `Len` and `Peek` (composed with `c05_sl_len_eq` /
`c05_sl_peek_eq_head`: they return the length / the head of the enumeration).  Insert/DeleteElement (the contents of `update`, the splice / unlink / trim
loops) are NOT proved; for them the tie between the translated program and the model is the driver area
`skptr` (every trace line, every level chain) only.
-/
import Ekit.Lemmas.SKTraverse
import Ekit.Props.C05

namespace Ekit.MiniGo.SK.Refine
open Ekit.MiniGo.SK Ekit.Gen.SkipListGo
open Ekit.SkipList (SL MaxLevel WF)

/-- the constructor: `NewSkipList(compare)` run by the interpreter builds a state representing `SL.new` (which is well formed) -/
theorem c05_sk_new (cmp : Int → Int → Int) (mc : Ekit.Cmp.Cmp) (fuel : Nat) (hf : 1 ≤ fuel) :
    ∃ s0, call cmp procs fuel .NewSkipList [.unit] emptySt = .ok (.unit, s0) ∧ Rep s0 [] SL.new ∧ WF mc SL.new :=
  let ⟨s0, h1, h2⟩ := new_sim cmp fuel hf
  ⟨s0, h1, h2, Ekit.SkipList.c05_sl_new_wf mc⟩

/-- the translated `randomLevel()`: for EVERY coin stream `true^n, false, rest` and fuel `≥ n+1` it does not panic, consumes
    exactly these coins, changes nothing else and returns a height `h` with `1 ≤ h ≤ MaxLevel` — the contract on tower
    heights assumed by `c05_sl_step_refines` / `c05_sl_run_refines` (`HeightsOK`). -/
theorem c05_sk_randomLevel (cmp : Int → Int → Int) (fuel n : Nat) (rest : List Bool) (st : St)
    (hc : st.coins = List.replicate n true ++ false :: rest) (hf : n + 1 ≤ fuel) :
    ∃ h : Nat, call cmp procs (fuel + 1) .randomLevel [] st = .ok (.int h, { st with coins := rest }) ∧
      1 ≤ h ∧ h ≤ MaxLevel ∧ h = min (n + 1) MaxLevel := by
  obtain ⟨h, e, h1, h2⟩ := randomLevel_contract n
  refine ⟨h, by rw [randomLevel_run cmp fuel n rest st hc hf, e], h1, h2, ?_⟩
  simp only [MaxLevel] at *
  split at e <;> omega

/-- the translated `Len()` on a state representing a well-formed `s`: the number of enumerated elements, state unchanged -/
theorem c05_sk_len (cmp : Int → Int → Int) {mc : Ekit.Cmp.Cmp} (fuel : Nat) (hf : 1 ≤ fuel) (st : St) (as : List Nat) (s : SL)
    (hR : Rep st as s) (hs : WF mc s) :
    call cmp procs fuel .Len [] st = .ok (.int s.asSlice.length, st) := by
  obtain ⟨n, e, hm⟩ := len_sim cmp mc fuel hf st as s hR 1
  rw [Ekit.SkipList.c05_sl_len_eq hs 1] at hm
  have : n = s.asSlice.length := by
    have := congrArg Prod.snd hm
    simp at this
    exact this.symm
  rw [e, this]

/-- the translated `Peek()` on a state representing a well-formed `s`: the head of the enumeration (a minimum by
    `c05_sl_peek_eq_head`) or the "empty" error, state unchanged, no panic -/
theorem c05_sk_peek (cmp : Int → Int → Int) {mc : Ekit.Cmp.Cmp} (fuel : Nat) (hf : 1 ≤ fuel) (st : St) (as : List Nat) (s : SL)
    (hR : Rep st as s) (hs : WF mc s) :
    (s.asSlice = [] ∧ call cmp procs fuel .Peek [] st = .ok (.pair (.int 0) .errNew, st)) ∨
    (∃ x t, s.asSlice = x :: t ∧ call cmp procs fuel .Peek [] st = .ok (.pair (.int x) (.ptr none), st)) := by
  have hm := (Ekit.SkipList.c05_sl_peek_eq_head hs 1).1
  rcases peek_sim cmp mc fuel hf st as s hR (fun n hn => (hs.heights n hn).1) 1 with ⟨hn, e, _⟩ | ⟨v, e, hv⟩
  · left; exact ⟨by simp [SL.asSlice, hn], e⟩
  · right
    rw [hm] at hv
    cases ha : s.asSlice with
    | nil => rw [ha] at hv; simp at hv
    | cons x t =>
      rw [ha] at hv
      have : x = v := by
        have := congrArg Prod.snd hv
        simpa using this
      exact ⟨x, t, rfl, by rw [e, this]⟩

/-- the translated `Get(i)` on a state representing a well-formed `s` (fuel `≥ i + 4`: one call, `i + 1` loop iterations):
    the `i`-th enumerated element, or the index error carrying (size, index) outside `[0, Len())` — an error, not a panic
    (no nil dereference along the level-0 walk); the state is unchanged. -/
theorem c05_sk_get (cmp : Int → Int → Int) {mc : Ekit.Cmp.Cmp} (fuel : Nat) (st : St) (as : List Nat) (s : SL)
    (hR : Rep st as s) (hs : WF mc s) (i : Int) (hf : i.toNat + 4 ≤ fuel) :
    ((0 ≤ i ∧ i < (s.asSlice.length : Int)) →
      call cmp procs fuel .Get [.int i] st = .ok (.pair (.int (s.asSlice.getD i.toNat 0)) (.ptr none), st)) ∧
    (¬ (0 ≤ i ∧ i < (s.asSlice.length : Int)) →
      call cmp procs fuel .Get [.int i] st = .ok (.pair (.int 0) (.errIdx s.asSlice.length i), st)) := by
  obtain ⟨_, hok, herr⟩ := Ekit.SkipList.c05_sl_get_eq_nth hs 1 i
  have hlen : (s.asSlice.length : Int) = s.size := by rw [hs.size]; simp [SL.asSlice]
  rcases get_sim cmp mc fuel st as s hR (fun n hn => (hs.heights n hn).1) hs.size 1 i hf with ⟨v, e, hv⟩ | ⟨e, hv⟩
  · refine ⟨fun hr => ?_, fun hr => ?_⟩
    · have h2 := hok hr
      rw [hv] at h2
      have : v = s.asSlice.getD i.toNat 0 := by simpa using h2
      rw [e, this]
    · have h2 := herr hr
      rw [hv] at h2
      simp at h2
  · refine ⟨fun hr => ?_, fun _ => by rw [e, hlen]⟩
    have h2 := hok hr
    rw [hv] at h2
    simp at h2

/-- the translated `Search(v)` on a state representing a well-formed `s`, lawful comparator (fuel: two nested calls +
    `max (length, level) + 1` loop iterations): no panic (no nil dereference / index out of range in `traverse`'s loop nest),
    state unchanged, and the answer is `true` exactly when some enumerated element compares equal to `v`. -/
theorem c05_sk_search {cmp : Ekit.Cmp.Cmp} (hc : Ekit.Cmp.Lawful cmp) (fuel : Nat) (st : St) (as : List Nat) (s : SL)
    (hR : Rep st as s) (hs : WF cmp s) (v : Int) (hf : s.nodes.length + 1 ≤ fuel) (hf2 : s.level + 1 ≤ fuel) :
    ∃ b, call cmp procs (fuel + 2) .Search [.int v] st = .ok (.bool b, st) ∧ (b = true ↔ ∃ x ∈ s.asSlice, cmp x v = 0) := by
  have hl32 : s.level ≤ 32 := by
    obtain ⟨_, _, h3⟩ := hs.level
    by_cases h1 : 1 < s.level
    · obtain ⟨n, hn, hle⟩ := h3 h1
      have := (hs.heights n hn).2
      simp only [MaxLevel] at this
      omega
    · omega
  obtain ⟨b, e, hm⟩ := search_sim cmp fuel st as s hR (fun n hn => (hs.heights n hn).1) hl32 1 v hf hf2
  obtain ⟨b', hm', hiff⟩ := Ekit.SkipList.c05_sl_search_iff_mem hc hs 1 v
  rw [hm] at hm'
  have : b = b' := by simpa using hm'
  exact ⟨b, e, by rw [this]; exact hiff⟩

/-! non-vacuity -/
example : ∃ s0, call (fun a b => a - b) procs 1 .NewSkipList [.unit] emptySt = .ok (.unit, s0) ∧ Rep s0 [] SL.new :=
  new_sim _ 1 (Nat.le_refl 1)
example (st : St) (hc : st.coins = [true, true, false, true]) :
    ∃ h : Nat, call (fun a b => a - b) procs 4 .randomLevel [] st = .ok (.int h, { st with coins := [true] }) ∧ h = 3 := by
  obtain ⟨h, e, _, _, h3⟩ := c05_sk_randomLevel (fun a b => a - b) 3 2 [true] st hc (by omega)
  exact ⟨h, e, by simp [MaxLevel] at h3; omega⟩

end Ekit.MiniGo.SK.Refine
