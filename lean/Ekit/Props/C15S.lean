import Ekit.Props.C15
import Ekit.Lemmas.RacesStrong
/-!
# C15 (review additions) — race freedom with respect to the minimal happens-before

`c15_raceFree` concludes `RaceFree tr`, i.e. "no conflicting pair is unordered by `HB tr`", where `HB` has an edge
from an atomic store to EVERY later atomic access of the location and from a publish of a token to EVERY later
receive of it.  Go's synchronized-before only has the edge to the access that *observes* the store / to the
*matching* receive, so `HB` is larger than Go's happens-before and `RaceFree` correspondingly weaker
(`c15_generous_hb_hides_a_race` exhibits a trace that is `RaceFree` yet racy for the matched relation).
The theorems below close the gap: the conclusion is ordering by `HBM tr M` — program order, mutex/RWMutex
release→acquire edges, and the pairs of an explicit matching `M` — hence by EVERY transitive relation
containing these, in particular the happens-before of the Go memory model with `M` = the run-time's matching.
-/
namespace Ekit.Races
open Ekit.Conc.Lockset Ekit.Conc.AccessTable

/-- **Strong generic form.**  Every two conflicting accesses of a well-formed trace conforming to a discipline
table are ordered by the minimal happens-before (no atomic edges, only matched publish→receive edges). -/
theorem c15_disciplined_ordered_min {Lock Loc Tok : Type} {S : Setup Loc Tok} {disc : Loc → Discipline Lock}
    {ini : Nat → Prop} {M : Nat → Nat → Prop} {tr : Trace Lock Loc Tok} (wf : WellFormed tr)
    (c : ConformsM S disc ini M tr) : RaceFreeWrt tr (HBM tr M) :=
  disciplined_raceFreeWrt_min wf c

/-- **The property for the analysed code, strong form**: in every execution described by the regenerated
table — with `M` the matching of publish/receive events — any two conflicting accesses are ordered by EVERY
relation `R` that is transitive and contains program order, unlock→lock edges of one lock (at least one side
exclusive) and the matched pairs.  The Go memory model's happens-before is such a relation. -/
theorem c15_raceFree_any_hb (W : World) (ini : Nat → Prop) (M : Nat → Nat → Prop) (tr : TTrace) (wf : WellFormed tr)
    (ft : FromTableM Ekit.Gen.AccessTable.accessTable W ini M tr)
    (R : Nat → Nat → Prop) (htrans : ∀ i j k, R i j → R j k → R i k)
    (hpo : ∀ i j e₁ e₂, i < j → tr[i]? = some e₁ → tr[j]? = some e₂ → e₁.tid = e₂.tid → R i j)
    (hlock : ∀ i j t t' l m m', i < j → tr[i]? = some (.rel t l m) → tr[j]? = some (.acq t' l m') →
      (m = .excl ∨ m' = .excl) → R i j)
    (hM : ∀ i j, i < j → M i j → R i j) : RaceFreeWrt tr R :=
  (disciplined_raceFreeWrt_min wf (fromTableM_conforms c15_accessTable_disciplined ft)).mono
    (fun _ _ h => HBM.le_any R htrans hpo hlock hM h)

/-- the published theorem `c15_raceFree` is the instance `R := HB tr`, `M :=` everything -/
theorem c15_raceFree_of_strong (W : World) (ini : Nat → Prop) (tr : TTrace) (wf : WellFormed tr)
    (ft : FromTable Ekit.Gen.AccessTable.accessTable W ini tr) : RaceFree tr :=
  (raceFreeWrt_HB_iff tr).1 <|
    (disciplined_raceFreeWrt_min wf (fromTableM_conforms c15_accessTable_disciplined ft.toM)).mono (fun _ _ h => h.toHB)

/-- hand-off through an atomic location: the producer's earlier actions happen before the later actions of the
consumer whose atomic access OBSERVES the store (`M i j`) -/
theorem c15_handoff_atomic_observed {Lock Loc Tok : Type} {tr : Trace Lock Loc Tok} {M : Nat → Nat → Prop}
    {i₀ i j j₀ : Nat} {t t' : Tid} {x : Loc} {w' : Bool} {e₀ e₁ : Ev Lock Loc Tok}
    (h0 : tr[i₀]? = some e₀) (hi : tr[i]? = some (.atomic t x true)) (hj : tr[j]? = some (.atomic t' x w'))
    (h1 : tr[j₀]? = some e₁) (ht0 : e₀.tid = t) (ht1 : e₁.tid = t')
    (hi0 : i₀ < i) (hij : i < j) (hj1 : j < j₀) (hobs : M i j) : HBM tr M i₀ j₀ :=
  handoff_atomicM h0 hi hj h1 ht0 ht1 hi0 hij hj1 hobs

/-- hand-off through a lock, in the minimal relation -/
theorem c15_handoff_lock_min {Lock Loc Tok : Type} {tr : Trace Lock Loc Tok} {M : Nat → Nat → Prop}
    (wf : WellFormed tr) {i₀ i j j₀ : Nat} {t t' : Tid} {l : Lock} {m : Mode} {e₀ eᵢ eⱼ e₁ : Ev Lock Loc Tok}
    (h0 : tr[i₀]? = some e₀) (hi : tr[i]? = some eᵢ) (hj : tr[j]? = some eⱼ) (h1 : tr[j₀]? = some e₁)
    (ht0 : e₀.tid = t) (hti : eᵢ.tid = t) (htj : eⱼ.tid = t') (ht1 : e₁.tid = t')
    (hi0 : i₀ < i) (hij : i < j) (hj1 : j < j₀) (hne : t ≠ t')
    (hw : HoldsAt tr i t l .excl) (hr : HoldsAt tr j t' l m) : HBM tr M i₀ j₀ :=
  handoff_lockM wf h0 hi hj h1 ht0 hti htj ht1 hi0 hij hj1 hne hw hr

/-! ### the gap is real: a trace that the generous `HB` declares race-free and the matched relation does not -/

namespace GapWitness
open Witness

/-- thread 0 writes `x = 7` plainly and atomically stores flag `9`; thread 1 overwrites the flag; thread 2
    loads the flag — observing thread 1's store (position 5), not thread 0's — and reads `x` plainly. -/
def tr : List E :=
  [.publish 0 0, .receive 1 0, .receive 2 0, .write 0 7, .atomic 0 9 true, .atomic 1 9 true, .atomic 2 9 false, .read 2 7]

/-- the run-time's matching: both receives take thread 0's publish; the load observes the store at 5 -/
def M (i j : Nat) : Prop := (i = 0 ∧ j = 1) ∨ (i = 0 ∧ j = 2) ∨ (i = 5 ∧ j = 6)

theorem hb_3_7 : HB tr 3 7 :=
  .trans (.trans (HB.po (i := 3) (j := 4) (by decide) (e₁ := .write 0 7) (e₂ := .atomic 0 9 true) rfl rfl rfl)
    (HB.sync (i := 4) (j := 6) (by decide) (e₁ := .atomic 0 9 true) (e₂ := .atomic 2 9 false) rfl rfl (.atomic 0 2 9 false)))
    (HB.po (i := 6) (j := 7) (by decide) (e₁ := .atomic 2 9 false) (e₂ := .read 2 7) rfl rfl rfl)

def accB (i : Nat) : Option (Acc Nat) := (tr[i]?).bind Ev.acc?
def conflictB (a b : Acc Nat) : Bool := a.x == b.x && a.t != b.t && (a.w || b.w) && !(a.a && b.a)
def pairB (i j : Nat) : Bool :=
  match accB i, accB j with
  | some a, some b => conflictB a b
  | _, _ => false

theorem raceFree_generous : RaceFree tr := by
  intro i j ⟨hij, eᵢ, eⱼ, aᵢ, aⱼ, hi, hj, hai, haj, ⟨hx, hne, hw, hna⟩, hn⟩
  have hil : i < 8 := by
    rcases Nat.lt_or_ge i tr.length with h | h
    · exact h
    · rw [List.getElem?_eq_none h] at hi; cases hi
  have hjl : j < 8 := by
    rcases Nat.lt_or_ge j tr.length with h | h
    · exact h
    · rw [List.getElem?_eq_none h] at hj; cases hj
  have key : ∀ (i j : Fin 8), i.1 < j.1 → pairB i.1 j.1 = true → i.1 = 3 ∧ j.1 = 7 := by decide
  have hcb : conflictB aᵢ aⱼ = true := by
    have h4 : (aᵢ.a && aⱼ.a) = false := by
      cases h5 : aᵢ.a <;> cases h6 : aⱼ.a <;> simp_all
    have h7 : (aᵢ.w || aⱼ.w) = true := by rcases hw with h | h <;> simp [h]
    simp [conflictB, hx, hne, h4, h7]
  have hpb : pairB i j = true := by
    have h1 : accB i = some aᵢ := by simp [accB, hi, hai]
    have h2 : accB j = some aⱼ := by simp [accB, hj, haj]
    simp only [pairB, h1, h2]; exact hcb
  obtain ⟨h3, h7⟩ := key ⟨i, hil⟩ ⟨j, hjl⟩ hij hpb
  simp only at h3 h7
  subst h3; subst h7
  exact hn hb_3_7

def edgeMB (i j : Nat) : Bool :=
  match tr[i]?, tr[j]? with
  | some a, some b => decide (i < j) &&
      (a.tid == b.tid || (match a, b with | .rel _ l m, .acq _ l' m' => l == l' && (m == .excl || m' == .excl) | _, _ => false) ||
       decide ((i = 0 ∧ j = 1) ∨ (i = 0 ∧ j = 2) ∨ (i = 5 ∧ j = 6)))
  | _, _ => false

theorem edgeMB_of_edgeM {i j : Nat} (h : EdgeM tr M i j) : i < 8 ∧ j < 8 ∧ edgeMB i j = true := by
  obtain ⟨hij, a, b, ha, hb, hor⟩ := h
  have hi : i < 8 := by
    rcases Nat.lt_or_ge i tr.length with h | h
    · exact h
    · rw [List.getElem?_eq_none h] at ha; cases ha
  have hj : j < 8 := by
    rcases Nat.lt_or_ge j tr.length with h | h
    · exact h
    · rw [List.getElem?_eq_none h] at hb; cases hb
  refine ⟨hi, hj, ?_⟩
  unfold edgeMB
  rw [ha, hb]
  rcases hor with h | ⟨t, t', l, m, m', rfl, rfl, hm⟩ | ⟨hm, _⟩
  · simp [hij, h]
  · rcases hm with h | h <;> subst h <;> simp [hij]
  · have : decide ((i = 0 ∧ j = 1) ∨ (i = 0 ∧ j = 2) ∨ (i = 5 ∧ j = 6)) = true := decide_eq_true hm
    simp [hij, this]

/-- from positions 3 and 4 (thread 0's write and store) the minimal relation reaches nothing beyond 4 -/
theorem hbm_inv : ∀ i j, HBM tr M i j → (i = 3 ∨ i = 4) → j = 4 := by
  intro i j h
  induction h with
  | base e =>
    obtain ⟨hi, hj, hb⟩ := edgeMB_of_edgeM e
    have key : ∀ (i j : Fin 8), edgeMB i.1 j.1 = true → (i.1 = 3 ∨ i.1 = 4) → j.1 = 4 := by decide
    exact key ⟨_, hi⟩ ⟨_, hj⟩ hb
  | trans _ _ ih₁ ih₂ =>
    intro h
    have := ih₁ h
    exact ih₂ (.inr this)

theorem not_hbm_3_7 : ¬ HBM tr M 3 7 := fun h => by
  have := hbm_inv 3 7 h (.inl rfl); omega

end GapWitness

/-- **The gap is real.**  There is a trace that `RaceFree` (generous `HB`) accepts although its plain write and
plain read of one location by different threads are NOT ordered by program order, lock edges and the real
matching — a data race under the Go memory model (the load observed another goroutine's store).  So
`c15_raceFree` alone would not exclude it; `c15_raceFree_any_hb` does. -/
theorem c15_generous_hb_hides_a_race :
    RaceFree GapWitness.tr ∧ ¬ RaceFreeWrt GapWitness.tr (HBM GapWitness.tr GapWitness.M) := by
  refine ⟨GapWitness.raceFree_generous, fun h => ?_⟩
  exact GapWitness.not_hbm_3_7
    (h 3 7 (.write 0 7) (.read 2 7) ⟨0, 7, true, false⟩ ⟨2, 7, false, false⟩ (by decide) rfl rfl rfl rfl
      ⟨rfl, by decide, .inl rfl, by simp⟩)

/-- non-vacuity of the strong hypotheses: the miniature table trace of `c15_witness_fromTable_raceFree`
satisfies `FromTableM` with the total matching, so `ConformsM`/`FromTableM` are satisfiable -/
example : FromTableM Witness2.miniTable Witness2.W Witness2.ini (fun _ _ => True) Witness2.tr :=
  Witness2.tr_fromTable.toM

end Ekit.Races
