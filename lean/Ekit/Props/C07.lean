/-
C07 — "Blocking queues are bounded FIFO queues: capacity, order, exactly-once".

Models: `Ekit/Model/ArrayBQ.lean` (ConcurrentArrayBlockingQueue), `Ekit/Model/LinkedBQ.lean`
(ConcurrentLinkedBlockingQueue + `cond`), specification `Ekit/Spec/BQueue.lean`.
All theorems quantify over every capacity ≥ 1 (every `maxSize : Int` for the linked queue, ≤ 0 being
the unbounded variant), every number of threads, every interleaving of their atomic actions and every
pattern of context endings (`ctxEnd t` may occur between any two actions of a call, in particular
between winning a permit and taking the lock).
-/
import Ekit.Generated.SkelC07
import Ekit.Model.BQueueSkel
import Ekit.Lemmas.ArrayBQSim
import Ekit.Lemmas.LinkedBQSim
import Ekit.Lemmas.BQCancelled

open Ekit.Conc Ekit.BQ

/-! ## Array queue -/
section Array
open Ekit.ArrayBQ

/-- threads holding (or owing) a permit of `enqueueCap` / `dequeueCap` -/
def Ekit.ArrayBQ.holdersEnq (s : State) : Nat := wsum wE s.pc s.live
def Ekit.ArrayBQ.holdersDeq (s : State) : Nat := wsum wD s.pc s.live

/-- **abq_inv** ("the number of stored elements is never negative and never exceeds the configured
    capacity", permit conservation at every instant, ring well-formedness, no panic):
    in every reachable state `0 ≤ count ≤ cap`; the free permits of both semaphores plus the permits
    in flight add up to `cap`; `count` equals the free dequeue permits plus those in flight;
    `len(data) = cap`, `head < cap`, `tail = (head + count) mod cap`; no Go panic has occurred
    (no index out of range, no semaphore over-release, no unlock of an unlocked mutex). -/
theorem c07_abq_inv (cap : Nat) (hcap : 1 ≤ cap) (s : State) (hr : (sys cap).Reachable s) :
    0 ≤ s.count ∧ s.count ≤ cap ∧
    s.enqFree + s.deqFree + holdersEnq s + holdersDeq s = cap ∧
    s.count = (s.deqFree : Int) + holdersDeq s ∧
    (s.enqFree : Int) + holdersEnq s + s.count = cap ∧
    s.data.length = cap ∧ s.head < cap ∧ s.tail < cap ∧ s.tail = (s.head + s.count.toNat) % cap ∧
    s.panicked = false := by
  have h := inv_reachable hcap s hr
  have hE := h.permE; have hD := h.permD
  refine ⟨h.count_nonneg, h.count_le, ?_, hD, hE, h.dlen, h.head_lt, h.tail_lt hcap, h.tail_eq, h.noPanic⟩
  simp only [holdersEnq, holdersDeq]; omega

/-- **capacity never exceeded** for every capacity ≥ 1: the queue's contents (what `AsSlice` would
    show) have exactly `count` elements, at most `cap`. -/
theorem c07_abq_capacity (cap : Nat) (hcap : 1 ≤ cap) (s : State) (hr : (sys cap).Reachable s) :
    (contents s).length = s.count.toNat ∧ (contents s).length ≤ cap := by
  have h := inv_reachable hcap s hr
  have := h.count_le; have := h.count_nonneg
  rw [contents_length]; exact ⟨rfl, by omega⟩

/-- the write lock really serialises the critical sections (the fact the data invariants rest on):
    two threads inside `Lock … Unlock` are the same thread, and no reader is inside `RLock … RUnlock`
    at the same time. -/
theorem c07_abq_mutual_exclusion (cap : Nat) (hcap : 1 ≤ cap) (s : State) (hr : (sys cap).Reachable s)
    (t u : Nat) (ht : inW (s.pc t) = true) :
    (inW (s.pc u) = true → u = t) ∧ wR (s.pc u) = 0 := by
  have h := inv_reachable hcap s hr
  have hwt := h.mutexW t ht
  refine ⟨fun hu => ?_, ?_⟩
  · have := h.mutexW u hu; rw [hwt] at this; injection this with this; exact this.symm
  · have h0 := h.wr_excl (by simp [hwt])
    have hrd := h.rd
    by_cases hidle : s.pc u = .idle
    · simp [hidle, wR]
    · have := wsum_le_of_mem wR s.pc ((h.live_iff u).mpr hidle); omega

/-- **abq_linearizable**: every history of the array queue (any schedule, any cancellations) is
    linearizable w.r.t. the bounded FIFO queue of capacity `cap`, in which `Enqueue` takes effect only
    when the queue is not full, `Dequeue` only when it is non-empty and returns the oldest element,
    `Len`/`AsSlice` return the length / a snapshot, and a call answering a context error has no
    effect. -/
theorem c07_abq_linearizable (cap : Nat) (hcap : 1 ≤ cap) (ls : List Label) (s : State)
    (hrun : (sys cap).run (sys cap).init ls = some s) :
    Linearizable (bqSpec (some cap)) ((sys cap).history ls) :=
  forward_simulation (sys cap) (bqSpec (some cap)) R (R_init cap)
    (fun s _ _ _ hr hR hs =>
      let ⟨h, h2⟩ := inv12_reachable hcap s hr
      sim_step hcap h h2 hR hs) ls s hrun

/-- **ctx_err_no_effect** ("a call that returns a context error has had no effect on the contents or
    on the remaining capacity"): a call about to return a context error (before or after the deferred
    Unlock) has returned every permit it took on either semaphore and has performed no write to
    `data/head/tail/count`.  (That it did not change the abstract contents either is part of
    `c07_abq_linearizable`: the specification's `ctxErr` transition leaves the queue unchanged.) -/
theorem c07_abq_ctx_err_no_effect (cap : Nat) (hcap : 1 ≤ cap) (s : State) (hr : (sys cap).Reachable s)
    (t : Nat) (h : s.pc t = .ret .ctxErr ∨ s.pc t = .unlock .ctxErr) :
    (s.fp t).enq = 0 ∧ (s.fp t).deq = 0 ∧ (s.fp t).writes = 0 := by
  have h2 := (inv12_reachable hcap s hr).2
  cases h with
  | inl h => have := h2.fpOk t (by simp [h]); simp [this, h, fpOf]
  | inr h => have := h2.fpOk t (by simp [h]); simp [this, h, fpOf]

/-- footprint of the successful calls, for contrast (non-vacuity of the ghost accounting): a
    successful Enqueue has converted one enqueue permit into one dequeue permit and written twice
    (`data[tail]`, then the cursors), a successful Dequeue the converse. -/
theorem c07_abq_ok_footprint (cap : Nat) (hcap : 1 ≤ cap) (s : State) (hr : (sys cap).Reachable s) (t : Nat) :
    (s.pc t = .ret .ok → s.fp t = ⟨1, -1, 2⟩) ∧ (∀ v, s.pc t = .ret (.val v) → s.fp t = ⟨-1, 1, 1⟩) := by
  have h2 := (inv12_reachable hcap s hr).2
  refine ⟨fun h => ?_, fun v h => ?_⟩
  · have := h2.fpOk t (by simp [h]); simp [this, h, fpOf]
  · have := h2.fpOk t (by simp [h]); simp [this, h, fpOf]

/-- **exactly_once / FIFO** ("elements leave in the order they entered, and every element whose
    Enqueue returned nil is delivered by exactly one successful Dequeue or is still visible in
    AsSlice"): `enqd` lists the values in the order their Enqueue took effect (the step after which
    the call can only return nil), `deqd` the values in the order Dequeues removed them (and then
    return them); at every instant `enqd = deqd ++ contents`. -/
theorem c07_abq_exactly_once (cap : Nat) (hcap : 1 ≤ cap) (s : State) (hr : (sys cap).Reachable s) :
    s.enqd = s.deqd ++ contents s :=
  (inv12_reachable hcap s hr).2.fifo

/-- **remaining capacity at quiescence** ("… or on the remaining capacity"): when no call is in
    flight — after any pattern of cancellations — exactly `cap - count` enqueue permits and `count`
    dequeue permits are free, the lock is free and nobody holds a read lock. -/
theorem c07_abq_quiescent_capacity (cap : Nat) (hcap : 1 ≤ cap) (s : State) (hr : (sys cap).Reachable s)
    (hq : ∀ t, s.pc t = .idle) :
    (s.enqFree : Int) = cap - s.count ∧ (s.deqFree : Int) = s.count ∧ s.readers = 0 := by
  have h := inv_reachable hcap s hr
  have hz : ∀ w : Pc → Nat, w .idle = 0 → wsum w s.pc s.live = 0 :=
    fun w hw => wsum_eq_zero w s.pc (fun t _ => by rw [hq t]; exact hw)
  have hE := h.permE; have hD := h.permD; have hR := h.rd
  rw [hz wE rfl] at hE; rw [hz wD rfl] at hD; rw [hz wR rfl] at hR
  exact ⟨by omega, by omega, hR⟩

/-- `AsSlice` in progress has copied a prefix of the *current* contents (the snapshot property the
    read lock provides; its result is then the full contents, see linearizability). -/
theorem c07_abq_asSlice_snapshot (cap : Nat) (hcap : 1 ≤ cap) (s : State) (hr : (sys cap).Reachable s)
    (t cnt : Nat) (res : List Int) (h : s.pc t = .aLoop cnt res) : res = (contents s).take cnt :=
  ((inv12_reachable hcap s hr).2.aloop t cnt res h).2

end Array

/-! ## Linked queue -/
section Linked
open Ekit.LinkedBQ

/-- **capacity never exceeded** (bounded variant, every `maxSize ≥ 1`): the list never holds more
    than `maxSize` elements; no Go panic (unlock of unlocked mutex, close of closed channel) has
    occurred; no call is about to return a non-context error (in particular `Delete(0)` is never
    called on an empty list). -/
theorem c07_lbq_inv (m : Int) (s : State) (hr : (sys m).Reachable s) :
    (0 < m → (s.q.length : Int) ≤ m) ∧ s.panicked = false ∧ (∀ t r, s.pc t = .ret r → r ≠ .err) := by
  obtain ⟨h, h2⟩ := inv12_reachable m s hr
  refine ⟨fun hm => ?_, h2.noPanic, fun t r ht e => ?_⟩
  · have := h2.cap_le (by rw [h.msz]; exact hm); rw [h.msz] at this; exact this
  · have := h2.noErr t; rw [ht] at this; exact this (by simp [resOf, e])

/-- **lbq_linearizable**: every history of the linked queue is linearizable w.r.t. the FIFO queue
    bounded by `maxSize` when `maxSize > 0` and unbounded otherwise. -/
theorem c07_lbq_linearizable (m : Int) (ls : List Label) (s : State)
    (hrun : (sys m).run (sys m).init ls = some s) :
    Linearizable (bqSpec (bound m)) ((sys m).history ls) :=
  forward_simulation (sys m) (bqSpec (bound m)) R (R_init m)
    (fun s _ _ _ hr hR hs =>
      let ⟨h, h2⟩ := inv12_reachable m s hr
      sim_step h h2 hR hs) ls s hrun

/-- the unbounded variant never blocks an Enqueue on fullness: with `maxSize ≤ 0` the loop guard is
    false in every state. -/
theorem c07_lbq_unbounded_never_full (m : Int) (hm : m ≤ 0) (s : State) (hr : (sys m).Reachable s) :
    full s = false := by
  have h := (inv12_reachable m s hr).1
  simp [full, h.msz]; omega

/-- **ctx_err_no_effect**: a call about to return a context error has not mutated the list. -/
theorem c07_lbq_ctx_err_no_effect (m : Int) (s : State) (hr : (sys m).Reachable s)
    (t : Nat) (h : s.pc t = .ret .ctxErr) : s.writes t = 0 := by
  have h2 := (inv12_reachable m s hr).2
  have := h2.wr t (by simp [h]); simp [this, h, wrOf, wrOfRet]

/-- **exactly_once / FIFO** for the linked queue. -/
theorem c07_lbq_exactly_once (m : Int) (s : State) (hr : (sys m).Reachable s) :
    s.enqd = s.deqd ++ s.q :=
  (inv12_reachable m s hr).2.fifo

theorem c07_lbq_mutual_exclusion (m : Int) (s : State) (hr : (sys m).Reachable s)
    (t u : Nat) (ht : inW (s.pc t) = true) (hu : inW (s.pc u) = true) : u = t := by
  have h := (inv12_reachable m s hr).1
  have h1 := h.mutexW t ht; have h2 := h.mutexW u hu
  rw [h1] at h2; injection h2 with h2; exact h2.symm

end Linked

/-! ## A call invoked with an ended context -/

/-- In the array-queue model a call whose context has ended while it is still before (or at) the
    re-check under the lock can only return the context error: the set of such states is closed under
    every step of every thread, except the call's own `return ctx.Err()`.  (This is the fact the
    driver's `model` mode uses for calls made with an already cancelled context; the property itself
    does not demand it, and the `spec` mode does not check it.) -/
theorem c07_abq_cancelled_call_returns_ctx_err (s s' : Ekit.ArrayBQ.State) (l : Ekit.ArrayBQ.Label) (t : Nat)
    (hc : s.ctxDone t = true) (hp : Ekit.ArrayBQ.errPath (s.pc t) = true) (hs : Ekit.ArrayBQ.step s l = some s') :
    (s'.ctxDone t = true ∧ Ekit.ArrayBQ.errPath (s'.pc t) = true) ∨ l = .res t .ctxErr :=
  Ekit.ArrayBQ.errPath_closed t hc hp hs

/-- the same for the linked queue: a context that has ended before the entry check. -/
theorem c07_lbq_cancelled_call_returns_ctx_err (s s' : Ekit.LinkedBQ.State) (l : Ekit.LinkedBQ.Label) (t : Nat)
    (hc : s.ctxDone t = true) (hp : Ekit.LinkedBQ.errPath (s.pc t) = true) (hs : Ekit.LinkedBQ.step s l = some s') :
    (s'.ctxDone t = true ∧ Ekit.LinkedBQ.errPath (s'.pc t) = true) ∨ l = .res t .ctxErr :=
  Ekit.LinkedBQ.errPath_closed t hc hp hs

/-! ## The executable specification used by the driver is the relational one -/

/-- the driver's `ExecSpec` step (`spec` mode) accepts exactly the transitions of `bqSpec`. -/
theorem c07_exec_spec_exact (bound : Option Nat) (q q' : List Int) (op : Op) (r : Ret) :
    (bqExec bound).step q op r = some q' ↔ (bqSpec bound).apply q op q' r :=
  bqExec_step_iff bound q q' op r

/-! ## Non-vacuity -/
section NonVacuity
open Ekit.ArrayBQ in
/-- a reachable state of the capacity-1 array queue that is full (count = cap), reached by one
    complete Enqueue; a second Enqueue is then blocked at `Acquire` and, once its context ends,
    returns the context error, after which a Dequeue delivers the element -/
def abqDemo : List Ekit.ArrayBQ.Label :=
  [.inv 0 (.enq 5), .tau 0, .tau 0, .tau 0, .tau 0, .tau 0, .tau 0, .tau 0, .res 0 .ok,
   .inv 1 (.enq 6), .ctxEnd 1, .ctxArm 1, .res 1 .ctxErr,
   .inv 2 .deq, .tau 2, .tau 2, .tau 2, .tau 2, .tau 2, .tau 2, .tau 2, .res 2 (.val 5)]

example : (((Ekit.ArrayBQ.sys 1).run (Ekit.ArrayBQ.init 1) (abqDemo.take 9)).map (·.count)) = some 1 := by decide
example : (((Ekit.ArrayBQ.sys 1).run (Ekit.ArrayBQ.init 1) abqDemo).map
    (fun s => (s.count, s.enqFree, s.deqFree, s.enqd, s.deqd))) = some (0, 1, 0, [5], [5]) := by decide
example : (Ekit.ArrayBQ.sys 1).history abqDemo =
    [.inv 0 (.enq 5), .res 0 .ok, .inv 1 (.enq 6), .res 1 .ctxErr, .inv 2 .deq, .res 2 (.val 5)] := by decide

open Ekit.LinkedBQ in
/-- linked queue of capacity 1: Enqueue, a second Enqueue parks on generation 0 of `notFull`, a
    Dequeue broadcasts (swap, unlock, close), the parked Enqueue wakes, re-locks and succeeds -/
def lbqDemo : List Ekit.LinkedBQ.Label :=
  [.inv 0 (.enq 5), .tau 0, .tau 0, .tau 0, .tau 0, .tau 0, .tau 0, .tau 0, .res 0 .ok,
   .inv 1 (.enq 6), .tau 1, .tau 1, .tau 1, .tau 1, .tau 1,          -- parked at eSelect 6 0
   .inv 2 .deq, .tau 2, .tau 2, .tau 2, .tau 2, .tau 2, .tau 2, .tau 2, .res 2 (.val 5),
   .tau 1, .tau 1, .tau 1, .tau 1, .tau 1, .tau 1, .tau 1, .res 1 .ok]

example : (((Ekit.LinkedBQ.sys 1).run (Ekit.LinkedBQ.init 1) (lbqDemo.take 15)).map
    (fun s => (s.pc 1, s.q))) = some (.eSelect 6 0, [5]) := by decide
example : (((Ekit.LinkedBQ.sys 1).run (Ekit.LinkedBQ.init 1) lbqDemo).map
    (fun s => (s.q, s.enqd, s.deqd, s.notFull.cur, s.notFull.closed))) = some ([6], [5, 6], [5], 1, [0]) := by decide
end NonVacuity

/-! ## Skeleton obligations: the models were written against exactly these sync skeletons -/
theorem c07_skel_ConcurrentArrayBlockingQueue_AsSlice : Ekit.Gen.SkelC07.ConcurrentArrayBlockingQueue_AsSlice = Ekit.BQSkel.expected_ConcurrentArrayBlockingQueue_AsSlice := by rfl
theorem c07_skel_ConcurrentArrayBlockingQueue_Dequeue : Ekit.Gen.SkelC07.ConcurrentArrayBlockingQueue_Dequeue = Ekit.BQSkel.expected_ConcurrentArrayBlockingQueue_Dequeue := by rfl
theorem c07_skel_ConcurrentArrayBlockingQueue_Enqueue : Ekit.Gen.SkelC07.ConcurrentArrayBlockingQueue_Enqueue = Ekit.BQSkel.expected_ConcurrentArrayBlockingQueue_Enqueue := by rfl
theorem c07_skel_ConcurrentArrayBlockingQueue_Len : Ekit.Gen.SkelC07.ConcurrentArrayBlockingQueue_Len = Ekit.BQSkel.expected_ConcurrentArrayBlockingQueue_Len := by rfl
theorem c07_skel_ConcurrentLinkedBlockingQueue_AsSlice : Ekit.Gen.SkelC07.ConcurrentLinkedBlockingQueue_AsSlice = Ekit.BQSkel.expected_ConcurrentLinkedBlockingQueue_AsSlice := by rfl
theorem c07_skel_ConcurrentLinkedBlockingQueue_Dequeue : Ekit.Gen.SkelC07.ConcurrentLinkedBlockingQueue_Dequeue = Ekit.BQSkel.expected_ConcurrentLinkedBlockingQueue_Dequeue := by rfl
theorem c07_skel_ConcurrentLinkedBlockingQueue_Enqueue : Ekit.Gen.SkelC07.ConcurrentLinkedBlockingQueue_Enqueue = Ekit.BQSkel.expected_ConcurrentLinkedBlockingQueue_Enqueue := by rfl
theorem c07_skel_ConcurrentLinkedBlockingQueue_Len : Ekit.Gen.SkelC07.ConcurrentLinkedBlockingQueue_Len = Ekit.BQSkel.expected_ConcurrentLinkedBlockingQueue_Len := by rfl
theorem c07_skel_NewConcurrentArrayBlockingQueue : Ekit.Gen.SkelC07.NewConcurrentArrayBlockingQueue = Ekit.BQSkel.expected_NewConcurrentArrayBlockingQueue := by rfl
theorem c07_skel_NewConcurrentLinkedBlockingQueue : Ekit.Gen.SkelC07.NewConcurrentLinkedBlockingQueue = Ekit.BQSkel.expected_NewConcurrentLinkedBlockingQueue := by rfl
theorem c07_skel_cond_broadcast : Ekit.Gen.SkelC07.cond_broadcast = Ekit.BQSkel.expected_cond_broadcast := by rfl
theorem c07_skel_cond_signalCh : Ekit.Gen.SkelC07.cond_signalCh = Ekit.BQSkel.expected_cond_signalCh := by rfl
