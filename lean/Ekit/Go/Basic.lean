/-
Shared Go semantics used by the models (core Lean only; nothing here imports Mathlib so that
the driver executable links).

* `Outcome α`  – Go's three ways out of a call: a value, an `error`, or a panic.
  Partial Go operations (indexing, slicing, `/`, `%`, reflect misuse) are *partial in the models*
  and produce `panic`; nothing is totalised.
* `goDiv`/`goMod` – truncated division, `none` on a zero divisor (a run-time panic in Go).
-/
namespace Ekit.Go

/-- error kinds, canonicalised the same way by the Go harness -/
inductive Err where
  | idx (len idx : Int)          -- errs.NewErrIndexOutOfRange(len, idx)
  | other (tag : String)
  deriving DecidableEq, Repr, Inhabited

inductive Outcome (α : Type) where
  | ok (a : α)
  | err (e : Err)
  | panic (msg : String)
  deriving DecidableEq, Repr, Inhabited

namespace Outcome
def isPanic {α} : Outcome α → Bool
  | panic _ => true
  | _ => false
def isErr {α} : Outcome α → Bool
  | err _ => true
  | _ => false
def isOk {α} : Outcome α → Bool
  | ok _ => true
  | _ => false
def map {α β} (f : α → β) : Outcome α → Outcome β
  | ok a => ok (f a)
  | err e => err e
  | panic m => panic m
def bind {α β} (x : Outcome α) (f : α → Outcome β) : Outcome β :=
  match x with
  | ok a => f a
  | err e => err e
  | panic m => panic m
instance : Monad Outcome where
  pure := ok
  bind := bind
end Outcome

/-- Go integer division: truncates toward zero, panics on a zero divisor. -/
def goDiv (a b : Int) : Option Int := if b = 0 then none else some (Int.tdiv a b)
def goMod (a b : Int) : Option Int := if b = 0 then none else some (Int.tmod a b)

def Err.render : Err → String
  | .idx l i => s!"err:idx:{l}:{i}"
  | .other t => s!"err:{t}"

end Ekit.Go
