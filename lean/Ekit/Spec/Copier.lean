/-
C20 — the abstract specification of a successful struct copy, written without the trie, the
indices or the copy loop: a relation between the source value, the destination before and the
destination after, by recursion over the two *type declarations*.

For every destination field (in any order):
* unexported, ignored, or without an exported source field of the same name  → **untouched**;
* matched, and the source field's type (one pointer stripped) is a copyable leaf
  (`isShadowCopyType` kind or a registered atomic type):
    - a converter is registered for the name → the field is the converter's result;
    - otherwise, when the leaf types are identical: the leaf equals the source's leaf — through a
      single pointer on either side (a nil source pointer leaves the field untouched, a nil
      destination pointer is allocated) — except that with `zeroSkip` (the tree copier) a zero
      source leaf leaves the destination leaf as it was (`ZeroMode`);
    - leaf types differ → nothing is claimed (the call cannot have succeeded);
* matched, both struct-kinded (through single pointers) → the same relation one level down;
* matched but of a kind the copier does not copy (func, interface, unsafe pointer), or a
  multi-level pointer → nothing is claimed.

`Spec.structRel` is what the driver's `spec` mode evaluates on the values observed on the real
code, and what `c20_copy_refines_spec` proves of the model.
-/
import Ekit.Model.Copier

namespace Ekit.Copier.Spec
open Ekit.Copier

/-- what a zero source leaf does to the destination leaf: `skip` = leaves it as it was (the
    reflection-tree copier as it is), `copy` = overwrites it (the pure copier), `either` = the
    property's own wording, which is silent about it (what the driver's `spec` mode demands). -/
inductive ZeroMode where
  | skip | copy | either
  deriving DecidableEq, Repr

structure Params where
  atomics : List Ty
  zero : ZeroMode
  ignore : List String
  conv : List (String × Conv)

/-- index of the exported source field called `name` (Go allows at most one; the last one here) -/
def srcFieldIdxFrom (name : String) : List Field → Nat → Option Nat → Option Nat
  | [], _, acc => acc
  | f :: r, i, acc => srcFieldIdxFrom name r (i + 1) (if fexp f && fname f == name then some i else acc)

def srcFieldIdx? (sfs : List Field) (name : String) : Option Nat := srcFieldIdxFrom name sfs 0 none

/-- source leaf `x` against the destination leaf before/after -/
def leafRel (m : ZeroMode) (x d0 d1 : Val) : Bool :=
  match m with
  | .copy => d1 == x
  | .skip => if x.isZero then d1 == d0 else d1 == x
  | .either => if x.isZero then d1 == d0 || d1 == x else d1 == x

/-- apply `rel x y0 y` below at most one pointer on the destination side: `x` is the source's
    (pointer-stripped) value, `d0`/`d1` the destination field before/after, `dElem` its pointee type.
    A nil destination pointer counts as pointing to a zero value (it is allocated). -/
def throughDst (dIsPtr : Bool) (dElem : Ty) (d0 d1 : Val) (rel : Val → Val → Val → Bool) (x : Val) : Bool :=
  if dIsPtr then
    match d1 with
    | .ptr y => rel x (match d0 with | .ptr y0 => y0 | _ => zeroOf dElem) y
    | _ => false
  else rel x d0 d1

/-- … and below at most one pointer on the source side: a nil source pointer leaves the
    destination field untouched. -/
def throughPtrs (sIsPtr dIsPtr : Bool) (dElem : Ty) (s d0 d1 : Val) (rel : Val → Val → Val → Bool) : Bool :=
  if sIsPtr then
    match s with
    | .nil => d1 == d0
    | .ptr x => throughDst dIsPtr dElem d0 d1 rel x
    | _ => false
  else throughDst dIsPtr dElem d0 d1 rel s

/-- one matched field: source field `(st, s)`, destination field `(dt, d0 ↦ d1)` -/
def fieldRel (p : Params) (rec : Ty → Val → Ty → Val → Val → Bool) (name : String)
    (st : Ty) (s : Val) (dt : Ty) (d0 d1 : Val) : Bool :=
  if st.isMultiPtr || dt.isMultiPtr then true
  else
    let st' := st.stripPtr
    let dt' := dt.stripPtr
    let sIsPtr := st.kind == .ptr
    let dIsPtr := dt.kind == .ptr
    if isLeafTy p.atomics st' then
      match p.conv.lookup name with
      | some c =>
        if sIsPtr && s == .nil then d1 == d0
        else match c.apply st s with
          | .ok (rTy, r) => rTy ≠ dt || d1 == r
          | _ => true
      | none =>
        if st' ≠ dt' then true
        else throughPtrs sIsPtr dIsPtr dt' s d0 d1 (leafRel p.zero)
    else if st'.kind == .struct then
      if dt'.kind != .struct then true
      else throughPtrs sIsPtr dIsPtr dt' s d0 d1 (fun x y0 y => rec st' x dt' y0 y)
    else true

/-- one destination field `df`, before `a` and after `b` -/
def fieldClause (p : Params) (rec : Ty → Val → Ty → Val → Val → Bool) (sfs : List Field) (svs : List Val)
    (df : Field) (a b : Val) : Bool :=
  if !fexp df || p.ignore.contains (fname df) then b == a
  else match srcFieldIdx? sfs (fname df) with
    | none => b == a
    | some i =>
      match sfs[i]?, svs[i]? with
      | some sf, some sv => fieldRel p rec (fname df) (fty sf) sv (fty df) a b
      | _, _ => false

/-- all destination fields from index `j` on -/
def loopRel (p : Params) (rec : Ty → Val → Ty → Val → Val → Bool) (sfs : List Field) (svs : List Val)
    (d0s d1s : List Val) : List Field → Nat → Bool
  | [], _ => true
  | df :: rest, j =>
    (match d0s[j]?, d1s[j]? with
      | some a, some b => fieldClause p rec sfs svs df a b
      | _, _ => false)
    && loopRel p rec sfs svs d0s d1s rest (j + 1)

/-- source struct `s : sT`, destination struct `d0 ↦ d1 : dT` -/
def structRel (p : Params) : Nat → Ty → Val → Ty → Val → Val → Bool
  | 0, _, _, _, _, _ => false
  | fuel + 1, sT, s, dT, d0, d1 =>
    match sT.fields?, dT.fields?, s, d0, d1 with
    | some sfs, some dfs, .struct svs, .struct d0s, .struct d1s =>
      d1s.length == d0s.length && loopRel p (structRel p fuel) sfs svs d0s d1s dfs 0
    | _, _, _, _, _ => false

/-- the relation for a whole call on `src : S`, `dst0 ↦ dst1 : D` -/
def copyRel (p : Params) (S : Ty) (src : Val) (D : Ty) (dst0 dst1 : Val) : Bool :=
  structRel p (S.depth + 1) S src D dst0 dst1

/-! ### the family on which the two copiers are compared -/

/- Field types "built from basic kinds, slices, maps, nested structs and pointers to them":
   no arrays, chans, funcs, interfaces, unsafe pointers, multi-level pointers, and no registered
   atomic type (`time.Time` is copied whole by the tree copier and not at all by the pure one).
   Unexported fields are unconstrained (neither copier looks at them). -/
mutual
def family (atomics : List Ty) : Ty → Bool
  | .basic _ => true
  | .named i u => !atomics.contains (.named i u) && family atomics u
  | .slice _ => true
  | .map _ _ => true
  | .ptr e => e.kind != .ptr && family atomics e
  | .struct fs => !atomics.contains (.struct fs) && familyFields atomics fs
  | _ => false
def familyFields (atomics : List Ty) : List (String × Bool × Ty) → Bool
  | [] => true
  | (_, e, t) :: r => (!e || family atomics t) && familyFields atomics r
end

/-- "corresponding field types are identical": every exported destination field that has an exported
    source field of the same name has that field's type, which is not a multi-level pointer; and the
    same holds inside every struct-kinded field type that is not copied as a whole (compared with
    itself). `fuel` bounds the nesting depth (`depth + 1` suffices). -/
def Identical (atomics : List Ty) : Nat → Ty → Ty → Prop
  | 0, _, _ => False
  | fuel + 1, S, D => ∃ sfs dfs, S.fields? = some sfs ∧ D.fields? = some dfs ∧
      ∀ (j : Nat) (df : Field), dfs[j]? = some df → fexp df = true →
        ∀ i, srcFieldIdx? sfs (fname df) = some i →
          ∃ sf, sfs[i]? = some sf ∧ fty sf = fty df ∧ (fty df).isMultiPtr = false ∧
            ((fty df).stripPtr.kind = .struct → isLeafTy atomics (fty df).stripPtr = false →
              Identical atomics fuel (fty df).stripPtr (fty df).stripPtr)

/-- executable form of `Identical` (what the driver evaluates; `identicalB_sound` in
    Ekit/Lemmas/CopierIdentical.lean) -/
def identLoop (atomics : List Ty) (rec : Ty → Bool) (sfs : List Field) : List Field → Bool
  | [] => true
  | df :: rest =>
    (if fexp df then
      match srcFieldIdx? sfs (fname df) with
      | none => true
      | some i =>
        match sfs[i]? with
        | some sf =>
          fty sf == fty df && !(fty df).isMultiPtr &&
            (if (fty df).stripPtr.kind == .struct && !isLeafTy atomics (fty df).stripPtr then rec (fty df).stripPtr
             else true)
        | none => false
    else true) && identLoop atomics rec sfs rest

def identicalB (atomics : List Ty) : Nat → Ty → Ty → Bool
  | 0, _, _ => false
  | fuel + 1, S, D =>
    match S.fields?, D.fields? with
    | some sfs, some dfs => identLoop atomics (fun t => identicalB atomics fuel t t) sfs dfs
    | _, _ => false

end Ekit.Copier.Spec
