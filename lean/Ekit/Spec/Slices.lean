/-
The abstract specification of C16: executable acceptance predicates written with core `List`
functions only (no loops of the source, no map model).  The driver's `spec` mode uses nothing but
these; the theorems of `Ekit/Props/C16.lean` show that the model functions satisfy them
(`spec_*` theorems) and what they mean as mathematical statements (`isSetOf_iff`, …).
-/
import Ekit.Go.Basic

namespace Ekit.Slices.Spec
open Ekit.Go

section
variable {α : Type} [DecidableEq α]

/-- `r` lists, without repetition, exactly the elements satisfying `mem`
    (`univ` must contain every element satisfying `mem`) -/
def isSetOf (r univ : List α) (mem : α → Bool) : Bool :=
  decide r.Nodup && (r ++ univ).all (fun x => decide (x ∈ r) == mem x)

def unionMem (src dst : List α) (x : α) : Bool := decide (x ∈ src) || decide (x ∈ dst)
def interMem (src dst : List α) (x : α) : Bool := decide (x ∈ src) && decide (x ∈ dst)
def diffMem (src dst : List α) (x : α) : Bool := decide (x ∈ src) && !decide (x ∈ dst)
def symMem (src dst : List α) (x : α) : Bool := decide (x ∈ src) != decide (x ∈ dst)

def union (r src dst : List α) : Bool := isSetOf r (src ++ dst) (unionMem src dst)
def inter (r src dst : List α) : Bool := isSetOf r (src ++ dst) (interMem src dst)
def diff (r src dst : List α) : Bool := isSetOf r (src ++ dst) (diffMem src dst)
def symDiff (r src dst : List α) : Bool := isSetOf r (src ++ dst) (symMem src dst)

/-- the predicate-taking variants under an equivalence `eq`: `r` consists of elements of `pool`,
    pairwise inequivalent, and represents exactly the classes of the elements of `want` -/
def isRepsOf (r pool want : List α) (eq : α → α → Bool) : Bool :=
  r.all (fun y => decide (y ∈ pool) && want.any (fun x => eq y x)) &&
  decide (r.Pairwise (fun a b => eq b a = false)) &&
  want.all (fun x => r.any (fun y => eq y x))

end

section
variable {α : Type}

/-- the elements the four `Func` set operations must represent -/
def unionWant (src dst : List α) : List α := dst ++ src
def interWant (src dst : List α) (eq : α → α → Bool) : List α := dst.filter (fun v => src.any (fun t => eq t v))
def diffWant (src dst : List α) (eq : α → α → Bool) : List α := src.filter (fun v => !dst.any (fun t => eq t v))
def symWant (src dst : List α) (eq : α → α → Bool) : List α :=
  src.filter (fun v => !dst.any (fun t => eq t v)) ++ dst.filter (fun v => !src.any (fun t => eq t v))

def containsAny (src dst : List α) (eq : α → α → Bool) : Bool := dst.any (fun d => src.any (fun s => eq s d))
def containsAll (src dst : List α) (eq : α → α → Bool) : Bool := dst.all (fun d => src.any (fun s => eq s d))

/-- first index satisfying `p`, or -1 -/
def index (src : List α) (p : α → Bool) : Int :=
  match src.findIdx? p with
  | some i => (i : Int)
  | none => -1

/-- last index satisfying `p`, or -1 -/
def lastIndex (src : List α) (p : α → Bool) : Int :=
  match src.reverse.findIdx? p with
  | some i => (src.length : Int) - 1 - (i : Int)
  | none => -1

def indexAll (src : List α) (p : α → Bool) : List Int :=
  (src.zipIdx.filter (fun x => p x.1)).map (fun x => (x.2 : Int))

def filterMap {β} (src : List α) (m : Nat → α → β × Bool) : List β :=
  src.zipIdx.filterMap (fun x => if (m x.2 x.1).2 then some (m x.2 x.1).1 else none)

def map {β} (src : List α) (m : Nat → α → β) : List β := src.zipIdx.map (fun x => m x.2 x.1)

def filterDelete (src : List α) (m : Nat → α → Bool) : List α :=
  (src.zipIdx.filter (fun x => !m x.2 x.1)).map (·.1)

def inRange (i : Int) (n : Nat) : Bool := 0 ≤ i && i < n

def add (src : List α) (e : α) (i : Int) : Outcome (List α) :=
  if 0 ≤ i && i ≤ src.length then .ok (src.insertIdx i.toNat e) else .err (.idx src.length i)

/-- "only the documented in-place functions modify their argument", for `Add` (which is not one of them): what is
    visible through the argument after a successful call is the argument as it was — unless the result lives in the
    argument's own backing array (`shares`; Go's `append` with spare capacity, the only case in which the result can
    be handed out without a copy), where it necessarily is the first `len(src)` elements of the result. -/
def addArgOk [BEq α] (src argAfter res : List α) (shares : Bool) : Bool :=
  if shares then argAfter == res.take src.length else argAfter == src

def delete (src : List α) (i : Int) : Outcome (List α) :=
  if inRange i src.length then .ok (src.eraseIdx i.toNat) else .err (.idx src.length i)

/-- value bound to `k` by the LAST pair with that key -/
def lastBinding {κ ν} [DecidableEq κ] (kvs : List (κ × ν)) (k : κ) : Option ν :=
  (kvs.reverse.find? (fun e => decide (e.1 = k))).map (·.2)

/-- `m` (a list of key/value pairs that came out of a Go map) is the map "later duplicates win" of `kvs` -/
def isMapOf {κ ν} [DecidableEq κ] [DecidableEq ν] (m kvs : List (κ × ν)) : Bool :=
  decide ((m.map (·.1)).Nodup) &&
  m.all (fun e => lastBinding kvs e.1 == some e.2) &&
  kvs.all (fun e => (m.map (·.1)).contains e.1)

end

def maxOk (ts : List Int) (m : Int) : Bool := ts.contains m && ts.all (fun x => decide (x ≤ m))
def minOk (ts : List Int) (m : Int) : Bool := ts.contains m && ts.all (fun x => decide (m ≤ x))

end Ekit.Slices.Spec
