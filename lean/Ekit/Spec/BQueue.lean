/-
Abstract specification shared by both blocking queues (C07, C09): a bounded FIFO queue.

* `Op`, `Ret`: the calls of `BlockingQueue` (+ `Len`, `AsSlice`) and their canonicalised results.
* `bqSpec bound`: the relational sequential specification used in `Linearizable`:
    - `enq v` takes effect (answer `ok`, contents `q ++ [v]`) only when the queue is not full,
    - `deq` takes effect (answer `val v`, contents without the head `v`) only when it is non-empty,
    - either may instead answer `ctxErr`, and then the contents are unchanged (the property's
      "a call that returns a context error has had no effect"),
    - `len`, `asSlice` answer the length / a snapshot and change nothing.
  `bound = none` is the unbounded variant (linked queue with capacity ≤ 0).
  A result `err` (any non-context error) is never allowed.
* `bqExec bound`: the same specification as an executable `ExecSpec` for the driver's
  linearizability search, with `bqExec_step_iff` tying the two together.
-/
import Ekit.Conc.System
import Ekit.Conc.LinCheck

namespace Ekit.BQ
open Ekit.Conc

inductive Op where
  | enq (v : Int)
  | deq
  | len
  | asSlice
  deriving DecidableEq, Repr, Inhabited

inductive Ret where
  | ok                     -- Enqueue returned nil
  | val (v : Int)          -- Dequeue returned (v, nil)
  | ctxErr                 -- context.Canceled / context.DeadlineExceeded
  | n (k : Int)            -- Len
  | slice (l : List Int)   -- AsSlice
  | err                    -- any other error (never allowed by the specification)
  deriving DecidableEq, Repr, Inhabited

/-- `notFull bound q`: an `enq` may take effect -/
def notFull (bound : Option Nat) (q : List Int) : Prop :=
  match bound with
  | none => True
  | some c => q.length < c

instance (bound : Option Nat) (q : List Int) : Decidable (notFull bound q) := by
  unfold notFull; cases bound <;> exact inferInstance

/-- the relational specification -/
def apply (bound : Option Nat) (q : List Int) : Op → List Int → Ret → Prop
  | .enq v, q', r => (r = .ok ∧ q' = q ++ [v] ∧ notFull bound q) ∨ (r = .ctxErr ∧ q' = q)
  | .deq, q', r => (∃ v, r = .val v ∧ q = v :: q') ∨ (r = .ctxErr ∧ q' = q)
  | .len, q', r => q' = q ∧ r = .n (q.length : Int)
  | .asSlice, q', r => q' = q ∧ r = .slice q

def bqSpec (bound : Option Nat) : SeqSpec (List Int) Op Ret where
  init := []
  apply := apply bound

/-- executable form: the state after `op` answers `r`, `none` if that answer is impossible -/
def execStep (bound : Option Nat) (q : List Int) : Op → Ret → Option (List Int)
  | .enq v, .ok => if notFull bound q then some (q ++ [v]) else none
  | .enq _, .ctxErr => some q
  | .deq, .val v => match q with
    | x :: rest => if x = v then some rest else none
    | [] => none
  | .deq, .ctxErr => some q
  | .len, .n k => if k = (q.length : Int) then some q else none
  | .asSlice, .slice l => if l = q then some q else none
  | _, _ => none

/-- states after a call that never returned took effect (leaving it out is always allowed too) -/
def execPend (bound : Option Nat) (q : List Int) : Op → List (List Int)
  | .enq v => if notFull bound q then [q ++ [v]] else []
  | .deq => match q with
    | _ :: rest => [rest]
    | [] => []
  | .len => []
  | .asSlice => []

def bqExec (bound : Option Nat) : LinCheck.ExecSpec (List Int) Op Ret where
  init := []
  step := execStep bound
  pend := execPend bound
  key := fun q => toString q

/-- the executable specification is exactly the relational one -/
theorem bqExec_step_iff (bound : Option Nat) (q q' : List Int) (op : Op) (r : Ret) :
    execStep bound q op r = some q' ↔ apply bound q op q' r := by
  cases op with
  | enq v =>
    cases r <;> simp [execStep, apply]
    · by_cases h : notFull bound q <;> simp [h, eq_comm]
    · exact eq_comm
  | deq =>
    cases r <;> simp [execStep, apply]
    · rename_i v
      cases q with
      | nil => simp
      | cons x rest =>
        by_cases h : x = v
        · subst h; simp [eq_comm]
        · simp [h]
    · exact eq_comm
  | len =>
    cases r <;> simp [execStep, apply]
    rename_i k
    by_cases h : k = (q.length : Int) <;> simp [h, eq_comm]
  | asSlice =>
    cases r <;> simp [execStep, apply]
    rename_i l
    by_cases h : l = q <;> simp [h, eq_comm]

end Ekit.BQ
