/-
Abstract specification of the task pool for C10, C11, C12: the laws the *observations* of the real
code have to satisfy, independent of the model (driver `spec` mode; also applied in `model` mode).
Nothing here mentions program counters, the mutex or `totalGo` accounting: it is the property text.

* C10 (`c10Conc`, `SeqMon` accounting): an accepted task is executed or handed back at most once in
  total, at quiescence exactly once (tasks still in the queue of a pool that never got to them are
  C12's subject and are counted as queued — as long as the pool can still get to them: once the pool is
  Stopped, i.e. ShutdownNow returned or the channel returned by Shutdown is closed, no worker will ever
  run them and no ShutdownNow can hand them back any more, so nothing may be left over: executed or handed
  back, exactly once); a task whose Submit failed is never executed.
* C11 (`c11Conc`): high-water mark of concurrently running tasks and every `GoCnt` sample ≤ maxGo
  (after the constructor's normalisation), no task before Start, the one-way lifecycle on the call log.
* C12 (`c12Conc`): when the channel returned by Shutdown is observed closed every accepted task has
  run to completion before; a hang is a violation unless it falls into one of the two recorded
  families (classification by the snapshot, see `classify`).
-/
import Ekit.Model.Pool
namespace Ekit.Pool.Spec
open Ekit.Pool

structure TaskObs where
  sub : String      -- "ok" | "ctx" | "closing" | "stopped" | "invalid" | …
  beh : String
  runs : Nat
  marked : Nat      -- times it was handed back by ShutdownNow
  fin : Nat         -- global sequence number when its run finished (0 = never)
  inv : Nat
  res : Nat
  deriving Repr, Inhabited

structure CallObs where
  kind : String     -- "T" Start, "D" Shutdown, "N" ShutdownNow, "S" Submit
  ok : Bool
  inv : Nat
  ret : Nat
  deriving Repr, Inhabited

structure ConcObs where
  maxGo : Nat
  hwm : Nat
  gomax : Int
  before : Nat
  afterDone : Nat
  calls : List CallObs
  tasks : List TaskObs
  dseq : Nat
  done : String     -- "closed" | "hang" | "na"
  st : Nat
  go : Nat
  q : Nat
  unstable : Bool
  bb : Bool := false   -- black-box observation (hook stub): go/q are States() samples, not usable for equalities
  bbq : Bool := false  -- black-box quiescence established by the harness (every accepted task accounted for,
                       -- or all run / handed-back counters unchanged for a generous time)
  cstart : Nat := 0    -- tasks that began to run with the pool context already cancelled
  deriving Repr, Inhabited

/-! ### hang classification (known findings C12-F1, C12-F2) -/

inductive HangClass where
  | idleExitWhileClosing    -- C12-F1
  | strandedQueuedTasks     -- C12-F2
  | other
  deriving DecidableEq, Repr

/-- `st go q`: hook snapshot at the hang.  The two recorded families need idle timers that can expire
    during the scenario (`shortIdle`) and room above initGo (F1: a worker must be in the timeout group)
    resp. above coreGo (F2: the last worker outside the group must take the above-core exit); every other
    hang is unexplained.  (With long idle times or `initGo = maxGo` no worker ever takes those exits —
    `c12_fixed_size_no_bad_exit` — so a hang there is never explained by the recorded families.) -/
def classify (c : Cfg) (shortIdle : Bool) (st go q : Nat) : HangClass :=
  if shortIdle ∧ st = 3 ∧ go = 0 then
    if q = 0 ∧ c.initGo < c.maxGo then .idleExitWhileClosing
    else if 0 < q ∧ c.coreGo < c.maxGo then .strandedQueuedTasks
    else .other
  else .other

def HangClass.text : HangClass → String
  | .idleExitWhileClosing => "last totalGo decrement at the idle-timeout exit while closing"
  | .strandedQueuedTasks => "totalGo=0 while running with queued tasks"
  | .other => "unexplained hang"

/-! ### concurrent scenarios -/

def findIdx? {α} (l : List α) (p : α → Bool) : Option (Nat × α) :=
  (l.zipIdx.find? fun x => p x.1).map fun x => (x.2, x.1)

def accepted (ts : List TaskObs) : List TaskObs := ts.filter (·.sub == "ok")

def c10Conc (o : ConcObs) : Option String :=
  match findIdx? o.tasks (fun t => t.sub == "ok" && t.runs + t.marked > 1) with
  | some (i, t) => some s!"C10 accepted task {i} was executed {t.runs} times and handed back {t.marked} times"
  | none =>
  match findIdx? o.tasks (fun t => t.sub != "ok" && t.runs + t.marked > 0) with
  | some (i, t) => some s!"C10 task {i} whose Submit returned {t.sub} was executed {t.runs} times / handed back {t.marked} times"
  | none =>
    let acc := (accepted o.tasks).length
    let done := (accepted o.tasks).foldl (fun n t => n + t.runs + t.marked) 0
    let nowOk := o.calls.any fun c => c.kind == "N" && c.ok
    if !o.unstable && !o.bb && o.go == 0 && acc != done + o.q then
      some s!"C10 at quiescence {acc} accepted tasks but {done} executed-or-returned and {o.q} still queued"
    else if !o.unstable && (if o.bb then o.bbq else o.go == 0) && nowOk && acc != done then
      -- after ShutdownNow nothing may be left behind: executed or handed back, never neither
      some s!"C10 after ShutdownNow {acc} accepted tasks but only {done} were executed or handed back"
    else if !o.unstable && (if o.bb then o.bbq else o.go == 0) && o.done == "closed" && acc != done then
      -- the channel returned by Shutdown is closed: the pool is Stopped for good (Submit, Start, Shutdown and
      -- ShutdownNow all fail from now on, no worker is left), so a task that is still in its closed queue will
      -- never be executed and never be handed back
      some s!"C10 Shutdown completed (done channel closed, pool stopped) with {acc} accepted tasks but only {done} executed: the others can no longer be executed or handed back"
    else none

def lifecycle (calls : List CallObs) : Option String :=
  let startOk := calls.filter fun c => c.kind == "T" && c.ok
  let shutOk := calls.filter fun c => (c.kind == "D" || c.kind == "N") && c.ok
  if startOk.length > 1 then some s!"C11 Start succeeded {startOk.length} times"
  else if shutOk.length > 1 then some s!"C11 Shutdown/ShutdownNow succeeded {shutOk.length} times"
  else match shutOk with
    | sd :: _ =>
      if !(startOk.any fun s => s.inv < sd.ret) then some "C11 shutdown succeeded on a pool that was not started"
      else match calls.find? (fun c => c.ok && sd.ret < c.inv) with
        | some c => some s!"C11 {c.kind} call invoked at {c.inv}, after shutdown had succeeded at {sd.ret}, returned nil"
        | none => none
    | [] => none

def c11Conc (o : ConcObs) : Option String :=
  if o.hwm > o.maxGo then some s!"C11 {o.hwm} tasks ran concurrently, maxGo={o.maxGo}"
  else if o.gomax > (o.maxGo : Int) then some s!"C11 States reported GoCnt={o.gomax}, maxGo={o.maxGo}"
  else if o.go > o.maxGo then some s!"C11 totalGo={o.go}, maxGo={o.maxGo}"
  else if o.before > 0 then some s!"C11 {o.before} tasks began to run before Start was called"
  else lifecycle (o.calls ++ o.tasks.map fun t => ⟨"S", t.sub == "ok", t.inv, t.res⟩)

def c12Conc (o : ConcObs) (cls : HangClass) : Option String :=
  -- without a successful ShutdownNow the pool context is cancelled only by the graceful path, i.e. after
  -- the last accepted task: no task may *start* with a cancelled context
  if o.cstart > 0 && !(o.calls.any fun c => c.kind == "N" && c.ok) then
    some s!"C12 {o.cstart} accepted task(s) started after the done channel was closed"
  else if o.done == "closed" then
    if o.afterDone > 0 then some s!"C12 {o.afterDone} tasks began to run after the done channel was closed"
    else match findIdx? o.tasks (fun t => t.sub == "ok" && !(t.runs == 1 && t.marked == 0 && t.fin != 0 && t.fin < o.dseq)) with
      | some (i, t) => some s!"C12 done channel closed (seq {o.dseq}) while accepted task {i} had runs={t.runs} finished-at={t.fin}"
      | none => if !o.unstable && !o.bb && o.q != 0 then some s!"C12 done channel closed with {o.q} tasks queued" else none
  else if o.done == "hang" then
    (if cls = .other then some s!"C12 Shutdown never completed: unexplained hang st={o.st} totalGo={o.go} queue={o.q}" else none)
  else none

/-! ### directed scenarios (one line = many rounds; the harness reports maxima / counts over the rounds) -/

/-- C11, burst of concurrent submitters onto a growable running pool: in no round more than maxGo tasks
    executed at once, no `States().GoCnt` sample and no `totalGo` snapshot exceeded maxGo -/
def burstLaw (maxGo : Nat) (maxPeak : Nat) (maxGoCnt maxTotal : Int) (badRep : Int) : Option String :=
  if maxPeak > maxGo then some s!"C11 {maxPeak} tasks ran concurrently, maxGo={maxGo} (burst round {badRep})"
  else if maxGoCnt > (maxGo : Int) then some s!"C11 States reported GoCnt={maxGoCnt}, maxGo={maxGo} (burst round {badRep})"
  else if maxTotal > (maxGo : Int) then some s!"C11 totalGo={maxTotal}, maxGo={maxGo} (burst round {badRep})"
  else none

/-- C10, submissions aimed at an idle-timer expiry: at rest after ShutdownNow every accepted task ran or was
    handed back, exactly once (a task that merely stayed queued and was handed back is fine) -/
def idleSubLaw (lost dup : Nat) (badIt : Int) : Option String :=
  if lost > 0 then
    some s!"C10 {lost} accepted task(s) were neither executed nor handed back by ShutdownNow (iteration {badIt})"
  else if dup > 0 then
    some s!"C10 {dup} accepted task(s) were executed / handed back more than once (iteration {badIt})"
  else none

/-- C10, gated burst release above coreGo: nobody shuts the pool down and its idle timers cannot expire, so
    (1) every queued task is executed within the (generous) bound and (2) white-box, the live-worker counter
    never drops below min(coreGo, its observed peak) (`c10_core_floor`); plus the exactly-once accounting
    after the final ShutdownNow.  Distinct from known finding C12-F2, which needs idle-timeout exits. -/
def gburstLaw (late floorviol lost dup : Nat) (core badLow badPeak badTrial : Int) : Option String :=
  if floorviol > 0 then
    some s!"C10 a running pool (idle timers cannot have expired) retired its workers down to totalGo={badLow} below min(coreGo={core}, peak={badPeak}): queued accepted tasks lose the workers that must execute them (trial {badTrial})"
  else if late > 0 then
    some s!"C10 {late} accepted task(s) were not executed by a running pool that nobody shut down (trial {badTrial})"
  else if lost > 0 then
    some s!"C10 {lost} accepted task(s) were neither executed nor handed back by ShutdownNow (trial {badTrial})"
  else if dup > 0 then
    some s!"C10 {dup} accepted task(s) were executed / handed back more than once (trial {badTrial})"
  else none

/-- C12, hand-off scenario: the done channel was never observed closed while an accepted task had not
    finished (`early`), no accepted task started with the already cancelled pool context (`cstart`:
    received but not yet started counts as unfinished), and Shutdown completed in every round -/
def handoffLaw (early cstart hangs : Nat) (badRound : Int) (cls : HangClass) : Option String :=
  if early > 0 then
    some s!"C12 done channel closed while {early} accepted task(s) had not finished (hand-off round {badRound})"
  else if cstart > 0 then
    some s!"C12 {cstart} accepted task(s) started after the done channel was closed (hand-off round {badRound})"
  else if hangs > 0 && cls = .other then
    some s!"C12 Shutdown never completed: unexplained hang (hand-off round {badRound})"
  else none

/-! ### sequential scenarios: a monitor over the calls of one control thread -/

inductive ALife where
  | created | running | closing | stopped
  deriving DecidableEq, Repr, Inhabited

structure STask where
  accepted : Bool
  beh : String
  released : Bool
  deriving Repr, Inhabited

structure SeqMon where
  maxGo : Nat
  life : ALife := .created
  graceful : Bool := false
  tasks : Array STask := #[]
  returned : List Nat := []
  deriving Repr, Inhabited

def SeqMon.begun (m : SeqMon) : Bool := m.life == .closing || m.life == .stopped

/-- the call's result against the one-way lifecycle (C11); returns the new monitor -/
def SeqMon.call (m : SeqMon) (op : List String) (res : String) : SeqMon × Option String :=
  let ok := res == "ok" || res.startsWith "ok:"
  match op with
  | "sub" :: beh :: _ =>
    let m' := { m with tasks := m.tasks.push ⟨ok, beh, false⟩ }
    if ok && m.begun then (m', some "C11 Submit returned nil after shutdown had begun") else (m', none)
  | ["subnil"] => (m, if ok then some "C11 Submit(nil) returned nil" else none)
  | ["start"] =>
    if ok then
      (if m.life == .created then ({ m with life := .running }, none)
       else (m, some "C11 Start succeeded on a pool that was already started or shut down"))
    else (m, none)
  | ["shutdown"] =>
    if ok then
      (if m.life == .running then ({ m with life := .closing, graceful := true }, none)
       else (m, some "C11 Shutdown succeeded on a pool that was not running"))
    else (m, none)
  | ["shutdownnow"] =>
    if ok then
      (if m.life == .running then ({ m with life := .stopped }, none)
       else (m, some "C11 ShutdownNow succeeded on a pool that was not running"))
    else (m, none)
  | ["rel", i] => match i.toNat? with
    | some i => ({ m with tasks := m.tasks.modify i fun t => { t with released := true } }, none)
    | none => (m, none)
  | ["end"] => ({ m with tasks := m.tasks.map fun t => { t with released := true } }, none)
  | _ => (m, none)

/-- behaviours of the harness's tasks that stay inside `Run` until the scenario releases them
    (then they return nil / panic / return an error) -/
def held (beh : String) : Bool := beh == "block" || beh == "bpanic" || beh == "berr"

def finished (t : STask) (runs : Nat) : Bool := runs == 1 && (!held t.beh || t.released)

/-- snapshot laws, selected by property -/
def SeqMon.snap (m : SeqMon) (prop : String) (go q : Nat) (dn : Bool) (runs : List Nat) (atEnd : Bool)
    (bb : Bool := false) (bbq : Bool := false) : Option String :=
  let rs := runs.toArray
  let idx := List.range m.tasks.size
  if prop == "C11" then
    if go > m.maxGo then some s!"C11 totalGo={go}, maxGo={m.maxGo}"
    else if m.life == .created && runs.any (· > 0) then some "C11 a task ran before Start"
    else none
  else if prop == "C10" then
    match idx.find? (fun i => rs.getD i 0 > 1) with
    | some i => some s!"C10 task {i} was executed {rs.getD i 0} times"
    | none =>
    match idx.find? (fun i => !(m.tasks.getD i default).accepted && rs.getD i 0 > 0) with
    | some i => some s!"C10 task {i} whose Submit failed was executed"
    | none =>
    match m.returned.find? (fun i => rs.getD i 0 > 0 || !(m.tasks.getD i default).accepted || m.returned.count i > 1) with
    | some i => some s!"C10 task {i} was handed back by ShutdownNow but also executed, or not accepted, or handed back twice"
    | none =>
      let acc := (idx.filter fun i => (m.tasks.getD i default).accepted).length
      let done := runs.foldl (· + ·) 0 + m.returned.length
      if atEnd && !bb && go == 0 && acc != done + q then
        some s!"C10 at quiescence {acc} accepted tasks but {done} executed-or-returned and {q} still queued"
      else if atEnd && (if bb then bbq else go == 0) && m.life == .stopped && !m.graceful && acc != done then
        some s!"C10 after ShutdownNow {acc} accepted tasks but only {done} were executed or handed back"
      else if (if bb then atEnd && bbq else go == 0) && m.graceful && dn && acc != done then
        -- graceful Shutdown succeeded and the pool context (= the channel Shutdown returned) is closed: the pool is
        -- Stopped for good and no worker is left, so what is still in the closed queue is lost (never executed,
        -- and ShutdownNow can no longer hand it back)
        some s!"C10 Shutdown completed (done channel closed, pool stopped) with {acc} accepted tasks but only {done} executed: the others can no longer be executed or handed back"
      else none
  else if prop == "C12" then
    if dn && m.graceful then
      if !bb && q != 0 then some s!"C12 done channel closed with {q} tasks queued"
      else match idx.find? (fun i => (m.tasks.getD i default).accepted && !finished (m.tasks.getD i default) (rs.getD i 0)) with
        | some i => some s!"C12 done channel closed while accepted task {i} was not finished"
        | none => none
    else none
  else none

end Ekit.Pool.Spec
