/-
C06 — the sequential specifications the five thread-safe containers are linearizable against.

Each specification is given *executably* (`step : S → Op → Ret → Option S`: the state after `op`
answered `ret`, `none` when the specification does not allow that answer in that state).  The same
function serves twice:

* `SeqSpec.ofExec` turns it into the relational sequential specification of `Ekit.Conc`
  (`apply s op s' r ↔ step s op r = some s'`) — the linearizability theorems of
  `Ekit/Props/C06.lean` are stated against these;
* the driver (`Driver/Linz.lean`, mode `spec`) runs the exhaustive linearizability search with
  exactly these `step` functions on histories recorded from the real code.

A panic, or any answer outside `Ret`, is accepted by no specification.

* FIFO queue        (`ConcurrentLinkedQueue`):   `Enqueue → ok`, `Dequeue → value | empty`
* priority queue    (`ConcurrentPriorityQueue`): `Enqueue → ok | full`, `Dequeue/Peek → a minimum | empty`,
                                                 `Len`, `Cap`; elements are `(priority, id)`, only the
                                                 priority is compared, so ties are visible
* sequence          (`ConcurrentList`, `CopyOnWriteArrayList`): the abstract sequence of C04
                                                 (`Ekit.Lists.Spec.step`), index errors included
* map               (`syncx.Map`):               `Load`, `Store`, `LoadOrStore`, `LoadAndDelete`, `Delete`,
                                                 `LoadOrStoreFunc(key, fn)` with `fn`'s answer
                                                 (`some v` / `none` = error) as part of the operation
-/
import Ekit.Conc.System
import Ekit.Conc.LinCheck
import Ekit.Model.Lists

namespace Ekit.Linz
open Ekit.Conc

/-- the relational specification of an executable one -/
def SeqSpec.ofExec {S Op Ret : Type} (init : S) (step : S → Op → Ret → Option S) : SeqSpec S Op Ret :=
  ⟨init, fun s op s' r => step s op r = some s'⟩

/-! ### FIFO queue -/

inductive QOp (α : Type) where
  | enq (v : α)
  | deq
  deriving Repr, DecidableEq, Inhabited

inductive QRet (α : Type) where
  | ok
  | val (v : α)
  | empty
  deriving Repr, DecidableEq, Inhabited

def fifoStep {α : Type} [DecidableEq α] (s : List α) : QOp α → QRet α → Option (List α)
  | .enq v, .ok => some (s ++ [v])
  | .deq, .val v =>
    match s with
    | x :: rest => if x = v then some rest else none
    | [] => none
  | .deq, .empty => if s = [] then some [] else none
  | _, _ => none

def fifoSpec (α : Type) [DecidableEq α] : SeqSpec (List α) (QOp α) (QRet α) := SeqSpec.ofExec [] fifoStep

/-! ### priority queue (min-heap order on the priority; `cap = 0` means unbounded) -/

abbrev El := Int × Int      -- (priority, id)

structure PQS where
  cap : Nat
  els : List El             -- kept sorted by (priority, id): a canonical multiset
  deriving Repr, DecidableEq, Inhabited

inductive POp where
  | enq (e : El)
  | deq
  | peek
  | len
  | cap
  deriving Repr, DecidableEq, Inhabited

inductive PRet where
  | ok
  | full
  | val (e : El)
  | empty
  | n (k : Int)
  deriving Repr, DecidableEq, Inhabited

def elLe (a b : El) : Bool := a.1 < b.1 || (a.1 == b.1 && a.2 ≤ b.2)

def insertSorted (e : El) : List El → List El
  | [] => [e]
  | x :: xs => if elLe e x then e :: x :: xs else x :: insertSorted e xs

/-- `e` is present and no element has a smaller priority -/
def isMin (s : List El) (e : El) : Bool := s.contains e && s.all (fun x => e.1 ≤ x.1)

def pqFull (s : PQS) : Bool := s.cap > 0 && s.els.length == s.cap

def pqStep (s : PQS) : POp → PRet → Option PQS
  | .enq e, .ok => if pqFull s then none else some { s with els := insertSorted e s.els }
  | .enq _, .full => if pqFull s then some s else none
  | .deq, .val e => if isMin s.els e then some { s with els := s.els.erase e } else none
  | .deq, .empty => if s.els.isEmpty then some s else none
  | .peek, .val e => if isMin s.els e then some s else none
  | .peek, .empty => if s.els.isEmpty then some s else none
  | .len, .n k => if k = s.els.length then some s else none
  | .cap, .n k => if k = s.cap then some s else none
  | _, _ => none

/-- `NewConcurrentPriorityQueue(capacity, cmp)`: `capacity < 1` is normalised to 0 = unbounded -/
def pqInit (capacity : Int) : PQS := ⟨capacity.toNat, []⟩

def pqSpec (capacity : Int) : SeqSpec PQS POp PRet := SeqSpec.ofExec (pqInit capacity) pqStep

/-! ### sequence: the abstract sequence of C04 -/

abbrev SOp := Ekit.Lists.Op
abbrev SRet := Ekit.Lists.Out

def seqStep (s : List Int) (op : SOp) (r : SRet) : Option (List Int) :=
  let (s', o) := Ekit.Lists.Spec.step s op
  if o = r then some s' else none

def seqSpec (init : List Int) : SeqSpec (List Int) SOp SRet := SeqSpec.ofExec init seqStep

/-! ### map -/

abbrev MapS := List (Int × Int)     -- association list sorted by key, no duplicate keys

def mget (m : MapS) (k : Int) : Option Int := (m.find? (fun p => p.1 == k)).map (·.2)
def mdel (m : MapS) (k : Int) : MapS := m.filter (fun p => p.1 != k)
def minsert (k v : Int) : MapS → MapS
  | [] => [(k, v)]
  | p :: ps => if k < p.1 then (k, v) :: p :: ps else if k = p.1 then (k, v) :: ps else p :: minsert k v ps
def mput (m : MapS) (k v : Int) : MapS := minsert k v m

inductive MOp where
  | load (k : Int)
  | store (k v : Int)
  | los (k v : Int)                 -- LoadOrStore
  | lad (k : Int)                   -- LoadAndDelete
  | del (k : Int)
  | losf (k : Int) (fv : Option Int)   -- LoadOrStoreFunc; `fv` = what `fn` answers (none = error)
  | snap                            -- Range with no concurrent call: the whole content
  deriving Repr, DecidableEq, Inhabited

inductive MRet where
  | val (v : Int)
  | absent
  | ok
  | loaded (v : Int)
  | stored (v : Int)
  | err
  | all (m : MapS)
  deriving Repr, DecidableEq, Inhabited

def mapStep (m : MapS) : MOp → MRet → Option MapS
  | .load k, .val v => if mget m k = some v then some m else none
  | .load k, .absent => if mget m k = none then some m else none
  | .store k v, .ok => some (mput m k v)
  | .los k _, .loaded x => if mget m k = some x then some m else none
  | .los k v, .stored x => if mget m k = none ∧ x = v then some (mput m k v) else none
  | .lad k, .val x => if mget m k = some x then some (mdel m k) else none
  | .lad k, .absent => if mget m k = none then some m else none
  | .del k, .ok => some (mdel m k)
  | .losf k _, .loaded x => if mget m k = some x then some m else none
  | .losf k (some v), .stored x => if mget m k = none ∧ x = v then some (mput m k v) else none
  | .losf k none, .err => if mget m k = none then some m else none
  | .snap, .all m' => if m' = m then some m else none
  | _, _ => none

def mapSpec : SeqSpec MapS MOp MRet := SeqSpec.ofExec [] mapStep

/-! ### the executable specifications handed to the linearizability search -/

open Ekit.Conc.LinCheck in
def fifoExec : ExecSpec (List Int) (QOp Int) (QRet Int) where
  init := []
  step := fifoStep
  pend s op := match op with
    | .enq v => [s ++ [v]]
    | .deq => [s.tail]
  key s := toString s

open Ekit.Conc.LinCheck in
def pqExec (capacity : Int) : ExecSpec PQS POp PRet where
  init := pqInit capacity
  step := pqStep
  pend s op := match op with
    | .enq e => ([PRet.ok, PRet.full].filterMap (pqStep s (.enq e)))
    | .deq => if s.els.isEmpty then [s] else (s.els.filter (isMin s.els)).map (fun e => { s with els := s.els.erase e })
    | _ => [s]
  key s := toString s.els

open Ekit.Conc.LinCheck in
def seqExec (init : List Int) : ExecSpec (List Int) SOp SRet where
  init := init
  step := seqStep
  pend s op := [(Ekit.Lists.Spec.step s op).1]
  key s := toString s

open Ekit.Conc.LinCheck in
def mapExec : ExecSpec MapS MOp MRet where
  init := []
  step := mapStep
  pend m op := match op with
    | .store k v => [mput m k v]
    | .los k v => if (mget m k).isSome then [m] else [mput m k v]
    | .lad k => [mdel m k]
    | .del k => [mdel m k]
    | .losf k (some v) => if (mget m k).isSome then [m] else [mput m k v]
    | _ => [m]
  key m := toString m

end Ekit.Linz

/-! ### labels shared by the three concurrent models: a thread is called, makes an internal
(atomic) step, or returns -/
namespace Ekit.Linz
open Ekit.Conc

inductive Lbl (Op Ret : Type) where
  | call (t : Nat) (op : Op)
  | tau (t : Nat)
  | ret (t : Nat) (r : Ret)
  deriving Repr

def Lbl.obs {Op Ret : Type} : Lbl Op Ret → Option (Ev Op Ret)
  | .call t op => some (.inv t op)
  | .tau _ => none
  | .ret t r => some (.res t r)

/-- the deterministic reading of the map specification (what `sync.Map`'s atomic operations do) -/
def mapFn (m : MapS) : MOp → MapS × MRet
  | .load k => (m, match mget m k with | some v => .val v | none => .absent)
  | .store k v => (mput m k v, .ok)
  | .los k v => match mget m k with
    | some x => (m, .loaded x)
    | none => (mput m k v, .stored v)
  | .lad k => match mget m k with
    | some x => (mdel m k, .val x)
    | none => (m, .absent)
  | .del k => (mdel m k, .ok)
  | .losf k fv => match mget m k with
    | some x => (m, .loaded x)
    | none => match fv with
      | none => (m, .err)
      | some v => (mput m k v, .stored v)
  | .snap => (m, .all m)

theorem mapStep_mapFn (m : MapS) (op : MOp) : mapStep m op (mapFn m op).2 = some (mapFn m op).1 := by
  cases op with
  | load k => simp only [mapFn]; cases h : mget m k <;> simp [mapStep, h]
  | store k v => simp [mapFn, mapStep]
  | los k v => simp only [mapFn]; cases h : mget m k <;> simp [mapStep, h]
  | lad k => simp only [mapFn]; cases h : mget m k <;> simp [mapStep, h]
  | del k => simp [mapFn, mapStep]
  | losf k fv =>
    simp only [mapFn]
    cases h : mget m k with
    | some x => simp [mapStep, h]
    | none => cases fv <;> simp [mapStep, h]
  | snap => simp [mapFn, mapStep]

/-! small helpers for forward simulations -/

theorem arun_one {S Op Ret : Type} {spec : SeqSpec S Op Ret} {a b : AState S Op Ret} {l : ALabel S Op Ret}
    (h : AStep spec a l b) : ARun spec a [l] b := ARun.cons h ARun.nil

theorem upd_pointwise {α β : Type} {f : Nat → α} {g : Nat → β} {e : α → β} {t : Nat} {a : α}
    (h : ∀ u, g u = e (f u)) : ∀ u, upd g t (e a) u = e (upd f t a u) := by
  intro u; by_cases hu : u = t <;> simp [upd, hu, h]

theorem upd_pointwise_left {α β : Type} {f : Nat → α} {g : Nat → β} {e : α → β} {t : Nat} {a : α}
    (h : ∀ u, g u = e (f u)) (ht : g t = e a) : ∀ u, g u = e (upd f t a u) := by
  intro u; by_cases hu : u = t
  · subst hu; simp [upd, ht]
  · simp [upd, hu, h]

end Ekit.Linz
