/-
User comparators (`ekit.Comparator[T] func(src, dst T) int`) as seen by the ordered containers of
C05 (priority queue, skip list).  Elements are `Int`; the containers only ever look at the *sign*
of `cmp a b`.  The theorems assume the comparator is a total preorder (`Lawful`) — ties between
different elements are allowed, which is why the property speaks of "a minimum".
-/
namespace Ekit.Cmp

abbrev Cmp := Int → Int → Int

/-- A comparator that describes a total preorder: the sign flips when the arguments are swapped,
    and `≤` is transitive. -/
structure Lawful (cmp : Cmp) : Prop where
  swap : ∀ a b, cmp a b < 0 ↔ 0 < cmp b a
  trans : ∀ a b c, cmp a b ≤ 0 → cmp b c ≤ 0 → cmp a c ≤ 0

/-- `ekit.ComparatorRealNumber` -/
def natural : Cmp := fun a b => if a < b then -1 else if a = b then 0 else 1
/-- compares `a/3` with `b/3` (Go's truncating division): many ties between different elements -/
def div3 : Cmp := fun a b => natural (Int.tdiv a 3) (Int.tdiv b 3)
/-- descending order -/
def rev : Cmp := fun a b => natural b a
/-- the idiomatic `return a - b`: results of any magnitude, only the sign matters (the harness keeps
    the elements small under this comparator, so Go's subtraction does not overflow) -/
def diff : Cmp := fun a b => a - b

def ofName : String → Option Cmp
  | "nat" => some natural
  | "div3" => some div3
  | "rev" => some rev
  | "diff" => some diff
  | _ => none

end Ekit.Cmp
