/-
C06 — negative witness for the recorded (and since fixed, commit 9d28ac0) defect C06-F1:
before the fix `CopyOnWriteArrayList.Get` read `a.vals` twice without the mutex,

    l := a.Len()                       -- g1: len(a.vals)
    if index < 0 || index >= l { return t, errs.NewErrIndexOutOfRange(l, index) }
    return a.vals[index], e            -- g2: a.vals again, then the element

This little system models exactly that reader next to a (coarse, atomic) `Delete`; the trace below
ends in the index-out-of-range panic.  The fixed reader is `Style.cowR` of the lock-wrapped model.
-/
import Ekit.Model.LinzSpec

namespace Ekit.Linz.CowUnlocked
open Ekit.Conc Ekit.Linz Ekit.Go

inductive Pc where
  | idle
  | g1 (i : Int)
  | g2 (i : Int)
  | del (i : Int)
  | ret (r : SRet)
  | crash                -- runtime error: index out of range
  deriving Repr, DecidableEq

structure St where
  vals : List Int
  pc : Nat → Pc

def step (s : St) : Lbl SOp SRet → Option St
  | .call t op =>
    match s.pc t, op with
    | .idle, .get i => some { s with pc := upd s.pc t (.g1 i) }
    | .idle, .delete i => some { s with pc := upd s.pc t (.del i) }
    | _, _ => none
  | .tau t =>
    match s.pc t with
    | .g1 i =>
      if i < 0 ∨ i ≥ s.vals.length then some { s with pc := upd s.pc t (.ret (.err (.idx s.vals.length i))) }
      else some { s with pc := upd s.pc t (.g2 i) }
    | .g2 i =>
      match s.vals[i.toNat]? with
      | some x => some { s with pc := upd s.pc t (.ret (.ok (.val x))) }
      | none => some { s with pc := upd s.pc t .crash }
    | .del i =>
      let (v', o) := Ekit.Lists.Spec.step s.vals (.delete i)
      some { vals := v', pc := upd s.pc t (.ret o) }
    | _ => none
  | .ret t r =>
    match s.pc t with
    | .ret r' => if r = r' then some { s with pc := upd s.pc t .idle } else none
    | _ => none

def sys (init : List Int) : ObjSystem St (Lbl SOp SRet) SOp SRet where
  init := ⟨init, fun _ => .idle⟩
  step := step
  obs := Lbl.obs

/-- two threads, five steps: Get(0) reads the length 1, Delete(0) empties the list, Get indexes -/
def witness : List (Lbl SOp SRet) :=
  [.call 1 (.get 0), .tau 1, .call 2 (.delete 0), .tau 2, .tau 1]

end Ekit.Linz.CowUnlocked
