/-
Model of `queue/concurrent_linked_blocking_queue.go` and of the `cond` type of
`queue/delay_queue.go` (`signalCh`, `broadcast`) as a transition system (C07, C09).

  Enqueue(ctx, t):  eCtx        if ctx.Err() != nil { return ctx.Err() }
                    eLock       c.mutex.Lock()                    (also the `<-signal` arm's re-lock)
                    eGuard      for c.maxSize > 0 && c.linkedlist.Len() == c.maxSize {
                    eSigRead        signalCh: res := c.signal            (channel identity = generation)
                    eSigUnlock g    signalCh: c.l.Unlock(); return res
                    eSelect g       select { case <-ctx.Done(): return ctx.Err()      (`ctxArm`)
                                             case <-signal: c.mutex.Lock() }          (`tau`, enabled iff g is closed)
                    eAppend     err := c.linkedlist.Append(t)
                    bcSwap      broadcast: signal := make(chan struct{}); old := c.signal; c.signal = signal
                    bcUnlock    broadcast: c.l.Unlock()
                    bcClose     broadcast: close(old) ; return err
  Dequeue(ctx):     dCtx dLock dGuard (for c.linkedlist.Len() == 0) dSigRead dSigUnlock dSelect
                    dDelete     val, err := c.linkedlist.Delete(0) ; then broadcast on notFull
  Len / AsSlice:    RLock; read; deferred RUnlock.

The linked list is the C04 model (`Ekit.Lists.LinkedList.step`), so `Append`/`Delete(0)`/`Len`/
`AsSlice` are the functions the C04 theorems are about.

Assumed semantics (definitions, trusted): `sync.RWMutex` as in `ArrayBQ`; an unbuffered channel on
which nobody ever sends: a receive is enabled iff the channel is closed; `select` takes any enabled
arm; `close` of a closed channel panics; `make(chan)` returns a channel distinct from all earlier
ones (identities are generation numbers: the fresh one is `cur + 1`); `context` is a monotone flag.
-/
import Ekit.Spec.BQueue
import Ekit.Model.Lists

namespace Ekit.LinkedBQ
open Ekit.Conc Ekit.BQ

inductive Which where
  | notEmpty | notFull
  deriving DecidableEq, Repr, Inhabited

/-- a `cond`: the identity (generation) of the channel in `c.signal` and the closed channels -/
structure Cond where
  cur : Nat
  closed : List Nat
  deriving DecidableEq, Repr, Inhabited

inductive Pc where
  | idle
  | eCtx (v : Int) | eLock (v : Int) | eGuard (v : Int) | eSigRead (v : Int)
  | eSigUnlock (v : Int) (g : Nat) | eSelect (v : Int) (g : Nat) | eAppend (v : Int)
  | dCtx | dLock | dGuard | dSigRead | dSigUnlock (g : Nat) | dSelect (g : Nat) | dDelete
  | bcSwap (w : Which) (r : Ret) | bcUnlock (w : Which) (old : Nat) (r : Ret) | bcClose (w : Which) (old : Nat) (r : Ret)
  | lRLock | lRead | aRLock | aRead
  | runlock (r : Ret)
  | ret (r : Ret)
  deriving DecidableEq, Repr, Inhabited

structure State where
  q : List Int            -- contents of c.linkedlist
  maxSize : Int
  writer : Option Nat
  readers : Nat
  notEmpty : Cond
  notFull : Cond
  pc : Nat → Pc
  ctxDone : Nat → Bool
  panicked : Bool
  -- ghost
  writes : Nat → Nat      -- list mutations performed by the thread's current call
  live : List Nat
  enqd : List Int
  deqd : List Int

inductive Label where
  | inv (t : Nat) (op : Op)
  | res (t : Nat) (r : Ret)
  | ctxEnd (t : Nat)
  | tau (t : Nat)
  | ctxArm (t : Nat)          -- the `<-ctx.Done()` arm of t's select
  deriving DecidableEq, Repr

def init (maxSize : Int) : State where
  q := []
  maxSize := maxSize
  writer := none
  readers := 0
  notEmpty := ⟨0, []⟩
  notFull := ⟨0, []⟩
  pc := fun _ => .idle
  ctxDone := fun _ => false
  panicked := false
  writes := fun _ => 0
  live := []
  enqd := []
  deqd := []

def start : Op → Pc
  | .enq v => .eCtx v
  | .deq => .dCtx
  | .len => .lRLock
  | .asSlice => .aRLock

def setPc (s : State) (t : Nat) (p : Pc) : State := { s with pc := upd s.pc t p }
def panic (s : State) : State := { s with panicked := true }

def getCond (s : State) : Which → Cond
  | .notEmpty => s.notEmpty
  | .notFull => s.notFull
def setCond (s : State) (w : Which) (c : Cond) : State :=
  match w with
  | .notEmpty => { s with notEmpty := c }
  | .notFull => { s with notFull := c }

/-- the loop guard of Enqueue: `c.maxSize > 0 && c.linkedlist.Len() == c.maxSize` -/
def full (s : State) : Bool := decide (0 < s.maxSize) && decide ((s.q.length : Int) = s.maxSize)

/-- `c.mutex.Unlock()` then continue at `p` -/
def unlockTo (s : State) (t : Nat) (p : Pc) : State :=
  if s.writer.isSome then setPc { s with writer := none } t p else panic s

def tauStep (s : State) (t : Nat) : Option State :=
  match s.pc t with
  | .idle => none
  | .ret _ => none
  -- Enqueue
  | .eCtx v => some (setPc s t (if s.ctxDone t then .ret .ctxErr else .eLock v))
  | .eLock v =>
    if s.writer = none ∧ s.readers = 0 then some (setPc { s with writer := some t } t (.eGuard v)) else none
  | .eGuard v => some (setPc s t (if full s then .eSigRead v else .eAppend v))
  | .eSigRead v => some (setPc s t (.eSigUnlock v s.notFull.cur))
  | .eSigUnlock v g => some (unlockTo s t (.eSelect v g))
  | .eSelect v g => if g ∈ s.notFull.closed then some (setPc s t (.eLock v)) else none
  | .eAppend v =>
    let (q', o) := Ekit.Lists.LinkedList.step s.q (.append [v])
    let r : Ret := match o with
      | .ok _ => .ok
      | _ => .err
    some (setPc { s with q := q', enqd := s.enqd ++ [v], writes := upd s.writes t (s.writes t + 1) } t (.bcSwap .notEmpty r))
  -- Dequeue
  | .dCtx => some (setPc s t (if s.ctxDone t then .ret .ctxErr else .dLock))
  | .dLock =>
    if s.writer = none ∧ s.readers = 0 then some (setPc { s with writer := some t } t .dGuard) else none
  | .dGuard => some (setPc s t (if s.q.length = 0 then .dSigRead else .dDelete))
  | .dSigRead => some (setPc s t (.dSigUnlock s.notEmpty.cur))
  | .dSigUnlock g => some (unlockTo s t (.dSelect g))
  | .dSelect g => if g ∈ s.notEmpty.closed then some (setPc s t .dLock) else none
  | .dDelete =>
    match Ekit.Lists.LinkedList.step s.q (.delete 0) with
    | (q', .ok (.val x)) =>
      some (setPc { s with q := q', deqd := s.deqd ++ [x], writes := upd s.writes t (s.writes t + 1) } t (.bcSwap .notFull (.val x)))
    | (q', _) => some (setPc { s with q := q' } t (.bcSwap .notFull .err))
  -- cond.broadcast
  | .bcSwap w r =>
    some (setPc (setCond s w { getCond s w with cur := (getCond s w).cur + 1 }) t (.bcUnlock w (getCond s w).cur r))
  | .bcUnlock w old r => some (unlockTo s t (.bcClose w old r))
  | .bcClose w old r =>
    if old ∈ (getCond s w).closed then some (panic s)
    else some (setPc (setCond s w { getCond s w with closed := old :: (getCond s w).closed }) t (.ret r))
  -- Len
  | .lRLock => if s.writer = none then some (setPc { s with readers := s.readers + 1 } t .lRead) else none
  | .lRead =>
    match (Ekit.Lists.LinkedList.step s.q .len).2 with
    | .ok (.int k) => some (setPc s t (.runlock (.n k)))
    | _ => some (setPc s t (.runlock .err))
  -- AsSlice
  | .aRLock => if s.writer = none then some (setPc { s with readers := s.readers + 1 } t .aRead) else none
  | .aRead =>
    match (Ekit.Lists.LinkedList.step s.q .asSlice).2 with
    | .ok (.slice l) => some (setPc s t (.runlock (.slice l)))
    | _ => some (setPc s t (.runlock .err))
  | .runlock r =>
    if 0 < s.readers then some (setPc { s with readers := s.readers - 1 } t (.ret r)) else some (panic s)

def step (s : State) : Label → Option State
  | .inv t op =>
    if s.pc t = .idle then
      some { s with pc := upd s.pc t (start op), ctxDone := upd s.ctxDone t false,
                    writes := upd s.writes t 0, live := t :: s.live }
    else none
  | .res t r =>
    if s.pc t = .ret r then some { s with pc := upd s.pc t .idle, live := s.live.erase t } else none
  | .ctxEnd t =>
    if s.pc t ≠ .idle then some { s with ctxDone := upd s.ctxDone t true } else none
  | .ctxArm t =>
    match s.pc t with
    | .eSelect _ _ => if s.ctxDone t then some (setPc s t (.ret .ctxErr)) else none
    | .dSelect _ => if s.ctxDone t then some (setPc s t (.ret .ctxErr)) else none
    | _ => none
  | .tau t => if s.panicked then none else tauStep s t

def obs : Label → Option (Ev Op Ret)
  | .inv t op => some (.inv t op)
  | .res t r => some (.res t r)
  | _ => none

/-- the linked blocking queue created with `capacity = maxSize` as an object system -/
def sys (maxSize : Int) : ObjSystem State Label Op Ret where
  init := init maxSize
  step := step
  obs := obs

/-- the abstract bound: `capacity <= 0` means unbounded -/
def bound (maxSize : Int) : Option Nat := if 0 < maxSize then some maxSize.toNat else none

end Ekit.LinkedBQ
