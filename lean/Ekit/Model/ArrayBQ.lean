/-
Model of `queue/concurrent_array_blocking_queue.go` as a transition system (C07, C09).

One label per atomic action of the code; the thread that moves is named by the label, the number of
threads is unbounded.  Program counters follow the source:

  Enqueue(ctx, t):   eAcq     err := c.enqueueCap.Acquire(ctx, 1)      (`tau`: a permit was free;
                                                                        `ctxArm`: ctx ended -> return err)
                     eLock    c.mutex.Lock()
                     eChk     if ctx.Err() != nil {
                     eRelBack     c.enqueueCap.Release(1); return ctx.Err() }   (then the deferred Unlock)
                     eStore   c.data[c.tail] = t
                     eAdv     c.tail++ ; c.count++ ; if c.tail == cap(c.data) { c.tail = 0 }
                     eRel     c.dequeueCap.Release(1)
                     unlock r deferred c.mutex.Unlock(); return r
  Dequeue(ctx):      dAcq dLock dChk dRelBack   (symmetric, on dequeueCap)
                     dRead    res = c.data[c.head]
                     dAdv     c.data[c.head] = c.zero ; c.head++ ; c.count-- ; if c.head == cap(c.data) { c.head = 0 }
                     dRel     c.enqueueCap.Release(1)
  Len():             lRLock   c.mutex.RLock()
                     lRead    return c.count              (then the deferred RUnlock)
  AsSlice():         aRLock   c.mutex.RLock()
                     aMake    res := make([]T, 0, c.count)          (panics on a negative count)
                     aLoop    for cnt < c.count { index := (c.head + cnt) % capacity; res = append(res, c.data[index]); cnt++ }
                     runlock r  deferred c.mutex.RUnlock(); return r

Statements that touch only fields protected by `mutex` are grouped into at most two steps per
critical section (`eStore`/`eAdv`, `dRead`/`dAdv`); no step checks that the lock is held — that the
lock serialises them is *proved* (`Ekit/Lemmas/ArrayBQ*.lean`), so a model without the lock steps
does not satisfy the theorems.

Assumed semantics of the Go primitives (definitions, trusted):
* `semaphore.Weighted` (x/sync v0.4.0) with weight-1 requests: a counter of free permits;
  `Acquire` succeeds when a permit is free (also when ctx has already ended) or returns `ctx.Err()`
  once ctx has ended; `Release` beyond the size panics.  FIFO hand-off between waiters is not modelled.
* `sync.RWMutex`: `Lock` enabled iff no writer and no reader, `RLock` iff no writer (writer preference
  only removes schedules), `Unlock`/`RUnlock` of an unlocked mutex is fatal (modelled as a panic).
* `context`: a monotone flag per call (`ctxEnd t` may happen at any time during the call).
* Go panics (index out of range, negative `make` capacity, integer division by zero, semaphore
  over-release, unlock of unlocked mutex) set `panicked`.
Ghost state (not in the code, used only to state theorems): `live`, `fp`, `enqd`, `deqd`.
-/
import Ekit.Spec.BQueue

namespace Ekit.ArrayBQ
open Ekit.Conc Ekit.BQ

inductive Pc where
  | idle
  | eAcq (v : Int) | eLock (v : Int) | eChk (v : Int) | eRelBack | eStore (v : Int) | eAdv (v : Int) | eRel
  | dAcq | dLock | dChk | dRelBack | dRead | dAdv (r : Int) | dRel (r : Int)
  | unlock (r : Ret)
  | lRLock | lRead
  | aRLock | aMake | aLoop (cnt : Nat) (res : List Int)
  | runlock (r : Ret)
  | ret (r : Ret)
  deriving DecidableEq, Repr, Inhabited

/-- ghost: what the current call of a thread has done so far -/
structure Footprint where
  enq : Int      -- enqueueCap permits acquired minus released
  deq : Int      -- dequeueCap permits acquired minus released
  writes : Nat   -- mutations of data/head/tail/count
  deriving DecidableEq, Repr, Inhabited

structure State where
  data : List Int
  head : Nat
  tail : Nat
  count : Int
  /-- free permits of enqueueCap / dequeueCap; `size` is the size of both semaphores -/
  enqFree : Nat
  deqFree : Nat
  size : Nat
  /-- RWMutex -/
  writer : Option Nat
  readers : Nat
  pc : Nat → Pc
  ctxDone : Nat → Bool
  panicked : Bool
  -- ghost
  fp : Nat → Footprint
  live : List Nat
  enqd : List Int
  deqd : List Int

inductive Label where
  | inv (t : Nat) (op : Op)
  | res (t : Nat) (r : Ret)
  | ctxEnd (t : Nat)          -- the context of t's current call ends (deadline or cancel)
  | tau (t : Nat)             -- t performs its next action
  | ctxArm (t : Nat)          -- t's pending Acquire returns ctx.Err()
  deriving DecidableEq, Repr

/-- `NewConcurrentArrayBlockingQueue(capacity)`: enqueueCap full of permits, dequeueCap emptied -/
def init (cap : Nat) : State where
  data := List.replicate cap 0
  head := 0
  tail := 0
  count := 0
  enqFree := cap
  deqFree := 0
  size := cap
  writer := none
  readers := 0
  pc := fun _ => .idle
  ctxDone := fun _ => false
  panicked := false
  fp := fun _ => ⟨0, 0, 0⟩
  live := []
  enqd := []
  deqd := []

def start : Op → Pc
  | .enq v => .eAcq v
  | .deq => .dAcq
  | .len => .lRLock
  | .asSlice => .aRLock

def setPc (s : State) (t : Nat) (p : Pc) : State := { s with pc := upd s.pc t p }
def panic (s : State) : State := { s with panicked := true }
def fpAdd (s : State) (t : Nat) (e d : Int) (w : Nat) : State :=
  { s with fp := upd s.fp t ⟨(s.fp t).enq + e, (s.fp t).deq + d, (s.fp t).writes + w⟩ }

/-- the ring buffer read as a queue: `count` elements starting at `head` -/
def contents (s : State) : List Int :=
  (List.range s.count.toNat).map fun i => s.data.getD ((s.head + i) % s.data.length) 0

/-- the next action of thread `t` -/
def tauStep (s : State) (t : Nat) : Option State :=
  match s.pc t with
  | .idle => none
  | .ret _ => none
  -- Enqueue
  | .eAcq v =>
    if 0 < s.enqFree then some (fpAdd (setPc { s with enqFree := s.enqFree - 1 } t (.eLock v)) t 1 0 0) else none
  | .eLock v =>
    if s.writer = none ∧ s.readers = 0 then some (setPc { s with writer := some t } t (.eChk v)) else none
  | .eChk v => some (setPc s t (if s.ctxDone t then .eRelBack else .eStore v))
  | .eRelBack =>
    if s.enqFree + 1 ≤ s.size then some (fpAdd (setPc { s with enqFree := s.enqFree + 1 } t (.unlock .ctxErr)) t (-1) 0 0)
    else some (panic s)
  | .eStore v =>
    if s.tail < s.data.length then some (fpAdd (setPc { s with data := s.data.set s.tail v } t (.eAdv v)) t 0 0 1)
    else some (panic s)
  | .eAdv v =>
    some (fpAdd (setPc { s with tail := (if s.tail + 1 = s.data.length then 0 else s.tail + 1),
                                 count := s.count + 1,
                                 enqd := s.enqd ++ [v] } t .eRel) t 0 0 1)
  | .eRel =>
    if s.deqFree + 1 ≤ s.size then some (fpAdd (setPc { s with deqFree := s.deqFree + 1 } t (.unlock .ok)) t 0 (-1) 0)
    else some (panic s)
  -- Dequeue
  | .dAcq =>
    if 0 < s.deqFree then some (fpAdd (setPc { s with deqFree := s.deqFree - 1 } t .dLock) t 0 1 0) else none
  | .dLock =>
    if s.writer = none ∧ s.readers = 0 then some (setPc { s with writer := some t } t .dChk) else none
  | .dChk => some (setPc s t (if s.ctxDone t then .dRelBack else .dRead))
  | .dRelBack =>
    if s.deqFree + 1 ≤ s.size then some (fpAdd (setPc { s with deqFree := s.deqFree + 1 } t (.unlock .ctxErr)) t 0 (-1) 0)
    else some (panic s)
  | .dRead =>
    if s.head < s.data.length then some (setPc s t (.dAdv (s.data.getD s.head 0)))
    else some (panic s)
  | .dAdv r =>
    if s.head < s.data.length then
      some (fpAdd (setPc { s with data := s.data.set s.head 0,
                                   head := (if s.head + 1 = s.data.length then 0 else s.head + 1),
                                   count := s.count - 1,
                                   deqd := s.deqd ++ [r] } t (.dRel r)) t 0 0 1)
    else some (panic s)
  | .dRel r =>
    if s.enqFree + 1 ≤ s.size then some (fpAdd (setPc { s with enqFree := s.enqFree + 1 } t (.unlock (.val r))) t (-1) 0 0)
    else some (panic s)
  | .unlock r =>
    if s.writer.isSome then some (setPc { s with writer := none } t (.ret r)) else some (panic s)
  -- Len
  | .lRLock => if s.writer = none then some (setPc { s with readers := s.readers + 1 } t .lRead) else none
  | .lRead => some (setPc s t (.runlock (.n s.count)))
  -- AsSlice
  | .aRLock => if s.writer = none then some (setPc { s with readers := s.readers + 1 } t .aMake) else none
  | .aMake => if s.count < 0 then some (panic s) else some (setPc s t (.aLoop 0 []))
  | .aLoop cnt res =>
    if (cnt : Int) < s.count then
      if s.data.length = 0 then some (panic s)
      else some (setPc s t (.aLoop (cnt + 1) (res ++ [s.data.getD ((s.head + cnt) % s.data.length) 0])))
    else some (setPc s t (.runlock (.slice res)))
  | .runlock r =>
    if 0 < s.readers then some (setPc { s with readers := s.readers - 1 } t (.ret r)) else some (panic s)

def step (s : State) : Label → Option State
  | .inv t op =>
    if s.pc t = .idle then
      some { s with pc := upd s.pc t (start op), ctxDone := upd s.ctxDone t false,
                    fp := upd s.fp t ⟨0, 0, 0⟩, live := t :: s.live }
    else none
  | .res t r =>
    if s.pc t = .ret r then some { s with pc := upd s.pc t .idle, live := s.live.erase t } else none
  | .ctxEnd t =>
    if s.pc t ≠ .idle then some { s with ctxDone := upd s.ctxDone t true } else none
  | .ctxArm t =>
    match s.pc t with
    | .eAcq _ => if s.ctxDone t then some (setPc s t (.ret .ctxErr)) else none
    | .dAcq => if s.ctxDone t then some (setPc s t (.ret .ctxErr)) else none
    | _ => none
  | .tau t => if s.panicked then none else tauStep s t

def obs : Label → Option (Ev Op Ret)
  | .inv t op => some (.inv t op)
  | .res t r => some (.res t r)
  | _ => none

/-- the array blocking queue of capacity `cap` as an object system -/
def sys (cap : Nat) : ObjSystem State Label Op Ret where
  init := init cap
  step := step
  obs := obs

end Ekit.ArrayBQ
