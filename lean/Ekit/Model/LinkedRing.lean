/-
Pointer-level model of list/linked_list.go (review addition for C04).

`Ekit.Lists.LinkedList.step` (Model/Lists.lean, the function the trace acceptor runs) represents the
linked list by the Lean list of its values, so its refinement theorem says little about the pointer
surgery of the source.  Here the ring is what it is in Go: a heap of nodes `{prev, next *node; val}`
addressed by allocation number, two sentinels `head`/`tail`, a `length` counter.  A nil pointer is
`none`; dereferencing it is a run-time panic and makes the operation return `none` (nothing is
totalised).  Lemmas/LinkedRing.lean proves that every operation, from every state satisfying the ring
invariant, does not panic, keeps the invariant and computes exactly `LinkedList.step` on the list of
values (Props/C04Ring.lean).
-/
import Ekit.Model.Lists

namespace Ekit.Lists.Ring
open Ekit.Go

structure Node where
  prev : Option Nat
  next : Option Nat
  val : Int
  deriving Repr, Inhabited

structure LL where
  h : Nat → Node          -- the heap
  alloc : Nat             -- next fresh address (`&node{…}` allocates)
  head : Nat
  tail : Nat
  length : Int

def upd (h : Nat → Node) (a : Nat) (n : Node) : Nat → Node := fun x => if x = a then n else h x

/-- `NewLinkedList`: `head := &node{}; tail := &node{next: head, prev: head}; head.next, head.prev = tail, tail` -/
def new : LL :=
  let h0 : Nat → Node := fun _ => ⟨none, none, 0⟩
  let h1 := upd h0 0 ⟨none, none, 0⟩
  let h2 := upd h1 1 ⟨some 0, some 0, 0⟩
  let h3 := upd h2 0 { h2 0 with next := some 1, prev := some 1 }
  { h := h3, alloc := 2, head := 0, tail := 1, length := 0 }

/-- `n` times `cur = cur.next` (resp. `cur.prev`); `none` = nil dereference -/
def walk (h : Nat → Node) (f : Node → Option Nat) : Nat → Nat → Option Nat
  | cur, 0 => some cur
  | cur, n + 1 =>
    match f (h cur) with
    | some c => walk h f c n
    | none => none

/-- `findNode(index)`: from `head` with `for i := -1; i < index; i++` (that is `index+1` trips), or from
    `tail` with `for i := l.Len(); i > index; i--` (`len-index` trips) — the trip counts of the two
    loops are those proved in `c04_linked_walk_loops` -/
def findNode (l : LL) (index : Int) : Option Nat :=
  if index ≤ Int.tdiv l.length 2 then walk l.h (·.next) l.head (index + 1).toNat
  else walk l.h (·.prev) l.tail (l.length - index).toNat

/-- `node := &node{prev: next.prev, next: next, val: t}; node.prev.next, node.next.prev = node, node; l.length++`
    (the body shared by `Append`, with `next = l.tail`, and `Add`) -/
def spliceBefore (l : LL) (nxt : Nat) (t : Int) : Option LL :=
  let z := l.alloc
  let h1 := upd l.h z ⟨(l.h nxt).prev, some nxt, t⟩
  -- the two targets `node.prev` and `node.next` are evaluated first, then assigned left to right
  match (h1 z).prev, (h1 z).next with
  | some p, some y =>
    let h2 := upd h1 p { h1 p with next := some z }
    let h3 := upd h2 y { h2 y with prev := some z }
    some { l with h := h3, alloc := z + 1, length := l.length + 1 }
  | _, _ => none

def append (l : LL) : List Int → Option LL
  | [] => some l
  | t :: ts =>
    match spliceBefore l l.tail t with
    | some l' => append l' ts
    | none => none

/-- `node.prev.next = node.next; node.next.prev = node.prev; node.prev, node.next = nil, nil; l.length--; return node.val` -/
def unlink (l : LL) (x : Nat) : Option (LL × Int) :=
  match (l.h x).prev with
  | none => none
  | some p =>
    let h1 := upd l.h p { l.h p with next := (l.h x).next }
    match (h1 x).next with
    | none => none
    | some y =>
      let h2 := upd h1 y { h1 y with prev := (h1 x).prev }
      let h3 := upd h2 x { h2 x with prev := none, next := none }
      some ({ l with h := h3, length := l.length - 1 }, (h3 x).val)

/-- the loop of `AsSlice` / `Range`: `for cur, i := l.head.next, 0; i < l.length; i++ { …cur.val…; cur = cur.next }` -/
def collect (h : Nat → Node) : Option Nat → Nat → Option (List Int)
  | _, 0 => some []
  | none, _ + 1 => none
  | some c, n + 1 =>
    match collect h (h c).next n with
    | some vs => some ((h c).val :: vs)
    | none => none

def checkIndex (l : LL) (index : Int) : Bool := 0 ≤ index && index < l.length

/-- one public call; outer `none` = nil-pointer panic -/
def step (l : LL) : Op → Option (LL × Out)
  | .get i =>
    if !checkIndex l i then some (l, .err (.idx l.length i))
    else match findNode l i with
      | some n => some (l, .ok (.val (l.h n).val))
      | none => none
  | .append ts =>
    match append l ts with
    | some l' => some (l', .ok .unit)
    | none => none
  | .add i t =>
    if i < 0 ∨ i > l.length then some (l, .err (.idx l.length i))
    else if i = l.length then
      match append l [t] with
      | some l' => some (l', .ok .unit)
      | none => none
    else match findNode l i with
      | some n =>
        match spliceBefore l n t with
        | some l' => some (l', .ok .unit)
        | none => none
      | none => none
  | .set i t =>
    if !checkIndex l i then some (l, .err (.idx l.length i))
    else match findNode l i with
      | some n => some ({ l with h := upd l.h n { l.h n with val := t } }, .ok .unit)
      | none => none
  | .delete i =>
    if !checkIndex l i then some (l, .err (.idx l.length i))
    else match findNode l i with
      | some n =>
        match unlink l n with
        | some (l', v) => some (l', .ok (.val v))
        | none => none
      | none => none
  | .len => some (l, .ok (.int l.length))
  | .asSlice =>
    match collect l.h (l.h l.head).next l.length.toNat with
    | some vs => some (l, .ok (.slice vs))
    | none => none
  | .range =>
    match collect l.h (l.h l.head).next l.length.toNat with
    | some vs => some (l, .ok (.slice vs))
    | none => none

end Ekit.Lists.Ring
