/-
C06 — model of `syncx.Map` (syncx/map.go).

`syncx.Map` is a typed wrapper over `sync.Map`.  `sync.Map`'s own operations (`Load`, `Store`,
`LoadOrStore`, `LoadAndDelete`, `Delete`) are **trusted to be atomic**: each is one step of the
system, applying `Ekit.Linz.mapFn` to the shared content.  The only method with more than one
access to the shared map is

    func (m *Map[K, V]) LoadOrStoreFunc(key K, fn func() (V, error)) (actual V, loaded bool, err error) {
        val, ok := m.Load(key)                      -- step f1
        if ok { return val, true, nil }
        val, err = fn()                             -- step f2 (touches nothing shared; its answer `fv`
        if err != nil { return }                    --          is part of the operation: some v / none = error)
        actual, loaded = m.LoadOrStore(key, val)    -- step f3
        return
    }

Any number of threads (`Nat`), any interleaving.  `Range` is not modelled as a step (it is not atomic
in `sync.Map`); the dynamic check treats it per reported pair.
-/
import Ekit.Model.LinzSpec

namespace Ekit.Linz.SyncMap
open Ekit.Conc Ekit.Linz

inductive Pc where
  | idle
  | op1 (op : MOp)                    -- a method that is one atomic `sync.Map` operation
  | f1 (k : Int) (fv : Option Int)    -- LoadOrStoreFunc: about to `Load`
  | f2 (k : Int) (fv : Option Int)    -- missed: about to call `fn`
  | f3 (k : Int) (v : Int)            -- `fn` answered `v`: about to `LoadOrStore`
  | ret (r : MRet)
  deriving Repr, DecidableEq

structure St where
  m : MapS
  pc : Nat → Pc

def St.set (s : St) (t : Nat) (p : Pc) : St := { s with pc := upd s.pc t p }

def step (s : St) : Lbl MOp MRet → Option St
  | .call t op =>
    match s.pc t with
    | .idle =>
      match op with
      | .losf k fv => some (s.set t (.f1 k fv))
      | .snap => none
      | op => some (s.set t (.op1 op))
    | _ => none
  | .tau t =>
    match s.pc t with
    | .op1 op => some { m := (mapFn s.m op).1, pc := upd s.pc t (.ret (mapFn s.m op).2) }
    | .f1 k fv =>
      match mget s.m k with
      | some x => some (s.set t (.ret (.loaded x)))
      | none => some (s.set t (.f2 k fv))
    | .f2 k fv =>
      match fv with
      | none => some (s.set t (.ret .err))
      | some v => some (s.set t (.f3 k v))
    | .f3 k v => some { m := (mapFn s.m (.los k v)).1, pc := upd s.pc t (.ret (mapFn s.m (.los k v)).2) }
    | _ => none
  | .ret t r =>
    match s.pc t with
    | .ret r' => if r = r' then some (s.set t .idle) else none
    | _ => none

def sys : ObjSystem St (Lbl MOp MRet) MOp MRet where
  init := ⟨[], fun _ => .idle⟩
  step := step
  obs := Lbl.obs

/-- the status of a thread in the canonical automaton, as a function of its program counter:
    the linearization point of `LoadOrStoreFunc` is the `Load` when it hits or when `fn` fails,
    otherwise the `LoadOrStore`. -/
def expect : Pc → TStatus MOp MRet
  | .idle => .idle
  | .op1 op => .pending op
  | .f1 k fv => .pending (.losf k fv)
  | .f2 _ none => .done .err
  | .f2 k (some v) => .pending (.losf k (some v))
  | .f3 k v => .pending (.losf k (some v))
  | .ret r => .done r

def Rel (s : St) (a : AState MapS MOp MRet) : Prop := a.s = s.m ∧ ∀ t, a.th t = expect (s.pc t)

end Ekit.Linz.SyncMap
