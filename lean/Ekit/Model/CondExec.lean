/-
Scheduling helpers over the Cond transition system, used by the trace acceptor (Driver/Cond.lean):
which labels a thread can fire next, state keys, re-tabulation.  Everything here *calls*
`Ekit.Cond.step`; nothing re-implements a transition.
-/
import Ekit.Model.Cond

namespace Ekit.Cond

/-- the labels thread `t` may fire at program counter `p` (the pool hands out its most recently freed
    node, or a new one when empty — node identity is not observable, and pooled nodes are clean by
    `c13_node_clean_on_free`) -/
def pcLabels (s : State) (t : Tid) : Pc → List Label
  | .idle => []
  | .ccLoad _ => [.ccLoad t]
  | .ccCas _ => [.ccCas t]
  | .ccLoad2 _ => [.ccLoad2 t]
  | .firstUse _ => [.firstUse t]
  | .wAddLock => [.addLock t]
  | .wAlloc => [.alloc t s.pool.head?]
  | .wPush _ => [.push t]
  | .wAddUnlock _ => [.addUnlock t]
  | .wUnlockL _ => [.waitUnlockL t]
  | .wSelect _ => [.selRecv t, .selCtx t]
  | .wCtxLock _ => [.ctxLock t]
  | .wInner _ => [.innerRecv t, .innerDefault t]
  | .wFwdLen _ => [.fwdLen t]
  | .wFwdPop _ => [.fwdPop t]
  | .wFwdSend _ _ => [.fwdSend t]
  | .wRemove _ => [.remove t]
  | .wCtxErr _ => [.ctxErr t]
  | .wCtxUnlock _ _ => [.ctxUnlock t]
  | .wFree _ _ => [.free t]
  | .wRelock _ => [.relockL t]
  | .wRet r => [.resWait t r]
  | .sLock => [.sLock t]
  | .sLen => [.sLen t]
  | .sPop => [.sPop t]
  | .sSend _ => [.sSend t]
  | .sUnlock => [.sUnlock t]
  | .sRet => [.resSignal t]
  | .bLock => [.bLock t]
  | .bLen => [.bLen t]
  | .bPop => [.bPop t]
  | .bSend _ => [.bSend t]
  | .bUnlock => [.bUnlock t]
  | .bRet => [.resBroadcast t]
  | .fault _ => []

/-- the same state with its per-thread functions re-tabulated over `tids` (extensionally equal to `s`
    whenever every thread outside `tids` is still in its initial condition — the acceptor passes all
    threads of the scenario).  Purely an evaluation-cost measure: `upd` chains grow with the run. -/
def State.compact (s : State) (tids : List Tid) : State :=
  let pcs := tids.map fun t => (t, s.pc t)
  let cxs := tids.map fun t => (t, s.ctx t)
  let sns := tids.map fun t => (t, s.snap t)
  let sts := tids.map fun t => (t, s.sent t)
  { s with
    pc := fun t => (pcs.lookup t).getD .idle
    ctx := fun t => (cxs.lookup t).getD false
    snap := fun t => (sns.lookup t).getD []
    sent := fun t => (sts.lookup t).getD [] }

/-- before `Wait` has released `c.L` -/
def Pc.preUnlock : Pc → Bool
  | .idle | .ccLoad _ | .ccCas _ | .ccLoad2 _ | .firstUse _
  | .wAddLock | .wAlloc | .wPush _ | .wAddUnlock _ | .wUnlockL _ => true
  | _ => false

/-- compact rendering for messages -/
def Res.code : Res → String
  | .nil => "n"
  | .ctxErr => "e"

def Pc.code : Pc → String
  | .idle => "i"
  | .ccLoad _ => "c1" | .ccCas _ => "c2" | .ccLoad2 _ => "c3" | .firstUse _ => "fu"
  | .wAddLock => "wa" | .wAlloc => "wb" | .wPush n => s!"wc{n}" | .wAddUnlock n => s!"wd{n}"
  | .wUnlockL n => s!"we{n}" | .wSelect n => s!"wf{n}" | .wCtxLock n => s!"wg{n}" | .wInner n => s!"wh{n}"
  | .wFwdLen n => s!"wi{n}" | .wFwdPop n => s!"wj{n}" | .wFwdSend n m => s!"wk{n}_{m}" | .wRemove n => s!"wl{n}"
  | .wCtxErr n => s!"wm{n}" | .wCtxUnlock n r => s!"wn{n}{r.code}" | .wFree n r => s!"wo{n}{r.code}"
  | .wRelock r => s!"wp{r.code}" | .wRet r => s!"wq{r.code}"
  | .sLock => "sa" | .sLen => "sb" | .sPop => "sc" | .sSend m => s!"sd{m}" | .sUnlock => "se" | .sRet => "sf"
  | .bLock => "ba" | .bLen => "bb" | .bPop => "bc" | .bSend m => s!"bd{m}" | .bUnlock => "be" | .bRet => "bf"
  | .fault _ => "F"

def Res.num : Res → Nat
  | .nil => 0
  | .ctxErr => 1

def Kind.num : Kind → Nat
  | .wait => 0 | .signal => 1 | .broadcast => 2

/-- injective numeric encoding of a pc (constructor tag, then its arguments) -/
def Pc.nums : Pc → List Nat
  | .idle => [0]
  | .ccLoad k => [1, k.num] | .ccCas k => [2, k.num] | .ccLoad2 k => [3, k.num] | .firstUse k => [4, k.num]
  | .wAddLock => [5] | .wAlloc => [6] | .wPush n => [7, n] | .wAddUnlock n => [8, n]
  | .wUnlockL n => [9, n] | .wSelect n => [10, n] | .wCtxLock n => [11, n] | .wInner n => [12, n]
  | .wFwdLen n => [13, n] | .wFwdPop n => [14, n] | .wFwdSend n m => [15, n, m] | .wRemove n => [16, n]
  | .wCtxErr n => [17, n] | .wCtxUnlock n r => [18, n, r.num] | .wFree n r => [19, n, r.num]
  | .wRelock r => [20, r.num] | .wRet r => [21, r.num]
  | .sLock => [22] | .sLen => [23] | .sPop => [24] | .sSend m => [25, m] | .sUnlock => [26] | .sRet => [27]
  | .bLock => [28] | .bLen => [29] | .bPop => [30] | .bSend m => [31, m] | .bUnlock => [32] | .bRet => [33]
  | .fault _ => [34]

/-- rename the node ids mentioned by a pc -/
def Pc.mapNodes (f : NodeId → NodeId) : Pc → Pc
  | .wPush n => .wPush (f n) | .wAddUnlock n => .wAddUnlock (f n) | .wUnlockL n => .wUnlockL (f n)
  | .wSelect n => .wSelect (f n) | .wCtxLock n => .wCtxLock (f n) | .wInner n => .wInner (f n)
  | .wFwdLen n => .wFwdLen (f n) | .wFwdPop n => .wFwdPop (f n) | .wFwdSend n m => .wFwdSend (f n) (f m)
  | .wRemove n => .wRemove (f n) | .wCtxErr n => .wCtxErr (f n) | .wCtxUnlock n r => .wCtxUnlock (f n) r
  | .wFree n r => .wFree (f n) r | .sSend m => .sSend (f m) | .bSend m => .bSend (f m)
  | p => p

def optNum : Option Nat → Nat
  | none => 0
  | some t => t + 1

/-- canonical key of the non-ghost part of a state, restricted to the given threads
    (length-prefixed segments, so the encoding is unambiguous) -/
def State.key (s : State) (tids : List Tid) : List Nat :=
  let pcs := tids.flatMap fun t => (s.pc t).nums ++ [if s.ctx t then 1 else 0]
  pcs ++ [optNum s.L, optNum s.mu, (if s.checker then 1 else 0), (if s.inited then 1 else 0), s.nextNode,
          s.list.length] ++ s.list ++ [s.full.length] ++ s.full ++ [s.pool.length] ++ s.pool

end Ekit.Cond
