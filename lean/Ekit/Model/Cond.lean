/-
Transition-system model of `syncx.Cond` (/repo/syncx/cond.go), unbounded number of threads.

One label per atomic action of the code, in the order the source performs them:

  Wait(ctx)   = checkCopy; checkFirstUse; add(); L.Unlock(); defer L.Lock(); wait(ctx, node)
    add       = mu.Lock; defer mu.Unlock; el := pool.Get; pushBack(el)
    wait      = defer free(elem); select {
                  <-ctx.Done: mu.Lock; defer mu.Unlock;
                              select { <-ch: if len != 0 { notifyNext } ; default: remove(elem) };
                              return ctx.Err()
                  <-ch:       return nil }
  Signal      = checkCopy; checkFirstUse; mu.Lock; defer mu.Unlock; if len == 0 {return}; notifyNext
  Broadcast   = checkCopy; checkFirstUse; mu.Lock; defer mu.Unlock; for len != 0 { notifyNext }
  notifyNext  = front := list.front; list.remove(front); front.ch <- token

Shared state: the user's lock `L`, the list mutex `mu`, the FIFO `list` of node ids, the set `full`
of nodes whose 1-buffered channel currently holds a token, the `pool` of freed nodes, the copy
checker and the once flag.  Both locks are *kept in the model*: the steps inside a critical section
do **not** test who holds `mu`; that they are serialised is a theorem (`Inv.mutex`), so removing a
lock step from the model breaks the proofs.

Assumed semantics of Go primitives (definitions here, trusted, listed in the manifest note):
* `sync.Mutex`: `Lock` enabled iff free; `Unlock` frees it (unlock of an unlocked mutex = fault).
* buffered channel of capacity 1: `send` enabled iff empty, `recv` enabled iff full.
* `select`: any ready arm may be taken; `default` only when no arm is ready.
* `sync.Pool`: `Get` returns any item previously `Put` (and removes it) or a new one (`New` makes a
  node with a fresh empty channel); the runtime may drop pooled items at any time (`poolDrop`).
* `sync.Once`, atomic pointer load / CAS: sequentially consistent, atomic.
* `context`: `Done()` becomes ready at an arbitrary moment chosen by the environment (`expire`) and
  stays ready; `Err()` is non-nil iff done.

Ghost fields (never read by a guard): token counters and, per thread, the list snapshot taken when
it acquired `mu` and the nodes it has sent to since.
-/
import Ekit.Conc.System

namespace Ekit.Cond
open Ekit.Conc

abbrev Tid := Nat
abbrev NodeId := Nat

inductive Kind where
  | wait | signal | broadcast
  deriving DecidableEq, Repr, Inhabited

/-- what `Wait` returns -/
inductive Res where
  | nil       -- woken by Signal/Broadcast
  | ctxErr    -- ctx.Err()
  deriving DecidableEq, Repr, Inhabited

inductive Fault where
  | copied            -- panic("syncx.Cond is copied")
  | nilNotifyList     -- c.notifyList used before checkFirstUse
  | removeUnlinked    -- chanList.remove on a node whose prev/next are nil: nil dereference
  | sendNilChan       -- notifyNext on an empty list: front() is the sentinel, whose channel is nil
  | unlockUnlockedL   -- c.L.Unlock() while L is not held ("sync: unlock of unlocked mutex")
  deriving DecidableEq, Repr, Inhabited

/-- program counter of a thread: the *next* action it will perform -/
inductive Pc where
  | idle
  -- prologue shared by the three methods
  | ccLoad (k : Kind)        -- checkCopy: atomic.LoadPointer(&c.checker) != c ?
  | ccCas (k : Kind)         --            CompareAndSwapPointer(&c.checker, nil, c)
  | ccLoad2 (k : Kind)       --            LoadPointer again, panic if still != c
  | firstUse (k : Kind)      -- checkFirstUse: once.Do(init notifyList)
  -- Wait
  | wAddLock                 -- add: mu.Lock
  | wAlloc                   --      pool.Get
  | wPush (n : NodeId)       --      pushBack
  | wAddUnlock (n : NodeId)  --      deferred mu.Unlock
  | wUnlockL (n : NodeId)    -- c.L.Unlock()
  | wSelect (n : NodeId)     -- wait: outer select
  | wCtxLock (n : NodeId)    --   ctx arm: mu.Lock
  | wInner (n : NodeId)      --   inner select
  | wFwdLen (n : NodeId)     --   got a token: if list.len() != 0
  | wFwdPop (n : NodeId)     --   notifyNext: front + remove
  | wFwdSend (n m : NodeId)  --   notifyNext: m.ch <- token
  | wRemove (n : NodeId)     --   default arm: list.remove(elem)
  | wCtxErr (n : NodeId)     --   return ctx.Err()   (evaluated while still holding mu)
  | wCtxUnlock (n : NodeId) (r : Res)   -- deferred mu.Unlock
  | wFree (n : NodeId) (r : Res)        -- deferred list.free(elem)
  | wRelock (r : Res)        -- deferred c.L.Lock()
  | wRet (r : Res)           -- return to the caller
  -- Signal
  | sLock | sLen | sPop | sSend (m : NodeId) | sUnlock | sRet
  -- Broadcast
  | bLock | bLen | bPop | bSend (m : NodeId) | bUnlock | bRet
  | fault (f : Fault)
  deriving DecidableEq, Repr, Inhabited

inductive Label where
  -- client and environment
  | lockL (t : Tid)                      -- client code: c.L.Lock()
  | unlockL (t : Tid)                    -- client code: c.L.Unlock()
  | expire (t : Tid)                     -- the context of t's Wait ends (timeout or cancel)
  | poolDrop (n : NodeId)                -- the runtime drops a pooled node
  -- invocations
  | invWait (t : Tid) (expired : Bool)   -- requires L held by t (the documented precondition)
  | invSignal (t : Tid)
  | invBroadcast (t : Tid)
  -- prologue
  | ccLoad (t : Tid) | ccCas (t : Tid) | ccLoad2 (t : Tid) | firstUse (t : Tid)
  -- Wait
  | addLock (t : Tid) | alloc (t : Tid) (c : Option NodeId) | push (t : Tid) | addUnlock (t : Tid)
  | waitUnlockL (t : Tid)
  | selRecv (t : Tid) | selCtx (t : Tid)
  | ctxLock (t : Tid) | innerRecv (t : Tid) | innerDefault (t : Tid)
  | fwdLen (t : Tid) | fwdPop (t : Tid) | fwdSend (t : Tid) | remove (t : Tid)
  | ctxErr (t : Tid) | ctxUnlock (t : Tid) | free (t : Tid) | relockL (t : Tid)
  | resWait (t : Tid) (r : Res)
  -- Signal
  | sLock (t : Tid) | sLen (t : Tid) | sPop (t : Tid) | sSend (t : Tid) | sUnlock (t : Tid)
  | resSignal (t : Tid)
  -- Broadcast
  | bLock (t : Tid) | bLen (t : Tid) | bPop (t : Tid) | bSend (t : Tid) | bUnlock (t : Tid)
  | resBroadcast (t : Tid)
  deriving DecidableEq, Repr, Inhabited

structure State where
  pc : Tid → Pc
  ctx : Tid → Bool          -- Done() of the context passed to t's current Wait is ready
  L : Option Tid            -- holder of c.L
  mu : Option Tid           -- holder of notifyList.mu
  checker : Bool            -- c.checker == c   (false: still nil; the Cond is never copied here)
  inited : Bool             -- once done, c.notifyList != nil
  list : List NodeId        -- chanList, front first
  full : List NodeId        -- nodes whose channel buffer holds a token
  pool : List NodeId        -- sync.Pool content
  nextNode : NodeId         -- allocation counter of pool.New
  -- ghost
  sigChecks : Nat           -- Signals that performed their len check (took effect)
  sigIssued : Nat           -- tokens sent by Signal
  sigEmpty : Nat            -- Signals that found the list empty
  bcIssued : Nat            -- tokens sent by Broadcast
  fwd : Nat                 -- tokens re-sent by a cancelled waiter (hand-off)
  dropped : Nat             -- tokens a cancelled waiter could not hand off (list empty)
  consumedNil : Nat         -- tokens received by the outer select (Wait will return nil)
  retNil : Nat              -- Waits that returned nil
  retErr : Nat              -- Waits that returned ctx.Err()
  nilPend : List Tid        -- threads that received a token in the outer select and have not returned yet
  snap : Tid → List NodeId  -- list at the moment t last acquired mu (Signal/Broadcast/ctx arm)
  sent : Tid → List NodeId  -- nodes t sent a token to since then

def init : State where
  pc := fun _ => .idle
  ctx := fun _ => false
  L := none
  mu := none
  checker := false
  inited := false
  list := []
  full := []
  pool := []
  nextNode := 0
  sigChecks := 0
  sigIssued := 0
  sigEmpty := 0
  bcIssued := 0
  fwd := 0
  dropped := 0
  consumedNil := 0
  retNil := 0
  retErr := 0
  nilPend := []
  snap := fun _ => []
  sent := fun _ => []

/-- first action of a method body after the prologue -/
def bodyStart : Kind → Pc
  | .wait => .wAddLock
  | .signal => .sLock
  | .broadcast => .bLock

@[inline] def State.setPc (s : State) (t : Tid) (p : Pc) : State := { s with pc := upd s.pc t p }

/-- the executable transition function (deterministic per label) -/
def step (s : State) : Label → Option State
  -- client / environment ---------------------------------------------------------------------
  | .lockL t =>
    if s.pc t = .idle ∧ s.L = none then some { s with L := some t } else none
  | .unlockL t =>
    if s.pc t = .idle ∧ s.L = some t then some { s with L := none } else none
  | .expire t => some { s with ctx := upd s.ctx t true }
  | .poolDrop n =>
    if n ∈ s.pool then some { s with pool := s.pool.erase n } else none
  -- invocations ------------------------------------------------------------------------------
  | .invWait t e =>
    if s.pc t = .idle ∧ s.L = some t then
      some { s with pc := upd s.pc t (.ccLoad .wait), ctx := upd s.ctx t e } else none
  | .invSignal t =>
    if s.pc t = .idle then some (s.setPc t (.ccLoad .signal)) else none
  | .invBroadcast t =>
    if s.pc t = .idle then some (s.setPc t (.ccLoad .broadcast)) else none
  -- prologue ---------------------------------------------------------------------------------
  | .ccLoad t =>
    match s.pc t with
    | .ccLoad k => some (s.setPc t (if s.checker then .firstUse k else .ccCas k))
    | _ => none
  | .ccCas t =>
    match s.pc t with
    | .ccCas k =>
      if s.checker then some (s.setPc t (.ccLoad2 k))          -- CAS(nil → c) fails: not nil
      else some { s with pc := upd s.pc t (.firstUse k), checker := true }
    | _ => none
  | .ccLoad2 t =>
    match s.pc t with
    | .ccLoad2 k => some (s.setPc t (if s.checker then .firstUse k else .fault .copied))
    | _ => none
  | .firstUse t =>
    match s.pc t with
    | .firstUse k => some { s with pc := upd s.pc t (bodyStart k), inited := true }
    | _ => none
  -- Wait: add --------------------------------------------------------------------------------
  | .addLock t =>
    if s.pc t = .wAddLock then
      if !s.inited then some (s.setPc t (.fault .nilNotifyList))
      else if s.mu = none then some { s with pc := upd s.pc t .wAlloc, mu := some t } else none
    else none
  | .alloc t c =>
    if s.pc t = .wAlloc then
      match c with
      | some n =>
        if n ∈ s.pool then some { s with pc := upd s.pc t (.wPush n), pool := s.pool.erase n } else none
      | none => some { s with pc := upd s.pc t (.wPush s.nextNode), nextNode := s.nextNode + 1 }
    else none
  | .push t =>
    match s.pc t with
    | .wPush n => some { s with pc := upd s.pc t (.wAddUnlock n), list := s.list ++ [n] }
    | _ => none
  | .addUnlock t =>
    match s.pc t with
    | .wAddUnlock n => some { s with pc := upd s.pc t (.wUnlockL n), mu := none }
    | _ => none
  | .waitUnlockL t =>
    match s.pc t with
    | .wUnlockL n =>
      if s.L = some t then some { s with pc := upd s.pc t (.wSelect n), L := none }
      else some (s.setPc t (.fault .unlockUnlockedL))
    | _ => none
  -- Wait: outer select -----------------------------------------------------------------------
  | .selRecv t =>
    match s.pc t with
    | .wSelect n =>
      if n ∈ s.full then
        some { s with pc := upd s.pc t (.wFree n .nil), full := s.full.erase n,
                      consumedNil := s.consumedNil + 1, nilPend := t :: s.nilPend }
      else none
    | _ => none
  | .selCtx t =>
    match s.pc t with
    | .wSelect n => if s.ctx t then some (s.setPc t (.wCtxLock n)) else none
    | _ => none
  -- Wait: ctx arm ----------------------------------------------------------------------------
  | .ctxLock t =>
    match s.pc t with
    | .wCtxLock n =>
      if s.mu = none then
        some { s with pc := upd s.pc t (.wInner n), mu := some t,
                      snap := upd s.snap t s.list, sent := upd s.sent t [] }
      else none
    | _ => none
  | .innerRecv t =>
    match s.pc t with
    | .wInner n =>
      if n ∈ s.full then some { s with pc := upd s.pc t (.wFwdLen n), full := s.full.erase n } else none
    | _ => none
  | .innerDefault t =>
    match s.pc t with
    | .wInner n => if n ∈ s.full then none else some (s.setPc t (.wRemove n))
    | _ => none
  | .fwdLen t =>
    match s.pc t with
    | .wFwdLen n =>
      if s.list.length ≠ 0 then some (s.setPc t (.wFwdPop n))
      else some { s with pc := upd s.pc t (.wCtxErr n), dropped := s.dropped + 1 }
    | _ => none
  | .fwdPop t =>
    match s.pc t with
    | .wFwdPop n =>
      match s.list with
      | m :: rest => some { s with pc := upd s.pc t (.wFwdSend n m), list := rest }
      | [] => some (s.setPc t (.fault .sendNilChan))
    | _ => none
  | .fwdSend t =>
    match s.pc t with
    | .wFwdSend n m =>
      if m ∈ s.full then none   -- the buffer is full: the send blocks
      else some { s with pc := upd s.pc t (.wCtxErr n), full := m :: s.full, fwd := s.fwd + 1,
                         sent := upd s.sent t (s.sent t ++ [m]) }
    | _ => none
  | .remove t =>
    match s.pc t with
    | .wRemove n =>
      if n ∈ s.list then some { s with pc := upd s.pc t (.wCtxErr n), list := s.list.erase n }
      else some (s.setPc t (.fault .removeUnlinked))
    | _ => none
  | .ctxErr t =>
    match s.pc t with
    | .wCtxErr n => some (s.setPc t (.wCtxUnlock n (if s.ctx t then .ctxErr else .nil)))
    | _ => none
  | .ctxUnlock t =>
    match s.pc t with
    | .wCtxUnlock n r => some { s with pc := upd s.pc t (.wFree n r), mu := none }
    | _ => none
  | .free t =>
    match s.pc t with
    | .wFree n r => some { s with pc := upd s.pc t (.wRelock r), pool := n :: s.pool }
    | _ => none
  | .relockL t =>
    match s.pc t with
    | .wRelock r => if s.L = none then some { s with pc := upd s.pc t (.wRet r), L := some t } else none
    | _ => none
  | .resWait t r =>
    if s.pc t = .wRet r then
      match r with
      | .nil => some { s with pc := upd s.pc t .idle, retNil := s.retNil + 1, nilPend := s.nilPend.erase t }
      | .ctxErr => some { s with pc := upd s.pc t .idle, retErr := s.retErr + 1 }
    else none
  -- Signal -----------------------------------------------------------------------------------
  | .sLock t =>
    if s.pc t = .sLock then
      if !s.inited then some (s.setPc t (.fault .nilNotifyList))
      else if s.mu = none then
        some { s with pc := upd s.pc t .sLen, mu := some t,
                      snap := upd s.snap t s.list, sent := upd s.sent t [] }
      else none
    else none
  | .sLen t =>
    if s.pc t = .sLen then
      if s.list.length = 0 then
        some { s with pc := upd s.pc t .sUnlock, sigChecks := s.sigChecks + 1, sigEmpty := s.sigEmpty + 1 }
      else some { s with pc := upd s.pc t .sPop, sigChecks := s.sigChecks + 1 }
    else none
  | .sPop t =>
    if s.pc t = .sPop then
      match s.list with
      | m :: rest => some { s with pc := upd s.pc t (.sSend m), list := rest }
      | [] => some (s.setPc t (.fault .sendNilChan))
    else none
  | .sSend t =>
    match s.pc t with
    | .sSend m =>
      if m ∈ s.full then none
      else some { s with pc := upd s.pc t .sUnlock, full := m :: s.full, sigIssued := s.sigIssued + 1,
                         sent := upd s.sent t (s.sent t ++ [m]) }
    | _ => none
  | .sUnlock t =>
    if s.pc t = .sUnlock then some { s with pc := upd s.pc t .sRet, mu := none } else none
  | .resSignal t =>
    if s.pc t = .sRet then some (s.setPc t .idle) else none
  -- Broadcast --------------------------------------------------------------------------------
  | .bLock t =>
    if s.pc t = .bLock then
      if !s.inited then some (s.setPc t (.fault .nilNotifyList))
      else if s.mu = none then
        some { s with pc := upd s.pc t .bLen, mu := some t,
                      snap := upd s.snap t s.list, sent := upd s.sent t [] }
      else none
    else none
  | .bLen t =>
    if s.pc t = .bLen then
      if s.list.length ≠ 0 then some (s.setPc t .bPop) else some (s.setPc t .bUnlock)
    else none
  | .bPop t =>
    if s.pc t = .bPop then
      match s.list with
      | m :: rest => some { s with pc := upd s.pc t (.bSend m), list := rest }
      | [] => some (s.setPc t (.fault .sendNilChan))
    else none
  | .bSend t =>
    match s.pc t with
    | .bSend m =>
      if m ∈ s.full then none
      else some { s with pc := upd s.pc t .bLen, full := m :: s.full, bcIssued := s.bcIssued + 1,
                         sent := upd s.sent t (s.sent t ++ [m]) }
    | _ => none
  | .bUnlock t =>
    if s.pc t = .bUnlock then some { s with pc := upd s.pc t .bRet, mu := none } else none
  | .resBroadcast t =>
    if s.pc t = .bRet then some (s.setPc t .idle) else none

/-- observable operations / results of the object -/
inductive Op where
  | wait (expired : Bool) | signal | broadcast
  deriving DecidableEq, Repr, Inhabited

inductive Ret where
  | wait (r : Res) | unit
  deriving DecidableEq, Repr, Inhabited

def obs : Label → Option (Ev Op Ret)
  | .invWait t e => some (.inv t (.wait e))
  | .invSignal t => some (.inv t .signal)
  | .invBroadcast t => some (.inv t .broadcast)
  | .resWait t r => some (.res t (.wait r))
  | .resSignal t => some (.res t .unit)
  | .resBroadcast t => some (.res t .unit)
  | _ => none

/-- the Cond as a transition system -/
def sys : ObjSystem State Label Op Ret where
  init := init
  step := step
  obs := obs

abbrev Reachable (s : State) : Prop := sys.toSystem.Reachable s

/-! ### Classification of program counters -/

/-- the thread holds `notifyList.mu` at this pc -/
def Pc.inMu : Pc → Bool
  | .wAlloc | .wPush _ | .wAddUnlock _ | .wInner _ | .wFwdLen _ | .wFwdPop _ | .wFwdSend _ _
  | .wRemove _ | .wCtxErr _ | .wCtxUnlock _ _
  | .sLen | .sPop | .sSend _ | .sUnlock | .bLen | .bPop | .bSend _ | .bUnlock => true
  | _ => false

/-- the wait node the thread owns -/
def Pc.node : Pc → Option NodeId
  | .wPush n | .wAddUnlock n | .wUnlockL n | .wSelect n | .wCtxLock n | .wInner n | .wFwdLen n
  | .wFwdPop n | .wFwdSend n _ | .wRemove n | .wCtxErr n | .wCtxUnlock n _ | .wFree n _ => some n
  | _ => none

/-- the node the thread is about to send a token to (already unlinked, token not yet in the buffer) -/
def Pc.target : Pc → Option NodeId
  | .wFwdSend _ m | .sSend m | .bSend m => some m
  | _ => none

/-- the thread holds a token it received in the inner select and has not yet passed on / dropped -/
def Pc.inHand : Pc → Bool
  | .wFwdLen _ | .wFwdPop _ | .wFwdSend _ _ => true
  | _ => false

/-- enqueued, between `add` and the decision of the selects: may still be signalled -/
def Pc.parked : Pc → Bool
  | .wUnlockL _ | .wSelect _ | .wCtxLock _ => true
  | _ => false

/-- after the ctx arm's inner select found no token and before/after unlinking; or any pc after the
    waiter is through with the list -/
def Pc.through : Pc → Bool
  | .wFwdLen _ | .wFwdPop _ | .wFwdSend _ _ | .wCtxErr _ | .wCtxUnlock _ _ | .wFree _ _ => true
  | _ => false

/-- the thread must hold `c.L` here (Wait before its `L.Unlock()`, and at its return) -/
def Pc.needsL : Pc → Bool
  | .ccLoad .wait | .ccCas .wait | .ccLoad2 .wait | .firstUse .wait
  | .wAddLock | .wAlloc | .wPush _ | .wAddUnlock _ | .wUnlockL _ | .wRet _ => true
  | _ => false

/-- the result a Wait is committed to return -/
def Pc.result : Pc → Option Res
  | .wCtxUnlock _ r | .wFree _ r | .wRelock r | .wRet r => some r
  | _ => none

def Pc.isFault : Pc → Bool
  | .fault _ => true
  | _ => false

/-- the node targeted by the (unique) holder of `mu`, if it is between unlink and send -/
def State.tgt (s : State) : Option NodeId :=
  match s.mu with
  | some u => (s.pc u).target
  | none => none

/-- 1 if the holder of `mu` carries a token in hand -/
def State.inHand (s : State) : Nat :=
  match s.mu with
  | some u => if (s.pc u).inHand then 1 else 0
  | none => 0

/-- a Signal between its len check (list non-empty) and its send -/
def Pc.sigFlight : Pc → Bool
  | .sPop | .sSend _ => true
  | _ => false

/-- 1 if the holder of `mu` is a Signal between its len check and its send -/
def State.sigInFlight (s : State) : Nat :=
  match s.mu with
  | some u => if (s.pc u).sigFlight then 1 else 0
  | none => 0

def State.issued (s : State) : Nat := s.sigIssued + s.bcIssued

end Ekit.Cond
