/-
Executable model of /repo/value.go (`ekit.AnyValue`) and of the parts of `strconv` it relies on.

* `Held` is a deep embedding of what an `any` can hold, as far as value.go can tell values apart:
  the dynamic type is one of the predeclared types, a *defined* type with such an underlying type
  (`named = true`: a type assertion to the predeclared type fails, `reflect.Kind` is the same), some
  other slice, or anything else (pointers, structs, typed nils, maps, funcs, arrays, uintptr …).
* `parseUint` / `parseInt` follow strconv.ParseUint / strconv.ParseInt statement by statement for an
  explicit base 2..36 (cutoff test, uint64 wrap-around test, `maxVal`, sign handling, the int64
  conversion), returning Go's `(value, error)` pair.
* `formatNat` / `formatInt` are strconv.FormatUint / FormatInt at the level of their contract.
* Floats are bit patterns; `strconv.ParseFloat`, `strconv.FormatFloat`, the float32<->float64 conversions
  and `json.Unmarshal` are **oracle parameters** (`Oracle`): the model only fixes how value.go
  dispatches to them.
* The accessors themselves are *interpreted from the regenerated table* (`Ekit.Gen.valueTable`,
  emitted from value.go on every run): `runRow`, `runAsString`, `runDef`, `runJSONScan`, `run`.
* `Spec` is the abstract specification (property C17) and does not look at the table.
-/
import Ekit.Model.ValueBase

namespace Ekit.Value
open Ekit.Go

/-! ### held values and results -/

inductive Held where
  | nil                                              -- the nil interface
  | int (t : IntT) (named : Bool) (v : Int)
  | float (is64 : Bool) (named : Bool) (bits : Nat)
  | str (named : Bool) (s : Str)
  | bytes (named : Bool) (b : Str)                   -- Kind Slice, element kind Uint8 (`[]byte`, or `type B []byte`, `[]MyByte`)
  | bool (named : Bool) (b : Bool)
  | slice                                            -- any other slice
  | other                                            -- pointer, struct, typed nil, map, chan, func, array, uintptr, complex …
  deriving DecidableEq, Repr, Inhabited

inductive Val where
  | int (v : Int)
  | float (bits : Nat)
  | str (s : Str)
  | bytes (b : Str)
  | bool (b : Bool)
  deriving DecidableEq, Repr, Inhabited

structure AnyValue where
  val : Held
  err : Option Err := none
  deriving DecidableEq, Repr, Inhabited

abbrev Out := Outcome Val

def errType : Err := .other "type"
def errSyntax : Err := .other "syntax"
def errRange : Err := .other "range"
def errJSON : Err := .other "json"
def errOther : Err := .other "other"

/-! ### integer ranges, conversions -/

def two64 : Nat := 18446744073709551616

/-- does `v` fit a two's-complement / unsigned integer of `bits` bits? -/
def fitsS (bits : Nat) (v : Int) : Prop := -(2 ^ (bits - 1) : Int) ≤ v ∧ v < (2 ^ (bits - 1) : Int)
def fitsU (bits : Nat) (v : Int) : Prop := 0 ≤ v ∧ v < (2 ^ bits : Int)
instance (b v) : Decidable (fitsS b v) := by unfold fitsS; infer_instance
instance (b v) : Decidable (fitsU b v) := by unfold fitsU; infer_instance

def IntT.fits (t : IntT) (v : Int) : Prop := if t.signed then fitsS t.bits v else fitsU t.bits v
instance (t : IntT) (v) : Decidable (t.fits v) := by unfold IntT.fits; infer_instance

/-- Go's conversion to an unsigned / signed integer type of `bits` bits: keep the low bits -/
def wrapU (bits : Nat) (x : Int) : Int := x % (2 ^ bits : Int)
def wrapS (bits : Nat) (x : Int) : Int :=
  let m := x % (2 ^ bits : Int)
  if m ≥ (2 ^ (bits - 1) : Int) then m - (2 ^ bits : Int) else m
def IntT.wrap (t : IntT) (x : Int) : Int := if t.signed then wrapS t.bits x else wrapU t.bits x

/-- `T(res)` for the conversion written in the source (`none`: the result is returned as is) -/
def castInt : Option GoT → Int → Int
  | some (.i t), x => t.wrap x
  | _, x => x

/-- the comma-ok type assertion `av.Val.(T)`: succeeds only for the identical type -/
def typeAssert (t : GoT) : Held → Option Val
  | .int t' false v => if t = .i t' then some (.int v) else none
  | .float is64 false b => if t = (if is64 then GoT.float64 else GoT.float32) then some (.float b) else none
  | .str false s => if t = .string then some (.str s) else none
  | .bytes false b => if t = .bytes then some (.bytes b) else none
  | .bool false b => if t = .bool then some (.bool b) else none
  | _ => none

def Held.kind : Held → Kind
  | .nil => .invalid
  | .int t _ _ => .int t
  | .float true _ _ => .float64
  | .float false _ _ => .float32
  | .str _ _ => .string
  | .bytes _ _ => .slice
  | .bool _ _ => .bool
  | .slice => .slice
  | .other => .other

/-- values of integer kinds are within the range of their type -/
def Held.wf : Held → Prop
  | .int t _ v => t.fits v
  | _ => True

/-! ### strconv.ParseUint / ParseInt -/

inductive PErr where
  | syntax | range | base | bitSize
  deriving DecidableEq, Repr, Inhabited

def PErr.toErr : PErr → Err
  | .syntax => errSyntax
  | .range => errRange
  | _ => errOther

/-- `lower(c) = c | ('x' - 'X')` -/
def lower (c : Nat) : Nat := c ||| 32

/-- the digit switch in ParseUint's loop (`'_'` is only special for base 0, which value.go never uses) -/
def digitVal (c : Nat) : Option Nat :=
  if 48 ≤ c ∧ c ≤ 57 then some (c - 48)
  else if 97 ≤ lower c ∧ lower c ≤ 122 then some (lower c - 97 + 10)
  else none

/-- the loop `for _, c := range []byte(s)` of ParseUint, `n` being the accumulator -/
def parseUintLoop (base maxVal cutoff : Nat) : Str → Nat → Nat × Option PErr
  | [], n => (n, none)
  | c :: cs, n =>
    match digitVal c with
    | none => (0, some .syntax)
    | some d =>
      if d ≥ base then (0, some .syntax)
      else if n ≥ cutoff then (maxVal, some .range)          -- n*base overflows
      else
        let n' := (n * base) % two64
        let n1 := (n' + d) % two64
        if n1 < n' ∨ n1 > maxVal then (maxVal, some .range)   -- n+d overflows
        else parseUintLoop base maxVal cutoff cs n1

/-- strconv.ParseUint(s, base, bitSize) for an explicit base -/
def parseUint (s : Str) (base bits : Nat) : Nat × Option PErr :=
  if s = [] then (0, some .syntax)
  else if ¬ (2 ≤ base ∧ base ≤ 36) then (0, some .base)
  else
    let bits := if bits = 0 then 64 else bits
    if bits > 64 then (0, some .bitSize)
    else
      let cutoff := (two64 - 1) / base + 1
      let maxVal := 2 ^ bits - 1
      parseUintLoop base maxVal cutoff s 0

/-- strconv.ParseInt(s, base, bitSize) -/
def parseInt (s : Str) (base bits : Nat) : Int × Option PErr :=
  match s with
  | [] => (0, some .syntax)
  | c :: rest =>
    let neg := c = 45
    let s' := if c = 43 ∨ c = 45 then rest else s
    let (un, err) := parseUint s' base bits
    match err with
    | some .range | none =>
      let bits := if bits = 0 then 64 else bits
      let cutoff : Nat := 2 ^ (bits - 1)
      if ¬ neg ∧ un ≥ cutoff then ((cutoff : Int) - 1, some .range)
      else if neg ∧ un > cutoff then (-(cutoff : Int), some .range)
      else
        let n := wrapS 64 un
        (if neg then wrapS 64 (-n) else n, none)
    | some e => (0, some e)

/-! ### strconv.FormatUint / FormatInt -/

def digitChar (d : Nat) : Nat := if d < 10 then 48 + d else 87 + d

def formatNat (base : Nat) (n : Nat) : Str :=
  if _h : base < 2 ∨ n < base then [digitChar n]
  else formatNat base (n / base) ++ [digitChar (n % base)]
termination_by n
decreasing_by exact Nat.div_lt_self (by omega) (by omega)

def formatInt (base : Nat) (v : Int) : Str :=
  if v < 0 then 45 :: formatNat base (-v).toNat else formatNat base v.toNat

/-! ### what the model does not compute -/

structure Oracle where
  /-- strconv.ParseFloat(s, bitSize): float64 bit pattern and error -/
  parseFloat : Nat → Str → Nat × Option PErr
  /-- float32(x) / float64(x) on bit patterns -/
  narrow32 : Nat → Nat
  widen32 : Nat → Nat
  /-- strconv.FormatFloat(x, fmt, prec, bitSize) -/
  formatFloat : Nat → Nat → Int → Nat → Str
  /-- json.Unmarshal(data, target): the target is identified by a number; the result is the
      re-marshalled target or an error -/
  unmarshal : Str → Nat → Out

def castFloat (o : Oracle) : Option GoT → Nat → Nat
  | some .float32, x => o.narrow32 x
  | _, x => x

/-! ### the accessors, interpreted from the table -/

/-- the body of `case string:` -/
def runStr (o : Oracle) (sc : StrCase) (s : Str) : Out :=
  match sc.conv with
  | .parseInt base bits =>
    match parseInt s base bits with
    | (n, none) => .ok (.int (castInt sc.cast n))
    | (_, some e) => .err e.toErr
  | .parseUint base bits =>
    match parseUint s base bits with
    | (n, none) => .ok (.int (castInt sc.cast n))
    | (_, some e) => .err e.toErr
  | .parseFloat bits =>
    match o.parseFloat bits s with
    | (f, none) => .ok (.float (castFloat o sc.cast f))
    | (_, some e) => .err e.toErr
  | .toBytes => .ok (.bytes s)

/-- a strict or `As` accessor -/
def runRow (o : Oracle) (r : Row) (av : AnyValue) : Out :=
  match (if r.errGuard then av.err else none) with
  | some e => .err e
  | none =>
    match typeAssert r.exact av.val with
    | some v => .ok v
    | none =>
      match r.str, typeAssert .string av.val with
      | some sc, some (.str s) => runStr o sc s
      | _, _ => if r.commaOk then .err errType else .panic "interface conversion"

/-- one arm of AsString's kind switch applied to the held value -/
def runArm (o : Oracle) (a : Arm) (h : Held) : Out :=
  match a, h with
  | .str, .str _ s => .ok (.str s)
  | .fmtUint base, .int t _ v =>
    if t.signed then .panic "reflect: call of reflect.Value.Uint on int Value"
    else .ok (.str (formatNat base v.toNat))
  | .fmtInt base, .int t _ v =>
    if t.signed then .ok (.str (formatInt base v))
    else .panic "reflect: call of reflect.Value.Int on uint Value"
  | .fmtFloat f p b, .float is64 _ bits => .ok (.str (o.formatFloat (if is64 then bits else o.widen32 bits) f p b))
  | .bytesIfU8, .bytes _ b => .ok (.str b)
  | .bytesIfU8, .slice => .err errType
  | .err, _ => .err errType
  | _, _ => .panic "reflect: method applied to a value of the wrong kind (not modelled)"

def runAsString (o : Oracle) (info : AsStringInfo) (av : AnyValue) : Out :=
  match (if info.errGuard then av.err else none) with
  | some e => .err e
  | none =>
    match info.tag, av.val with
    | .typeKind, .nil => .panic "reflect: call of reflect.Value.Type on zero Value"
    | .unknown _, _ => .panic "switch tag not modelled"
    | _, h => runArm o ((info.arms.lookup h.kind).getD info.dflt) h

/-- the accessor called `name` (without arguments) -/
def runNamed (o : Oracle) (tbl : Table) (name : String) (av : AnyValue) : Option Out :=
  if name = "AsString" then some (runAsString o tbl.asString av)
  else (tbl.rows.find? (·.name = name)).map fun r => runRow o r av

/-- `XOrDefault(d)` -/
def runDef (o : Oracle) (tbl : Table) (d : DefRow) (av : AnyValue) (dflt : Val) : Out :=
  match runNamed o tbl d.via av with
  | some (.ok v) => .ok v
  | some (.err _) => .ok dflt
  | some (.panic m) => .panic m
  | none => .panic "OrDefault delegates to an accessor that is not in the table"

def runJSONScan (o : Oracle) (tbl : Table) (av : AnyValue) (target : Nat) : Out :=
  match runNamed o tbl tbl.jsonScan.via av with
  | some (.ok (.bytes b)) => o.unmarshal b target
  | some (.err e) => if tbl.jsonScan.propagatesErr then .err e else o.unmarshal [] target
  | some (.panic m) => .panic m
  | _ => .panic "JSONScan delegate not modelled"

inductive Call where
  | acc (name : String)
  | orDefault (name : String) (d : Val)
  | jsonScan (target : Nat)
  deriving DecidableEq, Repr, Inhabited

/-- `none`: no such method in the table -/
def run (o : Oracle) (tbl : Table) (av : AnyValue) : Call → Option Out
  | .acc name => runNamed o tbl name av
  | .orDefault name d => (tbl.defs.find? (·.name = name)).map fun r => runDef o tbl r av d
  | .jsonScan t => some (runJSONScan o tbl av t)

/-! ### Specification (property C17); independent of the table -/
namespace Spec

def isDigit (c : Nat) : Bool := decide (48 ≤ c ∧ c ≤ 57)

/-- value of a digit string, most significant digit first -/
def natOf (s : Str) : Nat := s.foldl (fun n c => 10 * n + (c - 48)) 0

/-- `[0-9]+` and the number it denotes -/
def denoteU (s : Str) : Option Nat := if s ≠ [] ∧ s.all isDigit then some (natOf s) else none

/-- `[+-]?[0-9]+` and the number it denotes -/
def denoteS : Str → Option Int
  | [] => none
  | c :: r =>
    if c = 43 then (denoteU r).map Int.ofNat
    else if c = 45 then (denoteU r).map fun (n : Nat) => -(n : Int)
    else (denoteU (c :: r)).map Int.ofNat

/-- the decimal numerals strconv accepts for a target of the given signedness -/
def denote (signed : Bool) (s : Str) : Option Int := if signed then denoteS s else (denoteU s).map Int.ofNat

/-- canonical decimal text: no sign but `-` for negatives, no leading zeros, no `-0` -/
def canonical (s : Str) (v : Int) : Prop :=
  denoteS s = some v ∧ s.head? ≠ some 43 ∧
  (∀ r, s = 45 :: r → r.head? ≠ some 48) ∧ (∀ r, s = 48 :: r → r = [])

/-- which outcomes the property allows for a call -/
structure Verdict where
  allowed : List Out := []
  anyErr : Bool := false
  anyOk : Bool := false
  deriving Repr

def Verdict.accepts (v : Verdict) (x : Out) : Bool :=
  v.allowed.contains x || (v.anyErr && x.isErr) || (v.anyOk && x.isOk)

def exactly (v : Val) : Verdict := { allowed := [.ok v] }
def error : Verdict := { anyErr := true }
def either (v : Val) : Verdict := { allowed := [.ok v], anyErr := true }
def noPanic : Verdict := { anyErr := true, anyOk := true }
/-- `exactly` for the predeclared type, `either` for a defined type (an error today; the property does not say) -/
def exactlyUnless (lenient : Bool) (v : Val) : Verdict := if lenient then either v else exactly v

def strictTarget : String → Option GoT
  | "Int" => some (.i .int) | "Int8" => some (.i .int8) | "Int16" => some (.i .int16)
  | "Int32" => some (.i .int32) | "Int64" => some (.i .int64)
  | "Uint" => some (.i .uint) | "Uint8" => some (.i .uint8) | "Uint16" => some (.i .uint16)
  | "Uint32" => some (.i .uint32) | "Uint64" => some (.i .uint64)
  | "Float32" => some .float32 | "Float64" => some .float64
  | "String" => some .string | "Bytes" => some .bytes | "Bool" => some .bool
  | _ => none

def defTarget : String → Option GoT
  | "IntOrDefault" => some (.i .int) | "Int8OrDefault" => some (.i .int8) | "Int16OrDefault" => some (.i .int16)
  | "Int32OrDefault" => some (.i .int32) | "Int64OrDefault" => some (.i .int64)
  | "UintOrDefault" => some (.i .uint) | "Uint8OrDefault" => some (.i .uint8) | "Uint16OrDefault" => some (.i .uint16)
  | "Uint32OrDefault" => some (.i .uint32) | "Uint64OrDefault" => some (.i .uint64)
  | "Float32OrDefault" => some .float32 | "Float64OrDefault" => some .float64
  | "StringOrDefault" => some .string | "BytesOrDefault" => some .bytes | "BoolOrDefault" => some .bool
  | _ => none

def asTarget : String → Option GoT
  | "AsInt" => some (.i .int) | "AsInt8" => some (.i .int8) | "AsInt16" => some (.i .int16)
  | "AsInt32" => some (.i .int32) | "AsInt64" => some (.i .int64)
  | "AsUint" => some (.i .uint) | "AsUint8" => some (.i .uint8) | "AsUint16" => some (.i .uint16)
  | "AsUint32" => some (.i .uint32) | "AsUint64" => some (.i .uint64)
  | "AsFloat32" => some .float32 | "AsFloat64" => some .float64
  | "AsString" => some .string | "AsBytes" => some .bytes
  | _ => none

/-- strict accessor: the held value when it has exactly the requested type, else an error -/
def judgeStrict (t : GoT) (h : Held) : Verdict :=
  match typeAssert t h with
  | some v => exactly v
  | none => error

/-- `As` conversion to an integer type from a string -/
def judgeIntOfStr (it : IntT) (named : Bool) (s : Str) : Verdict :=
  match denote it.signed s with
  | some v => if it.fits v then exactlyUnless named (.int v) else error
  | none =>
    -- an explicitly signed numeral for an unsigned target: strconv.ParseUint rejects the sign;
    -- the property does not decide whether "+5" denotes 5 for a uint8
    match denoteS s with
    | some v => if it.fits v then either (.int v) else error
    | none => error

def judgeAs (o : Oracle) (t : GoT) (h : Held) : Verdict :=
  match typeAssert t h with
  | some v => exactly v
  | none =>
    match t, h with
    | .i it, .str named s => judgeIntOfStr it named s
    | .i it, .int _ _ v => if it.fits v then either (.int v) else error
    | .float32, .str named s =>
      match o.parseFloat 32 s with
      | (f, none) => exactlyUnless named (.float (o.narrow32 f))
      | _ => error
    | .float64, .str named s =>
      match o.parseFloat 64 s with
      | (f, none) => exactlyUnless named (.float f)
      | _ => error
    | .bytes, .str named s => exactlyUnless named (.bytes s)
    | .bytes, .bytes _ b => either (.bytes b)
    | .string, .int _ named v => exactlyUnless named (.str (formatInt 10 v))
    | .string, .str _ s => either (.str s)
    | .string, .bytes _ b => either (.str b)
    | .string, .float _ _ _ => noPanic
    | .string, .bool _ _ => noPanic
    | _, _ => error

/-- the verdict for a call; `none`: not an accessor the specification knows -/
def judge (o : Oracle) (av : AnyValue) : Call → Option Verdict
  | .acc name =>
    match av.err with
    | some e => if (strictTarget name).isSome ∨ (asTarget name).isSome then some { allowed := [.err e] } else none
    | none =>
      match strictTarget name, asTarget name with
      | some t, _ => some (judgeStrict t av.val)
      | none, some t => some (judgeAs o t av.val)
      | none, none => none
  | .orDefault name d =>
    -- the default exactly when the strict accessor would fail
    match defTarget name with
    | some t =>
      match av.err, typeAssert t av.val with
      | none, some v => some (exactly v)
      | _, _ => some (exactly d)
    | none => none
  | .jsonScan target =>
    match av.err with
    | some e => some { allowed := [.err e] }
    | none =>
      match av.val with
      | .str false s => some { allowed := [o.unmarshal s target] }
      | .bytes false b => some { allowed := [o.unmarshal b target] }
      | .str true s => some { allowed := [o.unmarshal s target], anyErr := true }
      | .bytes true b => some { allowed := [o.unmarshal b target], anyErr := true }
      | _ => some error

end Spec

end Ekit.Value
