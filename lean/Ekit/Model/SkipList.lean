/-
Executable model of ekit's skip list (internal/list/skip_list.go; list/skip_list.go is a delegating
wrapper) and the abstract specification it is checked against.

State: the level-0 chain as a list of nodes `(val, h)` where `h = len(node.Forward)` is the tower
height, plus the `level` and `size` fields.  The forward pointer of a node at level `i` is the next
node in the list whose height is `> i` (that is what the splices of Insert/DeleteElement maintain;
the driver checks the real level chains against this on every step).  The header (position 0) has
height `MaxLevel`; node `k` of the list has position `k+1`.

`traverse` is the source's loop nest: per level, from the top, walk right along that level while the
next node compares `< Val`; remember the stopping position in `update[i]`.
The tower height drawn by `randomLevel` is an *input* of `Insert` (any `1 ≤ h ≤ MaxLevel`).
-/
import Ekit.Go.Basic
import Ekit.Model.Comparator

namespace Ekit.SkipList
open Ekit.Go Ekit.Cmp

def MaxLevel : Nat := 32

structure Node where
  val : Int
  h : Nat
  deriving Repr, DecidableEq, Inhabited

structure SL where
  nodes : List Node
  level : Nat
  size : Int
  deriving Repr, DecidableEq, Inhabited

inductive Op where
  | insert (v : Int)
  | delete (v : Int)
  | search (v : Int)
  | get (i : Int)
  | peek
  | asSlice
  | len
  deriving Repr, DecidableEq, Inhabited

inductive Ret where
  | unit
  | val (v : Int)
  | int (n : Int)
  | bool (b : Bool)
  | slice (vs : List Int)
  deriving Repr, DecidableEq, Inhabited

abbrev Out := Outcome Ret

def errEmpty : Err := .other "empty"   -- errors.New("跳表为空")

/-- `randomLevel`: `level := 1; for (rand.Int31() & 0xFFFF) < int32(p*0xFFFF) { level++ }`, capped at
    `MaxLevel`.  `draws` = the values `rand.Int31()` returns (non-negative, so `& 0xFFFF` is
    `% 65536`), `thr = int32(FactorP * 0xFFFF)`.  Only the shape of the loop matters: the theorems
    take the tower height as an arbitrary input within `1..MaxLevel`, and the driver checks that
    contract on every observed Insert; this function is not otherwise tied to the run. -/
def randomLevelLoop (thr : Int) : List Int → Nat → Nat
  | [], level => level
  | d :: rest, level => if d % 65536 < thr then randomLevelLoop thr rest (level + 1) else level

def randomLevel (thr : Int) (draws : List Int) : Nat :=
  let level := randomLevelLoop thr draws 1
  if level < MaxLevel then level else MaxLevel

/-- NewSkipList -/
def SL.new : SL := ⟨[], 1, 0⟩

/-- `for curr.Forward[i] != nil && cmp(curr.Forward[i].Val, v) < 0 { curr = curr.Forward[i] }`
    `rest` = the nodes to the right of the scanning pointer, `here` = position of the node just
    left of `rest`, `curr` = position of the node the loop variable `curr` points to.
    Nodes of height `≤ i` are not on level `i`: the level-`i` pointer passes over them. -/
def scanLevel (cmp : Cmp) (v : Int) (i : Nat) : List Node → Nat → Nat → Nat
  | [], curr, _ => curr
  | n :: rest, curr, here =>
    if n.h > i then
      if cmp n.val v < 0 then scanLevel cmp v i rest (here + 1) (here + 1)
      else curr
    else scanLevel cmp v i rest curr (here + 1)

/-- `traverse(Val, level)` started at `curr`: returns the final `curr` and `update[0..level)` -/
def traverseFrom (cmp : Cmp) (v : Int) (nodes : List Node) : Nat → Nat → Nat × List Nat
  | 0, curr => (curr, [])
  | i + 1, curr =>
    let c := scanLevel cmp v i (nodes.drop curr) curr curr
    let r := traverseFrom cmp v nodes i c
    (r.1, r.2 ++ [c])

def traverse (cmp : Cmp) (v : Int) (s : SL) : Nat × List Nat := traverseFrom cmp v s.nodes s.level 0

/-- `curr.Forward[0]` for the node at position `pos` -/
def next0 (s : SL) (pos : Nat) : Option Node := s.nodes[pos]?

/-- position of `update[i].Forward[i]` (0 = nil) -/
def forwardPos (nodes : List Node) (pos i : Nat) : Nat :=
  match (nodes.drop pos).findIdx? (fun n => n.h > i) with
  | some j => pos + j + 1
  | none => 0

/-- `for i := 0; i < sl.level && update[i].Forward[i] == node; i++` : number of levels unlinked -/
def unlinkCount (nodes : List Node) (update : List Nat) (nodePos level : Nat) : Nat → Nat → Nat
  | 0, i => i
  | fuel + 1, i =>
    if i < level ∧ forwardPos nodes (update.getD i 0) i = nodePos then unlinkCount nodes update nodePos level fuel (i + 1)
    else i

/-- `for sl.level > 1 && sl.header.Forward[sl.level-1] == nil { sl.level-- }` -/
def trimLevel (nodes : List Node) : Nat → Nat → Nat
  | 0, level => level
  | fuel + 1, level =>
    if level > 1 ∧ !(nodes.any fun n => n.h > level - 1) then trimLevel nodes fuel (level - 1) else level

/-- position (1-based, 0 = header) of the last node of height `> i` in a prefix of the chain:
    the node after which a tower of height `> i` placed behind that prefix is linked on level `i` -/
def lastAbove (i : Nat) : List Node → Nat → Nat → Nat
  | [], acc, _ => acc
  | n :: rest, acc, here =>
    if n.h > i then lastAbove i rest (here + 1) (here + 1) else lastAbove i rest acc (here + 1)

/-- Insert links the new node behind `update[i]` on every level `i < h`.  That is the list insertion
    at `p = update[0]` exactly when every `update[i]` is the level-`i` predecessor of list position `p`. -/
def spliceOk (nodes : List Node) (update : List Nat) (p h : Nat) : Bool :=
  (List.range h).all fun i => update[i]? == some (lastAbove i (nodes.take p) 0 0)

/-- one public call; `h` = the tower height `randomLevel()` returns should the call be an Insert.
    The list representation can only express states whose towers are linked consistently on all
    levels; a splice/unlink that would leave that set is reported as a (model) panic, and the
    theorems show it never happens. -/
def step (cmp : Cmp) (s : SL) (h : Nat) : Op → SL × Out
  | .insert v =>
    let (_, update) := traverse cmp v s
    -- `if level > sl.level { for i := sl.level; i < level; i++ { update[i] = sl.header }; sl.level = level }`
    let update := if h > s.level then update ++ List.replicate (h - s.level) 0 else update
    let level := if h > s.level then h else s.level
    -- the new node is spliced in behind update[i] on every level i < h; on level 0 that is
    -- list position update[0]
    match update[0]? with
    | some p =>
      if spliceOk s.nodes update p h then
        ({ nodes := s.nodes.insertIdx p ⟨v, h⟩, level := level, size := s.size + 1 }, .ok .unit)
      else (s, .panic "towers inconsistent")
    | none => (s, .panic "index out of range")
  | .delete v =>
    let (curr, update) := traverse cmp v s
    match next0 s curr with
    | none => (s, .ok (.bool true))
    | some node =>
      if cmp node.val v ≠ 0 then (s, .ok (.bool true))
      else if unlinkCount s.nodes update (curr + 1) s.level s.level 0 ≠ node.h then (s, .panic "towers inconsistent")
      else
        -- the node was unlinked on exactly its own levels: it is gone from the chain
        let nodes := s.nodes.eraseIdx curr
        let level := trimLevel nodes s.level s.level
        ({ nodes := nodes, level := level, size := s.size - 1 }, .ok (.bool true))
  | .search v =>
    let (curr, _) := traverse cmp v s
    match next0 s curr with
    | none => (s, .ok (.bool false))
    | some node => (s, .ok (.bool (cmp node.val v = 0)))
  | .get index =>
    if index < 0 ∨ index ≥ s.size then (s, .err (.idx s.size index))
    else
      -- `for i := 0; i <= index; i++ { curr = curr.Forward[0] }` lands on node `index`
      match s.nodes[index.toNat]? with
      | some n => (s, .ok (.val n.val))
      | none => (s, .panic "nil pointer dereference")
  | .peek =>
    match s.nodes.head? with
    | none => (s, .err errEmpty)
    | some n => (s, .ok (.val n.val))
  | .asSlice =>
    -- `make([]T, 0, sl.size)` panics on a negative size
    if s.size < 0 then (s, .panic "makeslice: cap out of range") else (s, .ok (.slice (s.nodes.map (·.val))))
  | .len => (s, .ok (.int s.size))

def SL.asSlice (s : SL) : List Int := s.nodes.map (·.val)

/-- a history: every call comes with a tower height (used by Insert only) -/
def run (cmp : Cmp) (s : SL) : List (Nat × Op) → SL × List Out
  | [] => (s, [])
  | (h, op) :: rest =>
    let r := step cmp s h op
    let rr := run cmp r.1 rest
    (rr.1, r.2 :: rr.2)

/-- the level-`i` chain (positions, 1-based) that the list representation stands for -/
def chain (nodes : List Node) (i : Nat) : List Nat :=
  (nodes.zipIdx.filter fun p => p.1.h > i).map fun p => p.2 + 1

/-! ### the specification: a sorted sequence

`Spec.insert` puts the element in front of the first element that is not smaller, `Spec.delete`
removes the first element that compares equal — a deterministic sorted sequence that does not know
about towers or levels. -/
namespace Spec

def insert (cmp : Cmp) (v : Int) (l : List Int) : List Int :=
  l.takeWhile (fun x => cmp x v < 0) ++ v :: l.dropWhile (fun x => cmp x v < 0)

def delete (cmp : Cmp) (v : Int) (l : List Int) : List Int := l.eraseP (fun x => cmp x v = 0)

def step (cmp : Cmp) (l : List Int) : Op → List Int × Out
  | .insert v => (insert cmp v l, .ok .unit)
  | .delete v => (delete cmp v l, .ok (.bool true))
  | .search v => (l, .ok (.bool (l.any fun x => cmp x v = 0)))
  | .get i => if i < 0 ∨ i ≥ (l.length : Int) then (l, .err (.idx l.length i)) else (l, .ok (.val (l.getD i.toNat 0)))
  | .peek => match l with
    | [] => (l, .err errEmpty)
    | x :: _ => (l, .ok (.val x))
  | .asSlice => (l, .ok (.slice l))
  | .len => (l, .ok (.int l.length))

def run (cmp : Cmp) (l : List Int) : List Op → List Int × List Out
  | [] => (l, [])
  | op :: ops =>
    let r := step cmp l op
    let rr := run cmp r.1 ops
    (rr.1, r.2 :: rr.2)

/-- the bag view ("inserted minus deleted"): no order at all -/
def bagStep (l : List Int) : Op → List Int
  | .insert v => v :: l
  | .delete v => l.erase v
  | _ => l

def bagRun (l : List Int) : List Op → List Int
  | [] => l
  | op :: ops => bagRun (bagStep l op) ops

def sorted (cmp : Cmp) : List Int → Bool
  | [] => true
  | x :: rest => rest.all (fun y => cmp x y ≤ 0) && sorted cmp rest

/-- `a` is a rearrangement of `b` (executable) -/
def permB : List Int → List Int → Bool
  | [], b => b.isEmpty
  | x :: a, b => b.contains x && permB a (b.erase x)

/-- The acceptor used by the driver in `spec` mode.  `bag` = the elements held before the call,
    `vals` = what `AsSlice()` enumerates after the call (it becomes the next `bag`).
    With ties between different elements the enumeration order among equivalent elements, the
    element returned by Get/Peek and the element removed by DeleteElement are only determined up to
    equivalence under the comparator; the acceptor allows every choice the property allows.
    DeleteElement's boolean result is a constant of the source and is not constrained. -/
def check (cmp : Cmp) (bag : List Int) (op : Op) (out : Out) (vals : List Int) : Bool :=
  sorted cmp vals &&
  match op with
  | .insert v => out == .ok .unit && permB vals (v :: bag)
  | .delete v =>
    (match out with | .ok (.bool _) => true | _ => false) &&
    (if bag.any (fun x => cmp x v = 0) then bag.any (fun x => cmp x v = 0 && permB vals (bag.erase x))
     else permB vals bag)
  | .search v => out == .ok (.bool (bag.any fun x => cmp x v = 0)) && permB vals bag
  | .get i =>
    permB vals bag &&
    (if i < 0 ∨ i ≥ (bag.length : Int) then out == .err (.idx bag.length i)
     else match out, vals[i.toNat]? with
       | .ok (.val g), some x => bag.contains g && cmp g x = 0
       | _, _ => false)
  | .peek =>
    permB vals bag &&
    (match bag, out with
     | [], out => out == .err errEmpty
     | _ :: _, .ok (.val g) => bag.contains g && bag.all fun x => cmp g x ≤ 0
     | _, _ => false)
  | .asSlice =>
    permB vals bag &&
    (match out with
     | .ok (.slice s) => sorted cmp s && permB s bag
     | _ => false)
  | .len => out == .ok (.int bag.length) && permB vals bag

end Spec

/-- executable form of the representation invariant (`WF` in Ekit/Lemmas/SkipList.lean): used by the
    driver to admit a list built by `NewSkipListFromSlice`, whose individual tower heights are not
    observable call by call -/
def SL.wfB (cmp : Cmp) (s : SL) : Bool :=
  Spec.sorted cmp (s.nodes.map (·.val)) && s.nodes.all (fun n => decide (1 ≤ n.h ∧ n.h ≤ MaxLevel)) &&
  decide (1 ≤ s.level) && s.nodes.all (fun n => decide (n.h ≤ s.level)) &&
  (decide (s.level ≤ 1) || s.nodes.any (fun n => decide (s.level ≤ n.h))) && decide (s.size = s.nodes.length)

/-- `NewSkipListFromSlice`: Insert every element in order -/
def Spec.fromSlice (cmp : Cmp) (vs : List Int) : List Int := vs.foldl (fun l v => Spec.insert cmp v l) []

end Ekit.SkipList
