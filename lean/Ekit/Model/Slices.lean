/-
Executable models of ekit's slice helpers (package `slice`: union.go, intersect.go, diff.go,
symmetric_diff.go, contains.go, index.go, find.go, map.go, reverse.go, delete.go, add.go,
aggregate.go).  `internal/slice/add.go`, `delete.go` are modelled in `Ekit/Model/Lists.lean`
(`sliceAdd`, `sliceDelete`) and reused here.

Conventions
* A Go slice argument is a `List α`; a nil slice and an empty slice behave identically for every
  function of this file (`len` = 0, `range` does nothing), so nil-ness of *arguments* is not
  represented here.  Nil-ness of *results* is represented where the Go doc promises something about
  it (`findAll : Option (List α)`, `none` = nil; `toMapV` is a total function into maps).
* A Go `map[T]struct{}` is the list of its distinct keys (`KeySet`); `for k := range m` visits the
  keys in an order chosen by the runtime, so every loop over a map takes the visiting order as an
  *oracle* `it` (any permutation of the keys) and the slice a function builds by ranging over its
  final map is *any* permutation of that map's keys (`Enumerates`).
* Loops are the loops of the source: `range` loops are structural recursions with the running
  index / accumulator the source has; loops that index explicitly (`src[i]`) read through the
  partial `idx?` and write through the partial `set?`, which produce `Outcome.panic` outside the
  bounds (nothing is totalised) — the theorems then show that the panic is unreachable, or, for
  `Max`/`Min` on an empty slice, that it is exactly the documented precondition.
* Predicates are arbitrary functions; the `comparable` variants are the `Func` variants
  instantiated with `==` exactly where the source does that (`Contains`, `Index`, `LastIndex`,
  `IndexAll`) and separate map-based algorithms elsewhere.
-/
import Ekit.Go.Basic
import Ekit.Model.Lists

namespace Ekit.Slices
open Ekit.Go

/-! ### partial indexing -/

def panicIndex : String := "index out of range"

/-- `l[i]` -/
def idx? {α} (l : List α) (i : Nat) : Outcome α :=
  match l[i]? with
  | some v => .ok v
  | none => .panic panicIndex

/-- `l[i] = v` -/
def set? {α} (l : List α) (i : Nat) (v : α) : Outcome (List α) :=
  if i < l.length then .ok (l.set i v) else .panic panicIndex

/-- `for i := a; i < n; i++ { body }` with trip count `cnt = n - a` (truncated), the loop state
    threaded through a body that may panic. -/
def forRange {σ} (body : Nat → σ → Outcome σ) (i : Nat) : Nat → σ → Outcome σ
  | 0, st => .ok st
  | c + 1, st =>
    match body i st with
    | .ok st' => forRange body (i + 1) c st'
    | .err e => .err e
    | .panic m => .panic m

/-! ### map[T]struct{} as a key set -/
section KeySet
variable {α : Type} [DecidableEq α]

/-- `m[k] = struct{}{}` -/
def mapInsert (m : List α) (k : α) : List α := if k ∈ m then m else m ++ [k]
/-- `delete(m, k)` -/
def mapDelete (m : List α) (k : α) : List α := m.erase k
/-- `_, ok := m[k]` -/
def mapHas (m : List α) (k : α) : Bool := decide (k ∈ m)
/-- slice/map.go `toMap` -/
def toMap (src : List α) : List α := src.foldl mapInsert []

/-- `for k := range m { ret = append(ret, k) }` : `r` is one of the slices this loop can build -/
def Enumerates (m r : List α) : Prop := r.Perm m
/-- the runtime's visiting order of `for k := range m` -/
abbrev IterOrder (m it : List α) : Prop := it.Perm m

/-- UnionSet: the final `dstMap` when `srcMap` is visited in the order `it` -/
def unionSetWith (it : List α) (dst : List α) : List α := it.foldl mapInsert (toMap dst)
def unionSet (src dst : List α) : List α := unionSetWith (toMap src) dst

/-- slice/map.go `deduplicate`: the key set of the data -/
def deduplicate (data : List α) : List α := toMap data

/-- IntersectSet: the `ret` slice before deduplication (`range dst`, membership test in srcMap) -/
def intersectPre (src dst : List α) : List α :=
  let srcMap := toMap src
  dst.filter (fun v => mapHas srcMap v)
def intersectSet (src dst : List α) : List α := deduplicate (intersectPre src dst)

/-- DiffSet: `srcMap` after `for _, val := range dst { delete(srcMap, val) }` -/
def diffSet (src dst : List α) : List α := dst.foldl mapDelete (toMap src)

/-- SymmetricDiffSet: `srcMap` after visiting `dstMap` in the order `it` -/
def symDiffSetWith (it : List α) (src : List α) : List α :=
  it.foldl (fun m k => if mapHas m k then mapDelete m k else mapInsert m k) (toMap src)
def symDiffSet (src dst : List α) : List α := symDiffSetWith (toMap dst) src

/-- ContainsAny: `range dst`, return true at the first key present in srcMap -/
def containsAny (src dst : List α) : Bool :=
  go (toMap src) dst
where go (m : List α) : List α → Bool
  | [] => false
  | v :: r => if mapHas m v then true else go m r

/-- ContainsAll: `range dst`, return false at the first key absent from srcMap -/
def containsAll (src dst : List α) : Bool :=
  go (toMap src) dst
where go (m : List α) : List α → Bool
  | [] => true
  | v :: r => if !mapHas m v then false else go m r

end KeySet

/-! ### the quadratic predicate-taking variants (literal) -/
section Func
variable {α : Type}

/-- ContainsFunc -/
def containsFunc (src : List α) (equal : α → Bool) : Bool :=
  match src with
  | [] => false
  | v :: r => if equal v then true else containsFunc r equal

/-- slice/map.go `deduplicateFunc`: element `k` is kept iff nothing in `data[k+1:]` equals it
    (so of several equal elements the LAST survives, in the position of the last). -/
def deduplicateFunc (data : List α) (equal : α → α → Bool) : List α :=
  match data with
  | [] => []
  | v :: rest =>
    if !containsFunc rest (fun src => equal src v) then v :: deduplicateFunc rest equal
    else deduplicateFunc rest equal

/-- UnionSetFunc: `ret = append(append(make(0, n), dst...), src...)`, deduplicated -/
def unionSetFunc (src dst : List α) (equal : α → α → Bool) : List α :=
  deduplicateFunc (dst ++ src) equal

def intersectSetFunc (src dst : List α) (equal : α → α → Bool) : List α :=
  deduplicateFunc (dst.filter (fun v => containsFunc src (fun t => equal t v))) equal

def diffSetFunc (src dst : List α) (equal : α → α → Bool) : List α :=
  deduplicateFunc (src.filter (fun val => !containsFunc dst (fun s => equal s val))) equal

def symDiffSetFunc (src dst : List α) (equal : α → α → Bool) : List α :=
  deduplicateFunc
    (src.filter (fun v => !containsFunc dst (fun t => equal t v)) ++
     dst.filter (fun v => !containsFunc src (fun t => equal t v))) equal

/-- ContainsAnyFunc: the nested loops as written (`dst` outer, `src` inner) -/
def containsAnyFunc (src dst : List α) (equal : α → α → Bool) : Bool :=
  match dst with
  | [] => false
  | valDst :: r => if inner src valDst then true else containsAnyFunc src r equal
where inner : List α → α → Bool
  | [], _ => false
  | valSrc :: r, valDst => if equal valSrc valDst then true else inner r valDst

def containsAllFunc (src dst : List α) (equal : α → α → Bool) : Bool :=
  match dst with
  | [] => true
  | valDst :: r =>
    if !containsFunc src (fun s => equal s valDst) then false else containsAllFunc src r equal

/-- Contains = ContainsFunc with `src == dst` -/
def contains [DecidableEq α] (src : List α) (dst : α) : Bool :=
  containsFunc src (fun s => decide (s = dst))

/-! ### index.go / find.go -/

/-- IndexFunc: `for k, v := range src { if match(v) { return k } }; return -1` -/
def indexFunc (src : List α) (p : α → Bool) : Int :=
  go 0 src
where go (k : Nat) : List α → Int
  | [] => -1
  | v :: r => if p v then (k : Int) else go (k + 1) r

/-- LastIndexFunc: `for i := len(src)-1; i >= 0; i-- { if match(src[i]) { return i } }` ;
    the argument of `go` is `i+1` -/
def lastIndexFunc (src : List α) (p : α → Bool) : Outcome Int :=
  go src.length
where go : Nat → Outcome Int
  | 0 => .ok (-1)
  | i + 1 =>
    match idx? src i with
    | .ok v => if p v then .ok (i : Int) else go i
    | .err e => .err e
    | .panic m => .panic m

/-- IndexAllFunc: `indexes = make([]int, 0, len(src))` and conditional appends -/
def indexAllFunc (src : List α) (p : α → Bool) : List Int :=
  go 0 src []
where go (k : Nat) : List α → List Int → List Int
  | [], acc => acc
  | v :: r, acc => if p v then go (k + 1) r (acc ++ [(k : Int)]) else go (k + 1) r acc

def index [DecidableEq α] (src : List α) (dst : α) : Int := indexFunc src (fun s => decide (s = dst))
def lastIndex [DecidableEq α] (src : List α) (dst : α) : Outcome Int :=
  lastIndexFunc src (fun s => decide (s = dst))
def indexAll [DecidableEq α] (src : List α) (dst : α) : List Int :=
  indexAllFunc src (fun s => decide (s = dst))

/-- Find: `(val, true)` for the first match, `(zero, false)` otherwise (`none`) -/
def find (src : List α) (p : α → Bool) : Option α :=
  match src with
  | [] => none
  | v :: r => if p v then some v else find r p

/-- FindAll: `res := make([]T, 0, len(src)>>3+1)`, conditional appends; `some` = non-nil -/
def findAll (src : List α) (p : α → Bool) : Option (List α) :=
  some (go src [])
where go : List α → List α → List α
  | [], acc => acc
  | v :: r, acc => if p v then go r (acc ++ [v]) else go r acc

/-! ### map.go -/

/-- FilterMap: `m(i, s)` returns `(dst, ok)`; appended iff `ok` -/
def filterMap {β} (src : List α) (m : Nat → α → β × Bool) : List β :=
  go 0 src []
where go (i : Nat) : List α → List β → List β
  | [], acc => acc
  | s :: r, acc =>
    let (d, ok) := m i s
    if ok then go (i + 1) r (acc ++ [d]) else go (i + 1) r acc

/-- Map: `dst := make([]Dst, len(src))` (zero values) and `dst[i] = m(i, s)` -/
def mapFn {β} [Inhabited β] (src : List α) (m : Nat → α → β) : Outcome (List β) :=
  go 0 src (List.replicate src.length default)
where go (i : Nat) : List α → List β → Outcome (List β)
  | [], dst => .ok dst
  | s :: r, dst =>
    match set? dst i (m i s) with
    | .ok dst' => go (i + 1) r dst'
    | .err e => .err e
    | .panic msg => .panic msg

/-- a Go `map[Key]Val` as an association list with distinct keys -/
abbrev AMap (κ ν : Type) := List (κ × ν)

section AMap
variable {κ ν : Type} [DecidableEq κ]
/-- `m[k]` with the comma-ok form -/
def amGet (m : AMap κ ν) (k : κ) : Option ν :=
  match m with
  | [] => none
  | (k', v) :: r => if k' = k then some v else amGet r k
/-- `m[k] = v` : overwrite in place when present, otherwise a new entry -/
def amPut (m : AMap κ ν) (k : κ) (v : ν) : AMap κ ν :=
  match m with
  | [] => [(k, v)]
  | (k', v') :: r => if k' = k then (k, v) :: r else (k', v') :: amPut r k v
def amKeys (m : AMap κ ν) : List κ := m.map (·.1)
end AMap

/-- ToMapV: `resultMap = make(map, len(elements))` (never nil), `resultMap[k] = v` in order -/
def toMapV {κ ν} [DecidableEq κ] (elements : List α) (fn : α → κ × ν) : AMap κ ν :=
  elements.foldl (fun m e => amPut m (fn e).1 (fn e).2) []

/-- ToMap = ToMapV with `fn(element), element` -/
def toMapK {κ} [DecidableEq κ] (elements : List α) (fn : α → κ) : AMap κ α :=
  toMapV elements (fun e => (fn e, e))

/-! ### reverse.go -/

/-- Reverse: `for i := len(src)-1; i >= 0; i-- { ret = append(ret, src[i]) }`; argument of `go` = i+1 -/
def reverse (src : List α) : Outcome (List α) :=
  go src.length []
where go : Nat → List α → Outcome (List α)
  | 0, acc => .ok acc
  | i + 1, acc =>
    match idx? src i with
    | .ok v => go i (acc ++ [v])
    | .err e => .err e
    | .panic m => .panic m

/-- ReverseSelf: `for i, j := 0, len(src)-1; i < j; i, j = i+1, j-1 { src[i], src[j] = src[j], src[i] }`.
    `j` is an `Int` (it is `-1` for the empty slice).  The result is the argument's new contents.
    `fuel` bounds the trip count (`len(src)` suffices; the theorem shows the result is the reversal,
    so the bound is never what stops the loop). -/
def reverseSelfLoop (l : List α) (i : Nat) (j : Int) : Nat → Outcome (List α)
  | 0 => if (i : Int) < j then .panic "nontermination" else .ok l
  | fuel + 1 =>
    if (i : Int) < j then
      match idx? l i, idx? l j.toNat with
      | .ok a, .ok b =>
        match set? l i b with
        | .ok l1 =>
          match set? l1 j.toNat a with
          | .ok l2 => reverseSelfLoop l2 (i + 1) (j - 1) fuel
          | _ => .panic panicIndex
        | _ => .panic panicIndex
      | _, _ => .panic panicIndex
    else .ok l

def reverseSelf (src : List α) : Outcome (List α) :=
  reverseSelfLoop src 0 ((src.length : Int) - 1) src.length

/-! ### delete.go: FilterDelete compacts in place -/

/-- the loop of FilterDelete from position `idx` with `cnt` elements to go; state = the backing
    array and `emptyPos` -/
def filterDeleteLoop (m : Nat → α → Bool) (idx : Nat) : Nat → List α × Nat → Outcome (List α × Nat)
  | 0, st => .ok st
  | cnt + 1, (l, emptyPos) =>
    match idx? l idx with
    | .ok v =>
      if m idx v then filterDeleteLoop m (idx + 1) cnt (l, emptyPos)
      else
        match set? l emptyPos v with
        | .ok l' => filterDeleteLoop m (idx + 1) cnt (l', emptyPos + 1)
        | .err e => .err e
        | .panic msg => .panic msg
    | .err e => .err e
    | .panic msg => .panic msg

/-- FilterDelete: returns `(src[:emptyPos], contents of the argument afterwards)` -/
def filterDelete (src : List α) (m : Nat → α → Bool) : Outcome (List α × List α) :=
  match filterDeleteLoop m 0 src.length (src, 0) with
  | .ok (l, emptyPos) =>
    if emptyPos ≤ l.length then .ok (l.take emptyPos, l) else .panic "slice bounds out of range"
  | .err e => .err e
  | .panic msg => .panic msg

end Func

/-! ### add.go / delete.go: thin wrappers over internal/slice (modelled in `Ekit.Lists`) -/

open Ekit.Lists in
/-- slice.Add: `(result, contents visible through the argument afterwards, result shares the
    argument's array)`.  `grow` is the runtime's capacity choice if `append` has to allocate. -/
def addAt (s : GoSlice) (element : Int) (index : Int) (grow : Nat) : Outcome (GoSlice × List Int × Bool) :=
  match sliceAdd s element index grow with
  | .ok r =>
    if s.appendAllocates 1 then .ok (r, s.vals, false)
    else .ok (r, r.vals.take s.vals.length, true)
  | .err e => .err e
  | .panic m => .panic m

open Ekit.Lists in
/-- slice.Delete: `(result, contents visible through the argument afterwards)`; the shift is always
    in place, the last element stays where it was. -/
def deleteAt (s : GoSlice) (index : Int) : Outcome (GoSlice × List Int) :=
  match sliceDelete s index with
  | .ok (r, _) => .ok (r, shiftLeft s.vals s.vals.length index.toNat s.vals.length)
  | .err e => .err e
  | .panic m => .panic m

/-! ### aggregate.go (over `Int`; Go's fixed-width wrap-around is outside this model: the
correspondence runs keep |values| and lengths small enough that no `int` overflows) -/

/-- Max: `res := ts[0]` (panics on an empty slice: documented precondition), then
    `for i := 1; i < len(ts); i++ { if ts[i] > res { res = ts[i] } }` -/
def maxOf (ts : List Int) : Outcome Int :=
  match idx? ts 0 with
  | .ok r0 =>
    forRange (fun i res =>
      match idx? ts i with
      | .ok v => .ok (if v > res then v else res)
      | .err e => .err e
      | .panic m => .panic m) 1 (ts.length - 1) r0
  | .err e => .err e
  | .panic m => .panic m

def minOf (ts : List Int) : Outcome Int :=
  match idx? ts 0 with
  | .ok r0 =>
    forRange (fun i res =>
      match idx? ts i with
      | .ok v => .ok (if v < res then v else res)
      | .err e => .err e
      | .panic m => .panic m) 1 (ts.length - 1) r0
  | .err e => .err e
  | .panic m => .panic m

/-- Sum: `var res T; for _, n := range ts { res += n }` -/
def sumOf (ts : List Int) : Int := ts.foldl (fun res n => res + n) 0

/-! ### the functions whose Go doc promises a non-nil result ("永远不会返回 nil", "保证返回的map是一个空map
而不是nil").  Every other slice result of this package also happens to come from `make`, but nothing
promises that, so nil-ness of those results is not part of the model. -/
inductive Fn where
  | unionSet | unionSetFunc | intersectSet | intersectSetFunc | diffSet | diffSetFunc
  | symDiffSet | symDiffSetFunc | indexAll | findAll | filterMap | map | reverse
  | toMap | add | delete | filterDelete
  deriving DecidableEq, Repr

def promisedNonNil : Fn → Bool
  | .findAll | .toMap => true
  | _ => false

end Ekit.Slices
