/-
Executable models of mapx/map.go (Keys, Values, KeysValues, ToMap) and tuple/pair/pair.go
(NewPairs, SplitPairs, FlattenPairs, PackPairs).

* A Go `map[K]V` is an association list with distinct keys (`AMap`, from `Ekit.Model.Slices`);
  `for k := range m` visits the keys in a runtime-chosen order, an oracle `it` (any permutation
  of the keys).
* Slice arguments whose nil-ness the code inspects are `Option (List _)` (`none` = nil); results
  whose nil-ness is documented are `Option (List _)` as well.
* `any` values are an abstract type `δ` with injections / checked casts (`x.(K)`), a failed cast
  being Go's run-time panic.
-/
import Ekit.Model.Slices

namespace Ekit.Slices
open Ekit.Go

/-! ### mapx -/
section Mapx
variable {κ ν : Type} [DecidableEq κ]

/-- Keys: `res := make([]K, 0, len(m)); for k := range m { res = append(res, k) }` -/
def mxKeys (it : List κ) : List κ := it.foldl (fun res k => res ++ [k]) []

/-- Values: `for k := range m { res = append(res, m[k]) }` (`m[k]` is the zero value if absent) -/
def mxValues [Inhabited ν] (m : AMap κ ν) (it : List κ) : List ν :=
  it.foldl (fun res k => res ++ [(amGet m k).getD default]) []

/-- KeysValues: one loop, two appends -/
def mxKeysValues [Inhabited ν] (m : AMap κ ν) (it : List κ) : List κ × List ν :=
  it.foldl (fun (ks, vs) k => (ks ++ [k], vs ++ [(amGet m k).getD default])) ([], [])

def errNil : Err := .other "nil"
def errLen : Err := .other "len"

/-- mapx.ToMap: nil check, length check, `m = make(map, n)`, `for i := 0; i < n; i++ { m[keys[i]] = values[i] }` -/
def mxToMap (keys : Option (List κ)) (values : Option (List ν)) : Outcome (AMap κ ν) :=
  match keys, values with
  | some ks, some vs =>
    let n := ks.length
    if n ≠ vs.length then .err errLen
    else
      forRange (fun i m =>
        match idx? ks i, idx? vs i with
        | .ok k, .ok v => .ok (amPut m k v)
        | _, _ => .panic panicIndex) 0 (n - 0) []
  | _, _ => .err errNil

end Mapx

/-! ### pair -/
section Pair
variable {κ ν : Type}

/-- NewPairs -/
def newPairs [Inhabited κ] [Inhabited ν] (keys : Option (List κ)) (values : Option (List ν)) :
    Outcome (List (κ × ν)) :=
  match keys, values with
  | some ks, some vs =>
    let n := ks.length
    if n ≠ vs.length then .err errLen
    else
      forRange (fun i pairs =>
        match idx? ks i, idx? vs i with
        | .ok k, .ok v => set? pairs i (k, v)
        | _, _ => .panic panicIndex) 0 (n - 0) (List.replicate n default)
  | _, _ => .err errNil

/-- the loop of SplitPairs: `for i, pair := range pairs { keys[i], values[i] = pair.Split() }` -/
def splitLoop (i : Nat) : List (κ × ν) → List κ × List ν → Outcome (List κ × List ν)
  | [], st => .ok st
  | (k, v) :: r, (keys, values) =>
    match set? keys i k, set? values i v with
    | .ok keys', .ok values' => splitLoop (i + 1) r (keys', values')
    | _, _ => .panic panicIndex

/-- SplitPairs: nil in, `(nil, nil)` out; otherwise two fresh slices of length n -/
def splitPairs [Inhabited κ] [Inhabited ν] (pairs : Option (List (κ × ν))) :
    Outcome (Option (List κ) × Option (List ν)) :=
  match pairs with
  | none => .ok (none, none)
  | some ps =>
    let n := ps.length
    match splitLoop 0 ps (List.replicate n default, List.replicate n default) with
    | .ok (ks, vs) => .ok (some ks, some vs)
    | .err e => .err e
    | .panic m => .panic m

/-- FlattenPairs: nil in, nil out; otherwise `append(flat, pair.Key, pair.Value)` per pair -/
def flattenPairs {δ} (injK : κ → δ) (injV : ν → δ) (pairs : Option (List (κ × ν))) : Option (List δ) :=
  match pairs with
  | none => none
  | some ps => some (ps.foldl (fun flat p => flat ++ [injK p.1, injV p.2]) [])

def panicCast : String := "interface conversion"

/-- one iteration of PackPairs: `pairs[i] = NewPair(flat[i*2].(K), flat[i*2+1].(V))`,
    operands evaluated left to right -/
def packBody {δ} (castK : δ → Option κ) (castV : δ → Option ν) (fl : List δ)
    (i : Nat) (pairs : List (κ × ν)) : Outcome (List (κ × ν)) :=
  match idx? fl (i * 2) with
  | .ok a =>
    match castK a with
    | some k =>
      match idx? fl (i * 2 + 1) with
      | .ok b =>
        match castV b with
        | some v => set? pairs i (k, v)
        | none => .panic panicCast
      | _ => .panic panicIndex
    | none => .panic panicCast
  | _ => .panic panicIndex

/-- PackPairs: nil in, nil out; `n := len(flat)/2`; `pairs = make([]Pair, n)`;
    `for i := 0; i < n; i++ { pairs[i] = … }` -/
def packPairs {δ} [Inhabited κ] [Inhabited ν] (castK : δ → Option κ) (castV : δ → Option ν)
    (flat : Option (List δ)) : Outcome (Option (List (κ × ν))) :=
  match flat with
  | none => .ok none
  | some fl =>
    let n := fl.length / 2
    match forRange (packBody castK castV fl) 0 (n - 0) (List.replicate n default) with
    | .ok ps => .ok (some ps)
    | .err e => .err e
    | .panic m => .panic m

end Pair
end Ekit.Slices
