/-
Executable models of ekit's list implementations (list/array_list.go, list/linked_list.go,
list/copy_on_write_array_list.go, list/concurrent_list.go) and of the helpers they call
(internal/slice/add.go, delete.go, shrink.go).

Values are `Int` (the containers are generic and never inspect elements).
A Go slice is modelled by its contents and its capacity.  `append` beyond the capacity allocates;
the new capacity is chosen by the Go runtime (size-class rounding, not ekit code), so it is an
*oracle parameter* `grow`, constrained only by `grow ≥ needed length`.
Backing-array identity is a natural number drawn from an allocation counter, so that
"returns a fresh slice" is expressible.
-/
import Ekit.Go.Basic
import Ekit.Generated.Slice

namespace Ekit.Lists
open Ekit.Go

/-- the abstract sequence operations (the specification) -/
inductive Op where
  | get (i : Int)
  | append (ts : List Int)
  | add (i : Int) (t : Int)
  | set (i : Int) (t : Int)
  | delete (i : Int)
  | len
  | asSlice
  | range            -- Range with a callback that records what it is shown
  deriving Repr, DecidableEq, Inhabited

/-- what a call returns -/
inductive Ret where
  | unit                    -- nil error
  | val (v : Int)
  | int (n : Int)
  | slice (vs : List Int)
  deriving Repr, DecidableEq, Inhabited

abbrev Out := Outcome Ret

/-! ### Specification: an abstract sequence -/
namespace Spec

def inRange (i : Int) (n : Nat) : Bool := 0 ≤ i && i < n

def step (s : List Int) : Op → List Int × Out
  | .get i => if inRange i s.length then (s, .ok (.val (s.getD i.toNat 0))) else (s, .err (.idx s.length i))
  | .append ts => (s ++ ts, .ok .unit)
  | .add i t => if 0 ≤ i && i ≤ s.length then (s.insertIdx i.toNat t, .ok .unit) else (s, .err (.idx s.length i))
  | .set i t => if inRange i s.length then (s.set i.toNat t, .ok .unit) else (s, .err (.idx s.length i))
  | .delete i => if inRange i s.length then (s.eraseIdx i.toNat, .ok (.val (s.getD i.toNat 0))) else (s, .err (.idx s.length i))
  | .len => (s, .ok (.int s.length))
  | .asSlice => (s, .ok (.slice s))
  | .range => (s, .ok (.slice s))

def run (s : List Int) : List Op → List Int × List Out
  | [] => (s, [])
  | op :: ops =>
    let (s', o) := step s op
    let (s'', os) := run s' ops
    (s'', o :: os)

end Spec

/-! ### internal/slice helpers over (contents, capacity) -/

structure GoSlice where
  vals : List Int
  cap : Nat
  deriving Repr, DecidableEq, Inhabited

/-- Go's `append(s, ts...)`: in place when it fits, otherwise reallocated with capacity `grow`. -/
def GoSlice.append (s : GoSlice) (ts : List Int) (grow : Nat) : GoSlice :=
  if s.vals.length + ts.length ≤ s.cap then { s with vals := s.vals ++ ts }
  else { vals := s.vals ++ ts, cap := grow }

/-- did `append` have to allocate? -/
def GoSlice.appendAllocates (s : GoSlice) (n : Nat) : Bool := !(s.vals.length + n ≤ s.cap)

/-- the element-shifting loop of `slice.Add`:
    `for i := len(src)-1; i > index; i-- { if i-1 >= 0 { src[i] = src[i-1] } }; src[index] = element`
    executed literally on the already extended list. -/
def shiftRight (l : List Int) (index : Nat) : Nat → List Int
  | 0 => l
  | i + 1 => if i + 1 > index then shiftRight (l.set (i + 1) (l.getD i 0)) index i else l

/-- internal/slice.Add -/
def sliceAdd (s : GoSlice) (element : Int) (index : Int) (grow : Nat) : Outcome GoSlice :=
  let length : Int := s.vals.length
  if index < 0 ∨ index > length then .err (.idx length index)
  else
    let s1 := s.append [0] grow
    let shifted := shiftRight s1.vals index.toNat (s1.vals.length - 1)
    .ok { s1 with vals := shifted.set index.toNat element }

/-- the shifting loop of `slice.Delete`: `for i := index; i+1 < length; i++ { src[i] = src[i+1] }` -/
def shiftLeft (l : List Int) (length : Nat) (i : Nat) (fuel : Nat) : List Int :=
  match fuel with
  | 0 => l
  | fuel + 1 => if i + 1 < length then shiftLeft (l.set i (l.getD (i + 1) 0)) length (i + 1) fuel else l

/-- internal/slice.Delete -/
def sliceDelete (s : GoSlice) (index : Int) : Outcome (GoSlice × Int) :=
  let length : Int := s.vals.length
  if index < 0 ∨ index ≥ length then .err (.idx length index)
  else
    let res := s.vals.getD index.toNat 0
    let shifted := shiftLeft s.vals s.vals.length index.toNat s.vals.length
    .ok ({ s with vals := shifted.take (s.vals.length - 1) }, res)

/-- internal/slice.Shrink, through the generated `calCapacity`. `none` = the division panicked.
    `make([]T, 0, n)` followed by `append(s, src...)`: the new capacity is `n` when the elements fit
    (proved always to be the case), otherwise the runtime's choice `grow`. -/
def sliceShrink (s : GoSlice) (grow : Nat) : Outcome GoSlice :=
  match Ekit.Gen.calCapacity s.cap s.vals.length with
  | none => .panic "integer divide by zero"
  | some (n, changed) =>
    if !changed then .ok s
    else if n < 0 then .panic "makeslice: cap out of range"
    else .ok ((GoSlice.mk [] n.toNat).append s.vals grow)

/-! ### ArrayList -/
structure ArrayList where
  s : GoSlice
  deriving Repr, DecidableEq, Inhabited

namespace ArrayList
def new (cap : Int) : Outcome ArrayList :=
  if cap < 0 then .panic "makeslice: cap out of range" else .ok ⟨⟨[], cap.toNat⟩⟩
def ofSlice (ts : List Int) (cap : Nat) : ArrayList := ⟨⟨ts, cap⟩⟩

/-- one public call. `grow` is the runtime's capacity choice should an allocation happen. -/
def step (a : ArrayList) (grow : Nat) : Op → ArrayList × Out
  | .get i =>
    let l : Int := a.s.vals.length
    if i < 0 ∨ i ≥ l then (a, .err (.idx l i)) else (a, .ok (.val (a.s.vals.getD i.toNat 0)))
  | .append ts => (⟨a.s.append ts grow⟩, .ok .unit)
  | .add i t =>
    match sliceAdd a.s t i grow with
    | .ok s' => (⟨s'⟩, .ok .unit)
    | .err e => (a, .err e)
    | .panic m => (a, .panic m)
  | .set i t =>
    let l : Int := a.s.vals.length
    if i ≥ l ∨ i < 0 then (a, .err (.idx l i)) else (⟨{ a.s with vals := a.s.vals.set i.toNat t }⟩, .ok .unit)
  | .delete i =>
    match sliceDelete a.s i with
    | .ok (s', v) =>
      match sliceShrink s' grow with
      | .ok s'' => (⟨s''⟩, .ok (.val v))
      | .err e => (⟨s'⟩, .err e)
      | .panic m => (⟨s'⟩, .panic m)
    | .err e => (a, .err e)
    | .panic m => (a, .panic m)
  | .len => (a, .ok (.int a.s.vals.length))
  | .asSlice => (a, .ok (.slice a.s.vals))
  | .range => (a, .ok (.slice a.s.vals))
end ArrayList

/-! ### CopyOnWriteArrayList (sequential behaviour; its concurrency is C06/C15)
Every writer builds a new backing array of an exactly known capacity. -/
structure CowList where
  s : GoSlice
  deriving Repr, DecidableEq, Inhabited

namespace CowList
def new : CowList := ⟨⟨[], 0⟩⟩
def ofSlice (ts : List Int) : CowList := ⟨⟨ts, ts.length⟩⟩

def step (a : CowList) : Op → CowList × Out
  | .get i =>
    let l : Int := a.s.vals.length
    if i < 0 ∨ i ≥ l then (a, .err (.idx l i)) else (a, .ok (.val (a.s.vals.getD i.toNat 0)))
  | .append ts =>
    let n := a.s.vals.length
    -- make([]T, n, n+len(ts)); copy; append (fits)
    (⟨(GoSlice.mk a.s.vals (n + ts.length)).append ts 0⟩, .ok .unit)
  | .add i t =>
    let n := a.s.vals.length
    -- make([]T, n, n+1); copy; slice.Add (fits, never allocates)
    match sliceAdd ⟨a.s.vals, n + 1⟩ t i 0 with
    | .ok s' => (⟨s'⟩, .ok .unit)
    | .err e => (a, .err e)
    | .panic m => (a, .panic m)
  | .set i t =>
    let n : Int := a.s.vals.length
    if i ≥ n ∨ i < 0 then (a, .err (.idx n i))
    else (⟨⟨a.s.vals.set i.toNat t, a.s.vals.length⟩⟩, .ok .unit)
  | .delete i =>
    let n : Int := a.s.vals.length
    if i ≥ n ∨ i < 0 then (a, .err (.idx n i))
    else (⟨⟨a.s.vals.eraseIdx i.toNat, a.s.vals.length - 1⟩⟩, .ok (.val (a.s.vals.getD i.toNat 0)))
  | .len => (a, .ok (.int a.s.vals.length))
  | .asSlice => (a, .ok (.slice a.s.vals))
  | .range => (a, .ok (.slice a.s.vals))
end CowList

/-! ### LinkedList: a ring with two sentinels.
Positions: `-1` is `head`, `0 … len-1` the elements, `len` is `tail`.  `findNode` walks from one
end; the model keeps the walk as position arithmetic with the source's trip counts, and the
theorem `findPos_eq` shows it lands on `index`. -/
namespace LinkedList

/-- `for i := -1; i < index; i++ { cur = cur.next }` starting at head (position -1) -/
def walkFwd (index : Int) : Int := -1 + (if -1 < index then index - (-1) else 0)
/-- `for i := l.Len(); i > index; i-- { cur = cur.prev }` starting at tail (position len) -/
def walkBack (len index : Int) : Int := len - (if len > index then len - index else 0)

/-- position reached by `findNode(index)` on a list of length `len` -/
def findPos (len index : Int) : Int :=
  if index ≤ Int.tdiv len 2 then walkFwd index else walkBack len index

def checkIndex (len index : Int) : Bool := 0 ≤ index && index < len

def step (l : List Int) : Op → List Int × Out
  | .get i =>
    if !checkIndex l.length i then (l, .err (.idx l.length i))
    else (l, .ok (.val (l.getD (findPos l.length i).toNat 0)))
  | .append ts => (l ++ ts, .ok .unit)
  | .add i t =>
    let len : Int := l.length
    if i < 0 ∨ i > len then (l, .err (.idx len i))
    else if i = len then (l ++ [t], .ok .unit)
    else (l.insertIdx (findPos len i).toNat t, .ok .unit)
  | .set i t =>
    if !checkIndex l.length i then (l, .err (.idx l.length i))
    else (l.set (findPos l.length i).toNat t, .ok .unit)
  | .delete i =>
    if !checkIndex l.length i then (l, .err (.idx l.length i))
    else
      let p := (findPos l.length i).toNat
      (l.eraseIdx p, .ok (.val (l.getD p 0)))
  | .len => (l, .ok (.int l.length))
  | .asSlice => (l, .ok (.slice l))
  | .range => (l, .ok (.slice l))
end LinkedList

/-! ### A uniform state for the driver -/
inductive AnyList where
  | array (a : ArrayList)
  | cow (a : CowList)
  | linked (l : List Int)
  deriving Repr, DecidableEq, Inhabited

namespace AnyList
def vals : AnyList → List Int
  | array a => a.s.vals
  | cow a => a.s.vals
  | linked l => l
def cap : AnyList → Nat
  | array a => a.s.cap
  | cow a => a.s.cap
  | linked l => l.length
def step (x : AnyList) (grow : Nat) (op : Op) : AnyList × Out :=
  match x with
  | array a => let (a', o) := a.step grow op; (array a', o)
  | cow a => let (a', o) := a.step op; (cow a', o)
  | linked l => let (l', o) := LinkedList.step l op; (linked l', o)
end AnyList

end Ekit.Lists
