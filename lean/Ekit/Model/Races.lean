import Ekit.Conc.AccessTable
import Ekit.Generated.AccessTable
/-!
Model side of C15: what is hand-written about the regenerated access table, and the functions the
driver executes on it.

* `expectedAliases` — the alias facts syntax cannot see at the use site (`cond.l` IS the queue's mutex),
  written by hand and compared (`c15_aliases`) with what the extractor derives from the constructors.
* `pairVerdict` / `stressVerdict` — the static verdict on a method pair / a whole type, in terms of
  `pairOk` / `compatible` over the regenerated table (`Ekit.Gen.AccessTable.accessTable`), with the first
  conflicting pair of rows spelled out for the message.
-/
namespace Ekit.Races
open Ekit.Conc.AccessTable

def expectedAliases : List (String × String × String) := [
  ("ConcurrentLinkedBlockingQueue", "notEmpty.l", "mutex"),
  ("ConcurrentLinkedBlockingQueue", "notFull.l", "mutex"),
  ("DelayQueue", "dequeueSignal.l", "mutex"),
  ("DelayQueue", "enqueueSignal.l", "mutex")
]

def describe (a : Access) : String :=
  let k := (if a.write then "write" else "read") ++ (if a.atomic then "(atomic)" else "")
  s!"{a.method}:{k}:{a.field}"

/-- first pair of conflicting rows of two calls, if any -/
def firstConflict (tbl : List Access) (typ m₁ m₂ : String) : Option (Access × Access) :=
  (rowsOfCall tbl typ m₁).findSome? fun a =>
    ((rowsOfCall tbl typ m₂).find? fun b => !compatible a b).map fun b => (a, b)

/-- `none` = the table declares the pair conflict-free and knows both methods -/
def pairVerdict (tbl : List Access) (entries : List (String × String)) (typ m₁ m₂ : String) : Option String :=
  if !hasEntry entries typ m₁ then some s!"{typ}.{m₁} is not an entry of the regenerated access table"
  else if !hasEntry entries typ m₂ then some s!"{typ}.{m₂} is not an entry of the regenerated access table"
  else if pairOk tbl typ m₁ m₂ then none
  else match firstConflict tbl typ m₁ m₂ with
    | some (a, b) => some s!"the regenerated access table has unprotected conflicting accesses: {describe a} vs {describe b}"
    | none => some "the regenerated access table has unprotected conflicting accesses"

def typeRows (tbl : List Access) (typ : String) : List Access := tbl.filter fun a => a.typ == typ

def stressVerdict (tbl : List Access) (typ : String) : Option String :=
  let rows := typeRows tbl typ
  if rows.isEmpty then some s!"{typ} has no rows in the regenerated access table"
  else match rows.findSome? fun a => (rows.find? fun b => !compatible a b).map fun b => (a, b) with
    | some (a, b) => some s!"the regenerated access table has unprotected conflicting accesses: {describe a} vs {describe b}"
    | none => none

/-! ### Completeness of the dynamic matrix against the regenerated table

The harness announces the methods its pair matrix goes through (`new matrix T m₁,m₂,…`) and the types it
covers (`new types …`).  Every *public* entry the extractor found for such a type (exported method name, not a
constructor / option / goroutine entry) must be among them: a public method added to a thread-safe type that
the race detector is never pointed at is covered by the table obligation only; `checklib/props/C15.py` records the
list in the evidence (`c15_public_methods_outside_race_matrix`), the driver does not alarm on it. -/

/-- public methods exercised inside the workload of another method of the matrix -/
def implicitlyExercised : List (String × String) :=
  [("SegmentKeysLock", "Unlock"), ("SegmentKeysLock", "RUnlock")]

def isPublicName (m : String) : Bool :=
  !(m.toList.contains ':') && (match m.toList with | c :: _ => c.isUpper | [] => false)

def unexercised (entries : List (String × String)) (typ : String) (ms : List String) : List String :=
  (entries.filter fun e => e.1 == typ && isPublicName e.2 && !ms.contains e.2 &&
    !implicitlyExercised.contains (typ, e.2)).map (·.2)

/-- every method the matrix lists is an entry of the regenerated table -/
def listedVerdict (entries : List (String × String)) (typ : String) (ms : List String) : Option String :=
  match ms.find? (fun m => !hasEntry entries typ m) with
  | some m => some s!"{typ}.{m} is not an entry of the regenerated access table"
  | none => none

/-- strict variant (not used as an alarm: adding a correctly synchronised public method is harmless) -/
def matrixVerdict (entries : List (String × String)) (typ : String) (ms : List String) : Option String :=
  match listedVerdict entries typ ms with
  | some msg => some msg
  | none =>
    match unexercised entries typ ms with
    | [] => none
    | l => some s!"public methods of {typ} in the regenerated access table that the race matrix never exercises: {l}"

/-- exported types with public entries and at least one table row that the matrix does not cover -/
def uncoveredTypes (tbl : List Access) (entries : List (String × String)) (ts : List String) : List String :=
  ((entries.filter fun e => isPublicName e.1 && isPublicName e.2 && !ts.contains e.1 &&
      tbl.any (fun a => a.typ == e.1)).map (·.1)).eraseDups

def typesVerdict (tbl : List Access) (entries : List (String × String)) (ts : List String) : Option String :=
  match uncoveredTypes tbl entries ts with
  | [] => none
  | l => some s!"types with public entries in the regenerated access table that the race matrix does not cover: {l}"

end Ekit.Races
