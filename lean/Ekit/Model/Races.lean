import Ekit.Conc.AccessTable
import Ekit.Generated.AccessTable
/-!
Model side of C15: what is hand-written about the regenerated access table, and the functions the
driver executes on it.

* `expectedAliases` — the alias facts syntax cannot see at the use site (`cond.l` IS the queue's mutex),
  written by hand and compared (`c15_aliases`) with what the extractor derives from the constructors.
* `pairVerdict` / `stressVerdict` — the static verdict on a method pair / a whole type, in terms of
  `pairOk` / `compatible` over the regenerated table (`Ekit.Gen.AccessTable.accessTable`), with the first
  conflicting pair of rows spelled out for the message.
-/
namespace Ekit.Races
open Ekit.Conc.AccessTable

def expectedAliases : List (String × String × String) := [
  ("ConcurrentLinkedBlockingQueue", "notEmpty.l", "mutex"),
  ("ConcurrentLinkedBlockingQueue", "notFull.l", "mutex"),
  ("DelayQueue", "dequeueSignal.l", "mutex"),
  ("DelayQueue", "enqueueSignal.l", "mutex")
]

def describe (a : Access) : String :=
  let k := (if a.write then "write" else "read") ++ (if a.atomic then "(atomic)" else "")
  s!"{a.method}:{k}:{a.field}"

/-- first pair of conflicting rows of two calls, if any -/
def firstConflict (tbl : List Access) (typ m₁ m₂ : String) : Option (Access × Access) :=
  (rowsOfCall tbl typ m₁).findSome? fun a =>
    ((rowsOfCall tbl typ m₂).find? fun b => !compatible a b).map fun b => (a, b)

/-- `none` = the table declares the pair conflict-free and knows both methods -/
def pairVerdict (tbl : List Access) (entries : List (String × String)) (typ m₁ m₂ : String) : Option String :=
  if !hasEntry entries typ m₁ then some s!"{typ}.{m₁} is not an entry of the regenerated access table"
  else if !hasEntry entries typ m₂ then some s!"{typ}.{m₂} is not an entry of the regenerated access table"
  else if pairOk tbl typ m₁ m₂ then none
  else match firstConflict tbl typ m₁ m₂ with
    | some (a, b) => some s!"the regenerated access table has unprotected conflicting accesses: {describe a} vs {describe b}"
    | none => some "the regenerated access table has unprotected conflicting accesses"

def typeRows (tbl : List Access) (typ : String) : List Access := tbl.filter fun a => a.typ == typ

def stressVerdict (tbl : List Access) (typ : String) : Option String :=
  let rows := typeRows tbl typ
  if rows.isEmpty then some s!"{typ} has no rows in the regenerated access table"
  else match rows.findSome? fun a => (rows.find? fun b => !compatible a b).map fun b => (a, b) with
    | some (a, b) => some s!"the regenerated access table has unprotected conflicting accesses: {describe a} vs {describe b}"
    | none => none

end Ekit.Races
