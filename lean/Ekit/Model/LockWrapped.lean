/-
C06 — the generic model of a container whose every method runs inside a critical section of one
`sync.RWMutex` / `sync.Mutex` around a sequential data structure:

* `queue/concurrent_priority_queue.go`  (`RLock` for `Len/Cap/Peek`, `Lock` for `Enqueue/Dequeue`)
* `list/concurrent_list.go`             (`RLock` for `Get/Len/Cap/Range/AsSlice`, `Lock` for the writers)
* `list/copy_on_write_array_list.go`    (one `Mutex`; writers build a private copy and publish it with a
                                         single store; readers `snapshot()` under the mutex and read the
                                         immutable snapshot after unlocking)

Assumed semantics of `sync.RWMutex` (a definition, trusted): writer flag `w`, reader count `rc`;
`Lock` is enabled iff `¬w ∧ rc = 0`, `RLock` iff `¬w`; `Unlock` clears `w`, `RUnlock` decrements `rc`.
A `sync.Mutex` is an RWMutex on which only `Lock/Unlock` are used.

The sequential body `f : S → Op → S × Ret` is **not** one atomic step: a body first *reads* the
protected data (step `begin`, recording what it saw) and later *writes* its result (step `finish`,
computed from what it saw).  An in-place writer (`Style.inplaceW`: ArrayList shifting elements, the
heap sifting) leaves the data inconsistent in between (`dirty`); a body that starts reading while
the data are dirty has a torn read — the thread goes to `crash`.  So the lock matters: without
mutual exclusion a second writer would overwrite with a result computed from stale data (lost
update), and a reader could observe a half-done update; the invariants below are exactly what the
mutex gives, and the simulation uses them.
-/
import Ekit.Model.LinzSpec

namespace Ekit.Linz.LockWrapped
open Ekit.Conc Ekit.Linz

/-- how a method uses the lock -/
inductive Style where
  | inplaceW   -- Lock;  mutate the structure in place;                         Unlock
  | sharedR    -- RLock; read;                                                 RUnlock
  | cowW       -- Lock;  read the published array, build a copy, publish it;   Unlock   (also: copy out under the lock)
  | cowR       -- Lock;  read the published array (snapshot); Unlock; compute the answer from the snapshot
  deriving Repr, DecidableEq

def Style.shared : Style → Bool
  | .sharedR => true
  | _ => false
def Style.dirties : Style → Bool
  | .inplaceW => true
  | _ => false
def Style.readOnly : Style → Bool
  | .sharedR => true
  | .cowR => true
  | _ => false
def Style.late : Style → Bool
  | .cowR => true
  | _ => false

structure Params (S Op Ret : Type) where
  init : S
  f : S → Op → S × Ret
  style : Op → Style

inductive Pc (S Op Ret : Type) where
  | idle
  | want (op : Op)                 -- about to Lock / RLock
  | held (op : Op)                 -- lock acquired, about to read the data
  | mid (op : Op) (sn : S)         -- has read `sn`, result not yet written / computed
  | fin (op : Op) (r : Ret)        -- body done, about to Unlock / RUnlock (deferred)
  | out (op : Op) (sn : S)         -- (cowR) unlocked, about to compute the answer from the snapshot
  | ret (r : Ret)
  | crash                          -- torn read
  deriving DecidableEq

structure St (S Op Ret : Type) where
  data : S
  dirty : Bool
  w : Bool
  rc : Nat
  pc : Nat → Pc S Op Ret

variable {S Op Ret : Type}

def St.set (s : St S Op Ret) (t : Nat) (p : Pc S Op Ret) : St S Op Ret := { s with pc := upd s.pc t p }

def step [DecidableEq Ret] (P : Params S Op Ret) (s : St S Op Ret) : Lbl Op Ret → Option (St S Op Ret)
  | .call t op =>
    match s.pc t with
    | .idle => some (s.set t (.want op))
    | _ => none
  | .tau t =>
    match s.pc t with
    | .want op =>
      if (P.style op).shared then
        -- RLock
        if s.w then none else some { s with rc := s.rc + 1, pc := upd s.pc t (.held op) }
      else
        -- Lock
        if s.w || s.rc != 0 then none else some { s with w := true, pc := upd s.pc t (.held op) }
    | .held op =>
      -- begin: read the protected data
      if s.dirty then some (s.set t .crash)
      else some { s with dirty := (P.style op).dirties, pc := upd s.pc t (.mid op s.data) }
    | .mid op sn =>
      if (P.style op).late then
        -- snapshot taken: Unlock, the answer is computed outside
        some { s with w := false, pc := upd s.pc t (.out op sn) }
      else if (P.style op).readOnly then
        some (s.set t (.fin op (P.f sn op).2))
      else
        -- finish: write the result computed from what was read
        some { s with data := (P.f sn op).1, dirty := if (P.style op).dirties then false else s.dirty,
                      pc := upd s.pc t (.fin op (P.f sn op).2) }
    | .fin op r =>
      if (P.style op).shared then some { s with rc := s.rc - 1, pc := upd s.pc t (.ret r) }
      else some { s with w := false, pc := upd s.pc t (.ret r) }
    | .out op sn => some (s.set t (.ret (P.f sn op).2))
    | _ => none
  | .ret t r =>
    match s.pc t with
    | .ret r' => if r = r' then some (s.set t .idle) else none
    | _ => none

def sys [DecidableEq Ret] (P : Params S Op Ret) : ObjSystem (St S Op Ret) (Lbl Op Ret) Op Ret where
  init := ⟨P.init, false, false, 0, fun _ => .idle⟩
  step := step P
  obs := Lbl.obs

/-- which lock a thread holds: `some true` = shared, `some false` = exclusive -/
def lockOf (P : Params S Op Ret) : Pc S Op Ret → Option Bool
  | .held op => some (P.style op).shared
  | .mid op _ => some (P.style op).shared
  | .fin op _ => some (P.style op).shared
  | _ => none

/-- what the mutex guarantees, plus: a thread between `begin` and `finish` has seen the current data;
    data are dirty only while an in-place writer is between `begin` and `finish`; nobody has a torn read -/
structure Inv (P : Params S Op Ret) (s : St S Op Ret) : Prop where
  wr : s.w = true → s.rc = 0
  exW : ∀ t, lockOf P (s.pc t) = some false → s.w = true
  exU : ∀ t u, lockOf P (s.pc t) = some false → lockOf P (s.pc u) = some false → t = u
  rd : ∃ rs : List Nat, rs.Nodup ∧ rs.length = s.rc ∧ ∀ t, t ∈ rs ↔ lockOf P (s.pc t) = some true
  snap : ∀ t op sn, s.pc t = .mid op sn → sn = s.data
  dirt : s.dirty = true → ∃ t op sn, s.pc t = .mid op sn ∧ (P.style op).dirties = true
  nocrash : ∀ t, s.pc t ≠ .crash

/-- status of a thread in the canonical automaton: a read-only body takes effect when it reads
    (`begin`), a writer when it writes (`finish`). -/
def expect (P : Params S Op Ret) : Pc S Op Ret → TStatus Op Ret
  | .idle => .idle
  | .want op => .pending op
  | .held op => .pending op
  | .mid op sn => if (P.style op).readOnly then .done (P.f sn op).2 else .pending op
  | .fin _ r => .done r
  | .out op sn => .done (P.f sn op).2
  | .ret r => .done r
  | .crash => .idle

def Rel {A : Type} (P : Params S Op Ret) (abs : S → A) (s : St S Op Ret) (a : AState A Op Ret) : Prop :=
  a.s = abs s.data ∧ ∀ t, a.th t = expect P (s.pc t)

end Ekit.Linz.LockWrapped
