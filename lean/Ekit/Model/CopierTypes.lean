/-
Deep embedding of the Go types and values that bean/copier manipulates through `reflect`
(C20).  Only what the copier can observe is kept:

* `Ty`   – a Go type as a finite tree: predeclared kinds, defined (named) types with an identity,
           slice/array/map/chan/func/interface/unsafe.Pointer, `ptr`, and `struct` with its fields
           `(name, exported, type)` in declaration order.  Type identity (`reflect.Type ==`) is
           structural equality of these trees: a defined type is identified by its `id` (the
           harness numbers every defined type it meets; same id ⇒ same declaration).
           `time.Time` is the defined struct type `timeTy` (three unexported fields).
           Recursive declarations (`type N struct{ Next *N }`) are *not* finite trees and are outside
           this family — see the note at `Ty.depth`.
* `Val`  – a Go value: scalars, `nil`, a non-nil pointer, a non-nil slice/map (`seq`), an array, a
           struct (one value per field), an opaque non-nil chan/func/interface value.
* the partial `reflect` operations used by the copier (`Kind`, `Elem`, `NumField`/`Field`,
  `IsZero`, `CanSet`, `New`), partial here as they are in Go.
-/
import Ekit.Go.Basic

namespace Ekit.Copier
open Ekit.Go

/-- the predeclared basic kinds (everything `isShadowCopyType` lists below `String`) -/
inductive BKind where
  | bool | int | int8 | int16 | int32 | int64
  | uint | uint8 | uint16 | uint32 | uint64 | uintptr
  | float32 | float64 | complex64 | complex128 | string
  deriving DecidableEq, Repr, Inhabited

inductive Ty where
  | basic (k : BKind)
  | named (id : Nat) (u : Ty)       -- `type T u` (defined type, identity = id)
  | slice (e : Ty)
  | arr (n : Nat) (e : Ty)
  | map (k v : Ty)
  | chan (e : Ty)
  | func (id : Nat)                 -- signature abstracted to an identity
  | iface (id : Nat)                -- method set abstracted to an identity
  | uptr                            -- unsafe.Pointer
  | ptr (e : Ty)
  | struct (fs : List (String × Bool × Ty))   -- (name, exported, type)
  deriving Repr, Inhabited

abbrev Field := String × Bool × Ty
@[reducible] def fname (f : Field) : String := f.1
@[reducible] def fexp (f : Field) : Bool := f.2.1
@[reducible] def fty (f : Field) : Ty := f.2.2

/-- reflect.Kind -/
inductive Kind where
  | basic (k : BKind) | slice | arr | map | chan | func | iface | uptr | ptr | struct
  deriving DecidableEq, Repr, Inhabited

inductive Val where
  | bool (b : Bool)
  | int (n : Int)          -- every integer kind; floats/complex with integral value
  | str (s : String)
  | nil                    -- nil pointer / slice / map / chan / func / interface
  | ptr (v : Val)          -- non-nil pointer
  | seq (vs : List Val)    -- non-nil slice; non-nil map (sorted, flattened key/value pairs)
  | arr (vs : List Val)
  | struct (fs : List Val)
  | opaque (id : Nat)      -- non-nil chan / func / interface / unsafe pointer: identity only
  deriving Repr, Inhabited

/-! ### decidable equality (the deriving handler does not do nested inductives) -/

mutual
def Ty.beq : Ty → Ty → Bool
  | .basic a, .basic b => a == b
  | .named i u, .named j v => i == j && Ty.beq u v
  | .slice a, .slice b => Ty.beq a b
  | .arr n a, .arr m b => n == m && Ty.beq a b
  | .map a c, .map b d => Ty.beq a b && Ty.beq c d
  | .chan a, .chan b => Ty.beq a b
  | .func i, .func j => i == j
  | .iface i, .iface j => i == j
  | .uptr, .uptr => true
  | .ptr a, .ptr b => Ty.beq a b
  | .struct a, .struct b => Ty.beqFields a b
  | _, _ => false
def Ty.beqFields : List (String × Bool × Ty) → List (String × Bool × Ty) → Bool
  | [], [] => true
  | (n, e, t) :: r, (n', e', t') :: r' => n == n' && e == e' && Ty.beq t t' && Ty.beqFields r r'
  | _, _ => false
end

mutual
theorem Ty.beq_eq : ∀ a b : Ty, Ty.beq a b = true → a = b
  | .basic a, b, h => by cases b <;> simp [Ty.beq] at h; simp [h]
  | .named i u, b, h => by
      cases b <;> simp [Ty.beq] at h
      rename_i j v; simp [h.1, Ty.beq_eq u v h.2]
  | .slice a, b, h => by
      cases b <;> simp [Ty.beq] at h
      rename_i b; simp [Ty.beq_eq a b h]
  | .arr n a, b, h => by
      cases b <;> simp [Ty.beq] at h
      rename_i m b; simp [h.1, Ty.beq_eq a b h.2]
  | .map a c, b, h => by
      cases b <;> simp [Ty.beq] at h
      rename_i b d; simp [Ty.beq_eq a b h.1, Ty.beq_eq c d h.2]
  | .chan a, b, h => by
      cases b <;> simp [Ty.beq] at h
      rename_i b; simp [Ty.beq_eq a b h]
  | .func i, b, h => by cases b <;> simp [Ty.beq] at h; simp [h]
  | .iface i, b, h => by cases b <;> simp [Ty.beq] at h; simp [h]
  | .uptr, b, h => by cases b <;> simp [Ty.beq] at h; rfl
  | .ptr a, b, h => by
      cases b <;> simp [Ty.beq] at h
      rename_i b; simp [Ty.beq_eq a b h]
  | .struct a, b, h => by
      cases b <;> simp [Ty.beq] at h
      rename_i b; simp [Ty.beqFields_eq a b h]
theorem Ty.beqFields_eq : ∀ a b : List (String × Bool × Ty), Ty.beqFields a b = true → a = b
  | [], [], _ => rfl
  | (n, e, t) :: r, (n', e', t') :: r', h => by
      simp [Ty.beqFields] at h
      obtain ⟨⟨⟨h1, h2⟩, h3⟩, h4⟩ := h
      simp [h1, h2, Ty.beq_eq t t' h3, Ty.beqFields_eq r r' h4]
  | [], _ :: _, h => by simp [Ty.beqFields] at h
  | _ :: _, [], h => by simp [Ty.beqFields] at h
end

mutual
theorem Ty.beq_refl : ∀ a : Ty, Ty.beq a a = true
  | .basic a => by simp [Ty.beq]
  | .named i u => by simp [Ty.beq, Ty.beq_refl u]
  | .slice a => by simp [Ty.beq, Ty.beq_refl a]
  | .arr n a => by simp [Ty.beq, Ty.beq_refl a]
  | .map a c => by simp [Ty.beq, Ty.beq_refl a, Ty.beq_refl c]
  | .chan a => by simp [Ty.beq, Ty.beq_refl a]
  | .func i => by simp [Ty.beq]
  | .iface i => by simp [Ty.beq]
  | .uptr => by simp [Ty.beq]
  | .ptr a => by simp [Ty.beq, Ty.beq_refl a]
  | .struct a => by simp [Ty.beq, Ty.beqFields_refl a]
theorem Ty.beqFields_refl : ∀ a : List (String × Bool × Ty), Ty.beqFields a a = true
  | [] => rfl
  | (n, e, t) :: r => by simp [Ty.beqFields, Ty.beq_refl t, Ty.beqFields_refl r]
end

instance : DecidableEq Ty := fun a b =>
  if h : Ty.beq a b = true then isTrue (Ty.beq_eq a b h)
  else isFalse (fun e => h (e ▸ Ty.beq_refl a))

mutual
def Val.beq : Val → Val → Bool
  | .bool a, .bool b => a == b
  | .int a, .int b => a == b
  | .str a, .str b => a == b
  | .nil, .nil => true
  | .ptr a, .ptr b => Val.beq a b
  | .seq a, .seq b => Val.beqList a b
  | .arr a, .arr b => Val.beqList a b
  | .struct a, .struct b => Val.beqList a b
  | .opaque a, .opaque b => a == b
  | _, _ => false
def Val.beqList : List Val → List Val → Bool
  | [], [] => true
  | a :: r, b :: r' => Val.beq a b && Val.beqList r r'
  | _, _ => false
end

mutual
theorem Val.beq_eq : ∀ a b : Val, Val.beq a b = true → a = b
  | .bool a, b, h => by cases b <;> simp [Val.beq] at h; simp [h]
  | .int a, b, h => by cases b <;> simp [Val.beq] at h; simp [h]
  | .str a, b, h => by cases b <;> simp [Val.beq] at h; simp [h]
  | .nil, b, h => by cases b <;> simp [Val.beq] at h; rfl
  | .opaque a, b, h => by cases b <;> simp [Val.beq] at h; simp [h]
  | .ptr a, b, h => by
      cases b <;> simp [Val.beq] at h
      rename_i b; simp [Val.beq_eq a b h]
  | .seq a, b, h => by
      cases b <;> simp [Val.beq] at h
      rename_i b; simp [Val.beqList_eq a b h]
  | .arr a, b, h => by
      cases b <;> simp [Val.beq] at h
      rename_i b; simp [Val.beqList_eq a b h]
  | .struct a, b, h => by
      cases b <;> simp [Val.beq] at h
      rename_i b; simp [Val.beqList_eq a b h]
theorem Val.beqList_eq : ∀ a b : List Val, Val.beqList a b = true → a = b
  | [], [], _ => rfl
  | a :: r, b :: r', h => by
      simp [Val.beqList] at h
      simp [Val.beq_eq a b h.1, Val.beqList_eq r r' h.2]
  | [], _ :: _, h => by simp [Val.beqList] at h
  | _ :: _, [], h => by simp [Val.beqList] at h
end

mutual
theorem Val.beq_refl : ∀ a : Val, Val.beq a a = true
  | .bool a => by simp [Val.beq]
  | .int a => by simp [Val.beq]
  | .str a => by simp [Val.beq]
  | .nil => by simp [Val.beq]
  | .opaque a => by simp [Val.beq]
  | .ptr a => by simp [Val.beq, Val.beq_refl a]
  | .seq a => by simp [Val.beq, Val.beqList_refl a]
  | .arr a => by simp [Val.beq, Val.beqList_refl a]
  | .struct a => by simp [Val.beq, Val.beqList_refl a]
theorem Val.beqList_refl : ∀ a : List Val, Val.beqList a a = true
  | [] => rfl
  | a :: r => by simp [Val.beqList, Val.beq_refl a, Val.beqList_refl r]
end

instance : DecidableEq Val := fun a b =>
  if h : Val.beq a b = true then isTrue (Val.beq_eq a b h)
  else isFalse (fun e => h (e ▸ Val.beq_refl a))

/-! ### reflect.Type operations -/

/-- `Type.Kind()` (a defined type has the kind of its underlying type) -/
def Ty.kind : Ty → Kind
  | .basic k => .basic k
  | .named _ u => u.kind
  | .slice _ => .slice
  | .arr _ _ => .arr
  | .map _ _ => .map
  | .chan _ => .chan
  | .func _ => .func
  | .iface _ => .iface
  | .uptr => .uptr
  | .ptr _ => .ptr
  | .struct _ => .struct

/-- the fields of a struct-kinded type; `none` is where `NumField`/`Field` panic -/
def Ty.fields? : Ty → Option (List Field)
  | .named _ u => u.fields?
  | .struct fs => some fs
  | _ => none

/-- `Type.Elem()` of a pointer-kinded type; `none` for every other kind (the copier only calls it
    after testing `Kind() == Pointer`; on a non-pointer, non-container kind Go panics) -/
def Ty.ptrElem? : Ty → Option Ty
  | .named _ u => u.ptrElem?
  | .ptr e => some e
  | _ => none

/-- `if t.Kind() == reflect.Pointer { t = t.Elem() }` -/
def Ty.stripPtr (t : Ty) : Ty :=
  match t.ptrElem? with
  | some e => e
  | none => t

/-- `t.Kind() == reflect.Pointer && t.Elem().Kind() == reflect.Pointer` -/
def Ty.isMultiPtr (t : Ty) : Bool :=
  match t.ptrElem? with
  | some e => e.kind == .ptr
  | none => false

/- Nesting depth of struct declarations reachable through fields, defined types and pointers —
    the recursion depth of `createFieldNodes`/`copyStruct`.  It is finite because `Ty` is a finite
    tree; for a recursive Go declaration the real recursion does not terminate (the constructor
    overflows the stack), which is why such declarations are outside this family. -/
mutual
def Ty.depth : Ty → Nat
  | .named _ u => u.depth
  | .ptr e => e.depth
  | .struct fs => Ty.depthFields fs + 1
  | _ => 0
def Ty.depthFields : List (String × Bool × Ty) → Nat
  | [] => 0
  | (_, _, t) :: r => max t.depth (Ty.depthFields r)
end

/-- the kinds `isShadowCopyType` accepts (bean/copier/reflect_copier.go) -/
def isShadowCopyType : Kind → Bool
  | .basic _ => true
  | .slice => true
  | .map => true
  | .chan => true
  | .arr => true
  | _ => false

def BKind.render : BKind → String
  | .bool => "bool" | .int => "int" | .int8 => "int8" | .int16 => "int16" | .int32 => "int32"
  | .int64 => "int64" | .uint => "uint" | .uint8 => "uint8" | .uint16 => "uint16"
  | .uint32 => "uint32" | .uint64 => "uint64" | .uintptr => "uintptr" | .float32 => "float32"
  | .float64 => "float64" | .complex64 => "complex64" | .complex128 => "complex128"
  | .string => "string"

/-- `Kind.String()` -/
def Kind.render : Kind → String
  | .basic k => k.render
  | .slice => "slice" | .arr => "array" | .map => "map" | .chan => "chan" | .func => "func"
  | .iface => "interface" | .uptr => "unsaf" ++ "e.Pointer" | .ptr => "ptr" | .struct => "struct"

/-- `time.Time`: a defined struct type with three unexported fields (wall uint64, ext int64,
    loc *Location).  Defined-type id 0 is reserved for it, id 1 for `time.Location`. -/
def timeTy : Ty :=
  .named 0 (.struct [("wall", false, .basic .uint64), ("ext", false, .basic .int64),
                     ("loc", false, .ptr (.named 1 (.struct [])))])

/-- `defaultAtomicTypes` -/
def defaultAtomics : List Ty := [timeTy]

/-! ### reflect.Value operations -/

/- `Value.IsZero()` -/
mutual
def Val.isZero : Val → Bool
  | .bool b => !b
  | .int n => n == 0
  | .str s => s == ""
  | .nil => true
  | .ptr _ => false
  | .seq _ => false
  | .arr vs => Val.allZero vs
  | .struct vs => Val.allZero vs
  | .opaque _ => false
def Val.allZero : List Val → Bool
  | [] => true
  | v :: r => v.isZero && Val.allZero r
end

/-- `Value.Field(i)`; `none` where Go panics (not a struct, index out of range) -/
def Val.field? : Val → Nat → Option Val
  | .struct fs, i => fs[i]?
  | _, _ => none

/-- the struct value with field `i` replaced (what `Value.Field(i).Set(x)` does to the struct) -/
def Val.setField : Val → Nat → Val → Val
  | .struct fs, i, x => .struct (fs.set i x)
  | v, _, _ => v

/- the zero value of a type (`reflect.New(t).Elem()`, `new(T)`) -/
mutual
def zeroOf : Ty → Val
  | .basic .bool => .bool false
  | .basic .string => .str ""
  | .basic _ => .int 0
  | .named _ u => zeroOf u
  | .arr n e => .arr (List.replicate n (zeroOf e))
  | .struct fs => .struct (zeroFields fs)
  | _ => .nil
def zeroFields : List (String × Bool × Ty) → List Val
  | [] => []
  | (_, _, t) :: r => zeroOf t :: zeroFields r
end

def wtBasic : BKind → Val → Bool
  | .bool, .bool _ => true
  | .string, .str _ => true
  | .bool, _ => false
  | .string, _ => false
  | _, .int _ => true
  | _, _ => false

/- Well-typedness of a value, as deep as the copier can look: structs field by field, pointers
    through one dereference, everything else by its outer shape (elements of slices, arrays and maps
    are never inspected by the copier). Go's type system guarantees it for every value the copier
    is handed. -/
mutual
def wt : Ty → Val → Bool
  | .basic k, v => wtBasic k v
  | .named _ u, v => wt u v
  | .slice _, .nil => true
  | .slice _, .seq _ => true
  | .map _ _, .nil => true
  | .map _ _, .seq _ => true
  | .arr n _, .arr vs => vs.length == n
  | .chan _, .nil => true
  | .chan _, .opaque _ => true
  | .func _, .nil => true
  | .func _, .opaque _ => true
  | .iface _, .nil => true
  | .iface _, .opaque _ => true
  | .uptr, .nil => true
  | .uptr, .opaque _ => true
  | .ptr _, .nil => true
  | .ptr e, .ptr v => wt e v
  | .struct fs, .struct vs => wtFields fs vs
  | _, _ => false
def wtFields : List (String × Bool × Ty) → List Val → Bool
  | [], [] => true
  | (_, _, t) :: r, v :: vs => wt t v && wtFields r vs
  | _, _ => false
end

/-- addressability / read-only flags of a `reflect.Value` -/
structure Flags where
  addr : Bool
  ro : Bool
  deriving DecidableEq, Repr, Inhabited

/-- `Value.CanSet()` -/
def Flags.canSet (f : Flags) : Bool := f.addr && !f.ro
/-- flags of `v.Field(i)` -/
def Flags.field (f : Flags) (exported : Bool) : Flags := { addr := f.addr, ro := f.ro || !exported }
/-- flags of `v.Elem()` for a pointer `v` -/
def Flags.elem (f : Flags) : Flags := { addr := true, ro := f.ro }

end Ekit.Copier
