/-
Model of syncx.SegmentKeysLock (syncx/segment_key_lock.go).

    type SegmentKeysLock struct { locks []*sync.RWMutex; size uint32 }
    func NewSegmentKeysLock(size uint32) *SegmentKeysLock     -- `size` fresh RWMutexes
    func (s *SegmentKeysLock) hash(key string) uint32 {       -- hash/fnv New32a over []byte(key)
        h := fnv.New32a(); h.Write([]byte(key)); return h.Sum32() }
    func (s *SegmentKeysLock) getLock(key string) *sync.RWMutex {
        hash := s.hash(key); return s.locks[hash%s.size] }     -- `% 0` panics (size = 0)
    Lock/Unlock/RLock/RUnlock/TryLock/TryRLock(key) = the same method of getLock(key)

* A key is its byte contents (`List UInt8`): a Go string value *is* its bytes, whatever allocation
  holds them, and the code only ever looks at `[]byte(key)`.
* FNV-1a 32 exactly as hash/fnv: offset basis 2166136261, per byte `h ^= b; h *= 16777619` in
  uint32 arithmetic (`BitVec 32`).
* sync.RWMutex is the assumed primitive: abstract state "writer held? / number of readers"
  (exactly what Go keeps — no owner is recorded).  `Lock`/`RLock` block = the label is not enabled;
  `TryLock`/`TryRLock` return `false` instead.  Go's writer preference (a *waiting* `Lock` makes
  `RLock` wait and `TryRLock` fail) only removes behaviours from / adds spurious `TryRLock`
  failures to the ones modelled here: `RLock` is enabled whenever no writer holds the lock, and
  `TryRLock` may answer `false` while readers hold it.
* Each method is one atomic step on the RWMutex (`getLock` only reads the immutable fields `locks`
  and `size` and hashes its argument), so the per-thread state is simply the set of locks the
  thread holds: `held` records which thread acquired which key in which mode.  Client protocol:
  a thread only unlocks what it holds (Go makes anything else a fatal error or a hand-off the
  property does not speak about).
-/
import Ekit.Conc.Basic

namespace Ekit.SegmentLock
open Ekit.Conc

abbrev Key := List UInt8

def fnvOffset32 : BitVec 32 := 2166136261#32
def fnvPrime32 : BitVec 32 := 16777619#32

/-- one `Write` byte of fnv.sum32a: `hash ^= uint32(c); hash *= prime32` -/
def fnvByte (h : BitVec 32) (b : UInt8) : BitVec 32 := (h ^^^ BitVec.ofNat 32 b.toNat) * fnvPrime32

/-- `SegmentKeysLock.hash`: FNV-1a over the bytes of the key -/
def fnv1a32 (k : Key) : BitVec 32 := k.foldl fnvByte fnvOffset32

/-- the segment a key maps to when `size ≠ 0` (`hash % s.size` in uint32) -/
def seg (size : BitVec 32) (k : Key) : Nat := (fnv1a32 k % size).toNat

/-- `getLock`'s index computation; `none` = "integer divide by zero" panic -/
def idx (size : BitVec 32) (k : Key) : Option Nat := if size = 0#32 then none else some (seg size k)

/-- abstract state of one sync.RWMutex -/
structure RW where
  writer : Bool
  readers : Nat
  deriving DecidableEq, Repr, Inhabited

def RW.free (rw : RW) : Bool := !rw.writer && rw.readers == 0

/-- thread `tid` holds the lock of `key` (write mode iff `write`) -/
structure Hold where
  tid : Tid
  key : Key
  write : Bool
  deriving DecidableEq, Repr, Inhabited

inductive Op where
  | lock (k : Key)
  | unlock (k : Key)
  | rlock (k : Key)
  | runlock (k : Key)
  | tryLock (k : Key) (res : Bool)     -- `res` = the value the call returns
  | tryRLock (k : Key) (res : Bool)
  deriving DecidableEq, Repr, Inhabited

def Op.key : Op → Key
  | .lock k | .unlock k | .rlock k | .runlock k | .tryLock k _ | .tryRLock k _ => k

structure Label where
  tid : Tid
  op : Op
  deriving DecidableEq, Repr, Inhabited

structure State where
  locks : List RW
  held : List Hold
  deriving DecidableEq, Repr, Inhabited

/-- NewSegmentKeysLock(size) -/
def init (size : BitVec 32) : State := { locks := List.replicate size.toNat ⟨false, 0⟩, held := [] }

def acquireW (s : State) (i : Nat) (t : Tid) (k : Key) : State :=
  { locks := s.locks.set i ⟨true, 0⟩, held := ⟨t, k, true⟩ :: s.held }

def acquireR (s : State) (i : Nat) (rw : RW) (t : Tid) (k : Key) : State :=
  { locks := s.locks.set i { rw with readers := rw.readers + 1 }, held := ⟨t, k, false⟩ :: s.held }

/-- one method call of one thread on the lock selected by `getLock(key)`.
    `none`: the call cannot return now (blocked), would be a Go fatal error (unlock of an unlocked
    mutex), violates the client protocol, returns the other boolean, or panics (`size = 0`). -/
def step (size : BitVec 32) (s : State) (l : Label) : Option State :=
  let t := l.tid
  let k := l.op.key
  match idx size k with
  | none => none                                   -- panic: integer divide by zero
  | some i =>
    match s.locks[i]? with
    | none => none                                 -- index out of range (cannot happen: i < size)
    | some rw =>
      match l.op with
      | .lock _ => if rw.free then some (acquireW s i t k) else none
      | .rlock _ => if !rw.writer then some (acquireR s i rw t k) else none
      | .tryLock _ res =>
        if res then (if rw.free then some (acquireW s i t k) else none)
        else (if rw.free then none else some s)
      | .tryRLock _ res =>
        if res then (if !rw.writer then some (acquireR s i rw t k) else none)
        else (if rw.writer || rw.readers > 0 then some s else none)
      | .unlock _ =>
        if ⟨t, k, true⟩ ∈ s.held then
          (if rw.writer then some { locks := s.locks.set i { rw with writer := false }, held := s.held.erase ⟨t, k, true⟩ }
           else none)                              -- fatal error: Unlock of unlocked RWMutex
        else none
      | .runlock _ =>
        if ⟨t, k, false⟩ ∈ s.held then
          (if rw.readers > 0 then some { locks := s.locks.set i { rw with readers := rw.readers - 1 }, held := s.held.erase ⟨t, k, false⟩ }
           else none)                              -- fatal error: RUnlock of unlocked RWMutex
        else none

def sys (size : BitVec 32) : System State Label := { init := init size, step := step size }

/-- number of write (resp. read) holds recorded on segment `i` -/
def wcount (size : BitVec 32) (held : List Hold) (i : Nat) : Nat :=
  held.countP fun h => h.write && seg size h.key == i
def rcount (size : BitVec 32) (held : List Hold) (i : Nat) : Nat :=
  held.countP fun h => !h.write && seg size h.key == i

/-! ### the abstract specification (driver `spec` mode): exclusion per key *contents*, no hashing.
Distinct keys may or may not share a lock (the property does not say), so a blocked/failed attempt
is only wrong when nothing at all is held. -/
namespace Spec

def conflicts (held : List Hold) (k : Key) (write : Bool) : Bool :=
  held.any fun h => h.key == k && (h.write || write)

/-- admissibility of an observed call and the next set of holds.
    `acquired`: did the call return having acquired the lock (`true`), or not (`false` =
    Try… returned false / the harness reported that the call would block) -/
def acquire (held : List Hold) (t : Tid) (k : Key) (write : Bool) (acquired : Bool) (isTryLock : Bool) :
    Option (List Hold) :=
  if acquired then (if conflicts held k write then none else some (⟨t, k, write⟩ :: held))
  else if isTryLock && held.isEmpty then none     -- "when nothing is held every TryLock succeeds"
  else some held

def release (held : List Hold) (t : Tid) (k : Key) (write : Bool) : Option (List Hold) :=
  if ⟨t, k, write⟩ ∈ held then some (held.erase ⟨t, k, write⟩) else none

end Spec

end Ekit.SegmentLock
