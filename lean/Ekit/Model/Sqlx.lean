/-
Executable model of ekit's SQL column codecs: sqlx/encrypt.go (`EncryptColumn[T]`) and
sqlx/json.go (`JsonColumn[T]`).

What is ekit code is modelled literally:
* the type switch of `Value` / `setValAfterDecrypt` (which Go type takes which arm),
* the per-arm serialisation over bytes (`string`/`[]byte` raw; the ten sized numeric types through
  `binary.Write(…, BigEndian, …)`; `int`/`uint` through a conversion to 64 bits; everything else JSON)
  and its inverse with `binary.Read`'s semantics: *fewer* bytes than the width is an error
  (`io.EOF` for none, `io.ErrUnexpectedEOF` for some), *extra* bytes are silently ignored,
* the framing `nonce(12) ++ sealed`, the nonce split with Go's partial slicing (a panic when the
  bounds are wrong) behind the length guard, the key-length tests, the `Valid` flag handling,
* `JsonColumn`'s NULL / src-type / `Valid` logic.

What is *not* ekit code is a parameter:
* AES-GCM is a structure `AEAD` (`seal`, `open`); its correctness (`open k n (seal k n p) = some p`)
  and its authenticity (`IdealAEAD`) are *hypotheses of theorems*, never axioms.
* `encoding/json` is a structure `JsonCodec J` (`marshal`, `unmarshal` into an existing value).
* the random nonce is an oracle argument of `value` (its freshness is `crypto/rand`'s).
-/
import Ekit.Go.Basic

namespace Ekit.Sqlx
open Ekit.Go

abbrev Bytes := List UInt8

/-! ### Big-endian byte strings (encoding/binary's `bigEndian.PutUintN` / `UintN`) -/

/-- `PutUint{8n}`: byte `i` (from the left) is `byte(v >> (8*(n-1-i)))`. -/
def beBytes : (n : Nat) → Nat → Bytes
  | 0, _ => []
  | k + 1, v => UInt8.ofNat (v / 256 ^ k) :: beBytes k v

/-- `Uint{8n}`: `b[0]<<(8(n-1)) | … | b[n-1]`, as the left fold it is. -/
def beNat (bs : Bytes) : Nat := bs.foldl (fun acc b => acc * 256 + b.toNat) 0

/-! ### Go types, switch arms, values -/

/-- the ten types of the `binary.Write` arm -/
inductive NumKind where
  | i8 | i16 | i32 | i64 | u8 | u16 | u32 | u64 | f32 | f64
  deriving DecidableEq, Repr, Inhabited

/-- width in bytes (`intDataSize`) -/
def NumKind.bytes : NumKind → Nat
  | .i8 | .u8 => 1
  | .i16 | .u16 => 2
  | .i32 | .u32 | .f32 => 4
  | .i64 | .u64 | .f64 => 8

abbrev NumKind.bits (k : NumKind) : Nat := 8 * k.bytes

def NumKind.signed : NumKind → Bool
  | .i8 | .i16 | .i32 | .i64 => true
  | _ => false

/-- the arms of the two type switches (`Value`: on the dynamic value; `setValAfterDecrypt`: on `*T`) -/
inductive Ty where
  | str                    -- case string
  | bytes                  -- case []byte
  | num (k : NumKind)      -- case int8, …, float64
  | int                    -- case int   (via int64)
  | uint                   -- case uint  (via uint64)
  | other                  -- default: json
  deriving DecidableEq, Repr, Inhabited

/-- the Go types the harness instantiates `T` with, and the arm each one takes -/
inductive GoType where
  | string | bytes | int8 | int16 | int32 | int64 | uint8 | uint16 | uint32 | uint64
  | int | uint | float32 | float64 | bool | struct | map | slice
  deriving DecidableEq, Repr, Inhabited

def GoType.arm : GoType → Ty
  | .string => .str
  | .bytes => .bytes
  | .int8 => .num .i8 | .int16 => .num .i16 | .int32 => .num .i32 | .int64 => .num .i64
  | .uint8 => .num .u8 | .uint16 => .num .u16 | .uint32 => .num .u32 | .uint64 => .num .u64
  | .float32 => .num .f32 | .float64 => .num .f64
  | .int => .int
  | .uint => .uint
  | .bool | .struct | .map | .slice => .other

/-- A value of `T`. Sized numbers are their bit patterns (two's complement for the signed ones,
    IEEE-754 bits for floats — `binary.Write` converts to the unsigned type of the same width /
    `math.Float{32,64}bits`); `int`/`uint` are 64 bits wide (amd64; see `c18_int_via_i64` for 32);
    `J` is the value space of a JSON-serialised type. -/
inductive Val (J : Type) where
  | str (s : Bytes)
  | bytes (b : Bytes)
  | num (k : NumKind) (v : BitVec k.bits)
  | int (v : BitVec 64)
  | uint (v : BitVec 64)
  | other (x : J)

def Val.ty {J} : Val J → Ty
  | .str _ => .str
  | .bytes _ => .bytes
  | .num k _ => .num k
  | .int _ => .int
  | .uint _ => .uint
  | .other _ => .other

/-- the zero value of `T` -/
def Val.zero {J} (zj : J) : Ty → Val J
  | .str => .str []
  | .bytes => .bytes []
  | .num k => .num k 0
  | .int => .int 0
  | .uint => .uint 0
  | .other => .other zj

/-! ### Parameters that are not ekit code -/

/-- crypto/cipher's AEAD (AES-GCM) as the code uses it: `Seal(nonce, nonce, data, nil)` appends
    `seal key nonce data` to the nonce; `Open(nil, nonce, ct, nil)`. -/
structure AEAD where
  sealAE : (key nonce pt : Bytes) → Bytes
  openAE : (key nonce ct : Bytes) → Option Bytes

/-- decryption inverts encryption (hypothesis of the round-trip theorems) -/
def AEAD.Correct (a : AEAD) : Prop := ∀ k n p, a.openAE k n (a.sealAE k n p) = some p

/-- **IdealAEAD** — ciphertext integrity, idealised: `Q` is the set of triples
    `(key, nonce, sealed)` that were genuinely produced by `seal`; nothing else opens.
    This is AES-GCM's authenticity; it is a cryptographic assumption, used only as an explicit
    hypothesis. -/
def IdealAEAD (a : AEAD) (Q : List (Bytes × Bytes × Bytes)) : Prop :=
  ∀ k n c, (k, n, c) ∉ Q → a.openAE k n c = none

/-- encoding/json for one Go type with value space `J`.
    `unmarshal prior bs` is `json.Unmarshal(bs, &v)` with `v = prior` beforehand: it returns what `v`
    holds afterwards (json merges into maps/structs and may leave partial updates on failure) and
    whether it succeeded. -/
structure JsonCodec (J : Type) where
  marshal : J → Option Bytes
  unmarshal : J → Bytes → J × Bool

/-- `x` is JSON-representable for a receiver currently holding `prior` -/
def JsonCodec.Representable {J} (c : JsonCodec J) (prior x : J) : Prop :=
  ∃ b, c.marshal x = some b ∧ c.unmarshal prior b = (x, true)

/-! ### Errors (canonical classes; the harness maps Go errors to the same tokens) -/

def eInvalid : Err := .other "invalid"        -- errInvalid
def eKeyLen : Err := .other "keylen"          -- errKeyLengthInvalid (Value's own test)
def eKeySize : Err := .other "keysize"        -- aes.KeySizeError (aes.NewCipher in aesEncrypt / aesDecrypt)
def eShort : Err := .other "short"            -- ciphertext shorter than the nonce (the fix)
def eAuth : Err := .other "auth"              -- gcm.Open failed
def eEOF : Err := .other "eof"                -- io.EOF
def eUEOF : Err := .other "ueof"              -- io.ErrUnexpectedEOF
def eSrcType : Err := .other "srctype"        -- unsupported src type
def eJson : Err := .other "json"              -- json.Marshal / json.Unmarshal error

/-! ### Serialisation (`Value`'s switch) and its inverse (`setValAfterDecrypt`) -/

/-- `len(e.Key) != 16 && len(e.Key) != 24 && len(e.Key) != 32` negated; also `aes.NewCipher`'s test -/
def keyLenOk (n : Nat) : Bool := n == 16 || n == 24 || n == 32

/-- `binary.Write(buffer, binary.BigEndian, v)` for a sized numeric -/
def encodeNum (k : NumKind) (v : BitVec k.bits) : Bytes := beBytes k.bytes v.toNat

/-- `int64(valT)` / `uint64(valT)` on a 64-bit platform -/
def intToI64 (v : BitVec 64) : BitVec 64 := v.signExtend 64
def i64ToInt (v : BitVec 64) : BitVec 64 := v.setWidth 64
def uintToU64 (v : BitVec 64) : BitVec 64 := v.setWidth 64
def u64ToUint (v : BitVec 64) : BitVec 64 := v.setWidth 64

/-- the plaintext `Value` hands to `aesEncrypt` -/
def serialize {J} (c : JsonCodec J) : Val J → Outcome Bytes
  | .str s => .ok s
  | .bytes b => .ok b
  | .num k v => .ok (encodeNum k v)
  | .int v => .ok (encodeNum .i64 (intToI64 v))
  | .uint v => .ok (encodeNum .u64 (uintToU64 v))
  | .other x => match c.marshal x with
    | some b => .ok b
    | none => .err eJson

/-- `binary.Read(bytes.NewReader(bs), BigEndian, &v)`: `io.ReadFull` of exactly `k.bytes` bytes —
    nothing there: `io.EOF`; some but not enough: `io.ErrUnexpectedEOF`; anything after the first
    `k.bytes` bytes is never looked at. -/
def decodeNum (k : NumKind) (bs : Bytes) : Outcome (BitVec k.bits) :=
  if bs.length = 0 then .err eEOF
  else if bs.length < k.bytes then .err eUEOF
  else .ok (BitVec.ofNat k.bits (beNat (bs.take k.bytes)))

/-- `setValAfterDecrypt` (the switch on `*T`, i.e. on the static type of the held value): the new
    `Val` and the returned error.  On a failed read the sized arms
    leave `*valT` alone, the `int`/`uint` arms store the zero `tmp`, and json leaves whatever
    `json.Unmarshal` left. -/
def deserialize {J} (c : JsonCodec J) (prior : Val J) (pt : Bytes) : Val J × Outcome Unit :=
  match prior with
  | .str _ => (.str pt, .ok ())
  | .bytes _ => (.bytes pt, .ok ())
  | .num k _ =>
    match decodeNum k pt with
    | .ok v => (.num k v, .ok ())
    | .err e => (prior, .err e)
    | .panic m => (prior, .panic m)
  | .int _ =>
    match decodeNum .i64 pt with
    | .ok v => (.int (i64ToInt v), .ok ())
    | .err e => (.int 0, .err e)
    | .panic m => (prior, .panic m)
  | .uint _ =>
    match decodeNum .u64 pt with
    | .ok v => (.uint (u64ToUint v), .ok ())
    | .err e => (.uint 0, .err e)
    | .panic m => (prior, .panic m)
  | .other x =>
    let r := c.unmarshal x pt
    (.other r.1, if r.2 then .ok () else .err eJson)

/-! ### Slicing (partial in Go) -/

/-- `data[:n]` — panics when `n > len(data)` (cap = len for the slices that reach here) -/
def sliceTo (d : Bytes) (n : Nat) : Outcome Bytes :=
  if n ≤ d.length then .ok (d.take n) else .panic "slice bounds out of range"

/-- `data[n:]` -/
def sliceFrom (d : Bytes) (n : Nat) : Outcome Bytes :=
  if n ≤ d.length then .ok (d.drop n) else .panic "slice bounds out of range"

def nonceSize : Nat := 12

/-! ### EncryptColumn -/

/-- `T` is static in Go: the arm `setValAfterDecrypt` takes is the arm of the value the column
    holds (`e.val.ty`). -/
structure Col (J : Type) where
  val : Val J
  valid : Bool
  key : Bytes

/-- what `database/sql` may hand to `Scan` -/
inductive Src where
  | bytes (b : Bytes)
  | str (b : Bytes)
  | null
  | other (tag : String)      -- int64, float64, bool, time.Time
  deriving DecidableEq, Repr, Inhabited

/-- `aesEncrypt`: `aes.NewCipher` rejects bad key sizes; nonce from `crypto/rand` (oracle, 12 bytes);
    `gcm.Seal(nonce, nonce, data, nil)`. -/
def aesEncrypt (a : AEAD) (key nonce data : Bytes) : Outcome Bytes :=
  if !keyLenOk key.length then .err eKeySize
  else .ok (nonce ++ a.sealAE key nonce data)

/-- `Value()` -/
def value {J} (a : AEAD) (c : JsonCodec J) (e : Col J) (nonce : Bytes) : Outcome Bytes :=
  if !e.valid then .err eInvalid
  else if !keyLenOk e.key.length then .err eKeyLen
  else match serialize c e.val with
    | .ok b => aesEncrypt a e.key nonce b
    | .err er => .err er
    | .panic m => .panic m

/-- `aesDecrypt` -/
def aesDecrypt (a : AEAD) (key data : Bytes) : Outcome Bytes :=
  if !keyLenOk key.length then .err eKeySize
  else if data.length < nonceSize then .err eShort
  else
    -- nonce, cipherData := data[:gcm.NonceSize()], data[gcm.NonceSize():]
    match sliceTo data nonceSize with
    | .panic m => .panic m
    | .err e => .err e
    | .ok nonce =>
      match sliceFrom data nonceSize with
      | .panic m => .panic m
      | .err e => .err e
      | .ok cipherData =>
        match a.openAE key nonce cipherData with
        | some p => .ok p
        | none => .err eAuth

/-- `Scan(src)`: the column afterwards and the returned error -/
def scan {J} (a : AEAD) (c : JsonCodec J) (e : Col J) (src : Src) : Col J × Outcome Unit :=
  let go (data : Bytes) : Col J × Outcome Unit :=
    match aesDecrypt a e.key data with
    | .ok pt =>
      let r := deserialize c e.val pt
      ({ e with val := r.1, valid := r.2.isOk }, r.2)
    | .err er => (e, .err er)
    | .panic m => (e, .panic m)
  match src with
  | .bytes b => go b
  | .str s => go s
  | _ => (e, .err eSrcType)

/-! ### JsonColumn -/

structure JCol (J : Type) where
  val : J
  valid : Bool

/-- `Value()`: `none` is SQL NULL (a nil `driver.Value`) -/
def JCol.value {J} (c : JsonCodec J) (j : JCol J) : Outcome (Option Bytes) :=
  if !j.valid then .ok none
  else match c.marshal j.val with
    | some b => .ok (some b)
    | none => .err eJson

/-- `Scan(src)` -/
def JCol.scan {J} (c : JsonCodec J) (j : JCol J) (src : Src) : JCol J × Outcome Unit :=
  let go (bs : Bytes) : JCol J × Outcome Unit :=
    let r := c.unmarshal j.val bs
    if r.2 then ({ val := r.1, valid := true }, .ok ()) else ({ j with val := r.1 }, .err eJson)
  match src with
  | .null => (j, .ok ())
  | .bytes b => go b
  | .str s => go s
  | .other _ => (j, .err eSrcType)

/-! ### Corruptions of a stored value (used by the theorems and by the driver) -/

/-- flip bit `i` (bit `i % 8` of byte `i / 8`) -/
def flipBit (bs : Bytes) (i : Nat) : Bytes :=
  bs.modify (i / 8) (fun b => b ^^^ ((1 : UInt8) <<< UInt8.ofNat (i % 8)))

/-! ### Abstract specification (what the property demands of one observed call) -/
namespace Spec

/-- what the property demands of a `Scan` -/
inductive Expect (J : Type) where
  | restores (v : Val J)     -- returns nil, `Val` equal to `v`, `Valid = true`
  | mustErr                  -- returns an error (in particular does not panic)
  | noPanic                  -- anything but a panic

/-- A genuine stored value: what `Value` returned, for which value and under which key. -/
structure Stored (J : Type) where
  key : Bytes
  ct : Bytes
  val : Val J

/-- The demand on `Scan(src)` with key `key`, given the genuine stored value (if any) it was
    derived from; `derived` says the harness obtained `src` from `stored.ct` (identity, bit flip,
    truncation, extension) rather than from its own encryption of an arbitrary plaintext;
    `representable` is the JSON codec's own verdict for JSON-serialised types. -/
def scanExpect {J} (key : Bytes) (src : Src) (stored : Option (Stored J)) (derived representable : Bool) :
    Expect J :=
  match src with
  | .null | .other _ => .mustErr
  | .bytes b | .str b =>
    if !keyLenOk key.length then .mustErr
    else match stored with
      | none => .noPanic
      | some s =>
        if !derived then .noPanic
        else if b = s.ct ∧ key = s.key then
          (if s.val.ty = .other ∧ !representable then .noPanic else .restores s.val)
        else .mustErr

/-- The demand on `JsonColumn.Scan(src)`: `restore = some x` when `src` is the unmodified output of
    `Value()` for `x` and encoding/json itself restores `x` from it into this receiver;
    `decOk` is encoding/json's own verdict on the bytes (malformed / wrongly typed input = false).
    A nil src is documented as a no-op. -/
def jsonScanExpect {J} (src : Src) (restore : Option J) (decOk : Bool) : Expect J :=
  match src with
  | .null => .noPanic
  | .other _ => .mustErr
  | .bytes _ | .str _ =>
    match restore with
    | some x => .restores (.other x)
    | none => if decOk then .noPanic else .mustErr

/-- The demand on `Value()`: an error when the column is invalid or the key length is not
    16/24/32; otherwise anything but a panic. -/
def valueMustErr (valid : Bool) (keyLen : Nat) : Bool := !valid || !keyLenOk keyLen

end Spec

end Ekit.Sqlx
