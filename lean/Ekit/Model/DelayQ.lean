/-
Model of /repo/queue/delay_queue.go (C08, and the DelayQueue share of C09).

A transition system (`Ekit.Conc.System`) whose labels are the atomic actions of the code:

* virtual clock `now : Nat` (`tick n` advances it), elements `(id, dl)` with `Delay() = dl - now`
  (`Delay() ≤ 0` iff `dl ≤ now`);
* the internal priority queue is abstracted to a list from which `Peek`/`Dequeue` take *an* element of
  minimal deadline (label-chosen; the heap's own correctness is C05) and into which `Enqueue`
  inserts unless `cap > 0 ∧ len = cap`;
* `mutex : Option tid` — ONLY the `lock` label is guarded by the mutex being free; all critical
  section steps are unguarded (as in the code), so the theorems hold only because of where the
  Lock/Unlock calls are.  `Unlock` of an unlocked mutex (a Go fatal error) is a disabled step;
* the two `cond` objects: `cur c` = generation (identity) of the channel currently stored in
  `c.signal`, `closed c` = generations whose channel has been closed.  `broadcast` =
  `swap` (new generation, remember the old one) ; `unlock` ; `close old`.  `signalCh` = `fetch`
  (read the current generation) ; `unlock`.  Closing a closed channel (a Go panic) is a disabled step;
* a per-call `time.Timer` under BOTH channel disciplines (`Params.disc`):
  `async` (GODEBUG=asynctimerchan=1): `Reset` does not drain a tick that is already buffered;
  `sync` (Go ≥ 1.23 default): `Reset` discards a pending tick.  `fire t` may happen at any time at
  or after the armed instant (timer accuracy is not modelled);
* contexts: `cancel t` may end the context of t's current call at any time (covers both
  cancellation and deadline expiry); the select arms on `ctx.Done()` need `ctxDone t`.

Ghost fields (history variables, never read by a guard of the code's steps, except `issued`
which makes element identities fresh so that "exactly once" is expressible): `issued`, `enqd`,
`deqd`, `eff`, `seenE`, `seenD`.

Trusted (assumed semantics, definitions here): mutex, channel close/receive, select picks any
ready arm (with `default` only if none is ready), timers as above, context.
-/
import Ekit.Conc.System

namespace Ekit.DelayQ
open Ekit.Conc

structure Elem where
  id : Nat
  dl : Nat
  deriving DecidableEq, Repr

inductive Disc | async | sync
  deriving DecidableEq, Repr

structure Params where
  disc : Disc
  cap : Nat          -- 0 = unbounded (NewDelayQueue(c) with c ≤ 0)

/-- `time.Timer`: `armed = some w` — scheduled to fire at (or after) instant `w`;
    `buf` — a tick is available on `timer.C`. -/
structure Timer where
  armed : Option Nat
  buf : Bool
  deriving DecidableEq, Repr

inductive Ret
  | enqOk | enqCtx
  | deqOk (x : Elem) | deqCtx
  | deqErr            -- `q.Dequeue()` failed after a successful Peek ("cannot happen" in the code's comment)
  deriving DecidableEq, Repr

inductive CondId | enqSig | deqSig
  deriving DecidableEq, Repr

/-- what a caller of `signalCh` does with the channel it got -/
inductive Cont
  | enqWait (x : Elem)       -- Enqueue, queue full
  | deqEmpty                 -- Dequeue, queue empty
  | deqTimer (delay : Nat)   -- Dequeue, head not yet expired: arm the timer to `delay`
  deriving DecidableEq, Repr

/-- the `cond` each user of `signalCh` listens on -/
def Cont.cond : Cont → CondId
  | .enqWait _ => .deqSig
  | .deqEmpty => .enqSig
  | .deqTimer _ => .enqSig

inductive Pc
  | idle
  -- Enqueue(ctx, x)
  | eTop (x : Elem)          -- loop head: non-blocking ctx check
  | eLock (x : Elem)         -- d.mutex.Lock()
  | eCrit (x : Elem)         -- holds the lock: d.q.Enqueue(x)
  | eWait (x : Elem) (g : Nat)   -- select { ctx.Done | <-signal }   (signal = dequeueSignal generation g)
  -- Dequeue(ctx)
  | dTop | dLock
  | dPeek                    -- holds the lock: d.q.Peek(), val.Delay()
  | dPop (x : Elem)          -- holds the lock, x was the expired head: d.q.Dequeue()
  | dWaitE (g : Nat)         -- select { ctx.Done | <-signal }   (queue was empty)
  | dArm (delay g : Nat)     -- time.NewTimer(delay) / timer.Reset(delay)
  | dWaitT (g : Nat)         -- select { ctx.Done | <-timer.C | <-signal }
  | dRelock                  -- timer arm taken: d.mutex.Lock()
  | dRepeek                  -- holds the lock: re-Peek
  | dReUnlock                -- head missing or still delayed: d.mutex.Unlock(); continue
  -- cond.broadcast()
  | bSwap (c : CondId) (r : Ret)              -- old := c.signal; c.signal = fresh
  | bUnlock (c : CondId) (old : Nat) (r : Ret) -- c.l.Unlock()
  | bClose (c : CondId) (old : Nat) (r : Ret)  -- close(old)
  -- cond.signalCh()
  | sFetch (k : Cont)                         -- res := c.signal      (c = k.cond)
  | sUnlock (g : Nat) (k : Cont)              -- c.l.Unlock(); return res
  | ret (r : Ret)            -- return (runs the deferred timer.Stop())
  deriving DecidableEq, Repr

inductive Label
  | tick (n : Nat)
  | cancel (t : Nat)
  | fire (t : Nat)
  | invEnq (t : Nat) (x : Elem)
  | invDeq (t : Nat)
  | ctxErr (t : Nat)         -- loop-head select: ctx.Done() arm
  | ctxOk (t : Nat)          -- loop-head select: default arm
  | lock (t : Nat)
  | enq (t : Nat)            -- q.Enqueue(x) and the switch on its error
  | peek (t : Nat) (h : Option Elem)    -- q.Peek() (+ Delay() test); h = the root the heap returned
  | pop (t : Nat) (h : Option Elem)     -- q.Dequeue(); h = the root the heap popped
  | repeek (t : Nat) (h : Option Elem)
  | swap (t : Nat)
  | fetch (t : Nat)
  | unlock (t : Nat)
  | close (t : Nat)
  | arm (t : Nat)
  | selCtx (t : Nat)
  | selSig (t : Nat)
  | selTimer (t : Nat)
  | ret (t : Nat) (r : Ret)
  deriving DecidableEq, Repr

structure State where
  now : Nat
  q : List Elem
  mutex : Option Nat
  cur : CondId → Nat
  closed : CondId → List Nat
  pc : Nat → Pc
  ctxDone : Nat → Bool
  timer : Nat → Option Timer
  -- ghost
  issued : List Elem          -- elements ever passed to Enqueue (identities are fresh)
  enqd : List Elem            -- elements whose q.Enqueue succeeded, newest first
  deqd : List Elem            -- elements removed by q.Dequeue, newest first
  retd : List Elem            -- elements returned by completed Dequeue calls, newest first
  eff : Nat → Bool            -- the current call of t has modified q
  seenE : Nat → Nat           -- enqd.length when t last looked at the queue under the lock
  seenD : Nat → Nat           -- deqd.length when t last found the queue full

def updC {α : Type} (f : CondId → α) (c : CondId) (a : α) : CondId → α := fun d => if d = c then a else f d

@[simp] theorem updC_same {α : Type} (f : CondId → α) (c : CondId) (a : α) : updC f c a c = a := by simp [updC]
@[simp] theorem updC_other {α : Type} (f : CondId → α) (c d : CondId) (a : α) (h : d ≠ c) : updC f c a d = f d := by
  simp [updC, h]

/-- `x` is a legal answer of the heap's Peek/Dequeue: present and of minimal deadline -/
def isMin (q : List Elem) (x : Elem) : Bool := q.contains x && q.all (fun y => decide (x.dl ≤ y.dl))

def isFull (P : Params) (q : List Elem) : Bool := decide (0 < P.cap) && decide (q.length = P.cap)

def init : State :=
  { now := 0, q := [], mutex := none, cur := fun _ => 0, closed := fun _ => [],
    pc := fun _ => .idle, ctxDone := fun _ => false, timer := fun _ => none,
    issued := [], enqd := [], deqd := [], retd := [], eff := fun _ => false, seenE := fun _ => 0, seenD := fun _ => 0 }

def State.setPc (s : State) (t : Nat) (p : Pc) : State := { s with pc := upd s.pc t p }

/-- `time.NewTimer(d)` if the call has no timer yet, else `timer.Reset(d)` -/
def armTimer (disc : Disc) (now d : Nat) : Option Timer → Timer
  | none => ⟨some (now + d), false⟩
  | some tm => ⟨some (now + d), if disc = .sync then false else tm.buf⟩

def step (P : Params) (s : State) : Label → Option State
  | .tick n => some { s with now := s.now + n }
  | .cancel t => some { s with ctxDone := upd s.ctxDone t true }
  | .fire t =>
    match s.timer t with
    | some ⟨some w, _⟩ => if w ≤ s.now then some { s with timer := upd s.timer t (some ⟨none, true⟩) } else none
    | _ => none
  | .invEnq t x =>
    match s.pc t with
    | .idle => if x ∈ s.issued then none else
        some { s with pc := upd s.pc t (.eTop x), ctxDone := upd s.ctxDone t false,
                      issued := x :: s.issued, eff := upd s.eff t false }
    | _ => none
  | .invDeq t =>
    match s.pc t with
    | .idle => some { s with pc := upd s.pc t .dTop, ctxDone := upd s.ctxDone t false, eff := upd s.eff t false }
    | _ => none
  | .ctxErr t =>
    if s.ctxDone t then
      match s.pc t with
      | .eTop _ => some (s.setPc t (.ret .enqCtx))
      | .dTop => some (s.setPc t (.ret .deqCtx))
      | _ => none
    else none
  | .ctxOk t =>
    if s.ctxDone t then none else
      match s.pc t with
      | .eTop x => some (s.setPc t (.eLock x))
      | .dTop => some (s.setPc t .dLock)
      | _ => none
  | .lock t =>
    match s.mutex with
    | some _ => none
    | none =>
      match s.pc t with
      | .eLock x => some { s with mutex := some t, pc := upd s.pc t (.eCrit x) }
      | .dLock => some { s with mutex := some t, pc := upd s.pc t .dPeek }
      | .dRelock => some { s with mutex := some t, pc := upd s.pc t .dRepeek }
      | _ => none
  | .enq t =>
    match s.pc t with
    | .eCrit x =>
      if isFull P s.q then
        some { s with pc := upd s.pc t (.sFetch (.enqWait x)), seenD := upd s.seenD t s.deqd.length }
      else
        some { s with q := x :: s.q, enqd := x :: s.enqd, eff := upd s.eff t true,
                      pc := upd s.pc t (.bSwap .enqSig .enqOk) }
    | _ => none
  | .peek t h =>
    match s.pc t with
    | .dPeek =>
      match h with
      | none => if s.q = [] then
          some { s with pc := upd s.pc t (.sFetch .deqEmpty), seenE := upd s.seenE t s.enqd.length }
        else none
      | some x =>
        if isMin s.q x then
          if x.dl ≤ s.now then some (s.setPc t (.dPop x))
          else some { s with pc := upd s.pc t (.sFetch (.deqTimer (x.dl - s.now))),
                             seenE := upd s.seenE t s.enqd.length }
        else none
    | _ => none
  | .repeek t h =>
    match s.pc t with
    | .dRepeek =>
      match h with
      | none => if s.q = [] then some (s.setPc t .dReUnlock) else none
      | some x =>
        if isMin s.q x then
          if x.dl ≤ s.now then some (s.setPc t (.dPop x)) else some (s.setPc t .dReUnlock)
        else none
    | _ => none
  | .pop t h =>
    match s.pc t with
    | .dPop _ =>
      match h with
      | none => if s.q = [] then some (s.setPc t (.bSwap .deqSig .deqErr)) else none
      | some y =>
        if isMin s.q y then
          some { s with q := s.q.erase y, deqd := y :: s.deqd, eff := upd s.eff t true,
                        pc := upd s.pc t (.bSwap .deqSig (.deqOk y)) }
        else none
    | _ => none
  | .swap t =>
    match s.pc t with
    | .bSwap c r => some { s with cur := updC s.cur c (s.cur c + 1), pc := upd s.pc t (.bUnlock c (s.cur c) r) }
    | _ => none
  | .fetch t =>
    match s.pc t with
    | .sFetch k => some (s.setPc t (.sUnlock (s.cur k.cond) k))
    | _ => none
  | .unlock t =>
    match s.mutex with
    | none => none
    | some _ =>
      match s.pc t with
      | .bUnlock c old r => some { s with mutex := none, pc := upd s.pc t (.bClose c old r) }
      | .sUnlock g (.enqWait x) => some { s with mutex := none, pc := upd s.pc t (.eWait x g) }
      | .sUnlock g .deqEmpty => some { s with mutex := none, pc := upd s.pc t (.dWaitE g) }
      | .sUnlock g (.deqTimer d) => some { s with mutex := none, pc := upd s.pc t (.dArm d g) }
      | .dReUnlock => some { s with mutex := none, pc := upd s.pc t .dTop }
      | _ => none
  | .close t =>
    match s.pc t with
    | .bClose c old r =>
      if old ∈ s.closed c then none
      else some { s with closed := updC s.closed c (old :: s.closed c), pc := upd s.pc t (.ret r) }
    | _ => none
  | .arm t =>
    match s.pc t with
    | .dArm d g => some { s with timer := upd s.timer t (some (armTimer P.disc s.now d (s.timer t))),
                                 pc := upd s.pc t (.dWaitT g) }
    | _ => none
  | .selCtx t =>
    if s.ctxDone t then
      match s.pc t with
      | .eWait _ _ => some (s.setPc t (.ret .enqCtx))
      | .dWaitE _ => some (s.setPc t (.ret .deqCtx))
      | .dWaitT _ => some (s.setPc t (.ret .deqCtx))
      | _ => none
    else none
  | .selSig t =>
    match s.pc t with
    | .eWait x g => if g ∈ s.closed .deqSig then some (s.setPc t (.eTop x)) else none
    | .dWaitE g => if g ∈ s.closed .enqSig then some (s.setPc t .dTop) else none
    | .dWaitT g => if g ∈ s.closed .enqSig then some (s.setPc t .dTop) else none
    | _ => none
  | .selTimer t =>
    match s.pc t with
    | .dWaitT _ =>
      match s.timer t with
      | some ⟨a, true⟩ => some { s with timer := upd s.timer t (some ⟨a, false⟩), pc := upd s.pc t .dRelock }
      | _ => none
    | _ => none
  | .ret t r =>
    match s.pc t with
    | .ret r' =>
      if r = r' then
        some { s with pc := upd s.pc t .idle, timer := upd s.timer t none,
                      retd := match r with | .deqOk x => x :: s.retd | _ => s.retd }
      else none
    | _ => none

inductive Op | enq (x : Elem) | deq
  deriving DecidableEq, Repr

def obs : Label → Option (Ev Op Ret)
  | .invEnq t x => some (.inv t (.enq x))
  | .invDeq t => some (.inv t .deq)
  | .ret t r => some (.res t r)
  | _ => none

/-- the DelayQueue as a transition system; `P` fixes the timer discipline and the capacity -/
def sys (P : Params) : ObjSystem State Label Op Ret :=
  { init := init, step := step P, obs := obs }

/-! ### Canonical solo runs (what the driver executes for one observed call) -/

def soloEnqOk (t : Nat) (x : Elem) : List Label :=
  [.invEnq t x, .ctxOk t, .lock t, .enq t, .swap t, .unlock t, .close t, .ret t .enqOk]

def soloDeqOk (t : Nat) (x : Elem) : List Label :=
  [.invDeq t, .ctxOk t, .lock t, .peek t (some x), .pop t (some x), .swap t, .unlock t, .close t, .ret t (.deqOk x)]

def soloEnqCtx (t : Nat) (x : Elem) : List Label :=
  [.invEnq t x, .cancel t, .ctxErr t, .ret t .enqCtx]

def soloDeqCtx (t : Nat) : List Label :=
  [.invDeq t, .cancel t, .ctxErr t, .ret t .deqCtx]

/-! ### Abstract specification (what the property says, nothing else) -/
namespace Spec

/-- the sequential, timed specification: a multiset of elements, a clock -/
structure S where
  now : Nat
  q : List Elem

/-- `Dequeue` may return `x` iff it is present, expired, and nothing present expires earlier -/
def deqOk (s : S) (x : Elem) : Option S :=
  if isMin s.q x && decide (x.dl ≤ s.now) then some { s with q := s.q.erase x } else none

def enqOk (cap : Nat) (s : S) (x : Elem) : Option S :=
  if isFull ⟨.sync, cap⟩ s.q then none else some { s with q := x :: s.q }

end Spec

end Ekit.DelayQ
