/-
The sync skeletons of pool/task_pool.go the pool model (Ekit/Model/Pool.lean) was written against
(copied from the skeleton extractor's output on the unchanged tree).  Ekit/Props/C10–C12 prove that the
skeletons regenerated from the *current* tree are equal to these: moving an Unlock, dropping the CAS on
the `!ok` path, forgetting interruptCtxCancel, removing a state re-check … breaks the obligation.
-/
namespace Ekit.Pool.Skel

def expected_NewOnDemandBlockTaskPool : String :=
  "if($1 < 1){return};else{if($2 < 0){return};else{WithCancel(context);atomic.StoreInt32(&$3.state);if($3.coreGo != $3.initGo && $3.maxGo == $3.initGo){};else{if($3.coreGo == $3.initGo && $3.maxGo != $3.initGo){}};if($3.initGo <= $3.coreGo && $3.coreGo <= $3.maxGo){if($3.queueBacklogRate < float64(0) || float64(1) < $3.queueBacklogRate){return};else{return}};else{return}}}"

def expected_OnDemandBlockTaskPool_Shutdown : String :=
  "for(){atomic.LoadInt32(state);if(atomic.LoadInt32(&recv.state) == stateCreated){return};else{atomic.LoadInt32(state);if(atomic.LoadInt32(&recv.state) == stateStopped){return};else{atomic.LoadInt32(state);if(atomic.LoadInt32(&recv.state) == stateClosing){return};else{atomic.CompareAndSwapInt32(state);if(atomic.CompareAndSwapInt32(&recv.state, stateRunning, stateClosing)){Close(queue);Done(interruptCtx);return};else{continue}}}}};return"

def expected_OnDemandBlockTaskPool_ShutdownNow : String :=
  "for(){atomic.LoadInt32(state);if(atomic.LoadInt32(&recv.state) == stateCreated){return};else{atomic.LoadInt32(state);if(atomic.LoadInt32(&recv.state) == stateClosing){return};else{atomic.LoadInt32(state);if(atomic.LoadInt32(&recv.state) == stateStopped){return};else{atomic.CompareAndSwapInt32(state);if(atomic.CompareAndSwapInt32(&recv.state, stateRunning, stateStopped)){Close(queue);Call(interruptCtxCancel);R(queue);R(queue);range{continue};return};else{continue}}}}};return"

def expected_OnDemandBlockTaskPool_Start : String :=
  "for(){atomic.LoadInt32(state);if(atomic.LoadInt32(&recv.state) == stateClosing){return};else{atomic.LoadInt32(state);if(atomic.LoadInt32(&recv.state) == stateStopped){return};else{atomic.LoadInt32(state);if(atomic.LoadInt32(&recv.state) == stateRunning){return};else{atomic.CompareAndSwapInt32(state);if(atomic.CompareAndSwapInt32(&recv.state, stateCreated, stateLocked)){Call(numOfGoThatCanBeCreate);Call(increaseTotalGo);for($1 < $2){go{atomic.AddInt32(id);Call(goroutine)};continue};atomic.CompareAndSwapInt32(state);return};else{continue}}}}};return"

def expected_OnDemandBlockTaskPool_States : String :=
  "ctx.Err;if(ctx.Err() == nil){Call(interruptCtx.Err);if(recv.interruptCtx.Err() == nil){go{func{NewTicker(time);defer{Stop($1)};for(){select{arm[Recv($1.C)]{Call(sendState)};arm[ctx.Done;Recv(ctx.Done())]{Call(sendState);Close($2);return};arm[Done(interruptCtx);Recv(b.interruptCtx.Done())]{Call(sendState);Close($2);return}};continue};return}};return};else{Call(interruptCtx.Err);return}};else{ctx.Err;return}"

def expected_OnDemandBlockTaskPool_Submit : String :=
  "if($1 == nil){return};else{for(){atomic.LoadInt32(state);if(atomic.LoadInt32(&recv.state) == stateClosing){return};else{atomic.LoadInt32(state);if(atomic.LoadInt32(&recv.state) == stateStopped){return};else{Call(trySubmit);if($2 || $3 != nil){return};else{Call(trySubmit);if($2 || $3 != nil){return};else{continue}}}}};return}"

def expected_OnDemandBlockTaskPool_allowToCreateGoroutine : String :=
  "RLock(mutex);defer{RUnlock(mutex)};R(queue);R(queue);R(totalGo);R(maxGo);R(queueBacklogRate);return"

def expected_OnDemandBlockTaskPool_decreaseTotalGo : String :=
  "Lock(mutex);R(totalGo);W(totalGo);Unlock(mutex);return"

def expected_OnDemandBlockTaskPool_getState : String :=
  "atomic.LoadInt32(state);Call(numOfGo);R(queue);R(queue);atomic.LoadInt32(numGoRunningTasks);return"

def expected_OnDemandBlockTaskPool_goroutine : String :=
  "NewTimer(time);Stop($1);if($1.Stop()){};else{Recv($1.C)};for(){select{arm[Done(interruptCtx);Recv(b.interruptCtx.Done())]{Call(decreaseTotalGo);return};arm[Recv($1.C)]{Lock(mutex);R(totalGo);W(totalGo);Call(timeoutGroup.delete);Unlock(mutex);return};arm[R(queue);Recv(queue)]{Call(timeoutGroup.isIn);if(recv.timeoutGroup.isIn($2)){Call(timeoutGroup.delete);Stop($1);if($1.Stop()){};else{Recv($1.C)}};if($3){atomic.AddInt32(numGoRunningTasks);R(interruptCtx);atomic.AddInt32(numGoRunningTasks);Lock(mutex);R(queue);R(queue);R(totalGo);R(coreGo);R(totalGo);R(totalGo);R(maxGo);if(recv.coreGo < recv.totalGo && recv.totalGo <= recv.maxGo && $4){R(totalGo);W(totalGo);Unlock(mutex);return};else{R(initGo);R(totalGo);Call(timeoutGroup.size);if(recv.initGo < recv.totalGo-recv.timeoutGroup.size()){R(maxIdleTime);NewTimer(time);Call(timeoutGroup.add)};Unlock(mutex)}};else{Call(decreaseTotalGo);Call(numOfGo);if(recv.numOfGo() == 0){atomic.CompareAndSwapInt32(state);if(atomic.CompareAndSwapInt32(&recv.state, stateClosing, stateStopped)){Call(interruptCtxCancel);return};else{return}};else{return}}}};continue};return"

def expected_OnDemandBlockTaskPool_increaseTotalGo : String :=
  "Lock(mutex);R(totalGo);W(totalGo);Unlock(mutex);return"

def expected_OnDemandBlockTaskPool_internalState : String :=
  "for(){atomic.LoadInt32(state);if($1 == stateLocked){continue};else{return}};return"

def expected_OnDemandBlockTaskPool_numOfGo : String :=
  "RLock(mutex);R(totalGo);RUnlock(mutex);return"

def expected_OnDemandBlockTaskPool_numOfGoThatCanBeCreate : String :=
  "R(initGo);R(maxGo);R(initGo);R(queue);R(initGo);if($1 <= 0){return};else{if($1 <= $2){return};else{return}}"

def expected_OnDemandBlockTaskPool_sendState : String :=
  "select{arm[Call(getState);Send($1)]{};default{}};return"

def expected_OnDemandBlockTaskPool_trySubmit : String :=
  "atomic.CompareAndSwapInt32(state);if(atomic.CompareAndSwapInt32(&recv.state, $1, stateLocked)){defer{atomic.CompareAndSwapInt32(state)};select{arm[ctx.Done;Recv(ctx.Done())]{ctx.Err;return};arm[Send(queue)]{Call(allowToCreateGoroutine);if($1 == stateRunning && recv.allowToCreateGoroutine()){Call(increaseTotalGo);atomic.AddInt32(id);go{Call(goroutine)};return};else{return}};default{return}};return};else{return}"

def expected_TaskFunc_Run : String :=
  "return"

def expected_WithCoreGo : String :=
  "func{return};return"

def expected_WithMaxGo : String :=
  "func{return};return"

def expected_WithMaxIdleTime : String :=
  "func{return};return"

def expected_WithQueueBacklogRate : String :=
  "func{return};return"

def expected_group_add : String :=
  "Lock(mu);defer{Unlock(mu)};R(mp);if($1){return};else{W(mp[]);R(n);W(n);return}"

def expected_group_delete : String :=
  "Lock(mu);defer{Unlock(mu)};R(mp);if($1){R(n);W(n)};R(mp);return"

def expected_group_isIn : String :=
  "RLock(mu);defer{RUnlock(mu)};R(mp);return"

def expected_group_size : String :=
  "RLock(mu);defer{RUnlock(mu)};R(n);return"

def expected_taskWrapper_Run : String :=
  "defer{func{if($1 == nil){return};else{return}}};Call(t.Run);return"

end Ekit.Pool.Skel
