/-
The sync skeletons of pool/task_pool.go the pool model (Ekit/Model/Pool.lean) was written against
(copied from the skeleton extractor's output on the unchanged tree).  Ekit/Props/C10–C12 prove that the
skeletons regenerated from the *current* tree are equal to these: moving an Unlock, dropping the CAS on
the `!ok` path, forgetting interruptCtxCancel, removing a state re-check … breaks the obligation.
-/
namespace Ekit.Pool.Skel

def expected_NewOnDemandBlockTaskPool : String :=
  "if(initGo < 1){return};if(queueSize < 0){return};WithCancel(context);atomic.StoreInt32(&b.state);if(b.coreGo != b.initGo && b.maxGo == b.initGo){};else{if(b.coreGo == b.initGo && b.maxGo != b.initGo){}};if(!(b.initGo <= b.coreGo && b.coreGo <= b.maxGo)){return};if(b.queueBacklogRate < float64(0) || float64(1) < b.queueBacklogRate){return};return"

def expected_OnDemandBlockTaskPool_Shutdown : String :=
  "for(){atomic.LoadInt32(state);if(atomic.LoadInt32(&recv.state) == stateCreated){return};atomic.LoadInt32(state);if(atomic.LoadInt32(&recv.state) == stateStopped){return};atomic.LoadInt32(state);if(atomic.LoadInt32(&recv.state) == stateClosing){return};atomic.CompareAndSwapInt32(state);if(atomic.CompareAndSwapInt32(&recv.state, stateRunning, stateClosing)){Close(queue);Done(interruptCtx);return}}"

def expected_OnDemandBlockTaskPool_ShutdownNow : String :=
  "for(){atomic.LoadInt32(state);if(atomic.LoadInt32(&recv.state) == stateCreated){return};atomic.LoadInt32(state);if(atomic.LoadInt32(&recv.state) == stateClosing){return};atomic.LoadInt32(state);if(atomic.LoadInt32(&recv.state) == stateStopped){return};atomic.CompareAndSwapInt32(state);if(atomic.CompareAndSwapInt32(&recv.state, stateRunning, stateStopped)){Close(queue);Call(interruptCtxCancel);R(queue);R(queue);range{};return}}"

def expected_OnDemandBlockTaskPool_Start : String :=
  "for(){atomic.LoadInt32(state);if(atomic.LoadInt32(&recv.state) == stateClosing){return};atomic.LoadInt32(state);if(atomic.LoadInt32(&recv.state) == stateStopped){return};atomic.LoadInt32(state);if(atomic.LoadInt32(&recv.state) == stateRunning){return};atomic.CompareAndSwapInt32(state);if(atomic.CompareAndSwapInt32(&recv.state, stateCreated, stateLocked)){Call(numOfGoThatCanBeCreate);Call(increaseTotalGo);for(i < n){go{atomic.AddInt32(id);Call(goroutine)}};atomic.CompareAndSwapInt32(state);return}}"

def expected_OnDemandBlockTaskPool_States : String :=
  "ctx.Err;if(ctx.Err() != nil){ctx.Err;return};Call(interruptCtx.Err);if(recv.interruptCtx.Err() != nil){Call(interruptCtx.Err);return};go{func{NewTicker(time);defer{Stop(ticker)};for(){select{arm[Recv(ticker.C)]{Call(sendState)};arm[ctx.Done;Recv(ctx.Done())]{Call(sendState);Close(statsChan);return};arm[Done(interruptCtx);Recv(b.interruptCtx.Done())]{Call(sendState);Close(statsChan);return}}}}};return"

def expected_OnDemandBlockTaskPool_Submit : String :=
  "if(task == nil){return};for(){atomic.LoadInt32(state);if(atomic.LoadInt32(&recv.state) == stateClosing){return};atomic.LoadInt32(state);if(atomic.LoadInt32(&recv.state) == stateStopped){return};Call(trySubmit);if(ok || err != nil){return};Call(trySubmit);if(ok || err != nil){return}}"

def expected_OnDemandBlockTaskPool_allowToCreateGoroutine : String :=
  "RLock(mutex);defer{RUnlock(mutex)};R(queue);R(queue);R(totalGo);R(maxGo);R(queueBacklogRate);return"

def expected_OnDemandBlockTaskPool_decreaseTotalGo : String :=
  "Lock(mutex);W(totalGo);Unlock(mutex)"

def expected_OnDemandBlockTaskPool_getState : String :=
  "atomic.LoadInt32(state);Call(numOfGo);R(queue);R(queue);atomic.LoadInt32(numGoRunningTasks);return"

def expected_OnDemandBlockTaskPool_goroutine : String :=
  "NewTimer(time);Stop(idleTimer);if(!idleTimer.Stop()){Recv(idleTimer.C)};for(){select{arm[Done(interruptCtx);Recv(b.interruptCtx.Done())]{Call(decreaseTotalGo);return};arm[Recv(idleTimer.C)]{Lock(mutex);R(totalGo);W(totalGo);Call(timeoutGroup.delete);Unlock(mutex);return};arm[R(queue);Recv(queue)]{Call(timeoutGroup.isIn);if(recv.timeoutGroup.isIn(id)){Call(timeoutGroup.delete);Stop(idleTimer);if(!idleTimer.Stop()){Recv(idleTimer.C)}};if(!ok){Call(decreaseTotalGo);Call(numOfGo);if(recv.numOfGo() == 0){atomic.CompareAndSwapInt32(state);if(atomic.CompareAndSwapInt32(&recv.state, stateClosing, stateStopped)){Call(interruptCtxCancel)}};return};atomic.AddInt32(numGoRunningTasks);R(interruptCtx);atomic.AddInt32(numGoRunningTasks);Lock(mutex);R(queue);R(queue);R(totalGo);R(coreGo);R(totalGo);R(totalGo);R(maxGo);if(recv.coreGo < recv.totalGo && recv.totalGo <= recv.maxGo && noTasksToExecute){R(totalGo);W(totalGo);Unlock(mutex);return};R(initGo);R(totalGo);Call(timeoutGroup.size);if(recv.initGo < recv.totalGo-recv.timeoutGroup.size()){R(maxIdleTime);NewTimer(time);Call(timeoutGroup.add)};Unlock(mutex)}}}"

def expected_OnDemandBlockTaskPool_increaseTotalGo : String :=
  "Lock(mutex);W(totalGo);Unlock(mutex)"

def expected_OnDemandBlockTaskPool_internalState : String :=
  "for(){atomic.LoadInt32(state);if(state != stateLocked){return}}"

def expected_OnDemandBlockTaskPool_numOfGo : String :=
  "RLock(mutex);R(totalGo);RUnlock(mutex);return"

def expected_OnDemandBlockTaskPool_numOfGoThatCanBeCreate : String :=
  "R(initGo);R(maxGo);R(initGo);R(queue);R(initGo);if(needGo > 0){if(needGo <= allowGo){};else{}};return"

def expected_OnDemandBlockTaskPool_sendState : String :=
  "select{arm[Call(getState);Send(ch)]{};default{}}"

def expected_OnDemandBlockTaskPool_trySubmit : String :=
  "atomic.CompareAndSwapInt32(state);if(atomic.CompareAndSwapInt32(&recv.state, state, stateLocked)){defer{atomic.CompareAndSwapInt32(state)};select{arm[ctx.Done;Recv(ctx.Done())]{ctx.Err;return};arm[Send(queue)]{Call(allowToCreateGoroutine);if(state == stateRunning && recv.allowToCreateGoroutine()){Call(increaseTotalGo);atomic.AddInt32(id);go{Call(goroutine)}};return};default{return}}};return"

def expected_TaskFunc_Run : String :=
  "return"

def expected_WithCoreGo : String :=
  "func{};return"

def expected_WithMaxGo : String :=
  "func{};return"

def expected_WithMaxIdleTime : String :=
  "func{};return"

def expected_WithQueueBacklogRate : String :=
  "func{};return"

def expected_group_add : String :=
  "Lock(mu);defer{Unlock(mu)};R(mp);if(!ok){W(mp[]);R(n);W(n)}"

def expected_group_delete : String :=
  "Lock(mu);defer{Unlock(mu)};R(mp);if(ok){R(n);W(n)};R(mp)"

def expected_group_isIn : String :=
  "RLock(mu);defer{RUnlock(mu)};R(mp);return"

def expected_group_size : String :=
  "RLock(mu);defer{RUnlock(mu)};R(n);return"

def expected_taskWrapper_Run : String :=
  "defer{func{if(r != nil){}}};Call(t.Run);return"

end Ekit.Pool.Skel
