/-
Executable model of bean/copier (C20):

* `NewReflectCopier` / `createFieldNodes`  – `newReflectCopier` / `createFieldNodes` / `buildLoop`
* `ReflectCopier.CopyTo` / `copyToWithTree` / `copyTreeNode` – `Copier.copyTo` / `copyNode` / `copyChildren`
* option handling (`IgnoreFields`, `ConvertField`, `copyDefaultOptions`) – `Options`, `OptItem`
* the pure `CopyTo` / `copyStruct` / `copyStructField` / `copyData` – `pureCopyTo` / `pureStruct` /
  `pureLoop` / `pureField` / `pureData`

The code is modelled as it is: loops as loops over the field lists, guards in source order, and
every partial `reflect` call (`NumField`/`Field` on a non-struct or out of range, `Elem` on a
non-pointer, `Set` on an unsettable value, `Interface` on a value read through an unexported
field) is a `panic` here, so that "never panics" is a theorem and not a convention.

Recursion on types is by `fuel` (structural on a `Nat`): the callers pass `depth + 1`, and the
theorems show that this is always enough, i.e. the out-of-fuel branch — which is rendered as the
stack overflow the real recursion would end in — is unreachable for every finite type tree.
The destination is threaded functionally: every function returns the new destination value even
when it fails (the real code has then already written the earlier fields).
-/
import Ekit.Model.CopierTypes

namespace Ekit.Copier
open Ekit.Go

/-! ### errors (bean/copier/errors.go), canonicalised like the harness does -/
def errType : Err := .other "type"
def errKind (src dst : Kind) (field : String) : Err := .other s!"kind:{field}:{src.render}:{dst.render}"
def errTypeMismatch (field : String) : Err := .other s!"typemismatch:{field}"
def errMultiPtr (field : String) : Err := .other s!"multiptr:{field}"
def errConvType : Err := .other "convtype"
def errConv : Err := .other "conv"

/-! ### the field trie -/
inductive Node where
  | mk (name : String) (srcIndex dstIndex : Nat) (isLeaf : Bool) (fields : List Node)
  deriving Repr, Inhabited

namespace Node
def name : Node → String | .mk n _ _ _ _ => n
def srcIndex : Node → Nat | .mk _ s _ _ _ => s
def dstIndex : Node → Nat | .mk _ _ d _ _ => d
def isLeaf : Node → Bool | .mk _ _ _ l _ => l
def fields : Node → List Node | .mk _ _ _ _ f => f
end Node

mutual
def Node.beq : Node → Node → Bool
  | .mk n s d l f, .mk n' s' d' l' f' => n == n' && s == s' && d == d' && l == l' && Node.beqList f f'
def Node.beqList : List Node → List Node → Bool
  | [], [] => true
  | a :: r, b :: r' => Node.beq a b && Node.beqList r r'
  | _, _ => false
end
instance : BEq Node := ⟨Node.beq⟩

/-! ### options (bean/copier/copy.go) -/

/-- a registered converter: `ConvertField[Src, Dst](field, c)` with concrete `Src`/`Dst`.
    `fn v = none` is the converter's own error. -/
structure Conv where
  srcTy : Ty
  dstTy : Ty
  fn : Val → Option Val

/-- the `converterWrapper` closure: `src.(Src)` must succeed (the dynamic type of the field value is
    its static type), then the converter runs; the result carries its dynamic type `Dst`. -/
def Conv.apply (c : Conv) (ty : Ty) (v : Val) : Outcome (Ty × Val) :=
  if ty ≠ c.srcTy then .err errConvType
  else match c.fn v with
    | none => .err errConv
    | some r => .ok (c.dstTy, r)

structure Options where
  /-- `ignoreFields` (a nil set and an empty set behave alike) -/
  ignore : List String := []
  /-- `convertFields`: the first entry for a name is the one in the Go map -/
  conv : List (String × Conv) := []

/-- one `option.Option[options]` value -/
inductive OptItem where
  | ignoreFields (fs : List String)
  | convertField (field : String) (c : Option Conv)     -- `none` = a nil converter

def Options.apply (o : Options) : OptItem → Options
  | .ignoreFields fs => if fs.length < 1 then o else { o with ignore := o.ignore ++ fs }
  | .convertField f c =>
    match c with
    | none => o
    | some c => if f == "" then o else { o with conv := (f, c) :: o.conv }

/-- `option.Apply` -/
def Options.applyAll (o : Options) (items : List OptItem) : Options := items.foldl Options.apply o

/-- `InIgnoreFields` -/
def Options.inIgnore (o : Options) (s : String) : Bool := o.ignore.contains s
/-- `opts.convertFields[name]` -/
def Options.conv? (o : Options) (s : String) : Option Conv := o.conv.lookup s

/-! ### createFieldNodes -/

/-- the first loop of `createFieldNodes`/`copyStruct`:
    `for i := 0; i < NumField(); i++ { if exported { fieldMap[name] = i } }` -/
def fieldMapFrom (m : List (String × Nat)) : List Field → Nat → List (String × Nat)
  | [], _ => m
  | f :: rest, i => fieldMapFrom (if fexp f then (fname f, i) :: m else m) rest (i + 1)

def fieldMap (sfs : List Field) : List (String × Nat) := fieldMapFrom [] sfs 0

/-- `isShadowCopyType(t.Kind()) || r.isAtomicType(t)`: the two branches of `createFieldNodes` that
    mark the child as a leaf -/
def isLeafTy (atomics : List Ty) (t : Ty) : Bool := isShadowCopyType t.kind || atomics.contains t

/-- the second loop of `createFieldNodes`, from `dstIndex` on. `rec` is the recursive call. -/
def buildLoop (rec : Ty → Ty → Outcome (List Node)) (atomics : List Ty) (sfs : List Field)
    (fm : List (String × Nat)) : List Field → Nat → Outcome (List Node)
  | [], _ => .ok []
  | df :: rest, dstIndex =>
    if !fexp df then buildLoop rec atomics sfs fm rest (dstIndex + 1)
    else match fm.lookup (fname df) with
      | none => buildLoop rec atomics sfs fm rest (dstIndex + 1)
      | some srcIndex =>
        match sfs[srcIndex]? with
        | none => .panic "reflect: Field index out of bounds"
        | some sf =>
          if (fty sf).isMultiPtr then .err (errMultiPtr (fname sf))
          else if (fty df).isMultiPtr then .err (errMultiPtr (fname df))
          else
            let fieldSrcTyp := (fty sf).stripPtr
            let fieldDstTyp := (fty df).stripPtr
            if isLeafTy atomics fieldSrcTyp then
              match buildLoop rec atomics sfs fm rest (dstIndex + 1) with
              | .ok more => .ok (.mk (fname df) srcIndex dstIndex true [] :: more)
              | o => o
            else if fieldSrcTyp.kind == .struct then
              if fieldDstTyp.kind != .struct then
                .err (errKind fieldSrcTyp.kind fieldDstTyp.kind (fname df))
              else match rec fieldSrcTyp fieldDstTyp with
                | .ok kids =>
                  match buildLoop rec atomics sfs fm rest (dstIndex + 1) with
                  | .ok more => .ok (.mk (fname df) srcIndex dstIndex false kids :: more)
                  | o => o
                | o => o
            else buildLoop rec atomics sfs fm rest (dstIndex + 1)

/-- `createFieldNodes(root, srcTyp, dstTyp)`; returns `root.fields`. -/
def createFieldNodes (atomics : List Ty) : Nat → Ty → Ty → Outcome (List Node)
  | 0, _, _ => .panic "stack overflow"
  | fuel + 1, srcTyp, dstTyp =>
    match srcTyp.fields?, dstTyp.fields? with
    | some sfs, some dfs => buildLoop (createFieldNodes atomics fuel) atomics sfs (fieldMap sfs) dfs 0
    | _, _ => .panic "reflect: NumField of non-struct type"

structure Copier where
  srcTy : Ty
  dstTy : Ty
  root : Node
  defaults : Options

/-- `NewReflectCopier[Src, Dst](opts...)` -/
def newReflectCopier (atomics : List Ty) (srcTy dstTy : Ty) (opts : List OptItem) : Outcome Copier :=
  if srcTy.kind != .struct then .err errType
  else if dstTy.kind != .struct then .err errType
  else match createFieldNodes atomics (srcTy.depth + 1) srcTy dstTy with
    | .ok kids => .ok { srcTy, dstTy, root := .mk "" 0 0 false kids, defaults := ({} : Options).applyAll opts }
    | .err e => .err e
    | .panic m => .panic m

/-! ### copyTreeNode -/

structure CopyRes where
  dst : Val
  res : Outcome Unit

inductive SrcDeref where
  | panic (m : String)
  | nilPtr
  | val (ty : Ty) (v : Val)

/-- `if srcValue.Kind() == Pointer { if IsNil → return nil; srcValue = Elem(); srcTyp = Elem() }` -/
def derefSrc (srcTyp : Ty) (srcVal : Val) : SrcDeref :=
  if srcTyp.kind == .ptr then
    match srcTyp.ptrElem?, srcVal with
    | some e, .ptr v => .val e v
    | some _, .nil => .nilPtr
    | _, _ => .panic "reflect: Elem of a non-pointer"
  else .val srcTyp srcVal

inductive DstDeref where
  | panic (m : String)
  /-- the (possibly freshly allocated) pointee, its flags, and whether a pointer was stripped -/
  | val (ty : Ty) (v : Val) (fl : Flags) (wasPtr : Bool)

/-- `if dstValue.Kind() == Pointer { if IsNil { Set(New(Elem)) }; dstValue = Elem(); dstType = Elem() }` -/
def derefDst (dstTyp : Ty) (dstVal : Val) (fl : Flags) : DstDeref :=
  if dstTyp.kind == .ptr then
    match dstTyp.ptrElem?, dstVal with
    | some e, .ptr v => .val e v fl.elem true
    | some e, .nil =>
      if fl.canSet then .val e (zeroOf e) fl.elem true
      else .panic "reflect: reflect.Value.Set using unaddressable value"
    | _, _ => .panic "reflect: Elem of a non-pointer"
  else .val dstTyp dstVal fl false

def rewrap (wasPtr : Bool) (v : Val) : Val := if wasPtr then .ptr v else v

/-- the `if root.isLeaf { … }` block. `origin*` are the values before pointers were stripped. -/
def copyLeaf (opts : Options) (name : String)
    (originSrcTy : Ty) (originSrc : Val) (sro : Bool) (originDstTy : Ty) (originFl : Flags)
    (sTy : Ty) (sVal : Val) (dTy : Ty) (dInner : Val) (fl : Flags) (wasPtr : Bool) : CopyRes :=
  if !fl.canSet then ⟨rewrap wasPtr dInner, .ok ()⟩
  else match opts.conv? name with
    | none =>
      if sTy ≠ dTy then ⟨rewrap wasPtr dInner, .err (errTypeMismatch name)⟩
      else if sVal.isZero then ⟨rewrap wasPtr dInner, .ok ()⟩
      else ⟨rewrap wasPtr sVal, .ok ()⟩
    | some c =>
      if !originFl.canSet then ⟨rewrap wasPtr dInner, .ok ()⟩
      else if sro then ⟨rewrap wasPtr dInner, .panic "reflect: Interface of a value obtained using an unexported field"⟩
      else match c.apply originSrcTy originSrc with
        | .err e => ⟨rewrap wasPtr dInner, .err e⟩
        | .panic m => ⟨rewrap wasPtr dInner, .panic m⟩
        | .ok (rTy, rVal) =>
          if rTy ≠ originDstTy then ⟨rewrap wasPtr dInner, .err (errTypeMismatch name)⟩
          else ⟨rVal, .ok ()⟩

mutual
/-- `copyTreeNode(srcTyp, srcValue, dstType, dstValue, root, opts)`; `sro` = the source value was
    read through an unexported field, `fl` = the destination value's flags -/
def copyNode (opts : Options) : Node → Ty → Val → Bool → Ty → Val → Flags → CopyRes
  | .mk name _ _ isLeaf kids, srcTyp, srcVal, sro, dstTyp, dstVal, fl =>
    match derefSrc srcTyp srcVal with
    | .panic m => ⟨dstVal, .panic m⟩
    | .nilPtr => ⟨dstVal, .ok ()⟩
    | .val sTy sVal =>
      match derefDst dstTyp dstVal fl with
      | .panic m => ⟨dstVal, .panic m⟩
      | .val dTy dInner ifl wasPtr =>
        if isLeaf then
          copyLeaf opts name srcTyp srcVal sro dstTyp fl sTy sVal dTy dInner ifl wasPtr
        else
          let r := copyChildren opts kids sTy sVal sro dTy dInner ifl
          ⟨rewrap wasPtr r.dst, r.res⟩
/-- the `for i := range root.fields` loop -/
def copyChildren (opts : Options) : List Node → Ty → Val → Bool → Ty → Val → Flags → CopyRes
  | [], _, _, _, _, dVal, _ => ⟨dVal, .ok ()⟩
  | child :: rest, sTy, sVal, sro, dTy, dVal, fl =>
    if opts.inIgnore child.name then copyChildren opts rest sTy sVal sro dTy dVal fl
    else
      match sTy.fields?, dTy.fields? with
      | some sfs, some dfs =>
        match sfs[child.srcIndex]?, sVal.field? child.srcIndex, dfs[child.dstIndex]?, dVal.field? child.dstIndex with
        | some sf, some sv, some df, some dv =>
          let r := copyNode opts child (fty sf) sv (sro || !fexp sf) (fty df) dv (fl.field (fexp df))
          let dVal' := dVal.setField child.dstIndex r.dst
          match r.res with
          | .ok _ => copyChildren opts rest sTy sVal sro dTy dVal' fl
          | e => ⟨dVal', e⟩
        | _, _, _, _ => ⟨dVal, .panic "reflect: Field index out of range"⟩
      | _, _ => ⟨dVal, .panic "reflect: Field of non-struct type"⟩
end

/-- `CopyTo(src, dst, opts...)`: `src`/`dst` are the `*Src`/`*Dst` arguments (`nil` or `ptr v`).
    Returns the new `*dst` pointer value and the call's outcome. -/
def Copier.copyTo (c : Copier) (src dst : Val) (callOpts : List OptItem) : CopyRes :=
  let localOption := c.defaults.applyAll callOpts          -- copyDefaultOptions + option.Apply
  copyNode localOption c.root (.ptr c.srcTy) src false (.ptr c.dstTy) dst ⟨false, false⟩

/-- `Copy(src, opts...)` -/
def Copier.copy (c : Copier) (src : Val) (callOpts : List OptItem) : CopyRes :=
  c.copyTo src (.ptr (zeroOf c.dstTy)) callOpts

/-! ### the pure recursive CopyTo (pure_reflect_copier.go) -/

/-- `copyData` -/
def pureData (rec : Ty → Val → Ty → Val → Flags → CopyRes)
    (srcTyp : Ty) (srcVal : Val) (dstTyp : Ty) (dstVal : Val) (fl : Flags) (fieldName : String) : CopyRes :=
  if srcTyp.kind == .ptr then ⟨dstVal, .err (errMultiPtr fieldName)⟩
  else if srcTyp.kind != dstTyp.kind then ⟨dstVal, .err (errKind srcTyp.kind dstTyp.kind fieldName)⟩
  else if isShadowCopyType srcTyp.kind then
    if srcTyp ≠ dstTyp then ⟨dstVal, .err (errTypeMismatch fieldName)⟩
    else if fl.canSet then ⟨srcVal, .ok ()⟩
    else ⟨dstVal, .ok ()⟩
  else if srcTyp.kind == .struct then rec srcTyp srcVal dstTyp dstVal fl
  else ⟨dstVal, .ok ()⟩

/-- `copyStructField`; returns the new value of the destination *field* -/
def pureField (rec : Ty → Val → Ty → Val → Flags → CopyRes)
    (sf : Field) (sv : Val) (df : Field) (dv : Val) (fl : Flags) : CopyRes :=
  if (fty sf).kind != (fty df).kind then ⟨dv, .err (errKind (fty sf).kind (fty df).kind (fname sf))⟩
  else if (fty sf).kind == .ptr then
    match (fty sf).ptrElem?, (fty df).ptrElem?, sv, dv with
    | some _, some _, .nil, _ => ⟨dv, .ok ()⟩
    | some se, some de, .ptr x, .nil =>
      if !fl.canSet then ⟨dv, .panic "reflect: reflect.Value.Set using unaddressable value"⟩
      else
        let r := pureData rec se x de (zeroOf de) fl.elem (fname sf)
        ⟨.ptr r.dst, r.res⟩
    | some se, some de, .ptr x, .ptr y =>
      let r := pureData rec se x de y fl.elem (fname sf)
      ⟨.ptr r.dst, r.res⟩
    | _, _, _, _ => ⟨dv, .panic "reflect: Elem of a non-pointer"⟩
  else pureData rec (fty sf) sv (fty df) dv fl (fname sf)

/-- the second loop of `copyStruct` -/
def pureLoop (rec : Ty → Val → Ty → Val → Flags → CopyRes) (sfs : List Field) (fm : List (String × Nat))
    (sVal : Val) (fl : Flags) : List Field → Nat → Val → CopyRes
  | [], _, dVal => ⟨dVal, .ok ()⟩
  | df :: rest, i, dVal =>
    if !fexp df then pureLoop rec sfs fm sVal fl rest (i + 1) dVal
    else match fm.lookup (fname df) with
      | none => pureLoop rec sfs fm sVal fl rest (i + 1) dVal
      | some idx =>
        match sfs[idx]?, sVal.field? idx, dVal.field? i with
        | some sf, some sv, some dv =>
          let r := pureField rec sf sv df dv (fl.field (fexp df))
          let dVal' := dVal.setField i r.dst
          match r.res with
          | .ok _ => pureLoop rec sfs fm sVal fl rest (i + 1) dVal'
          | e => ⟨dVal', e⟩
        | _, _, _ => ⟨dVal, .panic "reflect: Field index out of range"⟩

/-- `copyStruct` -/
def pureStruct : Nat → Ty → Val → Ty → Val → Flags → CopyRes
  | 0, _, _, _, dVal, _ => ⟨dVal, .panic "stack overflow"⟩
  | fuel + 1, srcTyp, srcVal, dstTyp, dstVal, fl =>
    match srcTyp.fields?, dstTyp.fields? with
    | some sfs, some dfs => pureLoop (pureStruct fuel) sfs (fieldMap sfs) srcVal fl dfs 0 dstVal
    | _, _ => ⟨dstVal, .panic "reflect: NumField of non-struct type"⟩

/-- does any exported destination field have an exported source field of the same name?
    (only used for the nil-argument corner of `CopyTo`) -/
def anyMatch (sfs dfs : List Field) : Bool :=
  dfs.any fun df => fexp df && ((fieldMap sfs).lookup (fname df)).isSome

/-- `CopyTo(src any, dst any)`: the arguments are given with their dynamic types. -/
def pureCopyTo (srcT : Ty) (src : Val) (dstT : Ty) (dst : Val) : CopyRes :=
  match srcT.ptrElem? with
  | none => ⟨dst, .err errType⟩
  | some srcTyp =>
    if srcTyp.kind != .struct then ⟨dst, .err errType⟩
    else match dstT.ptrElem? with
      | none => ⟨dst, .err errType⟩
      | some dstTyp =>
        if dstTyp.kind != .struct then ⟨dst, .err errType⟩
        else match src, dst with
          | .ptr sv, .ptr dv =>
            let r := pureStruct (srcTyp.depth + 1) srcTyp sv dstTyp dv ⟨true, false⟩
            ⟨.ptr r.dst, r.res⟩
          | _, _ =>
            -- `reflect.ValueOf(nilPtr).Elem()` is the zero Value: the first `Field` call panics
            match srcTyp.fields?, dstTyp.fields? with
            | some sfs, some dfs =>
              if anyMatch sfs dfs then ⟨dst, .panic "reflect: call of reflect.Value.Field on zero Value"⟩
              else ⟨dst, .ok ()⟩
            | _, _ => ⟨dst, .panic "reflect: NumField of non-struct type"⟩

end Ekit.Copier
