/-
The pool model as an *acceptor* for observations of the real code (driver, `model` mode).

A `seq` case of harness/pool is a sequence of calls made by one control thread (caller 0) while the
workers run asynchronously; after every call the harness prints an atomic white-box snapshot.  The
acceptor keeps the set of all model states that explain every observation so far: for each call it
explores *all* interleavings of the call's steps with worker steps (and timer expiries) with the
model's own `step` function, keeps the states in which the call returned the observed result, closes
them under further internal steps and filters by the snapshot.  An empty set = the real code did
something no schedule of the model can do.

States that differ only by a permutation of workers are identified (worker identity is not observable
and the step function is equivariant), which keeps the sets small.
-/
import Ekit.Model.Pool
import Std.Data.HashSet
namespace Ekit.Pool.Explore
open Ekit.Pool

def lifeCode : Life → Nat
  | .created => 1 | .running => 2 | .closing => 3 | .stopped => 4 | .locked => 5

def wcode (w : Worker) (holds : Bool) : Nat :=
  if w.pc = .exited then 0 else
  1 + ((((((w.pc.ctorIdx * 1024 + w.task) * 2 + w.ok.toNat) * 1024 + w.v) * 2 + w.nt.toNat) * 3 + w.timer.ctorIdx) * 2
      + w.inGroup.toNat) * 2 + holds.toNat

def tcode (t : Task) : Nat := ((t.beh.ctorIdx * 2 + t.released.toNat) * 2 + t.sent.toNat) * 8 + t.runs

structure Key where
  life : Nat
  queue : List Nat
  closed : Bool
  totalGo : Nat
  readers : Nat
  writerIsCaller : Bool
  grpN : Nat
  cancelled : Bool
  panic : Bool
  workers : List Nat
  c0 : Caller
  tasks : List Nat
  returned : List Nat
  deriving BEq, Hashable

def key (s : St) : Key :=
  let holder : Option Nat := match s.mu.writer with | some (.w i) => some i | _ => none
  let ws := (s.workers.zipIdx.map fun (w, i) => wcode w (holder == some i)).mergeSort (· ≤ ·)
  { life := lifeCode s.life, queue := s.queue, closed := s.closed, totalGo := s.totalGo,
    readers := s.mu.readers, writerIsCaller := (match s.mu.writer with | some (.c _) => true | _ => false),
    grpN := s.grpN, cancelled := s.cancelled, panic := s.panic, workers := ws, c0 := s.callers 0,
    tasks := s.tasks.map tcode, returned := s.returned }

/-- forget the `upd` chain of the callers function (only caller 0 is used by the acceptor) -/
def normalize (s : St) : St :=
  let c0 := s.callers 0
  { s with callers := fun t => if t = 0 then c0 else {} }

def workerActs : List WAct :=
  [.selInt, .intLock, .intWrite, .selIdle, .idleLock, .idleWrite, .selRecv, .selClosed, .leaveGroup,
   .clLock, .clWrite, .clRLock, .clRead, .clCas, .clCancel, .incRun, .taskRet, .taskPanic, .recover, .decRun,
   .postLock, .postLen1, .postLen2, .postDecide, .postGrp, .postUnlock]

/-- the steps of a call in progress (everything but invocations, `ret`, and the environment's `release`) -/
def callerActs : List CAct :=
  [.subLoad1, .subLoad2, .subCas1, .subCas2, .selCtx, .selSend, .selDefault, .allowRLock, .allowRead,
   .incLock, .incWrite, .spawn, .unlock, .stLoad1, .stLoad2, .stLoad3, .stCas, .stNum, .stIncLock, .stIncWrite,
   .stSpawn, .stUnlock, .sdLoad1, .sdLoad2, .sdLoad3, .sdCas, .sdClose, .snLoad1, .snLoad2, .snLoad3, .snCas,
   .snClose, .snCancel, .snDrainTake, .snDrainEnd, .gsRLock, .gsRead]

/-- all successors by internal steps: every worker step, timer expiry if `fire`, every step of caller 0's call -/
def succs (c : Cfg) (fire : Bool) (s : St) : List St :=
  let n := s.workers.length
  let ws := (List.range n).flatMap fun i =>
    let base := workerActs.filterMap fun a => wStep c s i a
    if fire then (match wStep c s i .fire with | some s' => s' :: base | none => base) else base
  let cl := s.callers 0
  if cl.pc = .idle ∨ cl.pc = .ret then ws
  else
    let cs := callerActs.filterMap fun a => cAct c s 0 cl a
    let rv := if cl.pc = .subSel then (List.range n).filterMap fun i => cAct c s 0 cl (.selSendRv i) else []
    ws ++ cs ++ rv

structure Closure where
  states : Array St
  overflow : Bool

/-- all states reachable from `init` by internal steps (breadth first, deduplicated by `key`) -/
partial def closure (c : Cfg) (fire : Bool) (init : Array St) (budget : Nat := 150000) : Closure := Id.run do
  let mut seen : Std.HashSet Key := {}
  let mut out : Array St := #[]
  let mut work : Array St := #[]
  for s in init do
    let k := key s
    if !seen.contains k then
      seen := seen.insert k
      out := out.push s
      work := work.push s
  let mut i := 0
  while i < work.size do
    if out.size > budget then return ⟨out, true⟩
    let s := work[i]!
    i := i + 1
    for s' in succs c fire s do
      let k := key s'
      if !seen.contains k then
        seen := seen.insert k
        out := out.push s'
        work := work.push s'
  return ⟨out, false⟩

/-- white-box snapshot printed by the harness -/
structure Snap where
  st : Nat
  go : Nat
  grp : Nat
  q : Nat
  dn : Bool
  runs : List Nat
  unstable : Bool
  bb : Bool := false      -- black-box line (`wb=na`): st/go/q come from a States() sample, grp is unknown
  deriving Repr

def explains (s : St) (o : Snap) : Bool :=
  o.unstable || o.bb ||
    (lifeCode s.life == o.st && s.totalGo == o.go && s.grpN == o.grp && s.queue.length == o.q &&
     s.cancelled == o.dn && s.tasks.map (·.runs) == o.runs)

/-- no internal step at all is possible (every worker is gone or blocked for ever) -/
def dead (c : Cfg) (fire : Bool) (s : St) : Bool := (succs c fire s).isEmpty

inductive Outcome where
  | states (ss : Array St)
  | overflow
  deriving Inhabited

/-- a call of the control thread: invocation, all interleavings until it has returned with a result
    accepted by `resOk`, response, further internal activity -/
def call (c : Cfg) (fire : Bool) (ss : Array St) (inv : CAct) (resOk : St → Bool) : Outcome :=
  let c0 := closure c fire ss
  if c0.overflow then .overflow else
  let s1 := c0.states.filterMap fun s => cAct c s 0 (s.callers 0) inv
  let c2 := closure c fire s1
  if c2.overflow then .overflow else
  let s3 := c2.states.filter fun s => (s.callers 0).pc == .ret && resOk s
  let s4 := s3.filterMap fun s => (cAct c s 0 (s.callers 0) .ret).map normalize
  let c5 := closure c fire s4
  if c5.overflow then .overflow else .states c5.states

/-- environment step (release of blocked tasks) or plain passage of time -/
def env (c : Cfg) (fire : Bool) (ss : Array St) (rel : List Nat) : Outcome :=
  let s1 := ss.map fun s => rel.foldl (fun s i => (cAct c s 0 (s.callers 0) (.release i)).getD s) s
  let c2 := closure c fire s1
  if c2.overflow then .overflow else .states c2.states

end Ekit.Pool.Explore
