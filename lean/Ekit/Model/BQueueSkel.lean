/-
The sync skeletons (harness/skel) of the Go functions the blocking-queue models were written against,
copied from the generated file of the unchanged tree.  `Ekit/Props/C07.lean` and `Ekit/Props/C09a.lean`
prove that the skeletons regenerated from the *current* tree equal these (`by decide`): moving an
Unlock, dropping a Release, removing the ctx re-check, turning a wait loop into an `if`, or reordering
swap/unlock/close in `broadcast` breaks the obligation.

How the model's program counters read these skeletons:
  ArrayBQ Enqueue  SemAcquire(enqueueCap) = eAcq | Lock(mutex) = eLock | ctx.Err;if = eChk | SemRelease(enqueueCap) = eRelBack
                   | R(tail);W(data[]) = eStore | R/W tail, R/W count, if(tail == cap){W(tail)} = eAdv | SemRelease(dequeueCap) = eRel
                   | defer{Unlock(mutex)} = unlock
  ArrayBQ Dequeue  symmetric; R(data);R(head) = dRead | R(zero);W(data[]);W(head);W(count);if{W(head)} = dAdv | SemRelease(enqueueCap) = dRel
  LinkedBQ Enqueue ctx.Err;if = eCtx | Lock = eLock | for(...) guard = eGuard | Call(notFull.signalCh) = eSigRead,eSigUnlock
                   | select = eSelect (arm ctx.Done = ctxArm, arm Recv(signal){Lock} = tau then eLock) | Call(linkedlist.Append) = eAppend
                   | Call(notEmpty.broadcast) = bcSwap,bcUnlock,bcClose
  cond.signalCh    R(signal) = eSigRead/dSigRead ; Unlock(l) = eSigUnlock/dSigUnlock
  cond.broadcast   R(signal);W(signal) = bcSwap ; Unlock(l) = bcUnlock ; Close(old) = bcClose
-/
namespace Ekit.BQSkel

def expected_ConcurrentArrayBlockingQueue_AsSlice : String :=
  "RLock(mutex);defer{RUnlock(mutex)};R(count);R(data);for($1 < recv.count){R(count);R(head);R(data);continue};return"

def expected_ConcurrentArrayBlockingQueue_Dequeue : String :=
  "SemAcquire(dequeueCap);if($1 == nil){Lock(mutex);defer{Unlock(mutex)};ctx.Err;if(ctx.Err() == nil){R(data);R(head);R(zero);R(head);W(data[]);R(head);W(head);R(count);W(count);R(head);R(data);if(recv.head == cap(recv.data)){W(head)};SemRelease(enqueueCap);return};else{SemRelease(dequeueCap);ctx.Err;return}};else{return}"

def expected_ConcurrentArrayBlockingQueue_Enqueue : String :=
  "SemAcquire(enqueueCap);if($1 == nil){Lock(mutex);defer{Unlock(mutex)};ctx.Err;if(ctx.Err() == nil){R(tail);W(data[]);R(tail);W(tail);R(count);W(count);R(tail);R(data);if(recv.tail == cap(recv.data)){W(tail)};SemRelease(dequeueCap);return};else{SemRelease(enqueueCap);ctx.Err;return}};else{return}"

def expected_ConcurrentArrayBlockingQueue_Len : String :=
  "RLock(mutex);defer{RUnlock(mutex)};R(count);return"

def expected_ConcurrentLinkedBlockingQueue_AsSlice : String :=
  "RLock(mutex);defer{RUnlock(mutex)};Call(linkedlist.AsSlice);return"

def expected_ConcurrentLinkedBlockingQueue_Dequeue : String :=
  "ctx.Err;if(ctx.Err() == nil){Lock(mutex);for(recv.linkedlist.Len() == 0){Call(linkedlist.Len);Call(notEmpty.signalCh);select{arm[ctx.Done;Recv(ctx.Done())]{ctx.Err;return};arm[Recv($1)]{Lock(mutex)}};continue};MapDelete(linkedlist);Call(notFull.broadcast);return};else{ctx.Err;return}"

def expected_ConcurrentLinkedBlockingQueue_Enqueue : String :=
  "ctx.Err;if(ctx.Err() == nil){Lock(mutex);for(recv.maxSize > 0 && recv.linkedlist.Len() == recv.maxSize){R(maxSize);Call(linkedlist.Len);R(maxSize);Call(notFull.signalCh);select{arm[ctx.Done;Recv(ctx.Done())]{ctx.Err;return};arm[Recv($1)]{Lock(mutex)}};continue};Call(linkedlist.Append);Call(notEmpty.broadcast);return};else{ctx.Err;return}"

def expected_ConcurrentLinkedBlockingQueue_Len : String :=
  "RLock(mutex);defer{RUnlock(mutex)};Call(linkedlist.Len);return"

def expected_NewConcurrentArrayBlockingQueue : String :=
  "SemAcquire($1);return"

def expected_NewConcurrentLinkedBlockingQueue : String :=
  "return"

def expected_cond_broadcast : String :=
  "R(signal);W(signal);Unlock(l);Close($1);return"

def expected_cond_signalCh : String :=
  "R(signal);Unlock(l);return"

end Ekit.BQSkel
