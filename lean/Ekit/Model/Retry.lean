/-
Executable model of ekit's retry package:
  retry/exponential.go   (ExponentialBackoffRetryStrategy: constructor, Next)
  retry/fixed_internal.go (FixedIntervalRetryStrategy: constructor, Next)
  retry/retry.go          (Retry: the loop, a fresh time.Timer per wait, select with ctx.Done)
  internal/errs/error.go  (which error a constructor / Retry returns)

Fixed-width integers.  `retries`/`maxRetries` are Go `int32`, `time.Duration` is `int64`.  They are
modelled as `Int` with the wrap-around made explicit at every arithmetic operation that Go performs
in fixed width (`wrap32 (r + 1)` is `atomic.AddInt32(&s.retries, 1)`, `wrap32 (r - 1)` is the
`int32` subtraction `retries-1`, `wrap64 (a * b)` is the `time.Duration` multiplication).

`math.Pow(2, float64(retries-1))` converted to `int64` (`pow2`): exactly `2^e` for `0 ≤ e ≤ 62`
(products of powers of two are exact in binary floating point), `0` for `e < 0` (a value in `(0,1)`
or an underflow to `0`, truncated), and for `e ≥ 63` (the float is `≥ 2^63` or `+Inf`) the
conversion is out of range — implementation-defined in Go: `0x8000000000000000` on amd64,
saturation to `MaxInt64` on arm64.  That choice is the parameter `Arch`; every theorem holds for both.

Concurrency.  `Next` is not atomic: it is `AddInt32`, then a `Load` of the sticky flag, then (only on
the overflow / over-cap path) a `Store`.  `step` is the labelled transition system with exactly
these three atomic actions for any number of goroutines (`Tid := Nat`); `next` is the same code run
by one goroutine without interference (proved equal to running the three labels in a row:
`Ekit.Retry.callSeq_eq_next`).

`Retry` is modelled on a virtual clock (`retryLoop`): everything the Go runtime or the caller decides
(how long bizFunc runs and what it returns, scheduling delays, how late a timer fires, which ready
arm `select` takes, when the context ends) is an oracle field of `Env`; the model checks that the
chosen arm is enabled and otherwise reports `Res.invalid`.
-/
import Ekit.Go.Basic

namespace Ekit.Retry

/-! ### fixed-width arithmetic -/

/-- two's-complement wrap to `int32` -/
def wrap32 (x : Int) : Int := (x + 2147483648) % 4294967296 - 2147483648
/-- two's-complement wrap to `int64` -/
def wrap64 (x : Int) : Int := (x + 9223372036854775808) % 18446744073709551616 - 9223372036854775808

def minInt64 : Int := -9223372036854775808
def maxInt64 : Int := 9223372036854775807

def InI32 (x : Int) : Prop := -2147483648 ≤ x ∧ x ≤ 2147483647
def InI64 (x : Int) : Prop := -9223372036854775808 ≤ x ∧ x ≤ 9223372036854775807

/-- what an out-of-range float64→int64 conversion yields on this architecture -/
inductive Arch where
  | satMin   -- amd64 (CVTTSD2SQ: the "integer indefinite" value 0x8000000000000000)
  | satMax   -- arm64 (FCVTZS saturates)
  deriving DecidableEq, Repr, Inhabited

def Arch.ovf : Arch → Int
  | .satMin => minInt64
  | .satMax => maxInt64

/-- `time.Duration(math.Pow(2, float64(e)))` for an `int32` exponent `e` -/
def pow2 (a : Arch) (e : Int) : Int :=
  if e < 0 then 0 else if e ≤ 62 then (2 : Int) ^ e.toNat else a.ovf

/-! ### strategies -/

inductive Kind where
  | fixed | exp
  deriving DecidableEq, Repr, Inhabited

/-- the immutable fields of a strategy (for `fixed`, `initial = max = interval`) -/
structure Cfg where
  kind : Kind
  initial : Int
  max : Int
  maxRetries : Int
  arch : Arch
  deriving DecidableEq, Repr, Inhabited

inductive CtorErr where
  | interval (v : Int)                  -- errs.NewErrInvalidIntervalValue
  | maxInterval (max initial : Int)     -- errs.NewErrInvalidMaxIntervalValue
  deriving DecidableEq, Repr, Inhabited

/-- `NewExponentialBackoffRetryStrategy` -/
def newExp (arch : Arch) (initial max maxRetries : Int) : Except CtorErr Cfg :=
  if initial ≤ 0 then .error (.interval initial)
  else if initial > max then .error (.maxInterval max initial)
  else .ok { kind := .exp, initial := initial, max := max, maxRetries := maxRetries, arch := arch }

/-- `NewFixedIntervalRetryStrategy` -/
def newFixed (arch : Arch) (interval maxRetries : Int) : Except CtorErr Cfg :=
  if interval ≤ 0 then .error (.interval interval)
  else .ok { kind := .fixed, initial := interval, max := interval, maxRetries := maxRetries, arch := arch }

/-- `s.maxRetries <= 0 || retries <= s.maxRetries` -/
def budgetOk (cfg : Cfg) (r : Int) : Bool := decide (cfg.maxRetries ≤ 0) || decide (r ≤ cfg.maxRetries)

/-- `s.initialInterval * time.Duration(math.Pow(2, float64(retries-1)))` -/
def rawInterval (cfg : Cfg) (r : Int) : Int := wrap64 (cfg.initial * pow2 cfg.arch (wrap32 (r - 1)))

/-- `interval <= 0 || interval > s.maxInterval` -/
def capHit (cfg : Cfg) (iv : Int) : Bool := decide (iv ≤ 0) || decide (iv > cfg.max)

/-- the mutable fields: the atomic counter and the sticky `maxIntervalReached` flag -/
structure Core where
  retries : Int
  flag : Bool
  deriving DecidableEq, Repr, Inhabited

def Core.init : Core := ⟨0, false⟩

/-- `Next()` executed by one goroutine without interference -/
def next (cfg : Cfg) (c : Core) : Core × (Int × Bool) :=
  let r := wrap32 (c.retries + 1)
  if budgetOk cfg r then
    match cfg.kind with
    | .fixed => (⟨r, c.flag⟩, (cfg.initial, true))
    | .exp =>
      if c.flag then (⟨r, true⟩, (cfg.max, true))
      else
        let iv := rawInterval cfg r
        if capHit cfg iv then (⟨r, true⟩, (cfg.max, true)) else (⟨r, false⟩, (iv, true))
  else (⟨r, c.flag⟩, (0, false))

/-- state after `n` sequential calls -/
def iter (cfg : Cfg) : Nat → Core → Core
  | 0, c => c
  | n + 1, c => iter cfg n (next cfg c).1

/-- the result of the `i`-th sequential call on a fresh strategy (`i ≥ 1`) -/
def callResult (cfg : Cfg) (i : Nat) : Int × Bool := (next cfg (iter cfg (i - 1) Core.init)).2

/-- results of `n` sequential calls starting in state `c` -/
def outputs (cfg : Cfg) : Nat → Core → List (Int × Bool)
  | 0, _ => []
  | n + 1, c => (next cfg c).2 :: outputs cfg n (next cfg c).1

/-! ### specification (mathematical integers, no machine arithmetic) -/
namespace Spec

/-- is the `i`-th call (1-based) on a strategy granted? -/
def granted (maxRetries : Int) (i : Nat) : Bool := decide (maxRetries ≤ 0) || decide ((i : Int) ≤ maxRetries)

/-- how many of `n` calls are granted: all when `maxRetries ≤ 0`, otherwise `min n maxRetries` -/
def grants (maxRetries : Int) (n : Nat) : Nat := if maxRetries ≤ 0 then n else min n maxRetries.toNat

/-- the `i`-th (1-based) interval: `min (initial·2^(i-1)) max` for the exponential strategy -/
def interval (cfg : Cfg) (i : Nat) : Int :=
  match cfg.kind with
  | .fixed => cfg.initial
  | .exp => min (cfg.initial * (2 : Int) ^ (i - 1)) cfg.max

end Spec

/-! ### `Next` as atomic steps: any number of goroutines -/

abbrev Tid := Nat

/-- where a goroutine is inside `Next` (goroutines not listed in `St.active` are outside) -/
inductive PC where
  | needLoad (r : Int)   -- after `AddInt32` returned `r` and the budget test passed; about to `Load` the flag
  | needStore            -- saw the flag unset and an overflowing / over-cap product; about to `Store(true)`
  deriving DecidableEq, Repr, Inhabited

inductive Label where
  | add (t : Tid) | load (t : Tid) | store (t : Tid)
  deriving DecidableEq, Repr, Inhabited

/-- a returned `(interval, ok)` -/
structure Ret where
  tid : Tid
  iv : Int
  ok : Bool
  deriving DecidableEq, Repr, Inhabited

structure St where
  core : Core
  active : List (Tid × PC)
  calls : Nat            -- ghost: number of `AddInt32` executed = number of `Next` calls started
  rets : List Ret        -- ghost: everything returned so far, newest first
  deriving DecidableEq, Repr, Inhabited

def St.init : St := ⟨Core.init, [], 0, []⟩

def pcOf : List (Tid × PC) → Tid → Option PC
  | [], _ => none
  | (t', pc) :: rest, t => if t' = t then some pc else pcOf rest t

def step (cfg : Cfg) (s : St) : Label → Option St
  | .add t =>
    match pcOf s.active t with
    | some _ => none        -- a goroutine is inside at most one call
    | none =>
      let r := wrap32 (s.core.retries + 1)
      let core' : Core := ⟨r, s.core.flag⟩
      if budgetOk cfg r then
        match cfg.kind with
        | .fixed => some ⟨core', s.active, s.calls + 1, ⟨t, cfg.initial, true⟩ :: s.rets⟩
        | .exp => some ⟨core', (t, .needLoad r) :: s.active, s.calls + 1, s.rets⟩
      else some ⟨core', s.active, s.calls + 1, ⟨t, 0, false⟩ :: s.rets⟩
  | .load t =>
    match pcOf s.active t with
    | some (.needLoad r) =>
      let act' := s.active.erase (t, .needLoad r)
      if s.core.flag then some ⟨s.core, act', s.calls, ⟨t, cfg.max, true⟩ :: s.rets⟩
      else
        let iv := rawInterval cfg r
        if capHit cfg iv then some ⟨s.core, (t, .needStore) :: act', s.calls, s.rets⟩
        else some ⟨s.core, act', s.calls, ⟨t, iv, true⟩ :: s.rets⟩
    | _ => none
  | .store t =>
    match pcOf s.active t with
    | some .needStore =>
      some ⟨⟨s.core.retries, true⟩, s.active.erase (t, .needStore), s.calls, ⟨t, cfg.max, true⟩ :: s.rets⟩
    | _ => none

def run (cfg : Cfg) : St → List Label → Option St
  | s, [] => some s
  | s, l :: ls => (step cfg s l).bind fun s' => run cfg s' ls

def okCount (rs : List Ret) : Nat := (rs.filter (·.ok)).length

/-- one whole call by goroutine `t` with nobody interleaving -/
def callSeq (cfg : Cfg) (t : Tid) (s : St) : Option St :=
  (step cfg s (.add t)).bind fun s1 =>
    match pcOf s1.active t with
    | none => some s1
    | some _ =>
      (step cfg s1 (.load t)).bind fun s2 =>
        match pcOf s2.active t with
        | none => some s2
        | some _ => step cfg s2 (.store t)

/-! ### `Retry` on a virtual clock -/

inductive Arm where
  | ctx | timer
  deriving DecidableEq, Repr, Inhabited

/-- everything that is not ekit code -/
structure Env where
  /-- invocation `k` (0-based) of bizFunc: how long it runs, and its error (`none` = nil) -/
  biz : Nat → Nat × Option Nat
  /-- delay between the top of the loop and the start of invocation `k` -/
  startLag : Nat → Nat
  /-- time spent in `s.Next()` and `time.NewTimer` before the `k`-th timer is armed -/
  nextLag : Nat → Nat
  /-- how much later than `armed + d` the `k`-th timer fires (a timer never fires early) -/
  fireLate : Nat → Nat
  /-- which arm of the `k`-th `select` is taken -/
  arm : Nat → Arm
  /-- delay between the arm becoming ready and the goroutine running again -/
  wakeLag : Nat → Nat
  /-- the time at which `ctx.Done()` is closed (`none` = never) -/
  ctxEnd : Option Nat

inductive Res where
  | nil                      -- `return nil`
  | exhausted (last : Nat)   -- `errs.NewErrRetryExhausted(err)`: wraps error `last`
  | ctxErr                   -- `return ctx.Err()`
  | running                  -- out of fuel: still looping
  | invalid                  -- the oracle chose an arm that is not enabled
  deriving DecidableEq, Repr, Inhabited

/-- one iteration of the loop, as observed -/
structure Att where
  start : Nat
  fin : Nat
  err : Option Nat
  nxt : Option (Int × Bool)   -- what `s.Next()` returned; `none` when it was not called
  armed : Nat                 -- when the timer was created   (meaningful when nxt = some (_, true))
  fire : Nat                  -- when that timer fires
  resume : Nat                -- when `select` returned
  deriving DecidableEq, Repr, Inhabited

/-- may `select` take the timer arm? only if the timer fired no later than the context ended, or
    the timer channel was already ready when `select` was entered (then either ready arm may be taken) -/
def timerEnabled (ctxEnd : Option Nat) (armed fire : Nat) : Bool :=
  match ctxEnd with
  | none => true
  | some c => decide (fire ≤ c) || decide (fire ≤ armed)

/-- may `select` take the `ctx.Done()` arm? only if the context ended no later than the timer fires -/
def ctxEnabled (ctxEnd : Option Nat) (fire : Nat) : Bool :=
  match ctxEnd with
  | none => false
  | some c => decide (c ≤ fire)

/-- `Retry(ctx, s, bizFunc)` from loop iteration `k` at time `now` with strategy state `st`.
    `fuel` bounds the number of iterations simulated. -/
def retryLoop {σ : Type} (next : σ → σ × (Int × Bool)) (env : Env) :
    (fuel : Nat) → (k : Nat) → (now : Nat) → σ → Res × List Att
  | 0, _, _, _ => (.running, [])
  | fuel + 1, k, now, st =>
    let start := now + env.startLag k
    let fin := start + (env.biz k).1
    match (env.biz k).2 with
    | none => (.nil, [⟨start, fin, none, none, 0, 0, 0⟩])
    | some e =>
      let r := next st
      let d := r.2.1
      if r.2.2 = false then (.exhausted e, [⟨start, fin, some e, some (d, false), 0, 0, 0⟩])
      else
        let armed := fin + env.nextLag k
        let fire := armed + d.toNat + env.fireLate k        -- NewTimer(d) with d ≤ 0 fires at once
        match env.arm k with
        | .ctx =>
          let resume := (match env.ctxEnd with | some c => max armed c | none => armed) + env.wakeLag k
          let att : Att := ⟨start, fin, some e, some (d, true), armed, fire, resume⟩
          if ctxEnabled env.ctxEnd fire then (.ctxErr, [att]) else (.invalid, [att])
        | .timer =>
          let resume := fire + env.wakeLag k
          let att : Att := ⟨start, fin, some e, some (d, true), armed, fire, resume⟩
          if timerEnabled env.ctxEnd armed fire then
            let rest := retryLoop next env fuel (k + 1) resume r.1
            (rest.1, att :: rest.2)
          else (.invalid, [att])

/-- outputs of the first `n` calls of an arbitrary strategy -/
def stratOutputs {σ : Type} (next : σ → σ × (Int × Bool)) : Nat → σ → List (Int × Bool)
  | 0, _ => []
  | n + 1, st => (next st).2 :: stratOutputs next n (next st).1

/-! ### the code before commit 9886278: one `time.Ticker` shared by all waits

Kept only to state the defect that was fixed (negative witness in `Ekit/Props/C19.lean`).
`async = true` is the legacy channel discipline (`GODEBUG=asynctimerchan=1`, the default for a
`go.mod` below 1.23): the ticker channel has a one-element buffer that `Reset` does not drain.
`async = false`: `Reset` discards a pending tick. No context in this model. -/

structure Ticker where
  nextTick : Nat
  period : Nat
  buffered : Bool
  deriving DecidableEq, Repr, Inhabited

/-- let the ticker run until time `t`: a tick that happened is buffered (further ones are dropped) -/
def Ticker.advance (tk : Ticker) (t : Nat) : Ticker :=
  if tk.nextTick ≤ t ∧ 0 < tk.period then
    ⟨tk.nextTick + tk.period * ((t - tk.nextTick) / tk.period + 1), tk.period, true⟩
  else tk

def oldLoop (next : σ → σ × (Int × Bool)) (env : Env) (async : Bool) :
    (fuel : Nat) → (k : Nat) → (now : Nat) → σ → Option Ticker → Res × List Att
  | 0, _, _, _, _ => (.running, [])
  | fuel + 1, k, now, st, tk =>
    let start := now + env.startLag k
    let fin := start + (env.biz k).1
    match (env.biz k).2 with
    | none => (.nil, [⟨start, fin, none, none, 0, 0, 0⟩])
    | some e =>
      let r := next st
      let d := r.2.1
      if r.2.2 = false then (.exhausted e, [⟨start, fin, some e, some (d, false), 0, 0, 0⟩])
      else
        let armed := fin + env.nextLag k
        -- `time.NewTicker(d)` the first time, `ticker.Reset(d)` afterwards
        let tk1 : Ticker := match tk with
          | none => ⟨armed + d.toNat, d.toNat, false⟩
          | some t0 =>
            let t1 := t0.advance armed
            ⟨armed + d.toNat, d.toNat, if async then t1.buffered else false⟩
        -- `<-ticker.C`
        if tk1.buffered then
          let att : Att := ⟨start, fin, some e, some (d, true), armed, armed, armed⟩
          let rest := oldLoop next env async fuel (k + 1) armed r.1 (some ⟨tk1.nextTick, tk1.period, false⟩)
          (rest.1, att :: rest.2)
        else
          let fire := tk1.nextTick + env.fireLate k
          let resume := fire + env.wakeLag k
          let att : Att := ⟨start, fin, some e, some (d, true), armed, fire, resume⟩
          let rest := oldLoop next env async fuel (k + 1) resume r.1 (some ⟨tk1.nextTick + tk1.period, tk1.period, false⟩)
          (rest.1, att :: rest.2)

end Ekit.Retry
