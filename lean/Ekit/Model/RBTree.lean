/-
Executable model of ekit's red-black tree (internal/tree/red_black_tree.go) and of the containers
built on it (tree/red_black_tree.go, mapx/treemap.go, set/treeset.go, mapx/linkedmap.go,
mapx/multi_map.go), together with the abstract specification they are proved to refine
(a `cmp`-sorted association list; an insertion-ordered association list for the linked map).

The Go tree is imperative with parent pointers.  The model is the recursive reformulation of the
same algorithm: every recursion level of `ins`/`del` corresponds to one iteration of `fixAfterAdd` /
`fixAfterDelete`; the `Bool` returned by `del`, `delMin`, `fixDelL/R`, `spliceOut` means "this subtree
is one black node short" (the role of `x` in `fixAfterDelete`, including the phantom leaf used when a
childless black node is removed).  The shape/colour dump of the model is compared with the dump of the
real tree after every operation of every correspondence run (Driver/Tree.lean).

Keys `α` are only ever inspected through the comparator `cmp : α → α → Int` (negative / zero /
positive, exactly Go's `ekit.Comparator`): equality of keys *is* `cmp a b = 0`.
-/
namespace Ekit.RB

inductive Color where
  | red | black
  deriving DecidableEq, Repr, Inhabited

inductive Tree (α β : Type) where
  | nil : Tree α β
  | node (c : Color) (l : Tree α β) (k : α) (v : β) (r : Tree α β) : Tree α β
  deriving Repr, Inhabited

namespace Tree
variable {α β : Type}

def color : Tree α β → Color
  | nil => .black                      -- getColor() of a nil node is Black
  | node c _ _ _ _ => c
def isRed (t : Tree α β) : Bool := t.color == .red
def setBlack : Tree α β → Tree α β
  | nil => nil
  | node _ l k v r => node .black l k v r
def setRed : Tree α β → Tree α β
  | nil => nil
  | node _ l k v r => node .red l k v r
def left : Tree α β → Tree α β
  | nil => nil
  | node _ l _ _ _ => l
def right : Tree α β → Tree α β
  | nil => nil
  | node _ _ _ _ r => r

/-- in-order traversal (`inOrderTraversal`, `KeyValues`) -/
def toList : Tree α β → List (α × β)
  | nil => []
  | node _ l k v r => toList l ++ (k, v) :: toList r

/-- number of nodes -/
def count : Tree α β → Nat
  | nil => 0
  | node _ l _ _ r => count l + 1 + count r

/-- number of nodes on the longest root-to-leaf path -/
def height : Tree α β → Nat
  | nil => 0
  | node _ l _ _ r => max (height l) (height r) + 1

/-- rotateLeft(node) — a no-op when the right child is nil -/
def rotL : Tree α β → Tree α β
  | node c a k v (node c' b k' v' d) => node c' (node c a k v b) k' v' d
  | t => t
/-- rotateRight(node) — a no-op when the left child is nil -/
def rotR : Tree α β → Tree α β
  | node c (node c' a k' v' b) k v d => node c' a k' v' (node c b k v d)
  | t => t

/-- a red node with a red child: the violation `fixAfterAdd` is looking at
    (`x != root && x.parent.color == Red`, seen from the parent) -/
def redRed : Tree α β → Bool
  | node .red l _ _ r => l.isRed || r.isRed
  | _ => false

/-- one iteration of `fixAfterAdd` seen from the grandparent `(c,l,k,v,r)` when the insertion
    happened in `l`: uncle red ⇒ `fixUncleRed`; uncle black ⇒ `fixAddLeftBlack`. -/
def fixInsL (c : Color) (l : Tree α β) (k : α) (v : β) (r : Tree α β) : Tree α β :=
  if l.redRed then
    if r.isRed then node .red l.setBlack k v r.setBlack
    else
      -- fixAddLeftBlack: if x is the right child of its parent: rotateLeft(parent)
      let l' := if l.right.isRed && !l.left.isRed then rotL l else l
      -- parent black, grandparent red, rotateRight(grandparent)
      rotR (node .red l'.setBlack k v r)
  else node c l k v r

/-- mirror image: the insertion happened in `r` (`fixUncleRed` / `fixAddRightBlack`) -/
def fixInsR (c : Color) (l : Tree α β) (k : α) (v : β) (r : Tree α β) : Tree α β :=
  if r.redRed then
    if l.isRed then node .red l.setBlack k v r.setBlack
    else
      let r' := if r.left.isRed && !r.right.isRed then rotR r else r
      rotL (node .red l k v r'.setBlack)
  else node c l k v r

/-- the descent of `addNode` (`cmp < 0` left, `cmp > 0` right, otherwise duplicate ⇒ `none`)
    followed on the way back by the fix-up iterations -/
def ins (cmp : α → α → Int) (k : α) (v : β) : Tree α β → Option (Tree α β)
  | nil => some (node .red nil k v nil)
  | node c l k' v' r =>
    if cmp k k' < 0 then
      match ins cmp k v l with
      | some l' => some (fixInsL c l' k' v' r)
      | none => none
    else if cmp k k' > 0 then
      match ins cmp k v r with
      | some r' => some (fixInsR c l k' v' r')
      | none => none
    else none

/-- `addNode`: `none` = ErrRBTreeSameRBNode; ends with `rb.root.setColor(Black)` -/
def insert (cmp : α → α → Int) (t : Tree α β) (k : α) (v : β) : Option (Tree α β) :=
  match ins cmp k v t with
  | some t' => some t'.setBlack
  | none => none

/-- `fixAfterDeleteLeft` once the sibling `r` is black (cases 2, 3, 4). -/
def fixDelLB (c : Color) (l : Tree α β) (k : α) (v : β) (r : Tree α β) : Tree α β × Bool :=
  if !r.left.isRed && !r.right.isRed then
    -- both nephews black: sib.setColor(Red); x = parent. A red parent ends the loop and is set black.
    if c == .red then (node .black l k v r.setRed, false) else (node c l k v r.setRed, true)
  else
    -- far nephew black: sib.left black, sib red, rotateRight(sib)
    let r' := if !r.right.isRed then
        rotR (match r with
              | node _ rl rk rv rr => node .red rl.setBlack rk rv rr
              | nil => nil)
      else r
    -- sib.color = parent.color; parent black; sib.right black; rotateLeft(parent); x = root
    match r' with
    | node _ rl rk rv rr => (node c (node .black l k v rl) rk rv rr.setBlack, false)
    | nil => (node c l k v r', false)

/-- `fixAfterDeleteLeft`: the LEFT child `l` of `(c,l,k,v,r)` is one black short.
    Returns the repaired subtree and whether it is still one black short. -/
def fixDelL (c : Color) (l : Tree α β) (k : α) (v : β) (r : Tree α β) : Tree α β × Bool :=
  match r with
  | node .red rl rk rv rr =>
    -- sibling red: sib black, parent red, rotateLeft(parent); continue below with the red parent
    (node .black (fixDelLB .red l k v rl).1 rk rv rr, false)
  | _ => fixDelLB c l k v r

/-- `fixAfterDeleteRight` once the sibling `l` is black. -/
def fixDelRB (c : Color) (l : Tree α β) (k : α) (v : β) (r : Tree α β) : Tree α β × Bool :=
  if !l.right.isRed && !l.left.isRed then
    if c == .red then (node .black l.setRed k v r, false) else (node c l.setRed k v r, true)
  else
    let l' := if !l.left.isRed then
        rotL (match l with
              | node _ ll lk lv lr => node .red ll lk lv lr.setBlack
              | nil => nil)
      else l
    match l' with
    | node _ ll lk lv lr => (node c ll.setBlack lk lv (node .black lr k v r), false)
    | nil => (node c l' k v r, false)

/-- `fixAfterDeleteRight`: the RIGHT child is one black short. -/
def fixDelR (c : Color) (l : Tree α β) (k : α) (v : β) (r : Tree α β) : Tree α β × Bool :=
  match l with
  | node .red ll lk lv lr =>
    (node .black ll lk lv (fixDelRB .red lr k v r).1, false)
  | _ => fixDelRB c l k v r

/-- the part of `deleteNode` that unlinks a node `(c,l,·,·,r)` having at most one child:
    `replacement := left ?? right`; a black node replaced by a red child recolours the child;
    a black childless node leaves a deficient phantom leaf. -/
def spliceOut (c : Color) (l r : Tree α β) : Tree α β × Bool :=
  let rep := match l with
    | nil => r
    | _ => l
  match rep with
  | nil => (nil, c == .black)
  | _ => if c == .black then (if rep.isRed then (rep.setBlack, false) else (rep, true)) else (rep, false)

/-- re-attach a left subtree after a deletion below it -/
def balL (c : Color) (res : Tree α β × Bool) (k : α) (v : β) (r : Tree α β) : Tree α β × Bool :=
  if res.2 then fixDelL c res.1 k v r else (node c res.1 k v r, false)
/-- re-attach a right subtree after a deletion below it -/
def balR (c : Color) (l : Tree α β) (k : α) (v : β) (res : Tree α β × Bool) : Tree α β × Bool :=
  if res.2 then fixDelR c l k v res.1 else (node c l k v res.1, false)

/-- `findSuccessor` + unlinking of the successor: removes the leftmost node of `(c,l,k,v,r)`
    and returns its key/value -/
def delMin (c : Color) : Tree α β → α → β → Tree α β → (α × β) × (Tree α β × Bool)
  | nil, k, v, r => ((k, v), spliceOut c nil r)
  | node lc ll lk lv lr, k, v, r =>
    let m := delMin lc ll lk lv lr
    (m.1, balL c m.2 k v r)

/-- `findNode` + `deleteNode`: `none` = key absent; otherwise the removed value, the new subtree and
    whether it is one black short. A node with two children receives the key AND value of its
    successor, which is unlinked instead. -/
def del (cmp : α → α → Int) (k : α) : Tree α β → Option (β × (Tree α β × Bool))
  | nil => none
  | node c l k' v' r =>
    if cmp k k' < 0 then
      match del cmp k l with
      | some (x, res) => some (x, balL c res k' v' r)
      | none => none
    else if cmp k k' > 0 then
      match del cmp k r with
      | some (x, res) => some (x, balR c l k' v' res)
      | none => none
    else
      match l, r with
      | node .., node rc rl rk rv rr =>
        let m := delMin rc rl rk rv rr
        some (v', balR c l m.1.1 m.1.2 m.2)
      | _, _ => some (v', spliceOut c l r)

def delete (cmp : α → α → Int) (t : Tree α β) (k : α) : Option (β × Tree α β) :=
  match del cmp k t with
  | some (x, res) => some (x, res.1)
  | none => none

/-- `findNode`: the entry (stored key, value) whose key compares equal -/
def findEntry (cmp : α → α → Int) (k : α) : Tree α β → Option (α × β)
  | nil => none
  | node _ l k' v' r =>
    if cmp k k' < 0 then findEntry cmp k l
    else if cmp k k' > 0 then findEntry cmp k r
    else some (k', v')

def find (cmp : α → α → Int) (k : α) (t : Tree α β) : Option β := (findEntry cmp k t).map (·.2)

/-- `Set`: `findNode` then `setNode(value)` — the stored key is kept. `none` = absent. -/
def set (cmp : α → α → Int) (k : α) (v : β) : Tree α β → Option (Tree α β)
  | nil => none
  | node c l k' v' r =>
    if cmp k k' < 0 then
      match set cmp k v l with
      | some l' => some (node c l' k' v' r)
      | none => none
    else if cmp k k' > 0 then
      match set cmp k v r with
      | some r' => some (node c l k' v' r')
      | none => none
    else some (node c l k' v r)

/-- number of comparator calls made by the descent of `findNode` / `addNode` for key `k`
    (one per visited node, stopping at an equal key) -/
def cmpCount (cmp : α → α → Int) (k : α) : Tree α β → Nat
  | nil => 0
  | node _ l k' _ r =>
    if cmp k k' < 0 then cmpCount cmp k l + 1
    else if cmp k k' > 0 then cmpCount cmp k r + 1
    else 1

/-- `findNode` instrumented with the number of comparator calls it makes -/
def findCount (cmp : α → α → Int) (k : α) : Tree α β → Option (α × β) × Nat
  | nil => (none, 0)
  | node _ l k' v' r =>
    if cmp k k' < 0 then let p := findCount cmp k l; (p.1, p.2 + 1)
    else if cmp k k' > 0 then let p := findCount cmp k r; (p.1, p.2 + 1)
    else (some (k', v'), 1)

/-! #### executable red-black validity (used by the driver on observed dumps) -/
def bh : Tree α β → Nat
  | nil => 0
  | node c l _ _ _ => bh l + (if c = .black then 1 else 0)

def balancedB : Tree α β → Bool
  | nil => true
  | node _ l _ _ r => bh l == bh r && balancedB l && balancedB r

def noRedRedB : Tree α β → Bool
  | nil => true
  | node c l _ _ r => (c != .red || (!l.isRed && !r.isRed)) && noRedRedB l && noRedRedB r

def sortedB (cmp : α → α → Int) : List (α × β) → Bool
  | [] => true
  | [_] => true
  | a :: b :: rest => decide (cmp a.1 b.1 < 0) && sortedB cmp (b :: rest)

end Tree

/-! ### internal/tree.RBTree and tree.RBTree: root + size counter -/

structure RBTree (α β : Type) where
  root : Tree α β
  size : Int
  deriving Repr, Inhabited

inductive TreeOp (α β : Type) where
  | add (k : α) (v : β)
  | set (k : α) (v : β)
  | find (k : α)
  | delete (k : α)
  | keyValues
  | size
  deriving Repr, Inhabited

/-- operations of the `mapi` interface (TreeMap, LinkedMap, MultiMap) -/
inductive MapOp (α β : Type) where
  | put (k : α) (v : β)
  | get (k : α)
  | delete (k : α)
  | keys
  | values
  | len
  deriving Repr, Inhabited

inductive SetOp (α : Type) where
  | add (k : α)
  | delete (k : α)
  | exist (k : α)
  | keys
  deriving Repr, Inhabited

/-- what a call returns -/
inductive Ret (α β : Type) where
  | ok                              -- nil error / no result
  | errDup                          -- ErrRBTreeSameRBNode
  | errAbsent                       -- ErrRBTreeNotRBNode
  | val (v : β)                     -- (v, nil) / (v, true)
  | none                            -- (zero, false)
  | kvs (l : List (α × β))          -- KeyValues
  | keys (l : List α)
  | vals (l : List β)
  | int (n : Int)
  | bool (b : Bool)
  deriving Repr, Inhabited, DecidableEq

namespace RBTree
variable {α β : Type}

def empty : RBTree α β := ⟨.nil, 0⟩

def step (cmp : α → α → Int) (t : RBTree α β) : TreeOp α β → RBTree α β × Ret α β
  | .add k v =>
    match Tree.insert cmp t.root k v with
    | some r => (⟨r, t.size + 1⟩, .ok)
    | none => (t, .errDup)
  | .set k v =>
    match Tree.set cmp k v t.root with
    | some r => (⟨r, t.size⟩, .ok)
    | none => (t, .errAbsent)
  | .find k =>
    match Tree.find cmp k t.root with
    | some v => (t, .val v)
    | none => (t, .errAbsent)
  | .delete k =>
    match Tree.delete cmp t.root k with
    | some (v, r) => (⟨r, t.size - 1⟩, .val v)
    | none => (t, .none)
  | .keyValues => (t, .kvs t.root.toList)
  | .size => (t, .int t.size)

/-- comparator calls made by one public call (every public call locates its key once) -/
def cmps (cmp : α → α → Int) (t : RBTree α β) : TreeOp α β → Nat
  | .add k _ | .set k _ | .find k | .delete k => t.root.cmpCount cmp k
  | .keyValues | .size => 0

def run (cmp : α → α → Int) (t : RBTree α β) : List (TreeOp α β) → RBTree α β × List (Ret α β)
  | [] => (t, [])
  | op :: ops =>
    let r := t.step cmp op
    let rr := run cmp r.1 ops
    (rr.1, r.2 :: rr.2)
end RBTree

/-! ### mapx.TreeMap: a thin layer over the internal tree -/
namespace TreeMap
variable {α β : Type}

def step (cmp : α → α → Int) (t : RBTree α β) : MapOp α β → RBTree α β × Ret α β
  | .put k v =>
    -- err := tree.Add(k, v); if err == ErrRBTreeSameRBNode { return tree.Set(k, v) }; return nil
    match t.step cmp (.add k v) with
    | (t', .errDup) => t'.step cmp (.set k v)
    | (t', _) => (t', .ok)
  | .get k =>
    match t.step cmp (.find k) with
    | (t', .val v) => (t', .val v)
    | (t', _) => (t', .none)
  | .delete k => t.step cmp (.delete k)
  | .keys => (t, .keys (t.root.toList.map (·.1)))
  | .values => (t, .vals (t.root.toList.map (·.2)))
  | .len => (t, .int t.size)

/-- `Put` on a present key locates twice (Add, then Set) -/
def cmps (cmp : α → α → Int) (t : RBTree α β) : MapOp α β → Nat
  | .put k _ =>
    match Tree.findEntry cmp k t.root with
    | some _ => 2 * t.root.cmpCount cmp k
    | none => t.root.cmpCount cmp k
  | .get k | .delete k => t.root.cmpCount cmp k
  | _ => 0

def run (cmp : α → α → Int) (t : RBTree α β) : List (MapOp α β) → RBTree α β × List (Ret α β)
  | [] => (t, [])
  | op :: ops =>
    let r := step cmp t op
    let rr := run cmp r.1 ops
    (rr.1, r.2 :: rr.2)
end TreeMap

/-! ### set.TreeSet = TreeMap[T, any] holding nil values -/
namespace TreeSet
variable {α : Type}

def step (cmp : α → α → Int) (t : RBTree α Unit) : SetOp α → RBTree α Unit × Ret α Unit
  | .add k => ((TreeMap.step cmp t (.put k ())).1, .ok)            -- _ = treeMap.Put(key, nil)
  | .delete k => ((TreeMap.step cmp t (.delete k)).1, .ok)         -- result dropped
  | .exist k =>
    match TreeMap.step cmp t (.get k) with
    | (t', .val _) => (t', .bool true)
    | (t', _) => (t', .bool false)
  | .keys => TreeMap.step cmp t .keys

def cmps (cmp : α → α → Int) (t : RBTree α Unit) : SetOp α → Nat
  | .add k => TreeMap.cmps cmp t (.put k ())
  | .delete k | .exist k => t.root.cmpCount cmp k
  | .keys => 0

def run (cmp : α → α → Int) (t : RBTree α Unit) : List (SetOp α) → RBTree α Unit × List (Ret α Unit)
  | [] => (t, [])
  | op :: ops =>
    let r := step cmp t op
    let rr := run cmp r.1 ops
    (rr.1, r.2 :: rr.2)
end TreeSet

/-! ### mapx.LinkedMap over a TreeMap
The inner map sends a key to (a pointer to) its cell; the cells form a doubly linked list in
insertion order and carry key and value.  In the model the inner tree holds `Unit` (the pointer)
and a pointer is dereferenced by looking the cell up by comparator-equality in `cells`
(exact because cells and tree hold the same pairwise-inequivalent keys — proved as an invariant). -/
structure LinkedMap (α β : Type) where
  m : RBTree α Unit
  cells : List (α × β)
  length : Int
  deriving Repr, Inhabited

namespace LinkedMap
variable {α β : Type}

def empty : LinkedMap α β := ⟨RBTree.empty, [], 0⟩

def cellOf (cmp : α → α → Int) (k : α) (cells : List (α × β)) : Option (α × β) :=
  cells.find? fun p => cmp k p.1 == 0

def step (cmp : α → α → Int) (s : LinkedMap α β) : MapOp α β → LinkedMap α β × Ret α β
  | .put k v =>
    match TreeMap.step cmp s.m (.get k) with
    | (_, .val _) =>
      -- lk.value = val : the cell keeps its key and its place
      ({ s with cells := s.cells.map fun p => if cmp k p.1 == 0 then (p.1, v) else p }, .ok)
    | _ =>
      match TreeMap.step cmp s.m (.put k ()) with
      | (m', .ok) => (⟨m', s.cells ++ [(k, v)], s.length + 1⟩, .ok)
      | _ => (s, .errAbsent)             -- `if err := l.m.Put(key, lk); err != nil { return err }`
  | .get k =>
    match TreeMap.step cmp s.m (.get k) with
    | (_, .val _) =>
      match cellOf cmp k s.cells with
      | some p => (s, .val p.2)
      | none => (s, .none)
    | _ => (s, .none)
  | .delete k =>
    match TreeMap.step cmp s.m (.delete k) with
    | (m', .val _) =>
      match cellOf cmp k s.cells with
      | some p => (⟨m', s.cells.eraseP fun p => cmp k p.1 == 0, s.length - 1⟩, .val p.2)
      | none => (⟨m', s.cells, s.length - 1⟩, .none)
    | _ => (s, .none)
  | .keys => (s, .keys (s.cells.map (·.1)))
  | .values => (s, .vals (s.cells.map (·.2)))
  | .len => (s, .int s.length)

/-- `Put`: one `Get`, and when the key is absent one `Put` on the inner map -/
def cmps (cmp : α → α → Int) (s : LinkedMap α β) : MapOp α β → Nat
  | .put k _ =>
    match Tree.findEntry cmp k s.m.root with
    | some _ => s.m.root.cmpCount cmp k
    | none => 2 * s.m.root.cmpCount cmp k
  | .get k | .delete k => s.m.root.cmpCount cmp k
  | _ => 0

def run (cmp : α → α → Int) (s : LinkedMap α β) : List (MapOp α β) → LinkedMap α β × List (Ret α β)
  | [] => (s, [])
  | op :: ops =>
    let r := step cmp s op
    let rr := run cmp r.1 ops
    (rr.1, r.2 :: rr.2)
end LinkedMap

/-! ### mapx.MultiMap over a TreeMap[K, []V] -/
namespace MultiMap
variable {α γ : Type}

/-- `put k vs` is `PutMany(k, vs...)` (`Put(k, v)` is `PutMany(k, v)`) -/
def step (cmp : α → α → Int) (t : RBTree α (List γ)) : MapOp α (List γ) → RBTree α (List γ) × Ret α (List γ)
  | .put k vs =>
    -- val, _ := m.Get(k); val = append(val, v...); return m.m.Put(k, val)
    let old : List γ := match TreeMap.step cmp t (.get k) with
      | (_, .val l) => l
      | _ => []
    TreeMap.step cmp t (.put k (old ++ vs))
  | .get k => TreeMap.step cmp t (.get k)
  | .delete k => TreeMap.step cmp t (.delete k)
  | .keys => TreeMap.step cmp t .keys
  | .values => TreeMap.step cmp t .values
  | .len => TreeMap.step cmp t .len

def cmps (cmp : α → α → Int) (t : RBTree α (List γ)) : MapOp α (List γ) → Nat
  | .put k _ =>
    match Tree.findEntry cmp k t.root with
    | some _ => 3 * t.root.cmpCount cmp k
    | none => 2 * t.root.cmpCount cmp k
  | .get k | .delete k => t.root.cmpCount cmp k
  | _ => 0

def run (cmp : α → α → Int) (t : RBTree α (List γ)) :
    List (MapOp α (List γ)) → RBTree α (List γ) × List (Ret α (List γ))
  | [] => (t, [])
  | op :: ops =>
    let r := step cmp t op
    let rr := run cmp r.1 ops
    (rr.1, r.2 :: rr.2)
end MultiMap

/-! ## The specification: an abstract map ordered by the comparator -/

/-- the comparator is a total preorder presented by sign, as Go's `Comparator` contract demands -/
structure LawfulCmp {α : Type} (cmp : α → α → Int) : Prop where
  antisym : ∀ a b, cmp a b < 0 ↔ 0 < cmp b a
  le_trans : ∀ a b c, cmp a b ≤ 0 → cmp b c ≤ 0 → cmp a c ≤ 0

/-- the comparators used by the correspondence harness (harness/tree/main.go `baseCmp`) -/
def cmpAsc (a b : Int) : Int := a - b
def cmpDesc (a b : Int) : Int := if a < b then 1 else if a > b then -1 else 0
/-- distinct keys that compare equal: `2k` and `2k+1` are the same key (Go's `/` truncates) -/
def cmpHalf (a b : Int) : Int := 7 * (Int.tdiv a 2 - Int.tdiv b 2)

/-! a strictly `cmp`-ascending association list -/
namespace SMap
variable {α β : Type}

def Sorted (cmp : α → α → Int) (s : List (α × β)) : Prop :=
  s.Pairwise fun a b => cmp a.1 b.1 < 0

/-- the entry whose key is equal to `k` *according to the comparator* -/
def lookup (cmp : α → α → Int) (k : α) (s : List (α × β)) : Option (α × β) :=
  s.find? fun p => cmp k p.1 == 0

/-- insertion of a new key at its place in the order -/
def insert (cmp : α → α → Int) (k : α) (v : β) : List (α × β) → List (α × β)
  | [] => [(k, v)]
  | p :: rest => if cmp k p.1 < 0 then (k, v) :: p :: rest else p :: insert cmp k v rest

def erase (cmp : α → α → Int) (k : α) (s : List (α × β)) : List (α × β) :=
  s.eraseP fun p => cmp k p.1 == 0

/-- replace the value of the entry equal to `k`; the stored key stays -/
def update (cmp : α → α → Int) (k : α) (v : β) (s : List (α × β)) : List (α × β) :=
  s.map fun p => if cmp k p.1 == 0 then (p.1, v) else p

def step (cmp : α → α → Int) (s : List (α × β)) : TreeOp α β → List (α × β) × Ret α β
  | .add k v =>
    match lookup cmp k s with
    | some _ => (s, .errDup)
    | none => (insert cmp k v s, .ok)
  | .set k v =>
    match lookup cmp k s with
    | some _ => (update cmp k v s, .ok)
    | none => (s, .errAbsent)
  | .find k =>
    match lookup cmp k s with
    | some p => (s, .val p.2)
    | none => (s, .errAbsent)
  | .delete k =>
    match lookup cmp k s with
    | some p => (erase cmp k s, .val p.2)
    | none => (s, .none)
  | .keyValues => (s, .kvs s)
  | .size => (s, .int s.length)

def run (cmp : α → α → Int) (s : List (α × β)) : List (TreeOp α β) → List (α × β) × List (Ret α β)
  | [] => (s, [])
  | op :: ops =>
    let r := step cmp s op
    let rr := run cmp r.1 ops
    (rr.1, r.2 :: rr.2)

/-- the `mapi` view of the same abstract map: `Put` is insert-or-overwrite -/
def mstep (cmp : α → α → Int) (s : List (α × β)) : MapOp α β → List (α × β) × Ret α β
  | .put k v =>
    match lookup cmp k s with
    | some _ => (update cmp k v s, .ok)
    | none => (insert cmp k v s, .ok)
  | .get k =>
    match lookup cmp k s with
    | some p => (s, .val p.2)
    | none => (s, .none)
  | .delete k =>
    match lookup cmp k s with
    | some p => (erase cmp k s, .val p.2)
    | none => (s, .none)
  | .keys => (s, .keys (s.map (·.1)))
  | .values => (s, .vals (s.map (·.2)))
  | .len => (s, .int s.length)

def mrun (cmp : α → α → Int) (s : List (α × β)) : List (MapOp α β) → List (α × β) × List (Ret α β)
  | [] => (s, [])
  | op :: ops =>
    let r := mstep cmp s op
    let rr := mrun cmp r.1 ops
    (rr.1, r.2 :: rr.2)

/-- abstract set view (TreeSet) -/
def sstep (cmp : α → α → Int) (s : List (α × Unit)) : SetOp α → List (α × Unit) × Ret α Unit
  | .add k =>
    match lookup cmp k s with
    | some _ => (s, .ok)
    | none => (insert cmp k () s, .ok)
  | .delete k => (erase cmp k s, .ok)
  | .exist k => (s, .bool (lookup cmp k s).isSome)
  | .keys => (s, .keys (s.map (·.1)))

def srun (cmp : α → α → Int) (s : List (α × Unit)) : List (SetOp α) → List (α × Unit) × List (Ret α Unit)
  | [] => (s, [])
  | op :: ops =>
    let r := sstep cmp s op
    let rr := srun cmp r.1 ops
    (rr.1, r.2 :: rr.2)

/-- abstract multimap: `put k vs` appends `vs` to the values of `k` -/
def multiStep {γ : Type} (cmp : α → α → Int) (s : List (α × List γ)) :
    MapOp α (List γ) → List (α × List γ) × Ret α (List γ)
  | .put k vs =>
    match lookup cmp k s with
    | some p => (update cmp k (p.2 ++ vs) s, .ok)
    | none => (insert cmp k vs s, .ok)
  | op => mstep cmp s op

def multiRun {γ : Type} (cmp : α → α → Int) (s : List (α × List γ)) :
    List (MapOp α (List γ)) → List (α × List γ) × List (Ret α (List γ))
  | [] => (s, [])
  | op :: ops =>
    let r := multiStep cmp s op
    let rr := multiRun cmp r.1 ops
    (rr.1, r.2 :: rr.2)
end SMap

/-! an association list in first-insertion order (the specification of LinkedMap) -/
namespace OMap
variable {α β : Type}

def step (cmp : α → α → Int) (s : List (α × β)) : MapOp α β → List (α × β) × Ret α β
  | .put k v =>
    match SMap.lookup cmp k s with
    | some _ => (SMap.update cmp k v s, .ok)
    | none => (s ++ [(k, v)], .ok)
  | .get k =>
    match SMap.lookup cmp k s with
    | some p => (s, .val p.2)
    | none => (s, .none)
  | .delete k =>
    match SMap.lookup cmp k s with
    | some p => (SMap.erase cmp k s, .val p.2)
    | none => (s, .none)
  | .keys => (s, .keys (s.map (·.1)))
  | .values => (s, .vals (s.map (·.2)))
  | .len => (s, .int s.length)

def run (cmp : α → α → Int) (s : List (α × β)) : List (MapOp α β) → List (α × β) × List (Ret α β)
  | [] => (s, [])
  | op :: ops =>
    let r := step cmp s op
    let rr := run cmp r.1 ops
    (rr.1, r.2 :: rr.2)
end OMap

end Ekit.RB
