/-
The two schedules of DESIGN.md §5 C12 / §6 #6 and #13 as label sequences of the pool model.  They are
replayed through `System.run` (kernel evaluation, `rfl`) by the negative-witness theorems of C12.

F1 (`initGo=1, WithMaxGo(2)`): Start; Submit t0, which also creates a second worker; Shutdown (CAS, close);
   w0 runs t0 and joins the timeout group; its idle timer fires; w1 sees the closed queue, decrements
   2→1, reads 1 ≠ 0 and leaves; w0 takes the idle-timeout exit: 1→0.  Nobody is left to perform
   closing→stopped: the channel returned by Shutdown never closes.
F2 (`initGo=1, coreGo=2, maxGo=3`): five tasks queued before Start (which creates 3 workers); w0 and w1
   each run a task and join the timeout group while ≥ 3 tasks are queued; both timers fire; w2 runs a
   task and leaves above core (2 queued < totalGo 3); w0, w1 take the idle-timeout exit: the pool is
   *running* with totalGo = 0 and two accepted tasks queued.  A later Shutdown hangs.
-/
import Ekit.Model.Pool
namespace Ekit.Pool.Witness
open Ekit.Pool

def callSteps (t : Nat) (as : List CAct) : List Label := as.map (Label.c t)
def workSteps (i : Nat) (as : List WAct) : List Label := as.map (Label.w i)

def cfgF1 : Cfg := ⟨1, 2, 2, 4, 0, 1⟩

def f1Trace : List Label :=
  callSteps 0 [.invStart, .stLoad1, .stLoad2, .stLoad3, .stCas, .stNum, .stIncLock, .stIncWrite, .stSpawn, .stUnlock, .ret] ++
  callSteps 0 [.invSubmit false .ret, .subLoad1, .subLoad2, .subCas1, .subCas2, .selSend, .allowRLock, .allowRead,
               .incLock, .incWrite, .spawn, .unlock, .ret] ++
  callSteps 1 [.invShutdown, .sdLoad1, .sdLoad2, .sdLoad3, .sdCas, .sdClose] ++
  workSteps 0 [.selRecv, .leaveGroup, .incRun, .taskRet, .decRun, .postLock, .postLen1, .postDecide, .postGrp,
               .postUnlock, .fire] ++
  workSteps 1 [.selClosed, .leaveGroup, .clLock, .clWrite, .clRLock, .clRead] ++
  workSteps 0 [.selIdle, .idleLock, .idleWrite]

def cfgF2 : Cfg := ⟨1, 2, 3, 8, 0, 1⟩

def subCreated : List CAct := [.invSubmit false .ret, .subLoad1, .subLoad2, .subCas1, .selSend, .unlock, .ret]
def runTask : List WAct := [.selRecv, .leaveGroup, .incRun, .taskRet, .decRun]

/-- up to the stranded state: running, totalGo = 0, tasks 3 and 4 queued -/
def f2Strand : List Label :=
  callSteps 0 (subCreated ++ subCreated ++ subCreated ++ subCreated ++ subCreated) ++
  callSteps 0 [.invStart, .stLoad1, .stLoad2, .stLoad3, .stCas, .stNum, .stIncLock, .stIncWrite, .stSpawn, .stSpawn,
               .stSpawn, .stUnlock, .ret] ++
  workSteps 0 [.selRecv, .leaveGroup] ++ workSteps 1 [.selRecv, .leaveGroup] ++
  workSteps 0 [.incRun, .taskRet, .decRun, .postLock, .postLen1, .postLen2, .postDecide, .postGrp, .postUnlock] ++
  workSteps 1 [.incRun, .taskRet, .decRun, .postLock, .postLen1, .postLen2, .postDecide, .postGrp, .postUnlock] ++
  workSteps 0 [.fire] ++ workSteps 1 [.fire] ++
  workSteps 2 (runTask ++ [.postLock, .postLen1, .postLen2, .postDecide]) ++
  workSteps 0 [.selIdle, .idleLock, .idleWrite] ++
  workSteps 1 [.selIdle, .idleLock, .idleWrite]

/-- the later graceful Shutdown -/
def f2Shutdown : List Label := callSteps 1 [.invShutdown, .sdLoad1, .sdLoad2, .sdLoad3, .sdCas, .sdClose]

/-- the finite projection of a state the witnesses are checked on -/
structure Obs where
  life : Life
  cancelled : Bool
  closed : Bool
  totalGo : Nat
  queue : List Nat
  pcs : List WPc
  badExits : Nat
  graceful : Bool
  runs : List Nat
  subRes : List Res
  deriving DecidableEq, Repr

def obs (s : St) : Obs :=
  ⟨s.life, s.cancelled, s.closed, s.totalGo, s.queue, s.workers.map (·.pc), s.badExits, s.graceful,
   s.tasks.map (·.runs), s.tasks.map (·.subRes)⟩

end Ekit.Pool.Witness
