/-
C06 — the three lock-wrapped containers as instances of the generic model `Ekit.Linz.LockWrapped`.
Which method takes which lock is read off the source (and pinned by the skeleton obligations
`c06_skel_*`):

* `ConcurrentList[T]{List, lock sync.RWMutex}`: `Get/Len/Cap/Range/AsSlice` = `RLock … RUnlock`,
  `Append/Add/Set/Delete` = `Lock … Unlock`; the body is the wrapped list's method — here any of the
  three list models of C04 (`AnyList`: ArrayList, LinkedList, CopyOnWriteArrayList) with an arbitrary
  runtime growth policy `grow`.
* `CopyOnWriteArrayList{vals, mutex}`: `Get/Len/Cap/Range` call `snapshot()` (= `Lock; vals; Unlock`)
  and then work on the immutable snapshot; `AsSlice` copies under the mutex; the writers build a new
  array under the mutex and publish it with one store (they never modify a published array, so the
  data are never "dirty").
* `ConcurrentPriorityQueue{pq, m sync.RWMutex}`: `Len/Cap/Peek` = `RLock`, `Enqueue/Dequeue` = `Lock`;
  the body is `internal/queue.PriorityQueue` — a parameter here (its sequential refinement of the
  priority-queue specification is C05); `refPQ` is a reference implementation showing the
  hypotheses are satisfiable.
-/
import Ekit.Model.LockWrapped
import Ekit.Model.Lists

namespace Ekit.Linz.LockWrapped
open Ekit.Conc Ekit.Linz Ekit.Lists

/-! ### ConcurrentList -/

def listStyle : SOp → Style
  | .get _ => .sharedR
  | .len => .sharedR
  | .asSlice => .sharedR
  | .range => .sharedR
  | _ => .inplaceW

def listParams (x0 : AnyList) (grow : AnyList → SOp → Nat) : Params AnyList SOp SRet where
  init := x0
  f := fun x op => x.step (grow x op) op
  style := listStyle

/-! ### CopyOnWriteArrayList -/

def cowStyle : SOp → Style
  | .get _ => .cowR
  | .len => .cowR
  | .range => .cowR
  | _ => .cowW

def cowParams (a0 : CowList) : Params CowList SOp SRet where
  init := a0
  f := CowList.step
  style := cowStyle

/-! ### ConcurrentPriorityQueue -/

def pqStyle : POp → Style
  | .enq _ => .inplaceW
  | .deq => .inplaceW
  | _ => .sharedR

def pqParams {H : Type} (h0 : H) (f : H → POp → H × PRet) : Params H POp PRet where
  init := h0
  f := f
  style := pqStyle

/-- a minimum-priority element, if any -/
def minEl : List El → Option El
  | [] => none
  | x :: xs =>
    match minEl xs with
    | none => some x
    | some m => if x.1 ≤ m.1 then some x else some m

/-- reference sequential priority queue (on the specification's own state) -/
def refPQ (s : PQS) : POp → PQS × PRet
  | .enq e => if pqFull s then (s, .full) else ({ s with els := insertSorted e s.els }, .ok)
  | .deq => match minEl s.els with
    | some m => ({ s with els := s.els.erase m }, .val m)
    | none => (s, .empty)
  | .peek => match minEl s.els with
    | some m => (s, .val m)
    | none => (s, .empty)
  | .len => (s, .n s.els.length)
  | .cap => (s, .n s.cap)

end Ekit.Linz.LockWrapped
