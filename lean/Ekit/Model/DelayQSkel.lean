/-
The sync skeletons of /repo/queue/delay_queue.go that `Ekit/Model/DelayQ.lean` was written against
(copied from the output of harness/skel on the unchanged tree).  `Ekit/Props/C08.lean` and
`Ekit/Props/C09b.lean` prove that the skeletons regenerated from the CURRENT tree are equal to these.

Reading guide (skeleton action → model label / pc):
  select{arm[ctx.Done…]{…return};default{}}        → ctxErr / ctxOk at eTop, dTop
  Lock(mutex)                                      → lock (eLock→eCrit, dLock→dPeek, dRelock→dRepeek)
  Call(q.Enqueue); switch(err)                     → enq
  Call(q.Peek); if(delay <= 0)                     → peek
  Call(q.Dequeue)                                  → pop
  Call(x.broadcast) = R(signal);W(signal);Unlock(l);Close(old)  → swap ; unlock ; close
  Call(x.signalCh) = R(signal);Unlock(l);return    → fetch ; unlock
  if(timer == nil){NewTimer}else{Reset(timer)}     → arm
  select{ctx.Done | Recv(timer.C) | Recv(signal)}  → selCtx / selTimer / selSig at dWaitT
  Recv(timer.C){Lock;Call(q.Peek);if(err != nil || val.Delay() > 0){Unlock;continue};…}  → lock ; repeek ; (unlock | pop …)
  defer{if(timer != nil){Stop(timer)}}             → part of ret
  default{Unlock(mutex);return}                    → unreachable: PriorityQueue.Enqueue/Peek return only nil,
                                                     ErrOutOfCapacity / ErrEmptyQueue (C05's model); not a model pc
-/
namespace Ekit.DelayQ.Skel

def expected_DelayQueue_Dequeue : String :=
  "defer{func{if($1 == nil){return};else{Stop($1);return}}};for(){select{arm[ctx.Done;Recv(ctx.Done())]{ctx.Err;return};default{}};Lock(mutex);Call(q.Peek);if($2 == nil){if($3 <= 0){Call(q.Dequeue);Call(dequeueSignal.broadcast);return};else{Call(enqueueSignal.signalCh);if($1 == nil){NewTimer(time)};else{Reset($1)};select{arm[ctx.Done;Recv(ctx.Done())]{ctx.Err;return};arm[Recv($1.C)]{Lock(mutex);Call(q.Peek);if($2 != nil || $4.Delay() > 0){Unlock(mutex);continue};else{Call(q.Dequeue);Call(dequeueSignal.broadcast);return}};arm[Recv($5)]{}};continue}};else{if($2 == queue.ErrEmptyQueue){Call(enqueueSignal.signalCh);select{arm[ctx.Done;Recv(ctx.Done())]{ctx.Err;return};arm[Recv($5)]{}};continue};else{Unlock(mutex);return}}};return"

def expected_DelayQueue_Enqueue : String :=
  "for(){select{arm[ctx.Done;Recv(ctx.Done())]{ctx.Err;return};default{}};Lock(mutex);Call(q.Enqueue);if($1 == nil){Call(enqueueSignal.broadcast);return};else{if($1 == queue.ErrOutOfCapacity){Call(dequeueSignal.signalCh);select{arm[ctx.Done;Recv(ctx.Done())]{ctx.Err;return};arm[Recv($2)]{}};continue};else{Unlock(mutex);return}}};return"

def expected_NewDelayQueue : String :=
  "func{if($1 <= $2){if($1 == $2){return};else{return}};else{return}};return"

def expected_cond_broadcast : String :=
  "R(signal);W(signal);Unlock(l);Close($1);return"

def expected_cond_signalCh : String :=
  "R(signal);Unlock(l);return"

def expected_newCond : String :=
  "return"

end Ekit.DelayQ.Skel
