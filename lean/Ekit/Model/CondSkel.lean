/-
The sync skeletons of every function of /repo/syncx/cond.go that the model `Ekit.Model.Cond` was
written against (copied from the extractor's output on the unchanged tree).  `Ekit/Props/C13.lean`
proves `Ekit.Gen.SkelC13.<f> = expected_<f>` for each of them against the skeletons regenerated from the
current tree on every run: moving an Unlock, dropping the hand-off, removing the ctx re-check or
reordering unlink/send breaks the obligation within seconds.

Correspondence skeleton ↔ model labels:
* `Cond_Wait`: checkCopy (`ccLoad/ccCas/ccLoad2`), checkFirstUse (`firstUse`), `notifyList.add`
  (`addLock, alloc, push, addUnlock`), `Unlock(L)` (`waitUnlockL`), `defer Lock(L)` (`relockL`),
  `notifyList.wait`.
* `notifyList_wait`: `defer free` (`free`), outer select arms (`selCtx` / `selRecv`), in the ctx arm
  `Lock(mu)` (`ctxLock`), inner select (`innerRecv` → `fwdLen` → `fwdPop, fwdSend`; `innerDefault` →
  `remove`), `ctx.Err` (`ctxErr`), deferred `Unlock(mu)` (`ctxUnlock`).
* `notifyList_notifyNext`: front + remove (`sPop/bPop/fwdPop`) *then* send (`sSend/bSend/fwdSend`).
* `notifyList_notifyOne`: `sLock, sLen, sPop, sSend, sUnlock`; `notifyList_notifyAll`: `bLock, (bLen, bPop, bSend)*, bUnlock`.
-/
namespace Ekit.Cond.Skel

def expected_Cond_Broadcast : String :=
  "Call(checkCopy);Call(checkFirstUse);Call(notifyList.notifyAll);return"

def expected_Cond_Signal : String :=
  "Call(checkCopy);Call(checkFirstUse);Call(notifyList.notifyOne);return"

def expected_Cond_Wait : String :=
  "Call(checkCopy);Call(checkFirstUse);Call(notifyList.add);Unlock(L);defer{Lock(L)};Call(notifyList.wait);return"

def expected_Cond_checkCopy : String :=
  "atomic.LoadPointer(checker);atomic.CompareAndSwapPointer(checker);atomic.LoadPointer(checker);if(atomic.LoadPointer(&recv.checker) != UnsafePointer(recv) && !atomic.CompareAndSwapPointer(&recv.checker, nil, UnsafePointer(recv)) && atomic.LoadPointer(&recv.checker) != UnsafePointer(recv)){};else{return}"

def expected_Cond_checkFirstUse : String :=
  "func{R(notifyList);if(recv.notifyList == nil){W(notifyList);return};else{return}};OnceDo(once);return"

def expected_NewCond : String :=
  "return"

def expected_chanList_alloc : String :=
  "Get(pool);return"

def expected_chanList_free : String :=
  "Put(pool);return"

def expected_chanList_front : String :=
  "R(sentinel.next);return"

def expected_chanList_len : String :=
  "R(size);return"

def expected_chanList_pushBack : String :=
  "R(sentinel);R(sentinel.prev);W(sentinel.prev.next);W(sentinel.prev);R(size);W(size);return"

def expected_chanList_remove : String :=
  "R(size);W(size);return"

def expected_newChanList : String :=
  "func{return};return"

def expected_newNotifyList : String :=
  "return"

def expected_noCopy_Lock : String :=
  "return"

def expected_noCopy_Unlock : String :=
  "return"

def expected_notifyList_add : String :=
  "Lock(mu);defer{Unlock(mu)};Call(list.alloc);Call(list.pushBack);return"

def expected_notifyList_notifyAll : String :=
  "Lock(mu);defer{Unlock(mu)};for(recv.list.len() != 0){Call(list.len);Call(notifyNext);continue};return"

def expected_notifyList_notifyNext : String :=
  "Call(list.front);Call(list.remove);Send($1);return"

def expected_notifyList_notifyOne : String :=
  "Lock(mu);defer{Unlock(mu)};Call(list.len);if(recv.list.len() == 0){return};else{Call(notifyNext);return}"

def expected_notifyList_wait : String :=
  "defer{Call(list.free)};select{arm[ctx.Done;Recv(ctx.Done())]{Lock(mu);defer{Unlock(mu)};select{arm[Recv($1)]{Call(list.len);if(recv.list.len() == 0){};else{Call(notifyNext)}};default{Call(list.remove)}};ctx.Err;return};arm[Recv($1)]{return}};return"

end Ekit.Cond.Skel
