/-
C06 — model of `queue.ConcurrentLinkedQueue` (queue/concurrent_linked_queue.go): a lock-free
Michael–Scott style queue over `unsafe.Pointer` + `sync/atomic` with a dummy head node.

    func (c *ConcurrentLinkedQueue[T]) Enqueue(t T) error {
        newNode := &node[T]{val: t}
        for {
            tailPtr := atomic.LoadPointer(&c.tail)                       -- e1
            tail := (*node[T])(tailPtr)
            tailNext := atomic.LoadPointer(&tail.next)                   -- e2
            if tailNext != nil { continue }      -- NOTE: no helping: it just retries until the owner swings the tail
            if atomic.CompareAndSwapPointer(&tail.next, tailNext, newPtr) {      -- e3
                atomic.CompareAndSwapPointer(&c.tail, tailPtr, newPtr)   -- e4 (result ignored)
                return nil
            }
        }
    }
    func (c *ConcurrentLinkedQueue[T]) Dequeue() (T, error) {
        for {
            headPtr := atomic.LoadPointer(&c.head)                       -- d1
            tailPtr := atomic.LoadPointer(&c.tail)                       -- d2
            if head == tail { return zero, ErrEmptyQueue }
            headNextPtr := atomic.LoadPointer(&head.next)                -- d3
            if atomic.CompareAndSwapPointer(&c.head, headPtr, headNextPtr) {     -- d4
                return (*node[T])(headNextPtr).val, nil
            }
        }
    }

**Monotone history abstraction.**  Nodes are never unlinked or reused while reachable (Go's GC), a
node's `next` is written once (nil → non-nil) and `head`/`tail` only move forward along the chain.
So the heap is described by `nodes : List α` = the values of every node ever linked after the
initial dummy, in link order; a pointer is an index (`0` = the initial dummy, `i ≥ 1` = the node
holding `nodes[i-1]`); `next(i) = i+1` if `i < nodes.length`, else nil.  `unsafe.Pointer` identity =
index equality (trusted: no ABA because a node is not freed while a thread holds a pointer to it).
`sync/atomic` operations are sequentially consistent atomic steps (trusted).  A node not yet linked
is private to its thread, so its allocation is not a shared step.

Threads are `Nat` (unboundedly many); every atomic operation is one `tau` step of one thread.
-/
import Ekit.Model.LinzSpec

namespace Ekit.Linz.CLQ
open Ekit.Conc Ekit.Linz

inductive Pc (α : Type) where
  | idle
  | e1 (v : α)                          -- about to load c.tail
  | e2 (v : α) (lt : Nat)               -- about to load lt.next
  | e3 (v : α) (lt : Nat)               -- saw lt.next = nil; about to CAS(&lt.next, nil, new)
  | e4 (v : α) (lt nw : Nat)            -- linked as node `nw`; about to CAS(&c.tail, lt, nw)
  | d1                                  -- about to load c.head
  | d2 (lh : Nat)                       -- about to load c.tail and compare
  | d3 (lh : Nat)                       -- head ≠ tail; about to load lh.next
  | d4 (lh : Nat) (ln : Option Nat)     -- about to CAS(&c.head, lh, ln)
  | ret (r : QRet α)
  | crash                               -- nil dereference: `headNext.val` with `headNext = nil`
  deriving DecidableEq

structure St (α : Type) where
  nodes : List α
  head : Nat
  tail : Nat
  pc : Nat → Pc α

variable {α : Type}

def St.set (s : St α) (t : Nat) (p : Pc α) : St α := { s with pc := upd s.pc t p }

/-- `atomic.LoadPointer(&node_i.next)` -/
def St.next (s : St α) (i : Nat) : Option Nat := if i < s.nodes.length then some (i + 1) else none

def step [DecidableEq α] (s : St α) : Lbl (QOp α) (QRet α) → Option (St α)
  | .call t op =>
    match s.pc t with
    | .idle =>
      match op with
      | .enq v => some (s.set t (.e1 v))
      | .deq => some (s.set t .d1)
    | _ => none
  | .tau t =>
    match s.pc t with
    | .e1 v => some (s.set t (.e2 v s.tail))
    | .e2 v lt =>
      match s.next lt with
      | some _ => some (s.set t (.e1 v))           -- tailNext != nil: continue
      | none => some (s.set t (.e3 v lt))
    | .e3 v lt =>
      match s.next lt with
      | some _ => some (s.set t (.e1 v))           -- CAS fails: somebody linked first
      | none =>                                     -- CAS succeeds: the new node is linked after lt
        some { s with nodes := s.nodes ++ [v], pc := upd s.pc t (.e4 v lt (s.nodes.length + 1)) }
    | .e4 _ lt nw =>
      if s.tail = lt then some { s with tail := nw, pc := upd s.pc t (.ret .ok) }
      else some (s.set t (.ret .ok))                -- CAS result ignored
    | .d1 => some (s.set t (.d2 s.head))
    | .d2 lh =>
      if lh = s.tail then some (s.set t (.ret .empty))
      else some (s.set t (.d3 lh))
    | .d3 lh => some (s.set t (.d4 lh (s.next lh)))
    | .d4 lh ln =>
      if s.head = lh then
        match ln with
        | some j =>
          match s.nodes[j - 1]? with
          | some x => some { s with head := j, pc := upd s.pc t (.ret (.val x)) }
          | none => some { s with head := j, pc := upd s.pc t .crash }
        | none => some (s.set t .crash)             -- head := nil; headNext.val panics
      else some (s.set t .d1)                       -- CAS fails: retry
    | _ => none
  | .ret t r =>
    match s.pc t with
    | .ret r' => if r = r' then some (s.set t .idle) else none
    | _ => none

def sys (α : Type) [DecidableEq α] : ObjSystem (St α) (Lbl (QOp α) (QRet α)) (QOp α) (QRet α) where
  init := ⟨[], 0, 0, fun _ => .idle⟩
  step := step
  obs := Lbl.obs

/-- the abstract queue: the nodes after `head` up to and including `tail`.  A node that is linked
    but to which `tail` has not been swung is **not** yet in the queue (`Dequeue` decides emptiness
    by `head == tail`), so `Enqueue` takes effect at the tail swing. -/
def St.absq (s : St α) : List α := (s.nodes.take s.tail).drop s.head

def isE4 : Pc α → Bool
  | .e4 _ _ _ => true
  | _ => false

/-- what each program counter knows -/
def PcOk (nodes : List α) (head tail : Nat) : Pc α → Prop
  | .e2 _ lt => lt ≤ tail
  | .e3 _ lt => lt ≤ tail
  | .e4 v lt nw => lt = tail ∧ nw = tail + 1 ∧ nodes.length = tail + 1 ∧ nodes[tail]? = some v
  | .d2 lh => lh ≤ head
  | .d3 lh => lh < tail
  | .d4 lh ln => lh < tail ∧ ln = some (lh + 1)
  | .crash => False
  | _ => True

structure Inv (s : St α) : Prop where
  ht : s.head ≤ s.tail
  tl : s.tail ≤ s.nodes.length
  lt : s.nodes.length ≤ s.tail + 1
  uniq : ∀ t u, isE4 (s.pc t) = true → isE4 (s.pc u) = true → t = u
  ex : s.nodes.length = s.tail + 1 → ∃ t, isE4 (s.pc t) = true
  ok : ∀ t, PcOk s.nodes s.head s.tail (s.pc t)

def expect : Pc α → TStatus (QOp α) (QRet α)
  | .idle => .idle
  | .e1 v => .pending (.enq v)
  | .e2 v _ => .pending (.enq v)
  | .e3 v _ => .pending (.enq v)
  | .e4 v _ _ => .pending (.enq v)
  | .d1 => .pending .deq
  | .d2 _ => .pending .deq
  | .d3 _ => .pending .deq
  | .d4 _ _ => .pending .deq
  | .ret r => .done r
  | .crash => .idle

def Rel (s : St α) (a : AState (List α) (QOp α) (QRet α)) : Prop :=
  a.s = s.absq ∧ ∀ t, a.th t = expect (s.pc t)

end Ekit.Linz.CLQ
