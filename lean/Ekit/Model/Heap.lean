/-
Executable model of ekit's priority queue (internal/queue/priority_queue.go; queue/priority_queue.go
is a field-for-field delegating wrapper) and the abstract specification it is checked against.

* `data` is the 1-based heap array exactly as in the source: slot 0 is allocated and never used.
  It is a Go slice, i.e. contents + capacity (`Ekit.Lists.GoSlice`).  `append` beyond the capacity
  reallocates with a capacity chosen by the Go runtime: an oracle parameter `grow`.
* `Enqueue` = capacity gate, append, the sift-up loop as written.
* `Dequeue` = emptiness gate, move last to root, truncate, `slice.Shrink` for boundless queues
  (through the generated `calCapacity`), the `heapify` loop as written.
* Every slice index expression of the source is a *partial* read (`d[i]?`); an out-of-range read is a
  Go panic and is `none` here.  Fuel exhaustion of a loop is also `none` (so the no-panic theorem
  proves that the stated fuel is enough).
-/
import Ekit.Go.Basic
import Ekit.Model.Lists
import Ekit.Model.Comparator

namespace Ekit.Heap
open Ekit.Go Ekit.Lists Ekit.Cmp

inductive Op where
  | enqueue (t : Int)
  | dequeue
  | peek
  | len
  | cap
  | boundless
  deriving Repr, DecidableEq, Inhabited

inductive Ret where
  | unit
  | val (v : Int)
  | int (n : Int)
  | bool (b : Bool)
  deriving Repr, DecidableEq, Inhabited

abbrev Out := Outcome Ret

def errCap : Err := .other "cap"       -- ErrOutOfCapacity
def errEmpty : Err := .other "empty"   -- ErrEmptyQueue

/-! ### the implementation model -/

structure PQ where
  capacity : Int
  data : GoSlice
  deriving Repr, DecidableEq, Inhabited

namespace PQ

/-- NewPriorityQueue: `sliceCap := capacity+1; if capacity < 1 { capacity = 0; sliceCap = 64 };
    data: make([]T, 1, sliceCap)` -/
def new (capacity : Int) : PQ :=
  if capacity < 1 then ⟨0, ⟨[0], 64⟩⟩ else ⟨capacity, ⟨[0], (capacity + 1).toNat⟩⟩

/-- `len(p.data) - 1` -/
def len (q : PQ) : Int := (q.data.vals.length : Int) - 1
def isBoundless (q : PQ) : Bool := q.capacity ≤ 0
/-- `p.capacity > 0 && len(p.data)-1 == p.capacity` -/
def isFull (q : PQ) : Bool := q.capacity > 0 && (q.data.vals.length : Int) - 1 == q.capacity
/-- `len(p.data) < 2` -/
def isEmpty (q : PQ) : Bool := q.data.vals.length < 2
/-- the elements held (everything but slot 0) -/
def contents (q : PQ) : List Int := q.data.vals.drop 1

end PQ

/-- the sift-up loop of Enqueue:
    `for parent > 0 && cmp(data[node], data[parent]) < 0 { swap; node = parent; parent = parent/2 }`
    with `parent = node/2` on entry of every iteration. -/
def siftUp (cmp : Cmp) : Nat → List Int → Nat → Option (List Int)
  | 0, _, _ => none
  | fuel + 1, d, node =>
    let parent := node / 2
    if parent > 0 then
      match d[node]?, d[parent]? with
      | some a, some b =>
        if cmp a b < 0 then siftUp cmp fuel ((d.set parent a).set node b) parent else some d
      | _, _ => none
    else some d

/-- `if cand <= n && cmp(data[cand], data[minPos]) < 0 { minPos = cand }` : the new `minPos` -/
def pick (cmp : Cmp) (d : List Int) (n cand minPos : Nat) : Option Nat :=
  if cand ≤ n then
    match d[cand]?, d[minPos]? with
    | some a, some b => some (if cmp a b < 0 then cand else minPos)
    | _, _ => none
  else some minPos

/-- `heapify(data, n, i)`: `minPos == i` at the top of every iteration -/
def heapify (cmp : Cmp) : Nat → List Int → Nat → Nat → Option (List Int)
  | 0, _, _, _ => none
  | fuel + 1, d, n, i =>
    match pick cmp d n (i * 2) i with
    | none => none
    | some m1 =>
      match pick cmp d n (i * 2 + 1) m1 with
      | none => none
      | some m2 =>
        if m2 = i then some d
        else
          match d[i]?, d[m2]? with
          | some a, some b => heapify cmp fuel ((d.set i b).set m2 a) n m2
          | _, _ => none

/-- `shrinkIfNecessary` -/
def shrinkIfNecessary (q : PQ) (grow : Nat) : Outcome GoSlice :=
  if q.isBoundless then sliceShrink q.data grow else .ok q.data

/-- one public call. `grow` = the runtime's capacity choice should `append` have to allocate. -/
def step (cmp : Cmp) (q : PQ) (grow : Nat) : Op → PQ × Out
  | .enqueue t =>
    if q.isFull then (q, .err errCap)
    else
      let s := q.data.append [t] grow
      match siftUp cmp s.vals.length s.vals (s.vals.length - 1) with
      | some d => ({ q with data := { s with vals := d } }, .ok .unit)
      | none => ({ q with data := s }, .panic "index out of range")
  | .dequeue =>
    if q.isEmpty then (q, .err errEmpty)
    else
      let d := q.data.vals
      match d[1]?, d[d.length - 1]? with
      | some pop, some last =>
        let q1 : PQ := { q with data := { q.data with vals := (d.set 1 last).take (d.length - 1) } }
        match shrinkIfNecessary q1 grow with
        | .ok s =>
          match heapify cmp s.vals.length s.vals (s.vals.length - 1) 1 with
          | some d' => ({ q with data := { s with vals := d' } }, .ok (.val pop))
          | none => ({ q with data := s }, .panic "index out of range")
        | .err e => (q1, .err e)
        | .panic m => (q1, .panic m)
      | _, _ => (q, .panic "index out of range")
  | .peek =>
    if q.isEmpty then (q, .err errEmpty)
    else match q.data.vals[1]? with
      | some v => (q, .ok (.val v))
      | none => (q, .panic "index out of range")
  | .len => (q, .ok (.int q.len))
  | .cap => (q, .ok (.int q.capacity))
  | .boundless => (q, .ok (.bool q.isBoundless))

/-- a history: every call comes with the runtime's growth choice -/
def run (cmp : Cmp) (q : PQ) : List (Nat × Op) → PQ × List Out
  | [] => (q, [])
  | (g, op) :: rest =>
    let r := step cmp q g op
    let rr := run cmp r.1 rest
    (rr.1, r.2 :: rr.2)

/-! ### the specification: a bag of elements with a capacity

The abstract state is the multiset of elements held (a list up to permutation) and the fixed
`capacity` the queue was created with (`≤ 0` = unbounded).  With ties the dequeued element is not
determined by the bag, so the specification is an *acceptor*: `Spec.check` takes the observed
result and answers with the next bag, or `none` when the result is not allowed. -/
namespace Spec

/-- `v` is a minimum of `bag` under `cmp` -/
def isMin (cmp : Cmp) (bag : List Int) (v : Int) : Bool :=
  bag.contains v && bag.all fun x => cmp v x ≤ 0

def normCap (capacity : Int) : Int := if capacity < 1 then 0 else capacity

def check (cmp : Cmp) (capacity : Int) (bag : List Int) : Op → Out → Option (List Int)
  | .enqueue t, out =>
    if capacity > 0 ∧ (bag.length : Int) = capacity then (if out = .err errCap then some bag else none)
    else (if out = .ok .unit then some (t :: bag) else none)
  | .dequeue, out =>
    if bag.isEmpty then (if out = .err errEmpty then some bag else none)
    else match out with
      | .ok (.val v) => if isMin cmp bag v then some (bag.erase v) else none
      | _ => none
  | .peek, out =>
    if bag.isEmpty then (if out = .err errEmpty then some bag else none)
    else match out with
      | .ok (.val v) => if isMin cmp bag v then some bag else none
      | _ => none
  | .len, out => if out = .ok (.int bag.length) then some bag else none
  | .cap, out => if out = .ok (.int capacity) then some bag else none
  | .boundless, out => if out = .ok (.bool (capacity ≤ 0)) then some bag else none

/-- a whole history of (call, result) pairs is acceptable -/
def accepts (cmp : Cmp) (capacity : Int) : List Int → List (Op × Out) → Bool
  | _, [] => true
  | bag, (op, out) :: rest =>
    match check cmp capacity bag op out with
    | some bag' => accepts cmp capacity bag' rest
    | none => false

end Spec

end Ekit.Heap
