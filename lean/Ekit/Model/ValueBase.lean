/-
Vocabulary shared by the regenerated accessor table (`Ekit/Generated/ValueTable.lean`, emitted by
`harness/valuetab` from /repo/value.go on every run) and the hand-written model of `ekit.AnyValue`
(`Ekit/Model/Value.lean`).

A Go `string` / `[]byte` is a list of bytes; a byte is a `Nat` (only the comparisons strconv makes
are ever applied to it, so nothing depends on it being < 256 and the theorems quantify over more).
-/
import Ekit.Go.Basic

namespace Ekit.Value

abbrev Str := List Nat

/-- Go's predeclared integer types that value.go mentions -/
inductive IntT where
  | int | int8 | int16 | int32 | int64 | uint | uint8 | uint16 | uint32 | uint64
  deriving DecidableEq, Repr, Inhabited

namespace IntT
/-- width in bits (`int`/`uint` are 64 bits: strconv.IntSize on the 64-bit platforms the check runs on) -/
def bits : IntT → Nat
  | int => 64 | int8 => 8 | int16 => 16 | int32 => 32 | int64 => 64
  | uint => 64 | uint8 => 8 | uint16 => 16 | uint32 => 32 | uint64 => 64
def signed : IntT → Bool
  | int | int8 | int16 | int32 | int64 => true
  | _ => false
def name : IntT → String
  | int => "int" | int8 => "int8" | int16 => "int16" | int32 => "int32" | int64 => "int64"
  | uint => "uint" | uint8 => "uint8" | uint16 => "uint16" | uint32 => "uint32" | uint64 => "uint64"
def all : List IntT := [int, int8, int16, int32, int64, uint, uint8, uint16, uint32, uint64]
end IntT

/-- the static Go types that appear in type assertions / switch cases / conversions of value.go -/
inductive GoT where
  | i (t : IntT)
  | float32 | float64 | string | bytes | bool
  | unknown (src : String)          -- anything else the extractor met (kept so that the proofs notice)
  deriving DecidableEq, Repr, Inhabited

/-- what a `case string:` arm does with the string -/
inductive Conv where
  | parseInt (base bits : Nat)       -- strconv.ParseInt(v, base, bits)
  | parseUint (base bits : Nat)      -- strconv.ParseUint(v, base, bits)
  | parseFloat (bits : Nat)          -- strconv.ParseFloat(v, bits)
  | toBytes                          -- []byte(v), nil
  deriving DecidableEq, Repr, Inhabited

/-- `res, err := <conv>; return T(res), err` has `cast = some T`; `return <conv>` has `cast = none` -/
structure StrCase where
  conv : Conv
  cast : Option GoT
  deriving DecidableEq, Repr, Inhabited

/-- One strict accessor (`Int8()`: comma-ok type assertion) or `As` accessor (`AsInt8()`: type switch
with a case for the exact type and possibly a `case string`). -/
structure Row where
  name : String
  ret : GoT                 -- declared result type
  errGuard : Bool           -- body starts with `if av.Err != nil { return _, av.Err }`
  exact : GoT               -- the type whose held value is returned as is
  commaOk : Bool            -- false for a bare `av.Val.(T)` (which panics on a mismatch)
  str : Option StrCase      -- the `case string:` arm, if any
  unknown : List String     -- constructs the extractor did not understand (must be empty)
  deriving DecidableEq, Repr, Inhabited

/-- `XOrDefault(def)`: `val, err := av.<via>(); if err != nil { return def }; return val` -/
structure DefRow where
  name : String
  ret : GoT
  via : String
  unknown : List String
  deriving DecidableEq, Repr, Inhabited

/-- reflect.Kind, as far as AsString distinguishes -/
inductive Kind where
  | invalid | bool | int (t : IntT) | uintptr | float32 | float64 | string | slice | other
  deriving DecidableEq, Repr, Inhabited

/-- what an arm of AsString's kind switch does -/
inductive Arm where
  | str                               -- val = valueOf.String()
  | fmtUint (base : Nat)              -- strconv.FormatUint(valueOf.Uint(), base)
  | fmtInt (base : Nat)               -- strconv.FormatInt(valueOf.Int(), base)
  | fmtFloat (fmt : Nat) (prec : Int) (bits : Nat)  -- strconv.FormatFloat(valueOf.Float(), fmt, prec, bits)
  | bytesIfU8                         -- elem kind must be Uint8 (else error); string(valueOf.Bytes())
  | err
  | unknown (src : String)
  deriving DecidableEq, Repr, Inhabited

inductive KindTag where
  | valueKind      -- switch valueOf.Kind()          (Invalid for a nil interface)
  | typeKind       -- switch valueOf.Type().Kind()   (panics for a nil interface)
  | unknown (src : String)
  deriving DecidableEq, Repr, Inhabited

structure AsStringInfo where
  errGuard : Bool
  tag : KindTag
  arms : List (Kind × Arm)
  dflt : Arm                -- the `default:` arm
  unknown : List String
  deriving DecidableEq, Repr, Inhabited

/-- `data, err := av.<via>(); if err != nil { return err }; return json.Unmarshal(data, val)` -/
structure JSONScanInfo where
  via : String
  propagatesErr : Bool
  unknown : List String
  deriving DecidableEq, Repr, Inhabited

structure Table where
  rows : List Row
  defs : List DefRow
  asString : AsStringInfo
  jsonScan : JSONScanInfo
  /-- methods of AnyValue the extractor could not classify at all -/
  unclassified : List String
  deriving Repr, Inhabited

end Ekit.Value
