/-
C06 — the synchronisation skeletons the models of `CLQ.lean`, `LockWrapped.lean` and `SyncMap.lean` were
written against (copied from `Ekit/Generated/SkelC06.lean` of the unchanged tree).  `Ekit/Props/C06.lean`
proves `Ekit.Gen.SkelC06.<f> = expected_<f>` for every function of the five anchored files: when a lock
moves, an atomic operation is dropped or reordered, a guard changes, the obligation breaks.
-/
namespace Ekit.Linz.Skel

def expected_ConcurrentLinkedQueue_Dequeue : String :=
  "for(){atomic.LoadPointer(head);atomic.LoadPointer(tail);if($1 == $2){return};else{atomic.LoadPointer(&$1.next);atomic.CompareAndSwapPointer(head);if(atomic.CompareAndSwapPointer(&recv.head, $3, $4)){return};else{continue}}};return"

def expected_ConcurrentLinkedQueue_Enqueue : String :=
  "for(){atomic.LoadPointer(tail);atomic.LoadPointer(&$1.next);if($2 == nil){atomic.CompareAndSwapPointer(&$1.next);if(atomic.CompareAndSwapPointer(&$1.next, $2, $3)){atomic.CompareAndSwapPointer(tail);return};else{continue}};else{continue}};return"

def expected_ConcurrentList_Add : String :=
  "Lock(lock);defer{Unlock(lock)};AtomicAdd(List);return"

def expected_ConcurrentList_Append : String :=
  "Lock(lock);defer{Unlock(lock)};Call(List.Append);return"

def expected_ConcurrentList_AsSlice : String :=
  "RLock(lock);defer{RUnlock(lock)};Call(List.AsSlice);return"

def expected_ConcurrentList_Cap : String :=
  "RLock(lock);defer{RUnlock(lock)};Call(List.Cap);return"

def expected_ConcurrentList_Delete : String :=
  "Lock(lock);defer{Unlock(lock)};MapDelete(List);return"

def expected_ConcurrentList_Get : String :=
  "RLock(lock);defer{RUnlock(lock)};Get(List);return"

def expected_ConcurrentList_Len : String :=
  "RLock(lock);defer{RUnlock(lock)};Call(List.Len);return"

def expected_ConcurrentList_Range : String :=
  "RLock(lock);defer{RUnlock(lock)};MapRange(List);return"

def expected_ConcurrentList_Set : String :=
  "Lock(lock);defer{Unlock(lock)};Call(List.Set);return"

def expected_ConcurrentPriorityQueue_Cap : String :=
  "RLock(m);defer{RUnlock(m)};Call(pq.Cap);return"

def expected_ConcurrentPriorityQueue_Dequeue : String :=
  "Lock(m);defer{Unlock(m)};Call(pq.Dequeue);return"

def expected_ConcurrentPriorityQueue_Enqueue : String :=
  "Lock(m);defer{Unlock(m)};Call(pq.Enqueue);return"

def expected_ConcurrentPriorityQueue_Len : String :=
  "RLock(m);defer{RUnlock(m)};Call(pq.Len);return"

def expected_ConcurrentPriorityQueue_Peek : String :=
  "RLock(m);defer{RUnlock(m)};Call(pq.Peek);return"

def expected_CopyOnWriteArrayList_Add : String :=
  "Lock(mutex);defer{Unlock(mutex)};R(vals);R(vals);AtomicAdd(slice);if($1 == nil){W(vals);return};else{return}"

def expected_CopyOnWriteArrayList_Append : String :=
  "Lock(mutex);defer{Unlock(mutex)};R(vals);R(vals);W(vals);return"

def expected_CopyOnWriteArrayList_AsSlice : String :=
  "Lock(mutex);defer{Unlock(mutex)};R(vals);R(vals);return"

def expected_CopyOnWriteArrayList_Cap : String :=
  "Call(snapshot);return"

def expected_CopyOnWriteArrayList_Delete : String :=
  "Lock(mutex);defer{Unlock(mutex)};R(vals);if($1 >= $2 || $1 < 0){return};else{R(vals);R(vals);range{if($3 == $1){continue};else{continue}};W(vals);return}"

def expected_CopyOnWriteArrayList_Get : String :=
  "Call(snapshot);if($1 < 0 || $1 >= $2){return};else{return}"

def expected_CopyOnWriteArrayList_Len : String :=
  "Call(snapshot);return"

def expected_CopyOnWriteArrayList_Range : String :=
  "Call(snapshot);range{if($1 == nil){continue};else{return}};return"

def expected_CopyOnWriteArrayList_Set : String :=
  "Lock(mutex);defer{Unlock(mutex)};R(vals);if($1 >= $2 || $1 < 0){return};else{R(vals);W(vals);return}"

def expected_CopyOnWriteArrayList_snapshot : String :=
  "Lock(mutex);defer{Unlock(mutex)};R(vals);return"

def expected_Map_Delete : String :=
  "MapDelete(m);return"

def expected_Map_Load : String :=
  "AtomicLoad(m);if($1 == nil){return};else{return}"

def expected_Map_LoadAndDelete : String :=
  "MapLoadAndDelete(m);if($1 == nil){return};else{return}"

def expected_Map_LoadOrStore : String :=
  "MapLoadOrStore(m);if($1 == nil){return};else{return}"

def expected_Map_LoadOrStoreFunc : String :=
  "Call(Load);if($1){return};else{if($2 == nil){Call(LoadOrStore);return};else{return}}"

def expected_Map_Range : String :=
  "func{if($1 == nil){};else{};if($2 == nil){return};else{return}};MapRange(m);return"

def expected_Map_Store : String :=
  "AtomicStore(m);return"

def expected_NewConcurrentLinkedQueue : String :=
  "return"

def expected_NewConcurrentPriorityQueue : String :=
  "return"

def expected_NewCopyOnWriteArrayList : String :=
  "return"

def expected_NewCopyOnWriteArrayListOf : String :=
  "return"

end Ekit.Linz.Skel
