/-
C06 — the synchronisation skeletons the models of `CLQ.lean`, `LockWrapped.lean` and `SyncMap.lean` were
written against (copied from `Ekit/Generated/SkelC06.lean` of the unchanged tree).  `Ekit/Props/C06.lean`
proves `Ekit.Gen.SkelC06.<f> = expected_<f>` for every function of the five anchored files: when a lock
moves, an atomic operation is dropped or reordered, a guard changes, the obligation breaks.
-/
namespace Ekit.Linz.Skel

def expected_ConcurrentLinkedQueue_Dequeue : String :=
  "for(){atomic.LoadPointer(head);atomic.LoadPointer(tail);if(head == tail){return};atomic.LoadPointer(&head.next);atomic.CompareAndSwapPointer(head);if(atomic.CompareAndSwapPointer(&recv.head, headPtr, headNextPtr)){return}}"

def expected_ConcurrentLinkedQueue_Enqueue : String :=
  "for(){atomic.LoadPointer(tail);atomic.LoadPointer(&tail.next);if(tailNext != nil){continue};atomic.CompareAndSwapPointer(&tail.next);if(atomic.CompareAndSwapPointer(&tail.next, tailNext, newPtr)){atomic.CompareAndSwapPointer(tail);return}}"

def expected_ConcurrentList_Add : String :=
  "Lock(lock);defer{Unlock(lock)};AtomicAdd(List);return"

def expected_ConcurrentList_Append : String :=
  "Lock(lock);defer{Unlock(lock)};Call(List.Append);return"

def expected_ConcurrentList_AsSlice : String :=
  "RLock(lock);defer{RUnlock(lock)};Call(List.AsSlice);return"

def expected_ConcurrentList_Cap : String :=
  "RLock(lock);defer{RUnlock(lock)};Call(List.Cap);return"

def expected_ConcurrentList_Delete : String :=
  "Lock(lock);defer{Unlock(lock)};MapDelete(List);return"

def expected_ConcurrentList_Get : String :=
  "RLock(lock);defer{RUnlock(lock)};Get(List);return"

def expected_ConcurrentList_Len : String :=
  "RLock(lock);defer{RUnlock(lock)};Call(List.Len);return"

def expected_ConcurrentList_Range : String :=
  "RLock(lock);defer{RUnlock(lock)};MapRange(List);return"

def expected_ConcurrentList_Set : String :=
  "Lock(lock);defer{Unlock(lock)};Call(List.Set);return"

def expected_ConcurrentPriorityQueue_Cap : String :=
  "RLock(m);defer{RUnlock(m)};Call(pq.Cap);return"

def expected_ConcurrentPriorityQueue_Dequeue : String :=
  "Lock(m);defer{Unlock(m)};Call(pq.Dequeue);return"

def expected_ConcurrentPriorityQueue_Enqueue : String :=
  "Lock(m);defer{Unlock(m)};Call(pq.Enqueue);return"

def expected_ConcurrentPriorityQueue_Len : String :=
  "RLock(m);defer{RUnlock(m)};Call(pq.Len);return"

def expected_ConcurrentPriorityQueue_Peek : String :=
  "RLock(m);defer{RUnlock(m)};Call(pq.Peek);return"

def expected_CopyOnWriteArrayList_Add : String :=
  "Lock(mutex);defer{Unlock(mutex)};R(vals);R(vals);AtomicAdd(slice);if(err != nil){return};W(vals);return"

def expected_CopyOnWriteArrayList_Append : String :=
  "Lock(mutex);defer{Unlock(mutex)};R(vals);R(vals);W(vals);return"

def expected_CopyOnWriteArrayList_AsSlice : String :=
  "Lock(mutex);defer{Unlock(mutex)};R(vals);R(vals);return"

def expected_CopyOnWriteArrayList_Cap : String :=
  "Call(snapshot);return"

def expected_CopyOnWriteArrayList_Delete : String :=
  "Lock(mutex);defer{Unlock(mutex)};R(vals);if(index >= n || index < 0){return};R(vals);R(vals);range{if(i == index){continue}};W(vals);return"

def expected_CopyOnWriteArrayList_Get : String :=
  "Call(snapshot);if(index < 0 || index >= l){return};return"

def expected_CopyOnWriteArrayList_Len : String :=
  "Call(snapshot);return"

def expected_CopyOnWriteArrayList_Range : String :=
  "Call(snapshot);range{if(e != nil){return}};return"

def expected_CopyOnWriteArrayList_Set : String :=
  "Lock(mutex);defer{Unlock(mutex)};R(vals);if(index >= n || index < 0){return};R(vals);W(vals);return"

def expected_CopyOnWriteArrayList_snapshot : String :=
  "Lock(mutex);defer{Unlock(mutex)};R(vals);return"

def expected_Map_Delete : String :=
  "MapDelete(m)"

def expected_Map_Load : String :=
  "AtomicLoad(m);if(anyVal != nil){};return"

def expected_Map_LoadAndDelete : String :=
  "MapLoadAndDelete(m);if(anyVal != nil){};return"

def expected_Map_LoadOrStore : String :=
  "MapLoadOrStore(m);if(anyVal != nil){};return"

def expected_Map_LoadOrStoreFunc : String :=
  "Call(Load);if(ok){return};if(err != nil){return};Call(LoadOrStore);return"

def expected_Map_Range : String :=
  "func{if(value != nil){};if(key != nil){};return};MapRange(m)"

def expected_Map_Store : String :=
  "AtomicStore(m)"

def expected_NewConcurrentLinkedQueue : String :=
  "return"

def expected_NewConcurrentPriorityQueue : String :=
  "return"

def expected_NewCopyOnWriteArrayList : String :=
  "return"

def expected_NewCopyOnWriteArrayListOf : String :=
  "return"

end Ekit.Linz.Skel
