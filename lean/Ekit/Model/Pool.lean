/-
Executable model of `pool/task_pool.go` (OnDemandBlockTaskPool) as a transition system whose steps are
the atomic actions of the code: one label per atomic load / CAS of `state`, per `mutex` acquire, per
channel operation, per `select` arm taken, per atomic add.  Critical sections of `b.mutex` are *not*
atomic in the model: the acquiring step copies `totalGo` into a local (`v`), the releasing step writes
the value computed from the local — so a proof about `totalGo` has to use the lock.

Threads
* **workers** (`goroutine(id)`): created dynamically by `Start` / `trySubmit`; worker `i` is the
  `i`-th element of `workers` (the Go code draws the id from the atomic counter `b.id`).
* **callers**: an unbounded family `Nat → Caller` of client threads, each running one call at a time
  (`Submit`, `Start`, `Shutdown`, `ShutdownNow`, `States`-sampling = `numOfGo`).

Assumed semantics of the Go primitives (definitions here, trusted): sequentially consistent atomics;
`sync.RWMutex` (`Lock` needs no writer and no readers, `RLock` needs no writer); buffered channel =
list + capacity + closed flag, unbuffered channel = rendez-vous with a receiver parked in `select`;
`select` takes any ready arm, `default` only when the send arm is not ready; send on / close of a
closed channel panics (flag `panic`); a one-shot timer is `off | armed | fired` and fires at any time
after it was armed (label `fire`); a context is cancelled at most once; a `Submit` context with a
deadline may expire at any moment (arm `selCtx`).  Tasks may return (`taskRet`), panic (`taskPanic`,
recovered by the wrapper: `recover`) or block (no step; a task declared `block` returns only after
the environment step `release`).

Ghost state (never read by a guard): `holder` (winner of the last successful CAS on `state`), the task
table `tasks` (except `beh`/`released`, which only restrict when a task body returns), `returned`,
`nStartOk`, `nShutOk`, `graceful`, `late`, `badExits`, `liveAtShut`, `pending`, `idleExits`, `hwmGo`, `Task.subRes`.
-/
import Ekit.Conc.System
namespace Ekit.Pool

/-! ### constructor: validation and option normalisation (`NewOnDemandBlockTaskPool`) -/

/-- validated, normalised configuration -/
structure Cfg where
  initGo : Nat
  coreGo : Nat
  maxGo : Nat
  cap : Nat          -- queue capacity (`queueSize`)
  rateNum : Nat      -- queueBacklogRate = rateNum / rateDen  (exact rational, 0 ≤ rate ≤ 1)
  rateDen : Nat
  deriving DecidableEq, Repr, Inhabited

inductive Opt where
  | coreGo (n : Int)
  | maxGo (n : Int)
  | rate (num : Int) (den : Nat)     -- WithQueueBacklogRate(num/den), den > 0
  | idle                             -- WithMaxIdleTime (time is not part of the model)
  deriving DecidableEq, Repr

structure Raw where
  initGo : Int
  coreGo : Int
  maxGo : Int
  rateNum : Int
  rateDen : Nat
  deriving DecidableEq, Repr

def applyOpt (b : Raw) : Opt → Raw
  | .coreGo n => { b with coreGo := n }
  | .maxGo n => { b with maxGo := n }
  | .rate n d => { b with rateNum := n, rateDen := d }
  | .idle => b

/-- the two-branch normalisation after `option.Apply` -/
def normalise (b : Raw) : Raw :=
  if b.coreGo ≠ b.initGo ∧ b.maxGo = b.initGo then { b with maxGo := b.coreGo }
  else if b.coreGo = b.initGo ∧ b.maxGo ≠ b.initGo then { b with coreGo := b.maxGo }
  else b

inductive CtorErr where
  | initGo | queueSize | order | rate
  deriving DecidableEq, Repr

/-- `NewOnDemandBlockTaskPool(initGo, queueSize, opts...)`, checks in the order of the source -/
def newPool (initGo queueSize : Int) (opts : List Opt) : Except CtorErr Cfg :=
  if initGo < 1 then .error .initGo
  else if queueSize < 0 then .error .queueSize
  else
    let b0 : Raw := { initGo := initGo, coreGo := initGo, maxGo := initGo, rateNum := 0, rateDen := 1 }
    let b := normalise (opts.foldl applyOpt b0)
    if ¬ (b.initGo ≤ b.coreGo ∧ b.coreGo ≤ b.maxGo) then .error .order
    -- `rate < 0 || 1 < rate`
    else if b.rateNum < 0 ∨ (b.rateDen : Int) < b.rateNum then .error .rate
    else .ok { initGo := b.initGo.toNat, coreGo := b.coreGo.toNat, maxGo := b.maxGo.toNat,
               cap := queueSize.toNat, rateNum := b.rateNum.toNat, rateDen := b.rateDen }

/-- what the constructor guarantees (`ctor_rejects` proves `newPool` returns only such configurations) -/
structure Cfg.Valid (c : Cfg) : Prop where
  init_pos : 1 ≤ c.initGo
  init_core : c.initGo ≤ c.coreGo
  core_max : c.coreGo ≤ c.maxGo
  rate_le : c.rateNum ≤ c.rateDen

/-! ### the integer / boolean arithmetic of the growth policy -/

/-- `numOfGoThatCanBeCreate()` with `len(b.queue) = qlen` (int32 arithmetic, no overflow in range) -/
def numCanCreate (c : Cfg) (qlen : Nat) : Nat :=
  let n : Int := c.initGo
  let allowGo : Int := (c.maxGo : Int) - c.initGo
  let needGo : Int := (qlen : Int) - c.initGo
  let n := if needGo > 0 then (if needGo ≤ allowGo then n + needGo else n + allowGo) else n
  n.toNat

/-- `allowToCreateGoroutine()`: `rate := float64(len)/float64(cap)`;
    `(totalGo < maxGo) && (rate != 0 && rate >= queueBacklogRate)`.
    `cap = 0` gives `0/0 = NaN`: `NaN != 0` holds, `NaN >= r` does not.  Otherwise the comparison is
    the exact rational one (float rounding is monotone and the two rationals differ by at least
    `1/(cap*rateDen)`, far above 2^-53 for `cap*rateDen < 2^40`). -/
def allowCreate (c : Cfg) (totalGo qlen : Nat) : Bool :=
  decide (totalGo < c.maxGo) &&
    (if c.cap = 0 then false else (qlen != 0 && decide (c.rateNum * c.cap ≤ qlen * c.rateDen)))

/-- post-task: `noTasksToExecute := len(b.queue) == 0 || int32(len(b.queue)) < b.totalGo`
    (the channel length is read twice: `len1`, `len2`) -/
def noTasks (len1 len2 totalGo : Nat) : Bool := len1 == 0 || decide (len2 < totalGo)

/-- post-task exit: `b.coreGo < b.totalGo && b.totalGo <= b.maxGo && noTasksToExecute` -/
def exitAboveCore (c : Cfg) (totalGo : Nat) (nt : Bool) : Bool :=
  decide (c.coreGo < totalGo) && decide (totalGo ≤ c.maxGo) && nt

/-- post-task timer: `b.initGo < b.totalGo - b.timeoutGroup.size()` (signed, so no wrap) -/
def joinGroup (c : Cfg) (totalGo grpN : Nat) : Bool := decide (c.initGo + grpN < totalGo)

/-! ### state -/

inductive Life where
  | created | running | closing | stopped | locked
  deriving DecidableEq, Repr, Inhabited, Hashable

inductive Timer where
  | off | armed | fired
  deriving DecidableEq, Repr, Inhabited, Hashable

/-- program counter of a worker goroutine -/
inductive WPc where
  | sel                      -- at the `select`
  | intWant | intHeld        -- `<-interruptCtx.Done()`: decreaseTotalGo(1) (Lock / write+Unlock); return
  | idleWant | idleHeld      -- `<-idleTimer.C`: Lock; totalGo--; group.delete; Unlock; return
  | recvd                    -- `task, ok := <-queue` done; next `isIn/delete/Stop`
  | clWant | clHeld          -- `!ok`: decreaseTotalGo(1)
  | clNumWant | clNumHeld    -- numOfGo(): RLock / read+RUnlock
  | clCas | clCancel         -- CAS(closing→stopped); interruptCtxCancel()
  | incRun | running | panicked | decRun
  | postWant | postLen1 | postLen2 | postDecide | postGrp | postUnlock
  | exited
  deriving DecidableEq, Repr, Inhabited, Hashable

structure Worker where
  pc : WPc := .sel
  task : Nat := 0            -- task received
  ok : Bool := false         -- the receive's `ok`
  v : Nat := 0               -- local copy of totalGo taken under the mutex
  nt : Bool := false         -- noTasksToExecute
  timer : Timer := .off
  inGroup : Bool := false    -- timeoutGroup.mp[id] present
  deriving DecidableEq, Repr, Inhabited, Hashable

inductive Who where
  | w (i : Nat) | c (t : Nat)
  deriving DecidableEq, Repr, Hashable

/-- sync.RWMutex -/
structure Mu where
  writer : Option Who := none
  readers : Nat := 0
  deriving DecidableEq, Repr, Inhabited, Hashable

inductive CPc where
  | idle
  | subLoad1 | subLoad2 | subCas1 | subCas2 | subSel | subAllowWant | subAllowHeld
  | subIncWant | subIncHeld | subSpawn | subUnlock
  | stLoad1 | stLoad2 | stLoad3 | stCas | stNum | stIncWant | stIncHeld | stSpawn
  | sdLoad1 | sdLoad2 | sdLoad3 | sdCas | sdClose
  | snLoad1 | snLoad2 | snLoad3 | snCas | snClose | snCancel | snDrain
  | gsWant | gsHeld
  | ret
  deriving DecidableEq, Repr, Inhabited, Hashable

inductive Res where
  | none | ok | retry
  | errClosing | errStopped | errStarted | errNotRunning | errCtx | errInvalid
  | goCnt (n : Nat)
  deriving DecidableEq, Repr, Inhabited, Hashable

def Res.isErr : Res → Bool
  | .errClosing | .errStopped | .errStarted | .errNotRunning | .errCtx | .errInvalid => true
  | _ => false

inductive Kind where
  | submit | start | shutdown | shutdownNow | states
  deriving DecidableEq, Repr, Inhabited, Hashable

structure Caller where
  pc : CPc := .idle
  kind : Kind := .submit
  task : Nat := 0            -- Submit: id of the task being submitted
  dl : Bool := false         -- Submit: the context can expire
  st : Life := .created      -- trySubmit's `state` argument (what the deferred CAS restores)
  v : Nat := 0               -- local copy of totalGo / value read
  k : Nat := 0               -- Start: workers still to spawn
  res : Res := .none
  late : Bool := false       -- ghost: invoked when shutdown had already begun
  deriving DecidableEq, Repr, Inhabited, Hashable

inductive Beh where
  | ret | panic | block
  deriving DecidableEq, Repr, Inhabited, Hashable

/-- ghost task table -/
structure Task where
  owner : Nat
  beh : Beh := .ret
  released : Bool := false
  sent : Bool := false       -- the send on `queue` happened (⇒ Submit returns nil)
  runs : Nat := 0            -- number of times `task.Run` was entered
  subRes : Res := .none      -- what its Submit call returned (recorded when the call reaches its return)
  deriving DecidableEq, Repr, Inhabited, Hashable

structure St where
  life : Life := .created
  queue : List Nat := []
  closed : Bool := false
  totalGo : Nat := 0
  mu : Mu := {}
  grpN : Nat := 0            -- timeoutGroup.n
  cancelled : Bool := false  -- interruptCtx cancelled  (= the channel returned by Shutdown is closed)
  numRunning : Nat := 0      -- numGoRunningTasks
  workers : List Worker := []
  callers : Nat → Caller := fun _ => {}
  panic : Bool := false      -- Go run-time panic (send on / close of a closed channel)
  -- ghost
  holder : Nat := 0          -- the caller whose CAS on `state` succeeded last (lock / Shutdown / ShutdownNow)
  tasks : List Task := []
  returned : List Nat := []  -- tasks appended by ShutdownNow's drain loop
  nStartOk : Nat := 0        -- successful `created → locked` CASes of Start
  nShutOk : Nat := 0         -- successful CASes of Shutdown / ShutdownNow
  graceful : Bool := false   -- Shutdown's CAS succeeded
  badExits : Nat := 0        -- worker exits through the idle / above-core paths while closing
  liveAtShut : Nat := 0      -- totalGo at the moment of Shutdown's successful CAS
  pending : Nat := 0         -- workers already counted in totalGo whose `go` statement has not run yet
  idleExits : Nat := 0       -- worker exits through the idle-timeout branch (ever)
  hwmGo : Nat := 0           -- high-water mark of totalGo

instance : Inhabited St := ⟨{}⟩

def upd {α : Type} (f : Nat → α) (t : Nat) (a : α) : Nat → α := fun u => if u = t then a else f u

@[simp] theorem upd_same {α : Type} (f : Nat → α) (t : Nat) (a : α) : upd f t a t = a := by simp [upd]
@[simp] theorem upd_other {α : Type} (f : Nat → α) (t u : Nat) (a : α) (h : u ≠ t) : upd f t a u = f u := by
  simp [upd, h]

def St.setW (s : St) (i : Nat) (w : Worker) : St := { s with workers := s.workers.set i w }
def St.setC (s : St) (t : Nat) (c : Caller) : St := { s with callers := upd s.callers t c }

def Mu.free (m : Mu) : Bool := m.writer.isNone && m.readers == 0
def Mu.noWriter (m : Mu) : Bool := m.writer.isNone

def shutBegun (l : Life) : Bool := l == .closing || l == .stopped

/-! ### worker steps -/

inductive WAct where
  | selInt | intLock | intWrite
  | selIdle | idleLock | idleWrite
  | selRecv | selClosed | leaveGroup
  | clLock | clWrite | clRLock | clRead | clCas | clCancel
  | incRun | taskRet | taskPanic | recover | decRun
  | postLock | postLen1 | postLen2 | postDecide | postGrp | postUnlock
  | fire
  deriving DecidableEq, Repr

def closingNow (s : St) : Nat := if s.life = .closing then 1 else 0

def wAct (c : Cfg) (s : St) (i : Nat) (w : Worker) : WAct → Option St
  -- case <-b.interruptCtx.Done():
  | .selInt => if w.pc = .sel ∧ s.cancelled = true then some (s.setW i { w with pc := .intWant }) else none
  | .intLock => if w.pc = .intWant ∧ s.mu.free = true then
      some ({ s with mu := ⟨some (.w i), 0⟩ }.setW i { w with pc := .intHeld, v := s.totalGo }) else none
  | .intWrite => if w.pc = .intHeld then
      some ({ s with totalGo := w.v - 1, mu := ⟨none, 0⟩ }.setW i { w with pc := .exited }) else none
  -- case <-idleTimer.C:
  | .selIdle => if w.pc = .sel ∧ w.timer = .fired then some (s.setW i { w with pc := .idleWant, timer := .off }) else none
  | .idleLock => if w.pc = .idleWant ∧ s.mu.free = true then
      some ({ s with mu := ⟨some (.w i), 0⟩ }.setW i { w with pc := .idleHeld, v := s.totalGo }) else none
  | .idleWrite => if w.pc = .idleHeld then
      some ({ s with totalGo := w.v - 1, mu := ⟨none, 0⟩,
                     grpN := if w.inGroup then s.grpN - 1 else s.grpN,
                     badExits := s.badExits + closingNow s, idleExits := s.idleExits + 1 }.setW i
              { w with pc := .exited, inGroup := false }) else none
  -- case task, ok := <-b.queue:
  | .selRecv => match s.queue with
      | t :: rest => if w.pc = .sel then
          some ({ s with queue := rest }.setW i { w with pc := .recvd, task := t, ok := true }) else none
      | [] => none
  | .selClosed => if w.pc = .sel ∧ s.queue = [] ∧ s.closed = true then
      some (s.setW i { w with pc := .recvd, ok := false }) else none
  -- if timeoutGroup.isIn(id) { delete(id); if !idleTimer.Stop() { <-idleTimer.C } }
  | .leaveGroup => if w.pc = .recvd then
      let pc' := if w.ok then WPc.incRun else WPc.clWant
      if w.inGroup then
        some ({ s with grpN := s.grpN - 1 }.setW i { w with pc := pc', inGroup := false, timer := .off })
      else some (s.setW i { w with pc := pc' })
    else none
  -- !ok: decreaseTotalGo(1); if numOfGo() == 0 { if CAS(closing, stopped) { cancel() } }; return
  | .clLock => if w.pc = .clWant ∧ s.mu.free = true then
      some ({ s with mu := ⟨some (.w i), 0⟩ }.setW i { w with pc := .clHeld, v := s.totalGo }) else none
  | .clWrite => if w.pc = .clHeld then
      some ({ s with totalGo := w.v - 1, mu := ⟨none, 0⟩ }.setW i { w with pc := .clNumWant }) else none
  | .clRLock => if w.pc = .clNumWant ∧ s.mu.noWriter = true then
      some ({ s with mu := { s.mu with readers := s.mu.readers + 1 } }.setW i { w with pc := .clNumHeld }) else none
  | .clRead => if w.pc = .clNumHeld then
      some ({ s with mu := { s.mu with readers := s.mu.readers - 1 } }.setW i
              { w with pc := if s.totalGo = 0 then .clCas else .exited, v := s.totalGo }) else none
  | .clCas => if w.pc = .clCas then
      (if s.life = .closing then some ({ s with life := .stopped }.setW i { w with pc := .clCancel })
       else some (s.setW i { w with pc := .exited })) else none
  | .clCancel => if w.pc = .clCancel then
      some ({ s with cancelled := true }.setW i { w with pc := .exited }) else none
  -- atomic.AddInt32(&numGoRunningTasks, 1); task.Run(ctx); atomic.AddInt32(&numGoRunningTasks, -1)
  | .incRun => if w.pc = .incRun then
      some ({ s with numRunning := s.numRunning + 1,
                     tasks := s.tasks.modify w.task fun t => { t with runs := t.runs + 1 } }.setW i
              { w with pc := .running }) else none
  | .taskRet => match s.tasks[w.task]? with
      | some t => if w.pc = .running ∧ (t.beh = .ret ∨ (t.beh = .block ∧ t.released = true)) then
          some (s.setW i { w with pc := .decRun }) else none
      | none => none
  | .taskPanic => match s.tasks[w.task]? with
      | some t => if w.pc = .running ∧ t.beh = .panic then some (s.setW i { w with pc := .panicked }) else none
      | none => none
  | .recover => if w.pc = .panicked then some (s.setW i { w with pc := .decRun }) else none
  | .decRun => if w.pc = .decRun then
      some ({ s with numRunning := s.numRunning - 1 }.setW i { w with pc := .postWant }) else none
  -- b.mutex.Lock(); noTasksToExecute := ...; exit above core | arm the idle timer; Unlock
  | .postLock => if w.pc = .postWant ∧ s.mu.free = true then
      some ({ s with mu := ⟨some (.w i), 0⟩ }.setW i { w with pc := .postLen1, v := s.totalGo }) else none
  | .postLen1 => if w.pc = .postLen1 then
      (if s.queue.length = 0 then some (s.setW i { w with pc := .postDecide, nt := true })
       else some (s.setW i { w with pc := .postLen2 })) else none
  | .postLen2 => if w.pc = .postLen2 then
      some (s.setW i { w with pc := .postDecide, nt := decide (s.queue.length < w.v) }) else none
  | .postDecide => if w.pc = .postDecide then
      (if exitAboveCore c w.v w.nt = true then
        some ({ s with totalGo := w.v - 1, mu := ⟨none, 0⟩, badExits := s.badExits + closingNow s }.setW i
                { w with pc := .exited })
       else some (s.setW i { w with pc := .postGrp })) else none
  | .postGrp => if w.pc = .postGrp then
      (if joinGroup c w.v s.grpN = true then
        (if w.inGroup then some (s.setW i { w with pc := .postUnlock, timer := .armed })
         else some ({ s with grpN := s.grpN + 1 }.setW i { w with pc := .postUnlock, timer := .armed, inGroup := true }))
       else some (s.setW i { w with pc := .postUnlock })) else none
  | .postUnlock => if w.pc = .postUnlock then
      some ({ s with mu := ⟨none, 0⟩ }.setW i { w with pc := .sel }) else none
  -- environment: the idle timer expires
  | .fire => if w.timer = .armed then some (s.setW i { w with timer := .fired }) else none

def wStep (c : Cfg) (s : St) (i : Nat) (a : WAct) : Option St :=
  match s.workers[i]? with
  | some w => wAct c s i w a
  | none => none

/-! ### caller steps -/

inductive CAct where
  | invSubmit (dl : Bool) (beh : Beh) | invSubmitNil | invStart | invShutdown | invShutdownNow | invStates
  | subLoad1 | subLoad2 | subCas1 | subCas2
  | selCtx | selSend | selSendRv (w : Nat) | selDefault
  | allowRLock | allowRead | incLock | incWrite | spawn | unlock
  | stLoad1 | stLoad2 | stLoad3 | stCas | stNum | stIncLock | stIncWrite | stSpawn | stUnlock
  | sdLoad1 | sdLoad2 | sdLoad3 | sdCas | sdClose
  | snLoad1 | snLoad2 | snLoad3 | snCas | snClose | snCancel | snDrainTake | snDrainEnd
  | gsRLock | gsRead
  | ret
  | release (task : Nat)          -- environment: let a blocking task return
  deriving DecidableEq, Repr

def newWorker : Worker := {}

/-- ghost: record in the task table what the Submit call of task `i` returns -/
def St.recSub (s : St) (i : Nat) (r : Res) : St :=
  { s with tasks := s.tasks.modify i fun tk => { tk with subRes := r } }

/-- after the select arm of trySubmit completed with result `r`: deferred CAS still to run -/
def toUnlock (s : St) (t : Nat) (cl : Caller) (r : Res) : St := s.setC t { cl with pc := .subUnlock, res := r }

def cAct (c : Cfg) (s : St) (t : Nat) (cl : Caller) : CAct → Option St
  -- invocations
  | .invSubmit dl beh => if cl.pc = .idle then
      some ({ s with tasks := s.tasks ++ [({ owner := t, beh := beh } : Task)] }.setC t
        { cl with pc := .subLoad1, kind := .submit, task := s.tasks.length, dl := dl, res := .none,
                  late := shutBegun s.life }) else none
  | .invSubmitNil => if cl.pc = .idle then
      some (s.setC t { cl with pc := .ret, kind := .submit, res := .errInvalid, late := shutBegun s.life }) else none
  | .invStart => if cl.pc = .idle then
      some (s.setC t { cl with pc := .stLoad1, kind := .start, res := .none, late := shutBegun s.life }) else none
  | .invShutdown => if cl.pc = .idle then
      some (s.setC t { cl with pc := .sdLoad1, kind := .shutdown, res := .none, late := shutBegun s.life }) else none
  | .invShutdownNow => if cl.pc = .idle then
      some (s.setC t { cl with pc := .snLoad1, kind := .shutdownNow, res := .none, late := shutBegun s.life }) else none
  -- States: `if b.interruptCtx.Err() != nil { return nil, err }`, then the sampling goroutine calls getState
  | .invStates => if cl.pc = .idle then
      (if s.cancelled then some (s.setC t { cl with pc := .ret, kind := .states, res := .errCtx, late := shutBegun s.life })
       else some (s.setC t { cl with pc := .gsWant, kind := .states, res := .none, late := shutBegun s.life })) else none
  -- Submit loop
  | .subLoad1 => if cl.pc = .subLoad1 then
      (if s.life = .closing then some ((s.recSub cl.task .errClosing).setC t { cl with pc := .ret, res := .errClosing })
       else some (s.setC t { cl with pc := .subLoad2 })) else none
  | .subLoad2 => if cl.pc = .subLoad2 then
      (if s.life = .stopped then some ((s.recSub cl.task .errStopped).setC t { cl with pc := .ret, res := .errStopped })
       else some (s.setC t { cl with pc := .subCas1 })) else none
  -- trySubmit(ctx, task, stateCreated): CAS(created → locked)
  | .subCas1 => if cl.pc = .subCas1 then
      (if s.life = .created then some ({ s with life := .locked, holder := t }.setC t { cl with pc := .subSel, st := .created })
       else some (s.setC t { cl with pc := .subCas2 })) else none
  -- trySubmit(ctx, task, stateRunning): CAS(running → locked)
  | .subCas2 => if cl.pc = .subCas2 then
      (if s.life = .running then some ({ s with life := .locked, holder := t }.setC t { cl with pc := .subSel, st := .running })
       else some (s.setC t { cl with pc := .subLoad1 })) else none
  -- select { case <-ctx.Done(): ...; case b.queue <- task: ...; default: ... }
  | .selCtx => if cl.pc = .subSel ∧ cl.dl = true then some (toUnlock s t cl .errCtx) else none
  | .selSend => if cl.pc = .subSel ∧ s.queue.length < c.cap then
      (if s.closed then some { s with panic := true }
       else
        let s1 : St := { s with queue := s.queue ++ [cl.task],
                                tasks := s.tasks.modify cl.task fun tk => { tk with sent := true } }
        if cl.st = .running then some (s1.setC t { cl with pc := .subAllowWant }) else some (toUnlock s1 t cl .ok))
      else none
  | .selSendRv wi => match s.workers[wi]? with
      | some w => if cl.pc = .subSel ∧ c.cap = 0 ∧ w.pc = .sel then
          (if s.closed then some { s with panic := true }
           else
            let s1 : St := { s with workers := s.workers.set wi { w with pc := .recvd, task := cl.task, ok := true },
                                    tasks := s.tasks.modify cl.task fun tk => { tk with sent := true } }
            if cl.st = .running then some (s1.setC t { cl with pc := .subAllowWant }) else some (toUnlock s1 t cl .ok))
          else none
      | none => none
  | .selDefault => if cl.pc = .subSel ∧ c.cap ≤ s.queue.length then some (toUnlock s t cl .retry) else none
  -- allowToCreateGoroutine(): RLock; read; RUnlock
  | .allowRLock => if cl.pc = .subAllowWant ∧ s.mu.noWriter = true then
      some ({ s with mu := { s.mu with readers := s.mu.readers + 1 } }.setC t { cl with pc := .subAllowHeld }) else none
  | .allowRead => if cl.pc = .subAllowHeld then
      let s1 : St := { s with mu := { s.mu with readers := s.mu.readers - 1 } }
      (if allowCreate c s.totalGo s.queue.length = true then some (s1.setC t { cl with pc := .subIncWant })
       else some (toUnlock s1 t cl .ok)) else none
  -- increaseTotalGo(1)
  | .incLock => if cl.pc = .subIncWant ∧ s.mu.free = true then
      some ({ s with mu := ⟨some (.c t), 0⟩ }.setC t { cl with pc := .subIncHeld, v := s.totalGo }) else none
  | .incWrite => if cl.pc = .subIncHeld then
      some ({ s with totalGo := cl.v + 1, mu := ⟨none, 0⟩, pending := s.pending + 1,
                     hwmGo := max s.hwmGo (cl.v + 1) }.setC t { cl with pc := .subSpawn }) else none
  -- id := atomic.AddInt32(&b.id, 1); go b.goroutine(id)
  | .spawn => if cl.pc = .subSpawn then
      some (toUnlock ({ s with workers := s.workers ++ [newWorker], pending := s.pending - 1 } : St) t cl .ok) else none
  -- defer CAS(locked → state); then back in Submit: `if ok || err != nil { return err }`
  | .unlock => if cl.pc = .subUnlock then
      let s1 : St := if s.life = .locked then { s with life := cl.st } else s
      (if cl.res = .retry then
        some (s1.setC t { cl with pc := if cl.st = .created then .subCas2 else .subLoad1 })
       else some ((s1.recSub cl.task cl.res).setC t { cl with pc := .ret })) else none
  -- Start
  | .stLoad1 => if cl.pc = .stLoad1 then
      (if s.life = .closing then some (s.setC t { cl with pc := .ret, res := .errClosing })
       else some (s.setC t { cl with pc := .stLoad2 })) else none
  | .stLoad2 => if cl.pc = .stLoad2 then
      (if s.life = .stopped then some (s.setC t { cl with pc := .ret, res := .errStopped })
       else some (s.setC t { cl with pc := .stLoad3 })) else none
  | .stLoad3 => if cl.pc = .stLoad3 then
      (if s.life = .running then some (s.setC t { cl with pc := .ret, res := .errStarted })
       else some (s.setC t { cl with pc := .stCas })) else none
  | .stCas => if cl.pc = .stCas then
      (if s.life = .created then
        some ({ s with life := .locked, holder := t, nStartOk := s.nStartOk + 1 }.setC t { cl with pc := .stNum, st := .running })
       else some (s.setC t { cl with pc := .stLoad1 })) else none
  | .stNum => if cl.pc = .stNum then
      some (s.setC t { cl with pc := .stIncWant, k := numCanCreate c s.queue.length }) else none
  | .stIncLock => if cl.pc = .stIncWant ∧ s.mu.free = true then
      some ({ s with mu := ⟨some (.c t), 0⟩ }.setC t { cl with pc := .stIncHeld, v := s.totalGo }) else none
  | .stIncWrite => if cl.pc = .stIncHeld then
      some ({ s with totalGo := cl.v + cl.k, mu := ⟨none, 0⟩, pending := s.pending + cl.k,
                     hwmGo := max s.hwmGo (cl.v + cl.k) }.setC t { cl with pc := .stSpawn }) else none
  | .stSpawn => if cl.pc = .stSpawn ∧ 0 < cl.k then
      some ({ s with workers := s.workers ++ [newWorker], pending := s.pending - 1 }.setC t { cl with k := cl.k - 1 }) else none
  | .stUnlock => if cl.pc = .stSpawn ∧ cl.k = 0 then
      let s1 : St := if s.life = .locked then { s with life := .running } else s
      some (s1.setC t { cl with pc := .ret, res := .ok }) else none
  -- Shutdown
  | .sdLoad1 => if cl.pc = .sdLoad1 then
      (if s.life = .created then some (s.setC t { cl with pc := .ret, res := .errNotRunning })
       else some (s.setC t { cl with pc := .sdLoad2 })) else none
  | .sdLoad2 => if cl.pc = .sdLoad2 then
      (if s.life = .stopped then some (s.setC t { cl with pc := .ret, res := .errStopped })
       else some (s.setC t { cl with pc := .sdLoad3 })) else none
  | .sdLoad3 => if cl.pc = .sdLoad3 then
      (if s.life = .closing then some (s.setC t { cl with pc := .ret, res := .errClosing })
       else some (s.setC t { cl with pc := .sdCas })) else none
  | .sdCas => if cl.pc = .sdCas then
      (if s.life = .running then
        some ({ s with life := .closing, holder := t, nShutOk := s.nShutOk + 1, graceful := true, liveAtShut := s.totalGo }.setC t
                { cl with pc := .sdClose })
       else some (s.setC t { cl with pc := .sdLoad1 })) else none
  | .sdClose => if cl.pc = .sdClose then
      (if s.closed then some { s with panic := true }
       else some ({ s with closed := true }.setC t { cl with pc := .ret, res := .ok })) else none
  -- ShutdownNow
  | .snLoad1 => if cl.pc = .snLoad1 then
      (if s.life = .created then some (s.setC t { cl with pc := .ret, res := .errNotRunning })
       else some (s.setC t { cl with pc := .snLoad2 })) else none
  | .snLoad2 => if cl.pc = .snLoad2 then
      (if s.life = .closing then some (s.setC t { cl with pc := .ret, res := .errClosing })
       else some (s.setC t { cl with pc := .snLoad3 })) else none
  | .snLoad3 => if cl.pc = .snLoad3 then
      (if s.life = .stopped then some (s.setC t { cl with pc := .ret, res := .errStopped })
       else some (s.setC t { cl with pc := .snCas })) else none
  | .snCas => if cl.pc = .snCas then
      (if s.life = .running then
        some ({ s with life := .stopped, holder := t, nShutOk := s.nShutOk + 1 }.setC t { cl with pc := .snClose })
       else some (s.setC t { cl with pc := .snLoad1 })) else none
  | .snClose => if cl.pc = .snClose then
      (if s.closed then some { s with panic := true }
       else some ({ s with closed := true }.setC t { cl with pc := .snCancel })) else none
  | .snCancel => if cl.pc = .snCancel then
      some ({ s with cancelled := true }.setC t { cl with pc := .snDrain }) else none
  -- for task := range b.queue { tasks = append(tasks, task) }
  | .snDrainTake => match s.queue with
      | x :: rest => if cl.pc = .snDrain then some { s with queue := rest, returned := s.returned ++ [x] } else none
      | [] => none
  | .snDrainEnd => if cl.pc = .snDrain ∧ s.queue = [] ∧ s.closed = true then
      some (s.setC t { cl with pc := .ret, res := .ok }) else none
  -- States → getState → numOfGo(): RLock; read; RUnlock
  | .gsRLock => if cl.pc = .gsWant ∧ s.mu.noWriter = true then
      some ({ s with mu := { s.mu with readers := s.mu.readers + 1 } }.setC t { cl with pc := .gsHeld }) else none
  | .gsRead => if cl.pc = .gsHeld then
      some ({ s with mu := { s.mu with readers := s.mu.readers - 1 } }.setC t
        { cl with pc := .ret, res := .goCnt s.totalGo, v := s.totalGo }) else none
  | .ret => if cl.pc = .ret then some (s.setC t { cl with pc := .idle }) else none
  | .release i => some { s with tasks := s.tasks.modify i fun tk => { tk with released := true } }

inductive Label where
  | w (i : Nat) (a : WAct)
  | c (t : Nat) (a : CAct)
  deriving DecidableEq, Repr

def step (c : Cfg) (s : St) : Label → Option St
  | .w i a => wStep c s i a
  | .c t a => cAct c s t (s.callers t) a

def init : St := {}

/-- the pool as a transition system (for `Reachable`, `invariant_induction`, `run`) -/
def sys (c : Cfg) : Ekit.Conc.System St Label := ⟨init, step c⟩

end Ekit.Pool
