/-
Executable models of ekit's hash-backed containers:

* `mapx/hashmap.go`     — `HashMap`: a Go map `code ↦ head of collision chain`, chain walks with the
                          user's `Equals`, the three-case unlink of `Delete`, the node pool
                          (`syncx.Pool` = `sync.Pool`), `Len` counting entries, `Keys`/`Values`.
* `mapx/linkedmap.go`   — `LinkedMap` over a `HashMap` of pointers to list entries.
* `mapx/multi_map.go`   — `MultiMap` over any `mapi` (hash-backed and builtin-backed here).
* `mapx/builtin_map.go` — `builtinMap`, and `set/set.go` — `MapSet`: thin wrappers over Go maps.

Keys are `Int` identities; the user's `Code`/`Equals` are the parameter `h : Hashable` (a hash code
is a `uint64`, modelled as an `Int` so that one association-list type serves all Go maps here).
Values are generic (`Int` for the plain map, node ids for the linked map, `List Int` for the multi
map); Go's zero value is `default`.

A Go map is an association list (`AL`); its iteration order is not ekit code, so `Keys`, `Values` and
`Len` take the order in which the runtime presents the buckets as an **oracle** (`Oracle.order`,
constrained to be a permutation of the bucket codes).  `sync.Pool.Get` may return any node
previously `Put` or a new one: the oracle `Oracle.choice`.  A pooled node remembers its fields as
`formatting()` left them — which fields that is, is regenerated from the source
(`Ekit.Gen.HashMapFacts`); `newNode` does not touch `next`, so a pooled node whose `next` was not
cleared would join a chain together with its stale tail.
-/
import Ekit.Go.Basic
import Ekit.Generated.HashMapFacts

namespace Ekit.HashMap
open Ekit.Go

/-! ### Go maps as association lists -/
namespace AL
variable {β : Type}

/-- `v, ok := m[a]` -/
def lookup (a : Int) : List (Int × β) → Option β
  | [] => none
  | (x, y) :: r => if x = a then some y else lookup a r

/-- `m[a] = b` (an existing key keeps its slot; the slot order is never observable except through
    the iteration-order oracle) -/
def set (a : Int) (b : β) : List (Int × β) → List (Int × β)
  | [] => [(a, b)]
  | (x, y) :: r => if x = a then (a, b) :: r else (x, y) :: set a b r

/-- `delete(m, a)` -/
def erase (a : Int) : List (Int × β) → List (Int × β)
  | [] => []
  | (x, y) :: r => if x = a then r else (x, y) :: erase a r

end AL

/-! ### The user's key type -/

/-- user-supplied `Code()` and `Equals()` of `mapx.Hashable` -/
structure Hashable where
  code : Int → Int
  equals : Int → Int → Bool

/-- the `Hashable` contract: `Equals` is an equivalence and equal keys have equal codes.
    Nothing else is assumed about `code` — it may be constant. -/
structure Hashable.Law (h : Hashable) : Prop where
  refl : ∀ a, h.equals a a = true
  symm : ∀ a b, h.equals a b = true → h.equals b a = true
  trans : ∀ a b c, h.equals a b = true → h.equals b c = true → h.equals a c = true
  code_eq : ∀ a b, h.equals a b = true → h.code a = h.code b

abbrev Chain (V : Type) := List (Int × V)

/-- a `node` that sits in the pool: the fields it still carries (`tail` = what `next` points to) -/
structure PNode (V : Type) where
  key : Int
  value : V
  tail : Chain V
  deriving Repr, DecidableEq, Inhabited

/-- `HashMap` -/
structure HMap (V : Type) where
  /-- `hashmap map[uint64]*node` -/
  buckets : List (Int × Chain V)
  /-- nodes handed to `nodePool.Put` and not yet handed out again -/
  pool : List (PNode V)
  deriving Repr, DecidableEq, Inhabited

/-- run-time choices that are not ekit code -/
structure Oracle where
  /-- which pooled node `sync.Pool.Get` returns (`none`, or an index outside the pool: a new node) -/
  choice : Option Nat := none
  /-- the order in which `range m.hashmap` presents the keys of the Go map -/
  order : List Int := []
  deriving Repr, DecidableEq, Inhabited

inductive Op (V : Type) where
  | put (k : Int) (v : V)
  | get (k : Int)
  | delete (k : Int)
  | len
  | keys
  | values
  deriving Repr, DecidableEq, Inhabited

inductive Ret (V : Type) where
  | unit                     -- nil error
  | found (v : V)            -- (v, true)
  | missing                  -- (zero, false)
  | int (n : Int)
  | keys (ks : List Int)
  | vals (vs : List V)
  deriving Repr, DecidableEq, Inhabited

abbrev Out (V : Type) := Outcome (Ret V)

/-! ### Specification: an abstract map keyed by `Equals`
An association list in first-insertion order in which no two keys are `Equals`; an overwrite keeps
the stored key and its position, a delete removes the entry.  (The hash map promises this content
in unspecified order, the linked map in exactly this order.) -/
namespace Spec
variable {V : Type}

abbrev State (V : Type) := List (Int × V)

def get (h : Hashable) (s : State V) (k : Int) : Option V :=
  (s.find? (fun e => h.equals e.1 k)).map (·.2)

def put (h : Hashable) (s : State V) (k : Int) (v : V) : State V :=
  if s.any (fun e => h.equals e.1 k) then s.map (fun e => if h.equals e.1 k then (e.1, v) else e)
  else s ++ [(k, v)]

def delete (h : Hashable) (s : State V) (k : Int) : State V :=
  s.filter (fun e => !h.equals e.1 k)

def lookupRet (o : Option V) : Ret V :=
  match o with
  | some v => .found v
  | none => .missing

def step (h : Hashable) (s : State V) : Op V → State V × Out V
  | .put k v => (put h s k v, .ok .unit)
  | .get k => (s, .ok (lookupRet (get h s k)))
  | .delete k => (delete h s k, .ok (lookupRet (get h s k)))
  | .len => (s, .ok (.int s.length))
  | .keys => (s, .ok (.keys (s.map (·.1))))
  | .values => (s, .ok (.vals (s.map (·.2))))

def run (h : Hashable) (s : State V) : List (Op V) → State V × List (Out V)
  | [] => (s, [])
  | op :: ops =>
    let r := step h s op
    let rr := run h r.1 ops
    (rr.1, r.2 :: rr.2)

end Spec

/-! ### HashMap -/
section
variable {V : Type} [Inhabited V]

/-- `Put`'s walk: `for root != nil { if root.key.Equals(key) { root.value = val; return }; pre = root; root = root.next }`.
    `some chain'` = overwritten in place, `none` = fell off the end. -/
def chainPut (h : Hashable) (k : Int) (v : V) : Chain V → Option (Chain V)
  | [] => none
  | (k', v') :: r =>
    if h.equals k' k then some ((k', v) :: r) else (chainPut h k v r).map ((k', v') :: ·)

/-- `Get`'s walk -/
def chainGet (h : Hashable) (k : Int) : Chain V → Option V
  | [] => none
  | (k', v') :: r => if h.equals k' k then some v' else chainGet h k r

/-- `Delete`'s walk: `(num, node, node.next)` of the first node whose key `Equals(key)` -/
def chainFind (h : Hashable) (k : Int) : Chain V → Option (Nat × (Int × V) × Chain V)
  | [] => none
  | (k', v') :: r =>
    if h.equals k' k then some (0, (k', v'), r)
    else (chainFind h k r).map fun (n, e, nx) => (n + 1, e, nx)

/-- `node.formatting()`; which fields it resets is read off the source -/
def formatting (n : PNode V) : PNode V :=
  { key := if Gen.HashMapFacts.formattingClearsKey then 0 else n.key
    value := if Gen.HashMapFacts.formattingClearsValue then default else n.value
    tail := if Gen.HashMapFacts.formattingClearsNext then [] else n.tail }

/-- the factory of the pool: `&node{}` -/
def freshNode : PNode V := ⟨0, default, []⟩

/-- `nodePool.Get()` -/
def poolGet (pool : List (PNode V)) (choice : Option Nat) : PNode V × List (PNode V) :=
  match choice with
  | none => (freshNode, pool)
  | some i =>
    match pool[i]? with
    | some n => (n, pool.eraseIdx i)
    | none => (freshNode, pool)

/-- `m.newNode(key, val)`: the node as a chain segment — itself followed by whatever its `next`
    still points to — and the remaining pool -/
def newNode (pool : List (PNode V)) (choice : Option Nat) (k : Int) (v : V) : Chain V × List (PNode V) :=
  let (n, pool') := poolGet pool choice
  let key := if Gen.HashMapFacts.newNodeSetsKey then k else n.key
  let value := if Gen.HashMapFacts.newNodeSetsValue then v else n.value
  let tail := if Gen.HashMapFacts.newNodeSetsNext then [] else n.tail
  ((key, value) :: tail, pool')

/-- `for _, cur := range … { for ; cur != nil; cur = cur.next { n++ } }`, inner loop -/
def chainCount : Chain V → Int → Int
  | [], n => n
  | _ :: r, n => chainCount r (n + 1)

/-- the chain the Go map holds for a code (`nil` when absent) -/
def HMap.chainAt (m : HMap V) (c : Int) : Chain V := (AL.lookup c m.buckets).getD []

/-- `Len()` -/
def HMap.len (m : HMap V) (order : List Int) : Int :=
  order.foldl (fun n c => chainCount (m.chainAt c) n) 0

/-- `Keys()` -/
def HMap.keys (m : HMap V) (order : List Int) : List Int :=
  order.flatMap fun c => (m.chainAt c).map (·.1)

/-- `Values()` -/
def HMap.values (m : HMap V) (order : List Int) : List V :=
  order.flatMap fun c => (m.chainAt c).map (·.2)

def HMap.empty : HMap V := ⟨[], []⟩

/-- one public call on a `HashMap` -/
def HMap.step (h : Hashable) (m : HMap V) (o : Oracle) : Op V → HMap V × Out V
  | .put k v =>
    let hash := h.code k
    match AL.lookup hash m.buckets with
    | none =>
      let (seg, pool') := newNode m.pool o.choice k v
      ({ buckets := AL.set hash seg m.buckets, pool := pool' }, .ok .unit)
    | some chain =>
      match chainPut h k v chain with
      | some chain' => ({ m with buckets := AL.set hash chain' m.buckets }, .ok .unit)
      | none =>
        let (seg, pool') := newNode m.pool o.choice k v
        match chain with
        | [] => ({ m with pool := pool' },                                       -- `pre.next` with `pre == nil`
                 .panic "runtime error: invalid memory address or nil pointer dereference")
        | _ :: _ => ({ buckets := AL.set hash (chain ++ seg) m.buckets, pool := pool' }, .ok .unit)
  | .get k =>
    match AL.lookup (h.code k) m.buckets with
    | none => (m, .ok .missing)
    | some chain => (m, .ok (Spec.lookupRet (chainGet h k chain)))
  | .delete k =>
    let hash := h.code k
    match AL.lookup hash m.buckets with
    | none => (m, .ok .missing)
    | some chain =>
      match chainFind h k chain with
      | none => (m, .ok .missing)
      | some (num, node, next) =>
        let buckets' :=
          if num = 0 ∧ next.isEmpty then AL.erase hash m.buckets            -- the only node
          else if num = 0 then AL.set hash next m.buckets                   -- head with a successor
          else AL.set hash (chain.take num ++ next) m.buckets               -- `pre.next = root.next`
        let gone : PNode V := ⟨node.1, node.2, next⟩
        let pooled := if Gen.HashMapFacts.deleteFormatsBeforePoolPut then formatting gone else gone
        ({ buckets := buckets', pool := pooled :: m.pool }, .ok (.found node.2))
  | .len => (m, .ok (.int (m.len o.order)))
  | .keys => (m, .ok (.keys (m.keys o.order)))
  | .values => (m, .ok (.vals (m.values o.order)))

/-- the constraint on the iteration-order oracle -/
def Oracle.Valid (o : Oracle) (m : HMap V) : Prop := o.order.Perm (m.buckets.map (·.1))

/-- all live entries, bucket by bucket -/
def HMap.entries (m : HMap V) : List (Int × V) := m.buckets.flatMap (·.2)

/-- a history with its run-time choices -/
def HMap.run (h : Hashable) (m : HMap V) : List (Oracle × Op V) → HMap V × List (Out V)
  | [] => (m, [])
  | (o, op) :: rest =>
    let r := m.step h o op
    let rr := HMap.run h r.1 rest
    (rr.1, r.2 :: rr.2)

/-- every iteration-order oracle along the history is a permutation of the buckets then present -/
def HMap.ValidRun (h : Hashable) (m : HMap V) : List (Oracle × Op V) → Prop
  | [] => True
  | (o, op) :: rest => o.Valid m ∧ HMap.ValidRun h (m.step h o op).1 rest

end

/-! ### LinkedMap over a HashMap
`linkedKV` entries are identified by an allocation id (the pointer); the ring between the `head`
and `tail` sentinels is the list of entries from `head.next` to `tail.prev`. -/

structure LNode (V : Type) where
  id : Nat
  key : Int
  value : V
  deriving Repr, DecidableEq, Inhabited

structure LMap (V : Type) where
  /-- `m mapi[K, *linkedKV]`, here the `HashMap` -/
  m : HMap Nat
  /-- the doubly linked list, front to back -/
  list : List (LNode V)
  /-- the `length` field -/
  length : Int
  /-- allocation counter for `&linkedKV{…}` -/
  nextId : Nat
  deriving Repr, DecidableEq, Inhabited

section
variable {V : Type} [Inhabited V]

def LMap.empty : LMap V := ⟨HMap.empty, [], 0, 1⟩

/-- `lk.value` through the pointer -/
def LMap.deref (l : LMap V) (id : Nat) : Option (LNode V) := l.list.find? (·.id = id)

def LMap.step (h : Hashable) (l : LMap V) (o : Oracle) : Op V → LMap V × Out V
  | .put k v =>
    match (l.m.step h o (.get k)).2 with
    | .ok (.found id) =>
      -- `lk.value = val`
      ({ l with list := l.list.map fun n => if n.id = id then { n with value := v } else n }, .ok .unit)
    | _ =>
      let id := l.nextId
      let r := l.m.step h o (.put k id)
      match r.2 with
      | .ok _ =>
        -- `lk.prev.next, lk.next.prev = lk, lk` with `lk.prev = tail.prev`, `lk.next = tail`
        ({ m := r.1, list := l.list ++ [⟨id, k, v⟩], length := l.length + 1, nextId := id + 1 }, .ok .unit)
      | .err e => ({ l with m := r.1, nextId := id + 1 }, .err e)
      | .panic p => ({ l with m := r.1, nextId := id + 1 }, .panic p)
  | .get k =>
    match (l.m.step h o (.get k)).2 with
    | .ok (.found id) =>
      match l.deref id with
      | some n => (l, .ok (.found n.value))
      | none => (l, .ok .missing)      -- not reachable: every stored pointer is a list entry (`LInv`)
    | _ => (l, .ok .missing)
  | .delete k =>
    let r := l.m.step h o (.delete k)
    match r.2 with
    | .ok (.found id) =>
      match l.deref id with
      | some n =>
        -- `lk.prev.next = lk.next; lk.next.prev = lk.prev; l.length--`
        ({ l with m := r.1, list := l.list.filter (·.id ≠ id), length := l.length - 1 }, .ok (.found n.value))
      | none => ({ l with m := r.1 }, .ok .missing)   -- not reachable (`LInv`)
    | _ => ({ l with m := r.1 }, .ok .missing)
  | .len => (l, .ok (.int l.length))
  | .keys => (l, .ok (.keys (l.list.map (·.key))))
  | .values => (l, .ok (.vals (l.list.map (·.value))))

def LMap.run (h : Hashable) (l : LMap V) : List (Oracle × Op V) → LMap V × List (Out V)
  | [] => (l, [])
  | (o, op) :: rest =>
    let r := l.step h o op
    let rr := LMap.run h r.1 rest
    (rr.1, r.2 :: rr.2)

end

/-! ### builtinMap and MapSet: Go maps with comparable keys -/

/-- `builtinMap.data` -/
abbrev BMap (V : Type) := List (Int × V)

/-- Go's `==` on the key type, as a (trivially lawful) `Hashable`; the runtime's own hash is irrelevant -/
def idHashable : Hashable := ⟨fun a => a, fun a b => a == b⟩

section
variable {V : Type} [Inhabited V]

/-- `for k := range m` in the order the runtime chose -/
def BMap.keys (b : BMap V) (order : List Int) : List Int :=
  order.flatMap fun k => ((AL.lookup k b).map fun _ => k).toList

def BMap.values (b : BMap V) (order : List Int) : List V :=
  order.flatMap fun k => (AL.lookup k b).toList

def BMap.step (b : BMap V) (o : Oracle) : Op V → BMap V × Out V
  | .put k v => (AL.set k v b, .ok .unit)
  | .get k => (b, .ok (Spec.lookupRet (AL.lookup k b)))
  | .delete k => (AL.erase k b, .ok (Spec.lookupRet (AL.lookup k b)))
  | .len => (b, .ok (.int b.length))                   -- `len(b.data)`
  | .keys => (b, .ok (.keys (b.keys o.order)))
  | .values => (b, .ok (.vals (b.values o.order)))

def BMap.OrderValid (o : Oracle) (b : BMap V) : Prop := o.order.Perm (b.map (·.1))

end

/-- `MapSet` operations -/
inductive SetOp where
  | add (k : Int)
  | delete (k : Int)
  | exist (k : Int)
  | keys
  deriving Repr, DecidableEq, Inhabited

/-- `MapSet.m map[T]struct{}` -/
def MapSet.step (s : BMap Unit) (o : Oracle) : SetOp → BMap Unit × Out Unit
  | .add k => (AL.set k () s, .ok .unit)
  | .delete k => (AL.erase k s, .ok .unit)
  | .exist k => (s, .ok (Spec.lookupRet (AL.lookup k s)))
  | .keys => (s, .ok (.keys (BMap.keys s o.order)))

/-- specification of `MapSet`: the abstract map with unit values; `Delete` returns nothing -/
def Spec.setStep (s : Spec.State Unit) : SetOp → Spec.State Unit × Out Unit
  | .add k => (Spec.put idHashable s k (), .ok .unit)
  | .delete k => (Spec.delete idHashable s k, .ok .unit)
  | .exist k => (s, .ok (Spec.lookupRet (Spec.get idHashable s k)))
  | .keys => (s, .ok (.keys (s.map (·.1))))

/-! ### MultiMap over any `mapi[K, []V]` -/

/-! ### histories of any of the containers above -/

/-- a history with its run-time choices, for any step function -/
def runWith {σ ι ο : Type} (f : σ → Oracle → ι → σ × ο) (st : σ) : List (Oracle × ι) → σ × List ο
  | [] => (st, [])
  | (o, op) :: rest =>
    let r := f st o op
    let rr := runWith f r.1 rest
    (rr.1, r.2 :: rr.2)

/-- every oracle along the history meets its constraint in the state it is used in -/
def ValidRunWith {σ ι ο : Type} (valid : Oracle → σ → Prop) (f : σ → Oracle → ι → σ × ο) (st : σ) :
    List (Oracle × ι) → Prop
  | [] => True
  | (o, op) :: rest => valid o st ∧ ValidRunWith valid f (f st o op).1 rest

/-- a history of an abstract specification -/
def foldRun {τ ι ο : Type} (g : τ → ι → τ × ο) (s : τ) : List ι → τ × List ο
  | [] => (s, [])
  | op :: ops =>
    let r := g s op
    let rr := foldRun g r.1 ops
    (rr.1, r.2 :: rr.2)

/-- the `mapi` interface as seen by the decorators: a state and its call function -/
structure Mapi (σ : Type) (V : Type) where
  step : σ → Oracle → Op V → σ × Out V

/-- `val, _ := m.Get(k)`: the value when found, else the zero value -/
def foundOr {V : Type} (r : Out V) (d : V) : V :=
  match r with
  | .ok (.found v) => v
  | _ => d

def hashMapi (h : Hashable) (V : Type) [Inhabited V] : Mapi (HMap V) V := ⟨fun m o op => m.step h o op⟩
def builtinMapi (V : Type) [Inhabited V] : Mapi (BMap V) V := ⟨fun b o op => b.step o op⟩

/-- `MultiMap`; `put k vs` is `PutMany(k, vs...)` (`Put` is `PutMany` with one value).
    Every slice handed out or stored is a copy (`append([]V{}, v...)`), which the value-level model
    has for free; the harness probes it dynamically. -/
def multiStep {σ : Type} (inner : Mapi σ (List Int)) (s : σ) (o : Oracle) : Op (List Int) → σ × Out (List Int)
  | .put k vs =>
    -- `val, _ := m.Get(k); val = append(val, v...); return m.m.Put(k, val)`
    let r := inner.step s o (.get k)
    let val : List Int := foundOr r.2 []
    inner.step r.1 o (.put k (val ++ vs))
  | .get k =>
    let r := inner.step s o (.get k)
    match r.2 with
    | .ok (.found v) => (r.1, .ok (.found v))
    | _ => (r.1, .ok .missing)
  | .delete k => inner.step s o (.delete k)
  | .len => inner.step s o .len
  | .keys => inner.step s o .keys
  | .values => inner.step s o .values

/-- specification of the multi map: per key, values accumulate in call order -/
def Spec.multiStep (h : Hashable) (s : Spec.State (List Int)) : Op (List Int) → Spec.State (List Int) × Out (List Int)
  | .put k vs => (Spec.put h s k ((Spec.get h s k).getD [] ++ vs), .ok .unit)
  | op => Spec.step h s op

/-! ### The key types of the correspondence harness (harness/hashmap/main.go: `Key.Code`, `Key.Equals`)
from a perfect hash to a constant one, and an `Equals` coarser than identity. -/
def keyKind : String → Option Hashable
  | "perfect" => some ⟨fun a => a, fun a b => a == b⟩
  | "mod2" => some ⟨fun a => a.tmod 2, fun a b => a == b⟩
  | "mod3" => some ⟨fun a => a.tmod 3, fun a b => a == b⟩
  | "const" => some ⟨fun _ => 7, fun a b => a == b⟩
  | "half" => some ⟨fun a => a.tdiv 2, fun a b => a.tdiv 2 == b.tdiv 2⟩
  | "halfmod" => some ⟨fun a => (a.tdiv 2).tmod 2, fun a b => a.tdiv 2 == b.tdiv 2⟩
  | _ => none

end Ekit.HashMap
