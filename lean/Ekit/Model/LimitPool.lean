/-
Transition-system model of syncx.LimitPool (syncx/limit_pool.go, over syncx/pool.go).

    func NewLimitPool[T any](maxTokens int, factory func() T) *LimitPool[T] {
        var tokens atomic.Int32
        tokens.Add(int32(maxTokens))                  -- truncating conversion int → int32
        ...
    func (l *LimitPool[T]) Get() (T, bool) {
        if l.tokens.Add(-1) < 0 {                     -- atomic step `getDec` (+ a local sign test)
            l.tokens.Add(1)                           -- atomic step `getUndo`
            var zero T
            return zero, false
        }
        return l.pool.Get(), true                     -- step `getPool` (sync.Pool.Get)
    }
    func (l *LimitPool[T]) Put(t T) {
        l.pool.Put(t)                                 -- step `putPool` (sync.Pool.Put)
        l.tokens.Add(1)                               -- atomic step `putInc`
    }

Every method is broken into its shared-memory steps exactly as written, so every interleaving of any
number of threads is a schedule of the system.  The token counter is an `int32`, modelled as
`BitVec 32` with Go's wrap-around arithmetic and the signed comparison `< 0`.

Threads: thread ids are indices into `pcs` (the per-thread program counters); `spawn` adds a
thread (up to `cfg.maxThreads`, which the theorems only require to be ≤ 2^31 — the counter wraps
when 2^31+1 goroutines are simultaneously between the decrement and the compensation of a failing
`Get`).

Client protocol (what "borrowed" means in the property): only an object obtained from a successful
`Get` and not yet given back may be passed to `Put`; objects may be handed from one goroutine to
another, so the borrowed objects are one global count.  sync.Pool is the assumed primitive: `Put`
stores an object, `Get` returns a stored one or calls the factory (label parameter `reuse`), and the
runtime may drop stored objects at any time (label `poolDrop`).
-/
import Ekit.Conc.Basic

namespace Ekit.LimitPool
open Ekit.Conc

/-- where a thread is inside `Get`/`Put` -/
inductive PC where
  | idle      -- outside any LimitPool method
  | getFail   -- in Get: `tokens.Add(-1)` returned a negative value; `tokens.Add(1)` is next
  | getOk     -- in Get: `tokens.Add(-1)` returned ≥ 0; `pool.Get()` is next
  | putInc    -- in Put: `pool.Put(t)` done; `tokens.Add(1)` is next
  deriving DecidableEq, Repr, Inhabited

/-- one atomic action of one thread -/
inductive Act where
  | getDec                  -- call Get; `v := tokens.Add(-1)`; branch on `v < 0`
  | getUndo                 -- `tokens.Add(1)`; return (zero, false)
  | getPool (reuse : Bool)  -- `pool.Get()` (reuse a pooled object or call the factory); return (x, true)
  | putPool                 -- call Put(t) with a borrowed object; `pool.Put(t)`
  | putInc                  -- `tokens.Add(1)`; return
  deriving DecidableEq, Repr, Inhabited

inductive Label where
  | spawn                        -- a new goroutine appears
  | poolDrop                     -- the runtime discards one pooled object (GC)
  | act (t : Tid) (a : Act)
  deriving DecidableEq, Repr, Inhabited

structure Cfg where
  maxTokens : Int        -- the `maxTokens int` argument of NewLimitPool
  maxThreads : Nat       -- bound on the number of goroutines ever spawned (any value ≤ 2^31 in the theorems)
  deriving Repr

structure State where
  tokens : BitVec 32     -- l.tokens
  pcs : List PC          -- program counter of thread i
  borrowed : Nat         -- objects returned by successful Gets and not yet passed to Put
  pooled : Nat           -- objects inside the inner sync.Pool
  created : Nat          -- factory calls so far
  deriving DecidableEq, Repr, Inhabited

/-- `tokens.Add(d)` on an int32: wrap-around addition, returns the new value -/
def add32 (x : BitVec 32) (d : Int) : BitVec 32 := x + BitVec.ofInt 32 d

/-- NewLimitPool: `tokens.Add(int32(maxTokens))` on a zero counter -/
def init (cfg : Cfg) : State :=
  { tokens := add32 0 cfg.maxTokens, pcs := [], borrowed := 0, pooled := 0, created := 0 }

def pcOf (s : State) (t : Tid) : Option PC := s.pcs[t]?

def setPc (s : State) (t : Tid) (pc : PC) : State := { s with pcs := s.pcs.set t pc }

def step (cfg : Cfg) (s : State) : Label → Option State
  | .spawn => if s.pcs.length < cfg.maxThreads then some { s with pcs := s.pcs ++ [.idle] } else none
  | .poolDrop => if s.pooled > 0 then some { s with pooled := s.pooled - 1 } else none
  | .act t a =>
    match pcOf s t, a with
    | some .idle, .getDec =>
      let v := add32 s.tokens (-1)
      some (setPc { s with tokens := v } t (if v.slt 0 then .getFail else .getOk))
    | some .getFail, .getUndo =>
      some (setPc { s with tokens := add32 s.tokens 1 } t .idle)
    | some .getOk, .getPool reuse =>
      if reuse then
        if s.pooled > 0 then some (setPc { s with pooled := s.pooled - 1, borrowed := s.borrowed + 1 } t .idle)
        else none
      else some (setPc { s with created := s.created + 1, borrowed := s.borrowed + 1 } t .idle)
    | some .idle, .putPool =>
      if s.borrowed > 0 then some (setPc { s with borrowed := s.borrowed - 1, pooled := s.pooled + 1 } t .putInc)
      else none
    | some .putInc, .putInc =>
      some (setPc { s with tokens := add32 s.tokens 1 } t .idle)
    | _, _ => none

def sys (cfg : Cfg) : System State Label := { init := init cfg, step := step cfg }

/-! ### derived quantities the property speaks about -/

/-- successful Gets that are outstanding: the test passed (object not yet returned to the caller),
    the object is in the client's hands, or it is inside a `Put` that has not yet added its token.
    (The client-observable "borrowed" count is `borrowed ≤ outstanding`.) -/
def outstanding (s : State) : Nat := s.borrowed + s.pcs.count .getOk + s.pcs.count .putInc

/-- failing Gets between their decrement and their compensating increment -/
def failing (s : State) : Nat := s.pcs.count .getFail

/-- nobody is inside a method -/
def Quiescent (s : State) : Prop := ∀ pc ∈ s.pcs, pc = .idle

instance (s : State) : Decidable (Quiescent s) := by unfold Quiescent; infer_instance

/-! ### whole calls (what a sequential client observes); used by the driver and by `conserved` -/

/-- a complete, uninterrupted `Get` by thread `t`: the steps it takes and its boolean result -/
def getCall (cfg : Cfg) (s : State) (t : Tid) (reuse : Bool) : Option (State × Bool) :=
  match step cfg s (.act t .getDec) with
  | none => none
  | some s1 =>
    match pcOf s1 t with
    | some .getOk => (step cfg s1 (.act t (.getPool reuse))).map (·, true)
    | some .getFail => (step cfg s1 (.act t .getUndo)).map (·, false)
    | _ => none

/-- a complete, uninterrupted `Put` by thread `t` -/
def putCall (cfg : Cfg) (s : State) (t : Tid) : Option State :=
  (step cfg s (.act t .putPool)).bind fun s1 => step cfg s1 (.act t .putInc)

/-- `n` consecutive complete Gets by thread `t` (always taking a fresh object); the results -/
def getMany (cfg : Cfg) (s : State) (t : Tid) : Nat → Option (State × List Bool)
  | 0 => some (s, [])
  | n + 1 =>
    match getCall cfg s t false with
    | none => none
    | some (s1, r) => (getMany cfg s1 t n).map fun (s2, rs) => (s2, r :: rs)

/-! ### the abstract specification (used by the driver's `spec` mode)
A sequential client's view: `out` objects are borrowed.  A successful Get needs `out < max`; the
property does not forbid failures in general (contention), but once everything has been put back
exactly `max` consecutive Gets succeed. -/
structure Spec where
  max : Int
  out : Nat
  /-- no Put since the last moment nothing was borrowed: Gets must succeed while `out < max` -/
  clean : Bool
  deriving DecidableEq, Repr, Inhabited

namespace Spec
def new (max : Int) : Spec := ⟨max, 0, true⟩
/-- is the observed result of a `Get` admissible, and the next abstract state -/
def get (sp : Spec) (res : Bool) : Option Spec :=
  if res then (if (sp.out : Int) < sp.max then some { sp with out := sp.out + 1 } else none)
  else if sp.clean && decide ((sp.out : Int) < sp.max) then none else some sp
def put (sp : Spec) : Option Spec :=
  if sp.out > 0 then some { sp with out := sp.out - 1, clean := sp.out - 1 == 0 } else none
end Spec

end Ekit.LimitPool
