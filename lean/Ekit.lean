import Ekit.Conc.LinCheck
import Ekit.Conc.System
import Ekit.Generated.Slice
import Ekit.Go.Basic
import Ekit.Lemmas.Lists
import Ekit.Model.Lists
import Ekit.Props.C04
