import Ekit.Go.Basic
import Ekit.Generated.Slice
import Ekit.Model.Lists
import Ekit.Lemmas.Lists
import Ekit.Props.C04
