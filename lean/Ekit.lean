import Ekit.Generated.Slice
import Ekit.Go.Basic
import Ekit.Lemmas.Lists
import Ekit.Model.Lists
import Ekit.Props.C04
