import Driver.Util
import Driver.Lists

open Driver

def usage : String := "usage: driver <model|spec> <area>   (trace on stdin, verdict per line on stdout)"

def main (args : List String) : IO UInt32 := do
  match args with
  | [mode, area] =>
    let model := mode == "model"
    if mode ≠ "model" ∧ mode ≠ "spec" then IO.eprintln usage; return 2
    match area with
    | "lists" => runChecker (Lists.checker model)
    | _ => IO.eprintln s!"unknown area {area}"; return 2
  | _ => IO.eprintln usage; return 2
