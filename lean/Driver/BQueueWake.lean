import Driver.BQueue
/-!
Trace acceptor for the array/linked-queue share of C09 (same trace lines as `Driver/BQueue.lean`,
producer `harness/bqueue/main.go`).

Checked on every scenario: no call stayed blocked for the (generous, seconds) bound although its
enabling condition held the whole time (`stuck`, a lost wake-up), no call failed to return for that
bound after its context had ended (`hang`), no call failed with a non-context error, and after the
no call answered a context error while its context was still live (`spur`), and after the
scenario's pattern of cancellations the queue accepts exactly `capacity - len` further elements
without blocking and delivers everything in order.  `model` mode adds the quiescent white-box facts
proved in `Ekit/Props/C09a.lean` (`enqFree = cap - count`, `deqFree = count`).
-/
namespace Driver.BQueueWake
def checker (model : Bool) : Driver.Checker := Driver.BQueue.mkChecker model true
end Driver.BQueueWake
