import Driver.Lists
import Ekit.Generated.ArrayListGo
/-! Trace acceptor for C04, ArrayList at the level of the translated source: same traces as area `lists` (harness/lists).

`model` mode runs the MiniGo interpreter (Ekit/MiniGo/LangAL.lean: aliasing slices, receiver `{vals}`, method calls;
`slice.Add` / `slice.Delete` / `slice.Shrink` = the translated internal/slice run by the LangSL interpreter on the same heap)
on the program that `harness/minigoal` translated from the CURRENT `list/array_list.go`, on every ArrayList case (`array`,
`arrayof`, also behind the ConcurrentList wrapper and with the boxed element type): the constructors, Get, Append (the
variadic argument is a fresh array of the heap), Add, Set, Delete (incl. `shrink`) run as translated — nothing of the wrapper
is replayed by hand (compare area `slptr`).  After every call the result, `len` (= the translated `Len()`), `cap` (= the
translated `Cap()`, white box) and the contents read off the interpreter's backing array are compared; the runtime's
capacity choice for an allocating `append` is read from the observation (oracle) and must hold the elements.
`AsSlice` / `Range` are not translated: such calls only have the state compared; a case is abandoned at a call that mutates
the list from inside `Range` (`rangedo`, `rangemut`) and when it grows beyond 400 elements (list-based arrays make long
shifts quadratic).  `spec` mode is the abstract-sequence oracle of area `lists`. -/
namespace Driver.Alptr
open Ekit.MiniGo.AL Ekit.Gen.ArrayListGo Driver
open Ekit.MiniGo.SL (Val Fail Res)

def fuel : Nat := 16
def sliceFuel : Nat := 100000

def failTok : Fail → String
  | .panic => "panic"
  | .fuel => "diverged"
  | .stuck => "stuck"

def emptySt : St := { mem := { arrs := fun _ => [], alloc := 0, grow := [] }, vals := .slice none 0 0 }

def contents (st : St) : List Int :=
  match st.vals with
  | .slice (some a) l _ => (st.mem.arrs a).take l
  | _ => []

/-- keep only the live array (driver-side: the closure heap would otherwise grow with every write) -/
def compact (st : St) : St :=
  match st.vals with
  | .slice (some a) _ _ =>
    let cur := st.mem.arrs a
    { st with mem := { st.mem with arrs := fun x => if x = a then cur else [] } }
  | _ => { st with mem := { st.mem with arrs := fun _ => [] } }

def run (st : St) (fn : PName) (args : List Val) : Res (Val × St) := call sliceFuel procs fuel fn args st

def errTok : Val → String
  | .nilErr => "ok"
  | .errIdx l k => s!"err:idx:{l}:{k}"
  | _ => "?"

def valTok : Val → String
  | .pair (.int v) .nilErr => s!"ok:{v}"
  | .pair _ e => errTok e
  | _ => "?"

/-- result token and new state; `obsCap` = the capacity observed after the call (the runtime's choice if it allocated) -/
def stepOp (st : St) (obsCap : Nat) (ws : List String) : Option (Res (String × St)) :=
  let st0 : St := withGrow st obsCap
  let go (st : St) (fn : PName) (args : List Val) (tok : Val → String) : Res (String × St) :=
    (run st fn args).map fun (v, st1) => (tok v, st1)
  match ws with
  | ["asslice"] | ["range"] | ["rangestop", _] => some (.ok ("-", st))
  | ["len"] => some (go st0 .Len [] fun v => match v with | .int n => s!"ok:{n}" | _ => "?")
  | ["get", i] => i.toInt?.map fun i => go st0 .Get [.int i] valTok
  | ["append", ts] =>
    (parseInts ts).map fun ts =>
      let (v, st1) := allocSlice st0 ts 0
      go st1 .Append [v] errTok
  | ["add", i, t] => do
    let i ← i.toInt?
    let t ← t.toInt?
    pure (go st0 .Add [.int i, .int t] errTok)
  | ["set", i, t] => do
    let i ← i.toInt?
    let t ← t.toInt?
    pure (go st0 .Set [.int i, .int t] errTok)
  | ["delete", i] => i.toInt?.map fun i => go st0 .Delete [.int i] valTok
  | _ => none

def checker (model : Bool) : Checker :=
  if !model then Driver.Lists.checker false else
  { σ := Option St
    init := none
    step := fun sg op obs =>
      let ws := words op
      let got := resultTok obs
      let obsCap := (fieldNat obs "cap").getD 0
      -- `len` and `cap` are what the TRANSLATED Len() / Cap() answer
      let same (st : St) : Option String :=
        let l := contents st
        let okVals : Bool := match fieldInts obs "vals", fieldNat obs "vh" with
          | some vs, _ => vs == l
          | none, some h => h == (hashInts l).toNat
          | none, none => true
        match run st .Len [], run st .Cap [] with
        | .ok (.int n, _), .ok (.int c, _) =>
          if (fieldNat obs "len").map Int.ofNat ≠ some n then some s!"len want {n}"
          else if (fieldNat obs "cap").map Int.ofNat ≠ some c then some s!"cap want {c}"
          else if !okVals then some s!"contents want {renderInts l}"
          else none
        | _, _ => some "the translated Len()/Cap() fail"
      match ws with
      | "new" :: kind0 :: rest =>
        let kind := let k := if kind0.startsWith "box-" then (kind0.drop 4).toString else kind0
                    if k.startsWith "conc-" then (k.drop 5).toString else k
        if got ≠ "ok" ∨ fieldNat obs "cap" == none then (none, none) else
        let made : Option (Res (Val × St)) := match kind, rest with
          | "array", [cs] => cs.toInt?.map fun c => run emptySt .NewArrayList [.int c]
          | "arrayof", [ts] => (parseInts ts).map fun vs =>
              let (v, st1) := allocSlice emptySt vs obsCap
              run st1 .NewArrayListOf [v]
          | _, _ => none
        match made with
        | none => (none, none)
        | some (.error e) => (none, some s!"the translated constructor fails ({failTok e})")
        | some (.ok (_, st1)) => let st1 := compact st1; (some st1, same st1)
      | _ =>
        match sg with
        | none => (none, none)
        | some st =>
          if (contents st).length > 400 then (none, none) else
          match stepOp st obsCap ws with
          | none => (none, none)
          | some (.error e) =>
            (sg, some s!"the translated program fails ({failTok e}) where the implementation answered {got}")
          | some (.ok (tok, st1)) =>
            let st1 := compact st1
            let r : Option String :=
              if tok ≠ "-" ∧ tok ≠ got then some s!"result want {tok} got {got}" else same st1
            (some st1, r) }

end Driver.Alptr
