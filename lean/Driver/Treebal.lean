import Driver.Tree
/-! Trace acceptor for C02: same traces as area `tree` (harness/tree). `model` mode compares everything
the model predicts (results, contents, colour/key/shape dump, exact comparator-call counts);
`spec` mode demands only what C02 states: the red-black audit of the implementation passes after
every call and no call makes more than 2*log2(n+1) comparator calls per key it locates. -/
namespace Driver.Treebal
def checker (model : Bool) : Driver.Checker := Driver.Tree.checkerFor ⟨model, true⟩
end Driver.Treebal
