import Driver.Util
import Ekit.Model.Value
import Ekit.Generated.ValueTable
/-!
Trace acceptor for C17 (`ekit.AnyValue`). Producer of the lines: harness/value/main.go.

    new <held> [stored]            => ok
    <Accessor>                     => ok:<value> | err:<kind> | panic:<msg>     [oracle fields]
    <X>OrDefault <value>           => ok:<value>
    JSONScan <target#>             => ok:<json> | err:<kind>                    ju=<oracle>

`<held>` is `nil`, `int8:-128`, `Nint8:5` (a defined type with underlying int8; `N…` = a type the harness defines,
`L…` / `Q…` = a defined type of the standard library — json.Number, json.RawMessage, time.Duration, sql.RawBytes, … —
which, unlike a harness type, a type switch of the library can name), `f32:<hex bits>`,
`str:<pct-encoded bytes>`, `bytes:…`, `nilbytes`, `bool:true`, `slice:<tag>`, `other:<tag>`.
Strings and byte slices are percent-encoded (everything but `[A-Za-z0-9._+-]`), floats are bit patterns.

`model = true`: the table interpreter `Ekit.Value.run` over `Ekit.Gen.valueTable` (what the theorems are
about); `model = false`: `Ekit.Value.Spec.judge` only.
-/
namespace Driver.Value
open Ekit.Value Ekit.Go Driver

def hexVal (c : Char) : Option Nat :=
  if '0' ≤ c ∧ c ≤ '9' then some (c.toNat - 48)
  else if 'a' ≤ c ∧ c ≤ 'f' then some (c.toNat - 87)
  else if 'A' ≤ c ∧ c ≤ 'F' then some (c.toNat - 55)
  else none

def parseHex (s : String) : Option Nat :=
  if s.isEmpty then none else
  s.toList.foldlM (fun n c => (hexVal c).map (n * 16 + ·)) 0

def pctDecodeAux : List Char → List Nat → Option (List Nat)
  | [], acc => some acc.reverse
  | '%' :: a :: b :: rest, acc => do
    let x ← hexVal a
    let y ← hexVal b
    pctDecodeAux rest ((x * 16 + y) :: acc)
  | '%' :: _, _ => none
  | c :: rest, acc => if c.toNat < 128 then pctDecodeAux rest (c.toNat :: acc) else none

def pctDecode (s : String) : Option Str := pctDecodeAux s.toList []

def hexDigit (n : Nat) : Char := if n < 10 then Char.ofNat (48 + n) else Char.ofNat (55 + n)

def plain (b : Nat) : Bool :=
  (48 ≤ b && b ≤ 57) || (65 ≤ b && b ≤ 90) || (97 ≤ b && b ≤ 122) || b == 46 || b == 95 || b == 43 || b == 45

def pctEncode (s : Str) : String :=
  String.ofList (s.flatMap fun b => if plain b then [Char.ofNat b] else ['%', hexDigit (b / 16 % 16), hexDigit (b % 16)])

def renderHex (n : Nat) : String := String.ofList (Nat.toDigits 16 n)

def renderVal : Val → String
  | .int v => toString v
  | .float b => renderHex b
  | .str s => pctEncode s
  | .bytes b => pctEncode b
  | .bool b => if b then "true" else "false"

def renderOut : Out → String
  | .ok v => "ok:" ++ renderVal v
  | .err (.other t) => "err:" ++ t
  | .err e => e.render
  | .panic _ => "panic"

def errStored : Err := .other "stored"

def parseIntT : String → Option IntT
  | "int" => some .int | "int8" => some .int8 | "int16" => some .int16 | "int32" => some .int32 | "int64" => some .int64
  | "uint" => some .uint | "uint8" => some .uint8 | "uint16" => some .uint16 | "uint32" => some .uint32 | "uint64" => some .uint64
  | _ => none

def splitColon (s : String) : String × String :=
  match s.splitOn ":" with
  | [a] => (a, "")
  | a :: rest => (a, ":".intercalate rest)
  | [] => ("", "")

def parseHeld (tok : String) : Option Held :=
  let (k, p) := splitColon tok
  -- N: defined by the harness; L, Q: defined by the standard library. For the model and for the
  -- specification all of them are "a defined type, not the predeclared one".
  let named := k.startsWith "N" || k.startsWith "L" || k.startsWith "Q"
  let k := if named then (k.drop 1).toString else k
  match k with
  | "nil" => some .nil
  | "f32" => (parseHex p).map (.float false named)
  | "f64" => (parseHex p).map (.float true named)
  | "str" => (pctDecode p).map (.str named)
  | "bytes" => (pctDecode p).map (.bytes named)
  | "ebytes" => (pctDecode p).map (.bytes true)        -- []MyByte: element kind Uint8, not []byte
  | "nilbytes" => some (.bytes named [])
  | "bool" => if p = "true" then some (.bool named true) else if p = "false" then some (.bool named false) else none
  | "slice" => some .slice
  | "other" => some .other
  | _ => do
    let t ← parseIntT k
    let v ← parseInt? p
    some (.int t named v)

/-- default values carry their type: `i:5 f:3f800000 s:<enc> b:<enc> t:true` -/
def parseVal (tok : String) : Option Val :=
  let (k, p) := splitColon tok
  match k with
  | "i" => (parseInt? p).map .int
  | "f" => (parseHex p).map .float
  | "s" => (pctDecode p).map .str
  | "b" => (pctDecode p).map .bytes
  | "t" => if p = "true" then some (.bool true) else if p = "false" then some (.bool false) else none
  | _ => none

def parseCall (ws : List String) : Option Call :=
  match ws with
  | ["JSONScan", t] => t.toNat?.map .jsonScan
  | [name] => some (.acc name)
  | [name, d] => (parseVal d).map (.orDefault name)
  | _ => none

/-- `ok:<hex>` / `syntax:<hex>` / `range:<hex>` -/
def parsePF (s : String) : Option (Nat × Option PErr) :=
  let (k, p) := splitColon s
  match k, parseHex p with
  | "ok", some b => some (b, none)
  | "syntax", some b => some (b, some .syntax)
  | "range", some b => some (b, some .range)
  | _, _ => none

def parseJU (s : String) : Option Out :=
  let (k, p) := splitColon s
  match k with
  | "ok" => (pctDecode p).map fun b => .ok (.str b)
  | "err" => some (.err errJSON)
  | _ => none

/-- the oracle values of one observation (harness: computed with strconv / encoding/json directly,
never through AnyValue). A value the observation does not supply is a recognisable dummy. -/
def oracleOf (obs : String) (held : Held) : Oracle :=
  let pf32 := (field obs "pf32").bind parsePF
  let pf64 := (field obs "pf64").bind parsePF
  let n32 := (field obs "n32").bind parseHex        -- float32(value of pf32)
  let n64 := (field obs "n64").bind parseHex        -- float32(value of pf64)
  let w32 := (field obs "w32").bind parseHex        -- float64(held float32)
  let ff := (field obs "ff").bind pctDecode         -- FormatFloat(held, 'f', 10, 32|64)
  let ju := (field obs "ju").bind parseJU
  let heldBits : Nat := match held with | .float true _ _ => 64 | _ => 32
  { parseFloat := fun bits _ =>
      match bits, pf32, pf64 with
      | 32, some r, _ => r
      | 64, _, some r => r
      | _, _, _ => (0, some .bitSize)
    narrow32 := fun x =>
      match pf32, n32, pf64, n64 with
      | some (v, _), some n, _, _ => if x = v then n else match pf64, n64 with
        | some (v', _), some n' => if x = v' then n' else 0xdead
        | _, _ => 0xdead
      | _, _, some (v', _), some n' => if x = v' then n' else 0xdead
      | _, _, _, _ => 0xdead
    widen32 := fun x => match w32 with | some w => w | none => x
    formatFloat := fun _ f p b =>
      match ff with
      | some s => if f = 102 ∧ p = 10 ∧ b = heldBits then s else [63]
      | none => [63]
    unmarshal := fun _ _ => match ju with | some r => r | none => .err (.other "no-oracle") }

structure St where
  av : Option AnyValue := none

def checker (model : Bool) : Checker where
  σ := St
  init := {}
  step st op obs :=
    let ws := words op
    let got := resultTok obs
    match ws with
    | "new" :: tok :: rest =>
      match parseHeld tok, rest with
      | some h, [] => ({ av := some { val := h } }, if got = "ok" then none else some s!"constructor: {obs}")
      | some h, ["stored"] => ({ av := some { val := h, err := some errStored } }, if got = "ok" then none else some s!"constructor: {obs}")
      | _, _ => ({}, some s!"bad-op {op}")
    | _ =>
      match st.av, parseCall ws with
      | none, _ => (st, some "no-value")
      | _, none => (st, some s!"bad-op {op}")
      | some av, some call =>
        let o := oracleOf obs av.val
        let gotNorm := if got.startsWith "panic" then "panic" else got
        if model then
          match run o Ekit.Gen.valueTable av call with
          | none => (st, some s!"the accessor table regenerated from value.go has no method for `{op}`")
          | some out =>
            let want := renderOut out
            if want = gotNorm then (st, none) else (st, some s!"result want {want} got {got}")
        else
          match Spec.judge o av call with
          | none => (st, some s!"bad-op {op}")
          | some v =>
            let okAllowed := (v.allowed.map renderOut).contains gotNorm
            let okErr := v.anyErr && gotNorm.startsWith "err:"
            let okOk := v.anyOk && gotNorm.startsWith "ok:"
            if okAllowed || okErr || okOk then (st, none)
            else
              let want := ", ".intercalate (v.allowed.map renderOut ++ (if v.anyErr then ["err:*"] else []) ++ (if v.anyOk then ["ok:*"] else []))
              (st, some s!"result want {want} got {got}")

end Driver.Value
