/-
Line protocol shared by all drivers.

A trace file has one line per observed call on the real implementation:
    <op and args> => <observation>
A checker is a state machine over those lines; for every line the driver prints `ok` or
`bad <explanation>`.  The checker's `step` is written in terms of the *model functions the theorems
are about* (mode `model`) or of the abstract specification only (mode `spec`).
-/
namespace Driver

def splitArrow (line : String) : String × String :=
  match line.splitOn " => " with
  | [a] => (a.trimAscii.toString, "")
  | a :: rest => (a.trimAscii.toString, (" => ".intercalate rest).trimAscii.toString)
  | [] => ("", "")

def words (s : String) : List String := (s.splitOn " ").filter (· ≠ "")

def parseInt? (s : String) : Option Int := s.toInt?

/-- "1,2,-3" → [1,2,-3]; "-" or "" → [] -/
def parseInts (s : String) : Option (List Int) :=
  if s = "-" ∨ s = "" then some [] else (s.splitOn ",").mapM (·.toInt?)

def renderInts (l : List Int) : String :=
  if l.isEmpty then "-" else ",".intercalate (l.map toString)

/-- order-sensitive content hash, same function as vlib.Hash in the Go harness -/
def hashInts (l : List Int) : UInt64 :=
  l.foldl (fun h x => h * 1099511628211 + UInt64.ofInt x + 0x9E3779B9) 1469598103934665603

/-- key=value fields of an observation: "ok:5 len=2 cap=100 vals=9,7" → lookup "cap" = "100" -/
def field (obs : String) (key : String) : Option String :=
  (words obs).findSome? fun w =>
    if w.startsWith (key ++ "=") then some ((w.drop (key.length + 1)).toString) else none

def fieldInt (obs key : String) : Option Int := (field obs key).bind parseInt?
def fieldNat (obs key : String) : Option Nat := (fieldInt obs key).bind fun i => if i < 0 then none else some i.toNat
def fieldInts (obs key : String) : Option (List Int) := (field obs key).bind parseInts

/-- first word of the observation = the call's result token -/
def resultTok (obs : String) : String := (words obs).headD ""

structure Checker where
  σ : Type
  init : σ
  /-- returns the new state and `none` when the line is accepted, `some msg` otherwise -/
  step : σ → (op : String) → (obs : String) → σ × Option String

partial def loop (c : Checker) (h : IO.FS.Stream) (out : IO.FS.Stream) (s : c.σ) (n bad : Nat) : IO (Nat × Nat) := do
  let line ← h.getLine
  if line.isEmpty then return (n, bad)
  let line := line.trimAscii.toString
  if line.isEmpty ∨ line.startsWith "#" then
    out.putStrLn "ok"
    loop c h out s (n + 1) bad
  else
    let (op, obs) := splitArrow line
    let (s', r) := c.step s op obs
    match r with
    | none => out.putStrLn "ok"; loop c h out s' (n + 1) bad
    | some msg => out.putStrLn s!"bad {msg}"; loop c h out s' (n + 1) (bad + 1)

def runChecker (c : Checker) : IO UInt32 := do
  let stdin ← IO.getStdin
  let stdout ← IO.getStdout
  let (_, bad) ← loop c stdin stdout c.init 0 0
  stdout.flush
  return (if bad = 0 then 0 else 3)

end Driver
