import Driver.Lists
import Ekit.Generated.SliceGo
/-! Trace acceptor for C04/C16, slice level: same traces as area `lists` (harness/lists).

`model` mode runs the MiniGo interpreter with aliasing slices (Ekit/MiniGo/LangSL.lean) on the program that
`harness/minigosl` translated from the CURRENT `internal/slice/{add,delete,shrink}.go` on every ArrayList case
(`array`, `arrayof`, also behind the ConcurrentList wrapper and with the boxed element type): `ArrayList.Add` is
`slice.Add`, `ArrayList.Delete` is `slice.Delete` followed by `slice.Shrink` — those three run as translated; the thin
wrapper around them (`Get`, `Set`, `Append` = the runtime's `append`) is replayed by this driver.  After every call the
result, `len`, `cap` (white box) and the contents read off the interpreter's backing array are compared; the runtime's
capacity choice for an allocation is read from the observation (oracle) and must hold the elements.
Cases are abandoned when the list grows beyond 400 elements (the list-based arrays make long shifts quadratic).
`spec` mode is the abstract-sequence oracle of area `lists`. -/
namespace Driver.Slptr
open Ekit.MiniGo.SL Ekit.Gen.SliceGo Driver

def fuel : Nat := 100000

structure S where
  st : St
  arr : Nat
  len : Nat
  cap : Nat

def failTok : Fail → String
  | .panic => "panic"
  | .fuel => "diverged"
  | .stuck => "stuck"

def contents (s : S) : List Int := (s.st.arrs s.arr).take s.len

/-- keep only the live array (driver-side: the closure heap would otherwise grow with every write) -/
def compact (s : S) : S :=
  let cur := s.st.arrs s.arr
  { s with st := { s.st with arrs := fun x => if x = s.arr then cur else [] } }

def mk (vals : List Int) (cap : Nat) : S :=
  let c := max cap vals.length
  { st := { arrs := fun x => if x = 0 then vals ++ List.replicate (c - vals.length) 0 else [], alloc := 1, grow := [] },
    arr := 0, len := vals.length, cap := c }

def ofSlice (s : S) (st : St) : Val → Option S
  | .slice (some a) l c => some { st := st, arr := a, len := l, cap := c }
  | _ => none

/-- result token and new state; `obsCap` = the capacity observed after the call (the runtime's choice if it allocated) -/
def stepOp (s : S) (obsCap : Nat) (ws : List String) : Option (Res (String × S)) :=
  let st0 : St := { s.st with grow := [obsCap, obsCap] }
  let sv : Val := .slice (some s.arr) s.len s.cap
  match ws with
  | ["get", _] | ["len"] | ["asslice"] | ["range"] | ["rangestop", _] => some (.ok ("-", s))
  | ["append", ts] =>
    (parseInts ts).map fun ts =>
      match appendVals st0 (some s.arr) s.len s.cap ts with
      | .ok (v, st1) => match ofSlice s st1 v with | some s1 => .ok ("ok", s1) | none => .error .stuck
      | .error e => .error e
  | ["add", i, t] => do
    let i ← i.toInt?
    let t ← t.toInt?
    pure <| match run fuel proc_Add [sv, .int t, .int i] st0 with
      | .ok (.pair v .nilErr, st1) => match ofSlice s st1 v with | some s1 => .ok ("ok", s1) | none => .error .stuck
      | .ok (.pair _ (.errIdx l k), _) => .ok (s!"err:idx:{l}:{k}", s)
      | .ok _ => .error .stuck
      | .error e => .error e
  | ["set", i, t] => do
    let i ← i.toInt?
    let t ← t.toInt?
    pure <|
      if i ≥ (s.len : Int) ∨ i < 0 then .ok (s!"err:idx:{s.len}:{i}", s)
      else .ok ("ok", { s with st := { s.st with arrs := updA s.st.arrs s.arr ((s.st.arrs s.arr).set i.toNat t) } })
  | ["delete", i] =>
    i.toInt?.map fun i =>
      match run fuel proc_Delete [sv, .int i] st0 with
      | .ok (.pair v (.pair (.int x) .nilErr), st1) =>
        match run fuel proc_Shrink [v] st1 with
        | .ok (v2, st2) => match ofSlice s st2 v2 with | some s2 => .ok (s!"ok:{x}", s2) | none => .error .stuck
        | .error e => .error e
      | .ok (.pair _ (.pair _ (.errIdx l k)), _) => .ok (s!"err:idx:{l}:{k}", s)
      | .ok _ => .error .stuck
      | .error e => .error e
  | _ => none

def checker (model : Bool) : Checker :=
  if !model then Driver.Lists.checker false else
  { σ := Option S
    init := none
    step := fun sg op obs =>
      let ws := words op
      let got := resultTok obs
      let obsCap := (fieldNat obs "cap").getD 0
      let same (s : S) : Option String :=
        let l := contents s
        let okVals : Bool := match fieldInts obs "vals", fieldNat obs "vh" with
          | some vs, _ => vs == l
          | none, some h => h == (hashInts l).toNat
          | none, none => true
        if fieldNat obs "len" ≠ some s.len then some s!"len want {s.len}"
        else if fieldNat obs "cap" ≠ some s.cap then some s!"cap want {s.cap}"
        else if !okVals then some s!"contents want {renderInts l}"
        else none
      match ws with
      | "new" :: kind0 :: rest =>
        let kind := let k := if kind0.startsWith "box-" then (kind0.drop 4).toString else kind0
                    if k.startsWith "conc-" then (k.drop 5).toString else k
        if got ≠ "ok" then (none, none) else
        match kind, rest with
        | "array", [_] => let s := mk [] obsCap; (some s, same s)
        | "arrayof", [ts] =>
          match parseInts ts with
          | some vs => let s := mk vs obsCap; (some s, same s)
          | none => (none, none)
        | _, _ => (none, none)
      | _ =>
        match sg with
        | none => (none, none)
        | some s =>
          if s.len > 400 then (none, none) else
          match stepOp s obsCap ws with
          | none => (none, none)
          | some (.error e) =>
            (sg, some s!"the translated program fails ({failTok e}) where the implementation answered {got}")
          | some (.ok (tok, s1)) =>
            let s1 := compact s1
            let r : Option String :=
              if tok ≠ "-" ∧ tok ≠ got then some s!"result want {tok} got {got}" else same s1
            (some s1, r) }

end Driver.Slptr
