import Driver.Util
import Ekit.Model.LimitPool
import Ekit.Model.SegmentLock
/-!
Trace acceptor for C14 (syncx.LimitPool, syncx.SegmentKeysLock).  Producer: harness/syncx/main.go.

LimitPool cases
    new limit <max> [kind=ptr|int0|unit|str0|val|nilptr|nilsl|nilfn]  => ok tokens=<n> created=<c>   (element type of the pool; zero-valued and nil kinds included)
    get <t>                                 => true|false tokens=<n> created=<c>
    put <t>                                 => ok tokens=<n> created=<c>   |  skip      (nothing borrowed)
    new limitstress max=<m> g=<g> iters=<n> => hw=<h> finalgets=<f> extra=fail|ok …
SegmentKeysLock cases (keys as hex bytes, `-` = empty key)
    new seg <size>                          => ok
    idx <hex>                               => i=<a> j=<b>     (same contents, two distinct allocations)
                                            |  blackbox excl=true|false|skip   (stub hooks: no index observable)
    lock <t> <hex>                          => ok probe=<TryRLock right after> | wouldblock
    rlock <t> <hex>                         => ok | wouldblock
    unlock|runlock <t> <hex>                => ok | notheld
    trylock|tryrlock <t> <hex>              => true | false
    new segstress size=… keys=… g=… iters=… => viol=<n> freefail=<n> …
    new segfirst size=… g=… rounds=… variant=try|mix|lock => multi=<n> viol=<n> leftlocked=<n> …
                                            (fresh instance per round, goroutines released together: first-use races)

`model = true`: every line is replayed through the transition systems the C14 theorems are about
(`LimitPool.step` via `getCall`/`putCall`/`getMany`, `SegmentLock.step`, `SegmentLock.idx` = FNV-1a
mod size) and white-box values (token counter, factory calls, segment index) must agree.
`model = false`: only the abstract specification (`LimitPool.Spec`, `SegmentLock.Spec`).
-/
namespace Driver.SyncX
open Driver Ekit

def hexVal (c : Char) : Option Nat :=
  if '0' ≤ c ∧ c ≤ '9' then some (c.toNat - '0'.toNat)
  else if 'a' ≤ c ∧ c ≤ 'f' then some (c.toNat - 'a'.toNat + 10)
  else if 'A' ≤ c ∧ c ≤ 'F' then some (c.toNat - 'A'.toNat + 10)
  else none

def parseHexList : List Char → Option (List UInt8)
  | [] => some []
  | a :: b :: rest => do
    let x ← hexVal a
    let y ← hexVal b
    let tl ← parseHexList rest
    pure (UInt8.ofNat (x * 16 + y) :: tl)
  | _ => none

/-- "-" = empty key, otherwise an even number of hex digits -/
def parseKey (s : String) : Option SegmentLock.Key :=
  if s = "-" then some [] else parseHexList s.toList

def parseNat? (s : String) : Option Nat := (parseInt? s).bind fun i => if i < 0 then none else some i.toNat

/-- number of model threads available to the scripted LimitPool cases -/
def nThreads : Nat := 8

def spawnN (cfg : LimitPool.Cfg) (s : LimitPool.State) : Nat → LimitPool.State
  | 0 => s
  | n + 1 => spawnN cfg ((LimitPool.step cfg s .spawn).getD s) n

inductive St where
  | none
  | limit (cfg : LimitPool.Cfg) (s : LimitPool.State) (sp : LimitPool.Spec)
  | seg (size : BitVec 32) (s : SegmentLock.State) (held : List SegmentLock.Hold) (seen : List (SegmentLock.Key × Nat))

/-- `k=v` fields of a constructor line such as `new limitstress max=3 g=8 iters=2000` -/
def argNat (ws : List String) (key : String) : Option Nat :=
  ws.findSome? fun w => if w.startsWith (key ++ "=") then parseNat? ((w.drop (key.length + 1)).toString) else none

def limitCfg (max : Int) : LimitPool.Cfg := { maxTokens := max, maxThreads := 2147483648 }

def checkLimitStress (model : Bool) (ws : List String) (obs : String) : Option String :=
  match argNat ws "max", fieldNat obs "hw", fieldNat obs "finalgets", field obs "extra" with
  | some max, some hw, some fg, some extra =>
    if hw > max then some s!"more than maxTokens={max} successful Gets outstanding at once: high-water mark {hw}"
    else if model then
      -- what the model predicts for max+1 uninterrupted Gets at quiescence with nothing borrowed
      let cfg := limitCfg max
      let s0 := spawnN cfg (LimitPool.init cfg) 1
      match LimitPool.getMany cfg s0 0 (max + 1) with
      | some (_, rs) =>
        let want := rs.count true
        let wantExtra := if rs.getLast? == some false then "fail" else "ok"
        if fg ≠ want ∨ extra ≠ wantExtra then
          some s!"after everything was put back the model expects {want} successful Gets then {wantExtra}, observed {fg} then {extra}"
        else none
      | none => some "model cannot run the final Gets"
    else if fg ≠ max ∨ extra ≠ "fail" then
      some s!"tokens not conserved: after everything was put back {fg} Gets succeeded (want exactly {max}) and the next one reported {extra}"
    else none
  | _, _, _, _ => some "bad limitstress line"

def checkSegStress (ws : List String) (obs : String) : Option String :=
  match argNat ws "size", fieldNat obs "viol", fieldNat obs "freefail" with
  | some size, some viol, some ff =>
    if size = 0 then some "size 0 is outside the property"
    else if fieldNat obs "unstable" == some 1 then
      some "equal key contents in distinct allocations select different locks"
    else if viol ≠ 0 then some s!"mutual exclusion per key violated {viol} times (a writer together with another holder of an equal key)"
    else if ff ≠ 0 then some s!"TryLock failed {ff} times although nothing was held"
    else none
  | _, _, _ => some "bad segstress line"

/-- first-use rounds on fresh instances (black-box laws of the property, same in both modes; they are
    the concurrent readings of `c14_segment_lock_excludes_key`, `c14_segment_try_fails_while_locked`
    and `c14_segment_all_free_trylock_succeeds`) -/
def checkSegFirst (ws : List String) (obs : String) : Option String :=
  match argNat ws "size", fieldNat obs "multi", fieldNat obs "viol", fieldNat obs "leftlocked" with
  | some size, some multi, some viol, some left =>
    if size = 0 then some "size 0 is outside the property"
    else if multi ≠ 0 then
      some s!"several goroutines obtained a lock on an equal key at once on a fresh instance (nobody had unlocked): {obs}"
    else if viol ≠ 0 then
      some s!"two goroutines were inside Lock(k)…Unlock(k) for an equal key at once on a fresh instance: {obs}"
    else if left ≠ 0 then some s!"TryLock failed although every holder had unlocked: {obs}"
    else none
  | _, _, _, _ => some "bad segfirst line"

def renderHolds (hs : List SegmentLock.Hold) : String :=
  " ".intercalate (hs.map fun h => s!"{h.tid}:{if h.write then "W" else "R"}:{h.key.length}")

def checker (model : Bool) : Checker where
  σ := St
  init := .none
  step st op obs :=
    let ws := words op
    let res := resultTok obs
    -- neither object may panic inside the property's quantifier (size ≥ 1, maxTokens ≥ 0)
    if res.startsWith "panic" then (st, some s!"the call panicked: {obs}") else
    match ws with
    | "new" :: "limit" :: m :: _kind =>   -- optional `kind=<element type>`: the bookkeeping is the same for every T
      match parseInt? m with
      | some max =>
        let cfg := limitCfg max
        let s0 := spawnN cfg (LimitPool.init cfg) nThreads
        let st' := St.limit cfg s0 (LimitPool.Spec.new max)
        if res ≠ "ok" then (st', some s!"constructor failed: {obs}")
        else if max < 0 then (st', some "negative maxTokens is outside the property's quantifier")
        else if model && fieldInt obs "tokens" ≠ some s0.tokens.toInt then
          (st', some s!"tokens after NewLimitPool want {s0.tokens.toInt}")
        else (st', none)
      | none => (.none, some s!"bad-op {op}")
    | "new" :: "limitstress" :: rest => (.none, checkLimitStress model rest obs)
    | "new" :: "segstress" :: rest => (.none, checkSegStress rest obs)
    | "new" :: "segfirst" :: rest => (.none, checkSegFirst rest obs)
    | "new" :: "seg" :: [sz] =>
      match parseNat? sz with
      | some n =>
        let size := BitVec.ofNat 32 n
        let st' := St.seg size (SegmentLock.init size) [] []
        if n = 0 ∨ n ≥ 4294967296 then (st', some "size outside the property's quantifier (1 ≤ size < 2^32)")
        else if res ≠ "ok" then (st', some s!"constructor failed: {obs}")
        else (st', none)
      | none => (.none, some s!"bad-op {op}")
    | _ =>
      match st with
      | .none => (st, some "no-object")
      | .limit cfg s sp =>
        let obsTok := fieldInt obs "tokens"
        let obsCreated := fieldNat obs "created"
        match ws with
        | ["get", ts] =>
          match parseNat? ts, (if res = "true" then some true else if res = "false" then some false else none) with
          | some t, some r =>
            if model then
              -- the factory-call counter tells which way sync.Pool.Get went
              let reuse := obsCreated == some s.created
              match LimitPool.getCall cfg s t reuse with
              | some (s', r') =>
                if r' ≠ r then (.limit cfg s' sp, some s!"Get want {r'} got {r}")
                else if obsTok ≠ some s'.tokens.toInt then (.limit cfg s' sp, some s!"tokens want {s'.tokens.toInt}")
                else if obsCreated ≠ some s'.created then (.limit cfg s' sp, some s!"factory calls want {s'.created}")
                else (.limit cfg s' sp, none)
              | none => (st, some "model: Get not enabled (object reused although the pool holds none?)")
            else
              match sp.get r with
              | some sp' => (.limit cfg s sp', none)
              | none =>
                if r then (.limit cfg s { sp with out := sp.out + 1 },
                  some s!"Get succeeded with {sp.out} of maxTokens={sp.max} objects already outstanding")
                else (st, some s!"Get failed with {sp.out} of maxTokens={sp.max} outstanding although everything borrowed had been put back")
          | _, _ => (st, some s!"bad-op-or-observation {op}")
        | ["put", ts] =>
          match parseNat? ts with
          | some t =>
            if model then
              match LimitPool.putCall cfg s t with
              | some s' =>
                if res ≠ "ok" then (.limit cfg s' sp, some s!"Put want ok got {res}")
                else if obsTok ≠ some s'.tokens.toInt then (.limit cfg s' sp, some s!"tokens want {s'.tokens.toInt}")
                else (.limit cfg s' sp, none)
              | none => if res = "skip" then (st, none) else (st, some "model: Put without a borrowed object")
            else
              match sp.put with
              | some sp' => if res = "ok" then (.limit cfg s sp', none) else (st, some s!"Put want ok got {res}")
              | none => if res = "skip" then (st, none) else (st, some "Put without a borrowed object")
          | none => (st, some s!"bad-op {op}")
        | _ => (st, some s!"bad-op {op}")
      | .seg size s held seen =>
        match ws with
        | ["idx", ks] =>
          -- black-box fallback (the white-box hook did not compile, spec mode only): no index is
          -- observable; the harness instead reports whether equal contents in distinct allocations
          -- excluded each other (`excl=true|false|skip`)
          if res = "blackbox" then
            if model then (st, some "no white-box index available")
            else if field obs "excl" == some "false" then
              (st, some "equal key contents in distinct allocations do not exclude each other (TryLock succeeded on both)")
            else (st, none)
          else
          match parseKey ks, fieldNat obs "i", fieldNat obs "j" with
          | some k, some a, some b =>
            if a ≠ b then (st, some s!"equal key contents in distinct allocations map to different locks ({a} and {b})")
            else if a ≥ size.toNat then (st, some s!"lock index {a} out of range")
            else if model then
              if SegmentLock.idx size k ≠ some a then (st, some s!"index want {repr (SegmentLock.idx size k)} got {a}")
              else (st, none)
            else
              match seen.find? (fun p => p.1 == k) with
              | some (_, i) => if i ≠ a then (st, some s!"the same key mapped to lock {i} before and to {a} now") else (st, none)
              | none => (.seg size s held ((k, a) :: seen), none)
          | _, _, _ => (st, some s!"bad-op-or-observation {op}")
        | [name, ts, ks] =>
          match parseNat? ts, parseKey ks with
          | some t, some k =>
            -- classify: acquire ops (with whether the lock was obtained) and release ops
            let acq : Option (Bool × Bool × Bool) :=   -- (write, isTry, obtained)
              match name, res with
              | "lock", "ok" => some (true, false, true)
              | "lock", "wouldblock" => some (true, false, false)
              | "rlock", "ok" => some (false, false, true)
              | "rlock", "wouldblock" => some (false, false, false)
              | "trylock", "true" => some (true, true, true)
              | "trylock", "false" => some (true, true, false)
              | "tryrlock", "true" => some (false, true, true)
              | "tryrlock", "false" => some (false, true, false)
              | _, _ => none
            let rel : Option (Bool × Bool) :=           -- (write, performed)
              match name, res with
              | "unlock", "ok" => some (true, true)
              | "unlock", "notheld" => some (true, false)
              | "runlock", "ok" => some (false, true)
              | "runlock", "notheld" => some (false, false)
              | _, _ => none
            match acq, rel with
            | some (write, isTry, obtained), _ =>
              -- probe made by the harness right after a blocking Lock returned: TryRLock on equal contents
              if name = "lock" ∧ obtained ∧ field obs "probe" ≠ some "false" then
                (st, some s!"TryRLock succeeded on a key whose write lock had just been acquired by Lock ({obs})")
              else if model then
                let mk (r : Bool) : SegmentLock.Op :=
                  match write, isTry with
                  | true, false => .lock k
                  | false, false => .rlock k
                  | true, true => .tryLock k r
                  | false, true => .tryRLock k r
                if obtained then
                  match SegmentLock.step size s ⟨t, mk true⟩ with
                  | some s' => (.seg size s' held seen, none)
                  | none =>
                    -- resynchronise on the observation
                    let s' : SegmentLock.State := { s with held := ⟨t, k, write⟩ :: s.held }
                    (.seg size s' held seen, some s!"{name} returned with the lock although the model's mutex of segment {repr (SegmentLock.idx size k)} is not available; holds: {renderHolds s.held}")
                else if isTry ∧ !write ∧ (SegmentLock.step size s ⟨t, mk true⟩).isSome then
                  -- "read locks on one key can be shared": the scripted harness runs one call at a time and never
                  -- makes a call that blocks, so no writer is ever pending; the model's `tryRLock _ false` is
                  -- lenient about readers (RWMutex.TryRLock may fail when a writer waits), the driver is not
                  (st, some s!"{name} returned false although the model's mutex of segment {repr (SegmentLock.idx size k)} is not write-locked and no writer is waiting (read locks are shared); holds: {renderHolds s.held}")
                else if isTry then
                  match SegmentLock.step size s ⟨t, mk false⟩ with
                  | some s' => (.seg size s' held seen, none)
                  | none => (st, some s!"{name} returned false although the model's mutex is available; holds: {renderHolds s.held}")
                else
                  match SegmentLock.step size s ⟨t, mk true⟩ with
                  | none => (st, none)
                  | some _ => (st, some s!"harness says {name} would block but the model's mutex is available; holds: {renderHolds s.held}")
              else if isTry ∧ !write ∧ !obtained ∧ !(held.any (·.write)) then
                -- "read locks on one key can be shared": whatever the hashing, a read attempt can only be refused
                -- by a write hold (or a waiting writer, which the one-call-at-a-time script never has)
                (st, some s!"{name} failed although no write lock is held anywhere (read locks are shared); holds: {renderHolds held}")
              else
                match SegmentLock.Spec.acquire held t k write obtained (isTry && write) with
                | some held' => (.seg size s held' seen, none)
                | none =>
                  if obtained then
                    (.seg size s (⟨t, k, write⟩ :: held) seen,
                      some s!"{name} obtained the lock while another holder of an equal key excludes it; holds: {renderHolds held}")
                  else (st, some s!"{name} failed although nothing is held")
            | none, some (write, performed) =>
              if model then
                let o : SegmentLock.Op := if write then .unlock k else .runlock k
                if performed then
                  match SegmentLock.step size s ⟨t, o⟩ with
                  | some s' => (.seg size s' held seen, none)
                  | none => (st, some s!"{name} performed but the model does not enable it; holds: {renderHolds s.held}")
                else if (⟨t, k, write⟩ : SegmentLock.Hold) ∈ s.held then (st, some s!"harness says not held but the model records the hold")
                else (st, none)
              else
                match SegmentLock.Spec.release held t k write with
                | some held' => if performed then (.seg size s held' seen, none) else (st, some "harness says not held but the hold is recorded")
                | none => if performed then (st, some s!"{name} of a lock that is not held") else (st, none)
            | none, none =>
              if res.startsWith "moved:" then
                (st, some s!"equal key contents select a different lock now than when the lock was acquired ({res}); the release would hit another mutex")
              else (st, some s!"bad-op-or-observation {op} => {obs}")
          | _, _ => (st, some s!"bad-op {op}")
        | _ => (st, some s!"bad-op {op}")

end Driver.SyncX
