import Driver.Util
import Ekit.Model.DelayQ
import Std.Data.HashSet
/-!
Trace acceptor for C08 / C09 (DelayQueue share).  Producer of the lines: harness/delayq/main.go.

A case is `new cap=<c> [elem=val]`, one line per call of the concurrent scenario (timed history: `sinv`/`sres`
global sequence numbers, `tinv`/`tres` monotonic µs, `dl` the element's absolute deadline in the same
unit, `rem` the returned element's `Delay()` right after the return, `len` the hook-observed length)
and an `end` line (final length, capacity-conservation probe).  In an `elem=clk` case the elements' deadlines are
instants of a WALL clock the scenario steps (`step` lines: bracketed instant and the skew in force afterwards) and one
`Delay()` evaluation can be made slow (`stall` lines): "never early" is then judged at the end line against the largest
wall-clock reading possible inside the call's bracket (`checkNeverEarlyClk`), the order / wake-up monitors are relaxed by
exactly the steps and stalls of the case, and a stepped history is not replayed on the (monotone-clock) model.

* `spec` mode (the oracle): exactly the monitors the property text states —
  never early (`tres ≥ dl`, `rem ≤ 0`), no element co-resident for the whole call expires earlier
  (2 ms tolerance), exactly once, `len ≤ cap`, ctx-error calls without effect, every call returns,
  wake-up within a generous bound (2 s) of the enabling event, capacity conserved after cancellations.
* `model` mode: the same monitors, plus: the successful calls of the history must be explained by
  the model — a search over linearization orders in which every call is executed as a run of
  `Ekit.DelayQ.step` (the transition system the theorems are about) at a virtual-clock instant inside
  the call's `[tinv, tres]` bracket, including the timer path (`arm`/`fire`/`selTimer`/`repeek`) when the
  call had to wait for its element's expiry; plus the white-box facts (capacity, final length).
  A search that exhausts its budget is never reported.

No false alarms under load.  Every observation that could be an artefact of load is worded
"timing-sensitive: …": the order of two deadlines (the comparator reads `Delay()` of its two arguments at
two instants; the tie tolerance is max(2 ms, 2 × the scheduling jitter `jit=` measured by the harness during
the scenario) and the model's exact-minimum replay is skipped — inconclusive — when two distinct deadlines
of the scenario are closer than that), and — ONLY when the harness measured a scheduling jitter above
`jitGate` (200 ms) during the scenario — the second-scale bounds: wake-up bound (2 s + 4·jit), cancellation
promptness, the capacity probe's 4 s calls, the watchdog (hang, 12 s against contexts of at most 4 s).  The harness
re-executes a scenario whose only complaints are timing-sensitive and keeps an accepted execution if none
of the re-executions is rejected.  A second-scale bound missed while the measured jitter is below 200 ms
(a factor of ten below the bound) is NOT an artefact of load: it is reported at once, never re-executed —
a lost wake-up is a race, it does not have to reproduce (acceptor audit: the re-execution used to drop
every alarm whose race was not hit again in three attempts).  Observations that need no
timing assumption (early release: `tres`, `rem` and the deadline are read from the same monotonic clock;
duplicates; losses; capacity; effects of failed calls; inconsistent stamps) are reported at once.
-/
namespace Driver.DelayQ
open Ekit.DelayQ Ekit.Conc Driver

structure CallRec where
  thr : Nat
  isEnq : Bool
  id : Nat            -- enq: the element; deq ok: the returned element
  res : String        -- "ok" | "ctx" | "hang"
  sinv : Nat
  sres : Nat
  tinv : Nat
  tres : Nat
  dl : Nat
  ctxUs : Nat := 0    -- the call's context: timeout in µs (0 = already cancelled), from the op line
  rem : Int := 0      -- deq ok: the returned element's Delay() (ns) read right after the return
  jit : Option Nat := none   -- hang lines: the jitter measured so far
  deriving Inhabited

/-- a `step` line of an `elem=clk` case: the scenario's wall clock was moved at some instant inside `[tinv, tres]`;
    `skew` (µs, signed) is the offset wall − monotonic in force from that instant on -/
structure StepRec where
  sinv : Nat
  sres : Nat
  tinv : Nat
  tres : Nat
  skew : Int

structure St where
  cap : Nat := 0
  disc : Disc := .async
  calls : Array CallRec := #[]
  clk : Bool := false               -- elem=clk: deadlines are instants of the steppable wall clock
  steps : Array StepRec := #[]
  absStep : Nat := 0                -- Σ |delta| of the steps (µs)
  stallUs : Nat := 0                -- Σ of the armed Delay() stalls (µs)
  broken : Bool := false      -- an earlier line of the case was unreadable / a call hung: skip whole-history checks
  active : Bool := false

def tolTie : Nat := 2000          -- µs, clock-resolution ties (floor; widened by the measured jitter)
def wakeBound : Nat := 2000000    -- µs, generous (widened by the measured jitter)
def tm : String := "timing-sensitive: "
def jitGate : Nat := 200000       -- µs: above this measured jitter the second-scale bounds count as timing-sensitive

/-- prefix of a complaint about a second-scale bound: an artefact of load is conceivable only if the
    harness measured a large scheduling jitter (or did not report it) -/
def tmj (jit : Option Nat) : String :=
  match jit with
  | some j => if j > jitGate then tm else ""
  | none => tm

/-- tie tolerance for a scenario whose measured scheduling jitter was `jit` µs -/
def tieTol (jit : Nat) : Nat := max tolTie (2 * jit)

/-! ### monitors (spec) -/

def okEnqs (cs : Array CallRec) : List CallRec := cs.toList.filter fun c => c.isEnq && c.res == "ok"
def okDeqs (cs : Array CallRec) : List CallRec := cs.toList.filter fun c => !c.isEnq && c.res == "ok"

def dequeuerOf (cs : Array CallRec) (id : Nat) : Option CallRec := (okDeqs cs).find? (·.id == id)
def enqueuerOf (cs : Array CallRec) (id : Nat) : Option CallRec := (okEnqs cs).find? (·.id == id)

/-- y (enqueued by e) certainly in the queue during all of call c -/
def coResident (cs : Array CallRec) (c e : CallRec) : Bool :=
  e.sres < c.sinv && (match dequeuerOf cs e.id with
    | none => true
    | some d => c.sres < d.sinv)

def firstSome {α} (l : List α) (f : α → Option String) : Option String := l.findSome? f

def checkExactlyOnce (cs : Array CallRec) : Option String :=
  let deqs := okDeqs cs
  firstSome deqs fun d =>
    if (deqs.filter (·.id == d.id)).length > 1 then some s!"element {d.id} was dequeued more than once"
    else match cs.toList.find? (fun e => e.isEnq && e.id == d.id) with
      | none => some s!"dequeued element {d.id} was never enqueued"
      | some e =>
        if e.res == "ctx" then some s!"Enqueue of {d.id} failed with a context error but the element was delivered (ctx error with effect)"
        else if d.sres < e.sinv then some s!"element {d.id} dequeued before its Enqueue was invoked"
        else if e.res != "hang" && e.dl != d.dl then some s!"Dequeue returned element {d.id} with deadline {d.dl}, it was enqueued with deadline {e.dl}"
        else none

/-- The stamps are oracles read from the trace (taken by the harness, not by the queue): every call's
    invocation stamps precede its response stamps, sequence numbers are distinct, and the clock readings
    agree with the sequence numbers (a call that responded before another was invoked has `tres ≤ tinv`:
    one monotonic clock, `tres` read before `sres`, `sinv` before `tinv`). -/
def checkStamps (cs : Array CallRec) : Option String :=
  let l := cs.toList.filter (·.res != "hang")
  let seqs := l.flatMap fun c => [c.sinv, c.sres]
  if seqs.eraseDups.length != seqs.length then some "harness: sequence numbers are not distinct"
  else firstSome l fun a =>
    if !(a.sinv < a.sres && a.tinv ≤ a.tres) then some s!"harness: call of thread {a.thr} has response stamps before its invocation stamps"
    else firstSome l fun b =>
      if a.sres < b.sinv && a.tres > b.tinv then
        some s!"harness: clock readings contradict the sequence numbers (sres {a.sres} < sinv {b.sinv} but tres {a.tres} > tinv {b.tinv})"
      else none

/-- capacity bound re-derived from the raw history (independent of the `len` hook): at the response of a
    successful Enqueue every element whose Enqueue had responded and whose Dequeue was not yet invoked is
    in the queue -/
def checkCapHist (cap : Nat) (cs : Array CallRec) : Option String :=
  if cap == 0 then none else
  firstSome (okEnqs cs) fun c =>
    let resident := (okEnqs cs).filter fun e =>
      e.sres ≤ c.sres && (match dequeuerOf cs e.id with
        | none => true
        | some d => c.sres < d.sinv)
    if resident.length > cap then
      some s!"when Enqueue of {c.id} responded the queue held at least {resident.length} elements, capacity {cap}"
    else none

/-- cancellation is prompt: a call does not stay in the queue for longer than the bound after its context
    ended (`ctxUs` after the context was made, which was before `tinv`) -/
def checkPrompt (pfx : String) (bound : Nat) (cs : Array CallRec) : Option String :=
  firstSome cs.toList fun c =>
    if c.res != "hang" && c.tres > c.tinv + c.ctxUs + bound then
      some s!"{pfx}call of thread {c.thr} returned {c.res} {c.tres - (c.tinv + c.ctxUs)} us after its context ended (cancellation not prompt)"
    else none

def checkEarliest (tol : Nat) (cs : Array CallRec) : Option String :=
  firstSome (okDeqs cs) fun c =>
    firstSome (okEnqs cs) fun e =>
      if e.id != c.id && coResident cs c e && e.dl + tol < c.dl then
        some s!"{tm}Dequeue returned {c.id} (deadline {c.dl}) although {e.id} (deadline {e.dl}) was in the queue for the whole call"
      else none

/-- `lag` (µs): `elem=clk` cases only — by how much the wall clock was at most behind the monotonic clock; an
    element is certainly expired from the monotonic instant `dl + lag` on -/
def checkWake (tm : String) (wakeBound : Nat) (cap : Nat) (cs : Array CallRec) (lag : Nat := 0) : Option String :=
  firstSome cs.toList fun c =>
    if !c.isEnq && c.res == "ok" then
      match enqueuerOf cs c.id with
      | some e =>
        let t0 := max c.tinv (max (c.dl + lag) e.tres)
        if c.tres > t0 + wakeBound then
          some s!"{tm}Dequeue of {c.id} returned {c.tres - t0} us after the element was available and expired (lost or late wake-up)"
        else none
      | none => none
    else if !c.isEnq && c.res == "ctx" then
      firstSome (okEnqs cs) fun e =>
        let present := match dequeuerOf cs e.id with
          | none => true
          | some d => c.sres < d.sinv
        let t0 := max c.tinv (max (e.dl + lag) e.tres)
        if present && c.tres > t0 + wakeBound then
          some s!"{tm}Dequeue stayed blocked (then ctx error) {c.tres - t0} us while {e.id} was in the queue and expired (lost wake-up)"
        else none
    else if c.isEnq && c.res == "ctx" && cap > 0 then
      -- instants from which the queue certainly had a free slot until c gave up
      let starts := c.tinv :: (okDeqs cs).map (·.tres)
      firstSome starts fun st =>
        let t0 := max c.tinv st
        let others := cs.toList.filter fun e =>
          e.isEnq && e.sinv != c.sinv && e.res != "ctx" && e.tinv < c.tres &&
            !(match dequeuerOf cs e.id with
              | some d => d.tres ≤ t0
              | none => false)
        if others.length < cap && c.tres > t0 + wakeBound then
          some s!"{tm}Enqueue of {c.id} stayed blocked (then ctx error) {c.tres - t0} us while the queue had a free slot (lost wake-up)"
        else none
    else none

/-! ### never early on a steppable wall clock (`elem=clk`)

`Delay()` of an element is `dl − (t + skew(t))`.  The skew takes the value `v` of a step from an instant inside the
step's `[tinv, tres]` until the next change, which has happened by the `tres` of any step invoked (sequence number
`sinv`) after this one responded (`sres`); the initial 0 is in force until the first change.  A Dequeue that returned `x` removed it at an instant
of its `[tinv, tres]` bracket; if the wall clock cannot have reached `x`'s deadline at ANY instant of the bracket
(the largest reading any skew value in force during the bracket allows is below the deadline), `x` was released
while its `Delay()` was positive — whatever tick or signal the consumer acted on. -/

/-- the windows `(value, earliest start, latest end)` of the skew values; `none` = never superseded -/
def skewWindows (steps : Array StepRec) : List (Int × Nat × Option Nat) :=
  let l := steps.toList
  let endAfter (lo : Nat) : Option Nat :=
    (l.filter (fun s => s.sinv > lo)).foldl (fun acc s => match acc with
      | none => some s.tres
      | some m => some (min m s.tres)) none
  ((0 : Int), 0, endAfter 0) :: l.map fun s => (s.skew, s.tinv, endAfter s.sres)

/-- the largest wall-clock reading (µs) possible at an instant of `[tinv, tres]` -/
def maxWall (steps : Array StepRec) (tinv tres : Nat) : Int :=
  (skewWindows steps).foldl (fun acc (v, a, b?) =>
    let overlaps := a ≤ tres && (match b? with | none => true | some b => b ≥ tinv)
    if !overlaps then acc else
      let t := match b? with | none => tres | some b => min tres b
      max acc ((t : Int) + v)) (-1000000000000000)

def checkNeverEarlyClk (steps : Array StepRec) (cs : Array CallRec) : Option String :=
  firstSome (okDeqs cs) fun c =>
    let w := maxWall steps c.tinv c.tres
    if w < (c.dl : Int) then
      some s!"Dequeue returned element {c.id} {(c.dl : Int) - w} us BEFORE its deadline (wall clock of the scenario; Delay() read after the return: {c.rem} ns)"
    else if steps.isEmpty && c.rem > 0 then
      some s!"Dequeue returned element {c.id} whose Delay() is still positive ({c.rem} ns)"
    else none

def checkEnd (tm : String) (cap : Nat) (cs : Array CallRec) (obs : String) : Option String :=
  let nEnq := (okEnqs cs).length
  let nDeq := (okDeqs cs).length
  -- `finallen=na`: the white-box hook was replaced by its black-box stub; the accounting then rests on
  -- the capacity probe alone
  let blackbox := field obs "finallen" == some "na"
  match (if blackbox then some (nEnq - nDeq) else fieldNat obs "finallen") with
  | none => some "end line without finallen"
  | some fl =>
    if fl + nDeq != nEnq then
      some s!"final length {fl} but {nEnq} successful Enqueues and {nDeq} successful Dequeues (an element was lost, duplicated, or a failed call had an effect)"
    else if cap == 0 then none
    else if fl > cap then some s!"final length {fl} exceeds capacity {cap}"
    else
      match (if blackbox then some (cap - fl) else fieldNat obs "free"), fieldNat obs "fill", field obs "extra",
            fieldInts obs "drained" with
      | some free, some fill, some extra, some drained =>
        if free + fl != cap then some s!"probe: free={free} but cap-len={cap - fl}"
        else if drained.eraseDups.length != drained.length then some "probe: an element was delivered twice"
        else if fill == free && extra != "ctx" then some s!"a full queue accepted one more element ({extra})"
        else if fill > free then some s!"after the calls (and cancellations) of the scenario the queue accepted {fill} more elements, capacity - length is {free}"
        else if fill != free then some s!"{tm}after the calls (and cancellations) of the scenario the queue accepted {fill} more elements, capacity - length is {free}"
        else if !((List.range fill).all fun i => drained.contains ((900000 + i : Nat) : Int)) then
          some s!"{tm}the queue did not deliver the elements it accepted: drained {renderInts drained}"
        else none
      | _, _, _, _ => some "end line of a bounded case without the capacity probe"

/-! ### model replay: linearization search over runs of `Ekit.DelayQ.step` -/

def runFrom (P : Params) (s : State) (ls : List Label) : Option State := (sys P).toSystem.run s ls

/-- the canonical run of thread `c.thr` for a successful call, at the earliest admissible instant -/
def applyCall (P : Params) (s : State) (c : CallRec) : Option State :=
  let x : Elem := ⟨c.id, c.dl⟩
  let clk0 := max s.now c.tinv
  let pre : List Label := if clk0 > s.now then [.tick (clk0 - s.now)] else []
  if c.isEnq then
    if clk0 > c.tres then none else runFrom P s (pre ++ soloEnqOk c.thr x)
  else if x.dl ≤ clk0 then
    if clk0 > c.tres then none else runFrom P s (pre ++ soloDeqOk c.thr x)
  else if x.dl > c.tres then none
  else
    -- the element is not yet expired at clk0: the call parks on its timer and is woken by it
    let t := c.thr
    runFrom P s (pre ++ [.invDeq t, .ctxOk t, .lock t, .peek t (some x), .fetch t, .unlock t, .arm t,
      .tick (x.dl - clk0), .fire t, .selTimer t, .lock t, .repeek t (some x), .pop t (some x),
      .swap t, .unlock t, .close t, .ret t (.deqOk x)])

def minRes (calls : Array CallRec) (done : Nat) : Nat := Id.run do
  let mut m := 1000000000000
  for i in [0:calls.size] do
    if (done >>> i) % 2 == 0 then
      if calls[i]!.sres < m then m := calls[i]!.sres
  return m

structure Search where
  memo : Std.HashSet (Nat × Nat) := {}
  fuel : Nat := 200000

partial def dfs (P : Params) (calls : Array CallRec) (done : Nat) (s : State) (st : Search) : Bool × Search := Id.run do
  if done + 1 == 2 ^ calls.size then return (true, st)
  if st.memo.contains (done, s.now) then return (false, st)
  if st.fuel == 0 then return (false, st)
  let mut st : Search := { memo := st.memo.insert (done, s.now), fuel := st.fuel - 1 }
  let m := minRes calls done
  for i in [0:calls.size] do
    if (done >>> i) % 2 == 0 then
      let c := calls[i]!
      if c.sinv < m then
        match applyCall P s c with
        | some s' =>
          let (ok, st') := dfs P calls (done ||| (1 <<< i)) s' st
          st := st'
          if ok then return (true, st)
        | none => pure ()
  return (false, st)

/-- none = explained by the model (or budget exhausted) -/
def modelExplains (P : Params) (tol : Nat) (cs : Array CallRec) : Option String :=
  let oks := cs.filter (·.res == "ok")
  -- two distinct deadlines closer than the tie tolerance: the heap may legitimately hold them in either
  -- order ("up to clock-resolution ties"), the exact-minimum replay would be inconclusive
  let ambiguous := oks.toList.any fun c => oks.toList.any fun d =>
    c.dl < d.dl && d.dl ≤ c.dl + tol
  let ctxs := cs.filter (·.res == "ctx")
  -- calls that failed with a context error: the model's run for them must exist (and has no effect)
  let ctxBad := ctxs.toList.find? fun c =>
    let ls := if c.isEnq then soloEnqCtx c.thr ⟨c.id, c.dl⟩ else soloDeqCtx c.thr
    match runFrom P init ls with
    | some s' => s'.q != [] || s'.eff c.thr
    | none => true
  match ctxBad with
  | some c => some s!"model: no effect-free run for the ctx-error call of thread {c.thr}"
  | none =>
    if oks.size > 40 || ambiguous then none else
    let (ok, st) := dfs P oks 0 init {}
    if ok then none
    else if st.fuel == 0 then none
    else some s!"{tm}model: no interleaving of model runs (Ekit.DelayQ.step) inside the calls' time brackets explains the successful calls"

/-! ### the line acceptor -/

/-- `<us>` or `c<h>:<us>` -/
def parseCtx (t : String) : Option Nat :=
  match t.splitOn ":" with
  | [u] => u.toNat?
  | [_, u] => u.toNat?
  | _ => none

def parseCall (ws : List String) (obs : String) : Option CallRec :=
  let tok := resultTok obs
  let jit := fieldNat obs "jit"
  let thr? : Option Nat := match ws with
    | t :: _ => if t.startsWith "t" then (t.drop 1).toString.toNat? else none
    | [] => none
  match thr?, ws with
  | some thr, [_, _, "enq", id, _, ctx] => do
    let id ← id.toNat?
    let ctxUs ← parseCtx ctx
    if tok == "hang" then return { thr, isEnq := true, id, res := "hang", sinv := 0, sres := 0, tinv := 0, tres := 0, dl := 0, jit }
    if tok != "ok" && tok != "ctx" then none
    return { thr, isEnq := true, id, res := tok, ctxUs, sinv := ← fieldNat obs "sinv", sres := ← fieldNat obs "sres",
             tinv := ← fieldNat obs "tinv", tres := ← fieldNat obs "tres", dl := ← fieldNat obs "dl" }
  | some thr, [_, _, "deq", ctx] => do
    let ctxUs ← parseCtx ctx
    if tok == "hang" then return { thr, isEnq := false, id := 0, res := "hang", sinv := 0, sres := 0, tinv := 0, tres := 0, dl := 0, jit }
    if tok == "ctx" then
      return { thr, isEnq := false, id := 0, res := "ctx", ctxUs, sinv := ← fieldNat obs "sinv", sres := ← fieldNat obs "sres",
               tinv := ← fieldNat obs "tinv", tres := ← fieldNat obs "tres", dl := 0 }
    if tok.startsWith "ok:" then
      let id ← (tok.drop 3).toString.toNat?
      return { thr, isEnq := false, id, res := "ok", ctxUs, sinv := ← fieldNat obs "sinv", sres := ← fieldNat obs "sres",
               tinv := ← fieldNat obs "tinv", tres := ← fieldNat obs "tres", dl := ← fieldNat obs "dl",
               rem := (fieldInt obs "rem").getD 1 }
    none
  | _, _ => none

def checker (model : Bool) : Checker where
  σ := St
  init := {}
  step st op obs :=
    let ws := words op
    match ws with
    | ["new", capTok] | ["new", capTok, "elem=val"] | ["new", capTok, "elem=clk"] =>
      -- elem=val: the harness instantiates T with a value type; elem=clk: with elements on a steppable wall clock
      let clk := ws.contains "elem=clk"
      let want : Option Nat := if capTok.startsWith "cap=" then
          ((capTok.drop 4).toString.toInt?).map (fun i => if i < 0 then 0 else i.toNat) else none
      match want with
      | none => ({ broken := true }, some s!"bad-op {op}")
      | some c =>
        let disc : Disc := if field obs "disc" == some "sync" then .sync else .async
        let st' : St := { cap := c, disc, active := true, clk }
        if resultTok obs != "ok" then ({ st' with broken := true }, some s!"constructor failed: {obs}")
        else if model && fieldNat obs "cap" != some c then (st', some s!"capacity want {c} got {(field obs "cap").getD "?"}")
        else (st', none)
    | ["end"] =>
      if !st.active then (st, some "end without case")
      else if st.broken then ({ st with active := false }, none)
      else if resultTok obs == "hang" then ({ st with active := false }, some s!"{tmj (fieldNat obs "jit")}the quiescent probe did not return (lock leaked or lost wake-up)")
      else
        let jit? := fieldNat obs "jit"
        let jit := jit?.getD 0
        -- elem=clk: a comparison of the heap that straddles a clock step or a slow Delay() evaluation reads its two
        -- delays that far apart; the wall clock was at most `lag` behind the monotonic one
        let tol := tieTol jit + st.absStep + st.stallUs
        let lag := st.steps.foldl (fun m s => max m (-s.skew).toNat) 0
        let pfx := tmj jit?
        -- first everything that needs no timing assumption, then the second-scale bounds, then the tie-sensitive order
        let r := (checkStamps st.calls) <|> (checkExactlyOnce st.calls) <|> (checkCapHist st.cap st.calls)
                  <|> (if st.clk then checkNeverEarlyClk st.steps st.calls else none)
                  <|> (checkEnd pfx st.cap st.calls obs)
                  <|> (checkWake pfx (wakeBound + 4 * jit + st.stallUs) st.cap st.calls lag)
                  <|> (checkPrompt pfx (wakeBound + 4 * jit) st.calls)
                  <|> (checkEarliest tol st.calls)
        -- the model's clock is monotone: a history on a stepped wall clock is judged by the monitors alone
        let r := r <|> (if model && st.steps.isEmpty then modelExplains ⟨st.disc, st.cap⟩ tol st.calls else none)
        ({ st with active := false }, r)
    | [_, _, "cancel", _, _] | [_, _, "await", _, _] | [_, _, "mark", _, _] =>
      -- scheduling directives of the scenario (explicit cancellation / barriers), not calls on the queue
      (st, none)
    | [_, _, "stall", _, us] =>
      if !st.clk then (st, some "stall outside an elem=clk case")
      else match us.toNat? with
        | some u => ({ st with stallUs := st.stallUs + u }, none)
        | none => ({ st with broken := true }, some s!"bad-op {op}")
    | [_, _, "step", delta, _] =>
      if !st.clk then (st, some "step outside an elem=clk case")
      else if resultTok obs != "ok" then ({ st with broken := true }, none)   -- its thread hung before it: reported there
      else match delta.toInt?, fieldNat obs "tinv", fieldNat obs "tres", fieldInt obs "skew", fieldNat obs "sinv", fieldNat obs "sres" with
        | some d, some tinv, some tres, some skew, some sinv, some sres =>
          if tinv > tres || sinv ≥ sres || sinv == 0 then ({ st with broken := true }, some "harness: step with response stamp before its invocation stamp")
          else ({ st with steps := st.steps.push ⟨sinv, sres, tinv, tres, skew⟩, absStep := st.absStep + d.natAbs }, none)
        | _, _, _, _, _, _ => ({ st with broken := true }, some s!"bad-op {op}")
    | _ =>
      if !st.active then (st, some "no-case")
      else match parseCall ws obs with
      | none => ({ st with broken := true }, some s!"call failed or unreadable: {op} => {obs}")
      | some c =>
        let st' := { st with calls := st.calls.push c }
        if c.res == "hang" then ({ st' with broken := true }, some s!"{tmj c.jit}the call did not return although its context ended (hang)")
        else
          let len := (fieldNat obs "len").getD 0
          if st.cap > 0 && len > st.cap then (st', some s!"length {len} exceeds capacity {st.cap}")
          else if !c.isEnq && c.res == "ok" && !st.clk then   -- elem=clk: judged at the end line (the steps are known then)
            let rem := c.rem
            if c.tres < c.dl then (st', some s!"Dequeue returned element {c.id} {c.dl - c.tres} us BEFORE its deadline")
            else if rem > 0 then (st', some s!"Dequeue returned element {c.id} whose Delay() is still positive ({rem} ns)")
            else (st', none)
          else (st', none)

end Driver.DelayQ
