import Driver.Util
import Ekit.Model.Heap
/-! Trace acceptor for C05, priority queue part. Producer of the lines: harness/heap/main.go. -/
namespace Driver.Heap
open Ekit.Heap Ekit.Go Ekit.Cmp Driver
open Ekit.Lists (GoSlice)

def renderOut : Out → String
  | .ok .unit => "ok"
  | .ok (.val v) => s!"ok:{v}"
  | .ok (.int n) => s!"ok:{n}"
  | .ok (.bool b) => s!"ok:{b}"
  | .err e => e.render
  | .panic m => "panic:" ++ m.replace " " "_"

def parseOut (tok : String) : Op → Option Out
  | .enqueue _ => if tok = "ok" then some (.ok .unit) else if tok = "err:cap" then some (.err errCap) else none
  | .dequeue | .peek =>
    if tok = "err:empty" then some (.err errEmpty)
    else if tok.startsWith "ok:" then (parseInt? (tok.drop 3).toString).map fun v => .ok (.val v) else none
  | .len | .cap => if tok.startsWith "ok:" then (parseInt? (tok.drop 3).toString).map fun v => .ok (.int v) else none
  | .boundless => if tok = "ok:true" then some (.ok (.bool true)) else if tok = "ok:false" then some (.ok (.bool false)) else none

def parseOp (ws : List String) : Option Op :=
  match ws with
  | ["enq", t] => (parseInt? t).map .enqueue
  | ["deq"] => some .dequeue
  | ["peek"] => some .peek
  | ["len"] => some .len
  | ["cap"] => some .cap
  | ["boundless"] => some .boundless
  | _ => none

def renderData (vs : List Int) : String :=
  if vs.length > 128 then s!"h{hashInts vs}" else renderInts vs

structure St where
  cmp : Cmp
  q : PQ                 -- model mode: the model state
  capacity : Int         -- spec mode: the (normalised) capacity …
  bag : List Int         -- … and the bag of elements held

/-- `model := true`: the executable model the C05 theorems are about (heap array incl. slot 0 and the
    slice capacity must match); `model := false`: the bag-with-capacity specification only. -/
def checker (model : Bool) : Checker where
  σ := Option St
  init := none
  step st op obs :=
    let ws := words op
    let obsData := fieldInts obs "data"
    let obsHash := fieldNat obs "dh"
    let obsCap := fieldNat obs "cap"
    let obsLen := fieldInt obs "len"
    let sameData (l : List Int) : Bool :=
      match obsData, obsHash with
      | some vs, _ => vs == l
      | none, some h => h == (hashInts l).toNat
      | none, none => false
    match ws with
    | ["new", kind, cname, capS] =>
      match ofName cname, parseInt? capS with
      | some cmp, some capacity =>
        if kind ≠ "pq" ∧ kind ≠ "pqpub" then (none, some s!"bad-kind {kind}") else
        let q := PQ.new capacity
        let st' : St := { cmp := cmp, q := q, capacity := Spec.normCap capacity, bag := [] }
        -- `capacity=na`: Cap() is not reachable (public wrapper observed black-box)
        let capOk : Bool := field obs "capacity" == some "na" || fieldInt obs "capacity" == some (Spec.normCap capacity)
        if resultTok obs ≠ "ok" then (none, some s!"constructor failed: {obs}")
        else if obsLen ≠ some 0 then (some st', some "constructor: queue not empty")
        else if !capOk then (some st', some s!"constructor: Cap() want {Spec.normCap capacity}")
        else if model then
          match obsCap with
          | none => (some st', some "constructor: no white-box observation")
          | some c =>
            if !sameData q.data.vals then (some st', some s!"constructor: data want {renderData q.data.vals}")
            else if q.data.cap ≠ c then (some st', some s!"constructor: slice capacity want {q.data.cap} got {c}")
            else (some st', none)
        else (some st', none)
      | _, _ => (none, some s!"bad-op-or-observation {op}")
    | _ =>
      match st, parseOp ws with
      | none, _ => (none, some "no-container")
      | _, none => (st, some s!"bad-op {op}")
      | some x, some o =>
        let got := resultTok obs
        if model then
          match obsCap with
          | none => (st, some "bad-observation")
          | some c =>
            let (q', out) := step x.cmp x.q c o
            let want := renderOut out
            -- resynchronise on a full dump so that one divergence is reported once
            let resync : PQ := match obsData with
              | some vs => { x.q with data := ⟨vs, c⟩ }
              | none => q'
            if want ≠ got then (some { x with q := resync }, some s!"result want {want} got {got}")
            else if !sameData q'.data.vals then (some { x with q := resync }, some s!"heap array want {renderData q'.data.vals}")
            else if q'.data.cap ≠ c then (some { x with q := resync }, some s!"slice capacity want {q'.data.cap} got {c}")
            else if c < q'.data.vals.length then (some { x with q := resync }, some s!"slice capacity {c} below length")
            else if obsLen ≠ some q'.len then (some { x with q := q' }, some s!"Len() want {q'.len}")
            else (some { x with q := q' }, none)
        else
          -- `na`: Cap()/IsBoundless() are not reachable through the public wrapper when it is observed
          -- black-box; nothing to check, nothing changes
          if got = "na" ∧ (o = .cap ∨ o = .boundless) then
            (if obsLen ≠ some (x.bag.length : Int) then (st, some s!"Len() want {x.bag.length}") else (st, none))
          else
          match parseOut got o with
          | none => (st, some s!"result {got} is not a possible result of this call")
          | some out =>
            match Spec.check x.cmp x.capacity x.bag o out with
            | none =>
              -- keep going with the best guess of the bag so that one divergence is reported once
              let bag' := match o, out with
                | .enqueue t, .ok _ => t :: x.bag
                | .dequeue, .ok (.val v) => x.bag.erase v
                | _, _ => x.bag
              (some { x with bag := bag' }, some s!"result {got} not allowed for a bag of {x.bag.length} elements (capacity {x.capacity})")
            | some bag' =>
              if obsLen ≠ some (bag'.length : Int) then (some { x with bag := bag' }, some s!"Len() want {bag'.length}")
              else (some { x with bag := bag' }, none)

end Driver.Heap
