import Driver.Util
import Ekit.Model.CondExec
import Std.Data.HashSet
/-!
Trace acceptor for C13 (syncx.Cond).  The producer of the lines is harness/cond/main.go: a case is a
script executed line by line by one controller goroutine against the real Cond.

* `spec` mode (and also in `model` mode): the laws the property states, evaluated at every `settle`
  line from the script and the observed outcomes only (`specStep`).
* `model` mode: the observed outcome must be **reachable in the transition system the theorems are
  about** (`Ekit.Cond.step`): the acceptor keeps the set of model states compatible with everything
  observed so far, advances it through every interleaving of the threads' (macro) steps for each
  script line, and at a `settle` line keeps the *quiescent* states (no thread has an enabled step)
  that agree with the observation: which waiter returned what, which is still parked in the select,
  the white-box list length, `L` free, the lock-protected counter.  An empty set = the real code did
  something the model cannot do.
-/
namespace Driver.Cond
open Ekit.Cond Ekit.Conc Driver

/-! ### parsing -/

def ctxKind (k : String) : String := if k.startsWith "to" then "to" else k

structure ROp where
  kind : String          -- signal | broadcast | cancel | release
  w : Nat := 0

def parseROp (s : String) : Option ROp :=
  if s = "signal" then some ⟨"signal", 0⟩
  else if s = "broadcast" then some ⟨"broadcast", 0⟩
  else if s = "lsignal" then some ⟨"lsignal", 0⟩
  else if s = "lbroadcast" then some ⟨"lbroadcast", 0⟩
  else match s.splitOn ":" with
    | ["cancel", w] => w.toNat?.map (⟨"cancel", ·⟩)
    | ["release", w] => w.toNat?.map (⟨"release", ·⟩)
    | _ => none

/-- `r=1:nil,2:err,3:parked` → [(1,"nil"),…] -/
def parseResults (obs : String) : Option (List (Nat × String)) :=
  match field obs "r" with
  | none => none
  | some "-" => some []
  | some s => (s.splitOn ",").mapM fun p =>
      match p.splitOn ":" with
      | w :: st :: _ => w.toNat?.map (·, st)
      | _ => none

/-! ### the laws of the property (spec)

Evaluated at every `settle` (a quiescent moment: every waiter has returned or is parked in the select,
all timers have fired).  Each law is the black-box reading of theorems of Ekit/Props/C13.lean:

* B  a returned Wait holds `L`, the `L`-protected counter equals the number of returns   (`c13_returns_holding_L`)
* C  an error return only with an ended context, and the error is the waiter's own context's error
     (observed by identity by the harness: `err`; anything else is `errother`)            (`c13_err_only_if_ctx_done`)
* D  nobody is parked with an ended context at quiescence                                 (`c13_parked_enabled`)
* E  #nil ≤ #Signals + Σ_broadcasts (waiters present)        (`c13_trace_no_invented_wakeup`, `c13_broadcast_all`)
     — for the whole case and for every suffix that starts at an earlier `settle`: a quiescent moment has
     no token in flight (every channel is empty: `c13_node_clean_on_free`, a parked waiter's channel holds
     nothing), so the nil returns first seen after it need tokens issued after it.  This is what rejects
     a wake-up by a stale token (a pooled node reused with a full channel) and a waiter that gave up but
     absorbed a later signal and handed it to somebody who was not waiting then.
* F  for a waiter p still parked with a live context: no Broadcast was called after p enqueued, and every
     Signal called after p enqueued has produced a nil return since — p keeps the list non-empty, so no
     Signal finds it empty and no hand-off drops its token (`c13_unsignalled_is_linked`,
     `c13_enough_waiters`, `c13_dropped_only_when_empty`, `c13_conservation`, `c13_handoff_delivers`);
     with E this is "#nil = #Signals while enough non-cancelled waiters remain" (`c13_nil_eq_signals`)
* no hang, no panic, `L` free at quiescence                                    (`c13_no_fault`, `c13_send_never_blocks`)
-/

structure WInfo where
  id : Nat
  kind : String
  waitLine : Nat
  cancelled : Bool := false
  ret : Option (Nat × String) := none     -- settle line at which it was first seen returned, result

structure SpecSt where
  line : Nat := 0
  ws : List WInfo := []
  signals : List Nat := []                -- line numbers
  bcasts : List (Nat × Nat) := []         -- (line, waiters present)
  settles : List Nat := []                -- lines of the earlier accepted `settle`s (quiescent moments)
  dead : Bool := false                    -- a violation was already reported for this case

def WInfo.ended (w : WInfo) : Bool :=
  w.kind = "exp" || w.kind = "to" || (w.cancelled && w.kind ≠ "bgn")

def SpecSt.present (sp : SpecSt) : Nat := (sp.ws.filter (·.ret.isNone)).length

def SpecSt.cancel (sp : SpecSt) (w : Nat) : SpecSt :=
  { sp with ws := sp.ws.map fun x => if x.id = w then { x with cancelled := true } else x }

def SpecSt.rop (sp : SpecSt) (o : ROp) : SpecSt :=
  match o.kind with
  | "signal" | "lsignal" => { sp with signals := sp.line :: sp.signals }
  | "broadcast" | "lbroadcast" => { sp with bcasts := (sp.line, sp.present) :: sp.bcasts }
  | "cancel" => sp.cancel o.w
  | _ => sp

/-- the laws at a `settle` line -/
def specSettle (sp : SpecSt) (obs : String) : SpecSt × Option String :=
  match parseResults obs with
  | none => (sp, some "bad-observation")
  | some rs =>
    if fieldNat obs "hang" ≠ some 0 then
      (sp, some "no hang: the Cond did not become quiescent (a goroutine is stuck outside the wait select)")
    else
    -- record first returns
    let ws := sp.ws.map fun w =>
      match w.ret, rs.find? (·.1 = w.id) with
      | none, some (_, st) => if st = "parked" then w else { w with ret := some (sp.line, st) }
      | _, _ => w
    let sp := { sp with ws := ws }
    let bad (st : String) : Bool := st ≠ "nil" && st ≠ "err" && st ≠ "parked"
    match rs.find? (bad ·.2) with
    | some (w, st) =>
      if st.endsWith "!" then (sp, some s!"returns_holding_L: Wait of waiter {w} returned ({st}) without holding c.L")
      else if st = "errother" then (sp, some s!"waiter {w}: Wait returned an error that is not its context's error (ctx.Err())")
      else (sp, some s!"waiter {w}: {st}")
    | none =>
    -- C: an error return requires an ended context
    match ws.find? (fun w => (w.ret.map (·.2)) = some "err" && !w.ended) with
    | some w => (sp, some s!"waiter {w.id} returned ctx error although its context never ended")
    | none =>
    let parked := ws.filter (·.ret.isNone)
    -- D: an ended context and still parked at quiescence
    match parked.find? (·.ended) with
    | some w => (sp, some s!"waiter {w.id}: context ended but Wait has not returned (quiescent)")
    | none =>
    let nils := ws.filter fun w => (w.ret.map (·.2)) = some "nil"
    let tokensMax := sp.signals.length + (sp.bcasts.map (·.2)).foldl (· + ·) 0
    -- E: no invented wake-up
    if nils.length > tokensMax then
      (sp, some s!"invented wake-up: {nils.length} Waits returned nil but at most {tokensMax} tokens were issued ({sp.signals.length} signals, broadcasts over {(sp.bcasts.map (·.2))} waiters)")
    else
    -- E, suffix form: since the quiescent moment `q` (no token in flight there)
    let stale := sp.settles.findSome? fun q =>
      let n := (nils.filter fun w => match w.ret with | some (l, _) => l > q | none => false).length
      let t := (sp.signals.filter (· > q)).length + ((sp.bcasts.filter (·.1 > q)).map (·.2)).foldl (· + ·) 0
      if n > t then some (q, n, t) else none
    match stale with
    | some (q, n, t) =>
      (sp, some s!"invented wake-up: {n} Waits returned nil after the quiescent moment at line {q} although only {t} tokens were issued since (a token from before it was kept and delivered later)")
    | none =>
    -- F: no lost wake-up, for every waiter still parked with a live context
    let lost := parked.findSome? fun p =>
      match sp.bcasts.find? (fun b => b.1 > p.waitLine) with
      | some b => some s!"lost wake-up: waiter {p.id} (context alive) was waiting when Broadcast was called (line {b.1}) and is still parked"
      | none =>
        let sigs := (sp.signals.filter (· > p.waitLine)).length
        let woken := (nils.filter fun w => match w.ret with | some (l, _) => l > p.waitLine | none => false).length
        if sigs > woken then
          some s!"lost wake-up: {sigs} Signals were issued while waiter {p.id} (context alive) was waiting, only {woken} Waits returned nil since, and it is still parked"
        else none
    match lost with
    | some m => (sp, some m)
    | none =>
    if fieldNat obs "lfree" ≠ some 1 then (sp, some "c.L is still locked at quiescence")
    else
      let returned := (ws.filter (·.ret.isSome)).length
      if fieldInt obs "cnt" ≠ some (returned : Int) then
        (sp, some s!"the counter protected by c.L is {(fieldInt obs "cnt").getD (-9)} after {returned} returns (Wait returned without holding L)")
      else ({ sp with settles := sp.line :: sp.settles }, none)

/-- one script line through the laws -/
def specStep (sp : SpecSt) (ws : List String) (obs : String) : SpecSt × Option String :=
  let sp := { sp with line := sp.line + 1 }
  if sp.dead then (sp, none) else
  let res := resultTok obs
  if res = "noop" then (sp, none) else
  let fail (m : String) : SpecSt × Option String := ({ sp with dead := true }, some m)
  match ws with
  | "wait" :: w :: k :: _ =>
    match w.toNat? with
    | none => (sp, some "bad-op")
    | some w =>
      if res ≠ "ok" then fail s!"Wait of waiter {w} did not get as far as releasing L: {res}"
      else ({ sp with ws := sp.ws ++ [{ id := w, kind := ctxKind k, waitLine := sp.line }] }, none)
  | ["cancel", w] => (sp.cancel (w.toNat?.getD 0), none)
  | ["release", _] => (sp, none)
  | ["signal"] | ["lsignal"] => if res ≠ "ok" then fail s!"Signal: {res}" else (sp.rop ⟨"signal", 0⟩, none)
  | ["broadcast"] | ["lbroadcast"] =>
    if res ≠ "ok" then fail s!"Broadcast: {res}" else (sp.rop ⟨"broadcast", 0⟩, none)
  | ["race", a, b, _] =>
    match parseROp a, parseROp b with
    | some a, some b => if res ≠ "ok" then fail s!"race: {res}" else ((sp.rop a).rop b, none)
    | _, _ => (sp, some "bad-op")
  | ["sleep", _] => (sp, none)
  | ["len"] => (sp, none)
  | ["settle"] =>
    let (sp', r) := specSettle sp obs
    (if r.isSome then { sp' with dead := true } else sp', r)
  | _ => (sp, some "bad-op")

/-! ### reachability in the model -/

inductive Task where
  | call (tid : Nat) (k : Kind) (stage : Nat)   -- 0: to invoke, 1: running, 2: returned
  | lcall (tid : Nat) (k : Kind) (stage : Nat)  -- the same with c.L held around it: 0 lock L, 1 invoke, 2 running, 3 unlock L, 4 done
  | expire (w : Nat) (done : Bool)
  | release (w : Nat) (done : Bool)
  | started (w : Nat)                           -- Wait of w has released L (or returned)

def Task.nums : Task → List Nat
  | .call t _ st => [0, t, st]
  | .lcall t _ st => [4, t, st]
  | .expire w d => [1, w, if d then 1 else 0]
  | .release w d => [2, w, if d then 1 else 0]
  | .started w => [3, w]

structure WSt where
  id : Nat
  kind : String
  hold : Bool            -- will freeze inside L.Unlock()
  phase : Nat            -- 0 L.Lock  1 invoke Wait  2 inside Wait  3 L.Unlock  4 finished
  res : Option Res

def WSt.nums (w : WSt) : List Nat :=
  [w.id, (if w.hold then 1 else 0), w.phase, (match w.res with | none => 0 | some r => r.num + 1)]

structure Node where
  s : State
  ws : List WSt
  frozen : List Nat
  timers : List Nat
  tasks : List Task

instance : Inhabited Node := ⟨{ s := Ekit.Cond.init, ws := [], frozen := [], timers := [], tasks := [] }⟩

def Node.tids (n : Node) : List Nat := 0 :: 90 :: 91 :: n.ws.map (·.id)

/-- the context flag of waiter `w` can still influence its behaviour (it is read by the outer select) -/
def ctxMatters (n : Node) (w : WSt) : Bool :=
  w.phase < 2 || (w.phase == 2 && ((n.s.pc w.id).preUnlock || match n.s.pc w.id with | .wSelect _ => true | _ => false))

/-- Canonical key of a node.  Node ids are renamed in order of first occurrence (list, then the nodes
    owned by the threads in thread order): the transition system is symmetric under renaming of nodes
    and their identity is not observed, so states equal up to renaming are merged; pooled nodes are
    represented by their number.  Context flags that can no longer be read are masked. -/
def Node.key (n : Node) : List Nat :=
  let s := n.s
  let tids := n.tids
  let owned := tids.filterMap fun t => (s.pc t).node
  let order := (s.list ++ owned).eraseDups
  let ren (k : Nat) : Nat := order.idxOf k
  let ctxBit (t : Nat) : Nat :=
    match n.ws.find? (·.id = t) with
    | some w => if ctxMatters n w && s.ctx t then 1 else 0
    | none => 0
  let pcs := tids.flatMap fun t => ((s.pc t).mapNodes ren).nums ++ [ctxBit t]
  let full := ((s.full.map ren).toArray.qsort (· < ·)).toList
  pcs ++ [optNum s.L, optNum s.mu, (if s.checker then 1 else 0), (if s.inited then 1 else 0),
          s.list.length] ++ s.list.map ren ++ [full.length] ++ full ++ [s.pool.length]
    ++ n.ws.flatMap WSt.nums ++ [n.frozen.length] ++ n.frozen ++ [n.timers.length] ++ n.timers
    ++ n.tasks.flatMap Task.nums

def Node.updW (n : Node) (w : Nat) (f : WSt → WSt) : Node :=
  { n with ws := n.ws.map fun x => if x.id = w then f x else x }

/-- the labels waiter `w`'s program may fire next (client code around the call + the call itself) -/
def waiterCands (n : Node) (w : WSt) : List Label :=
  let t := w.id
  match w.phase with
  | 0 => [.lockL t]
  | 1 => [.invWait t (w.kind = "exp")]
  | 2 => pcLabels n.s t (n.s.pc t)
  | 3 => [.unlockL t]
  | _ => []

def applyWaiter (n : Node) (w : WSt) (l : Label) : Option Node :=
  (step n.s l).map fun s' =>
    let n1 := { n with s := s' }
    let t := w.id
    match l with
    | .lockL _ => n1.updW t fun x => { x with phase := 1 }
    | .invWait _ _ => n1.updW t fun x => { x with phase := 2 }
    | .resWait _ r => n1.updW t fun x => { x with phase := 3, res := some r }
    | .unlockL _ => n1.updW t fun x => { x with phase := 4 }
    | .waitUnlockL _ =>
      if w.hold then { (n1.updW t fun x => { x with hold := false }) with frozen := t :: n1.frozen } else n1
    | _ => n1

/-- where a waiter's atomic block ends: frozen in the gate, finished, at the outer select (a decision,
    possibly blocked), or after the select's arm has released `mu` (before `free`, relock of `L`, return
    and the client's unlock, which form the last block) -/
def waiterStop (n : Node) (w : WSt) : Bool :=
  n.frozen.contains w.id || w.phase == 4 ||
    (w.phase == 2 && match n.s.pc w.id with | .wSelect _ | .wFree _ _ => true | _ => false)

/-- run waiter `wid` from a block boundary to the next one, branching where several labels are enabled.
    **Reduction.** Blocks are: `[L.Lock; Wait: prologue; add under mu; L.Unlock]`, `[selRecv]`,
    `[selCtx; ctx arm under mu]`, `[free; L.Lock; return; client L.Unlock]`, and a whole Signal /
    Broadcast call.  Each is of the form (lock acquisitions and actions protected by the locks held or
    thread-local) followed by (releases), i.e. right/both-movers then left/both-movers, so by Lipton
    reduction every interleaving has the same outcome (results, list length read under `mu`,
    quiescent states) as one in which the blocks are not interleaved; that actions inside are
    protected by `mu` is `c13_mutex`.  The acceptor therefore explores block interleavings only. -/
def chainW : Nat → Node → Nat → Bool → List Node
  | 0, n, _, _ => [n]
  | fuel + 1, n, wid, first =>
    match n.ws.find? (·.id = wid) with
    | none => []
    | some w =>
      if first && (n.frozen.contains wid || w.phase == 4) then []
      else if !first && waiterStop n w then [n]
      else
        let nexts := (waiterCands n w).filterMap (applyWaiter n w)
        if nexts.isEmpty then (if first then [] else [n])
        else nexts.flatMap fun m => chainW fuel m wid false

/-- **Lazy timers.** `expire t` only sets a flag that is read by `selCtx t` (and by `ctxErr t`, where
    it is already set), and it commutes with every other action; so a pending timer is fired exactly
    when its waiter stands at the outer select and is about to take the ctx arm (or at `settle`, where
    the harness has waited for all timers).  Timers whose flag can no longer matter are discarded. -/
def fireTimer (n : Node) (t : Nat) : Option Node :=
  if n.timers.contains t then
    (step n.s (.expire t)).map fun s' => { n with s := s', timers := n.timers.erase t }
  else none

def dropDeadTimers (n : Node) : Node :=
  { n with timers := n.timers.filter fun t =>
      match n.ws.find? (·.id = t) with
      | some w => ctxMatters n w && !n.s.ctx t
      | none => false }

def setTask (ts : List Task) (i : Nat) (t : Task) : List Task := ts.set i t

/-- a whole Signal / Broadcast call of thread `tid` (task `i`) as one block -/
def chainCall : Nat → Node → Nat → Nat → Kind → Nat → List Node
  | 0, n, _, _, _, _ => [n]
  | fuel + 1, n, i, tid, k, stage =>
    if stage == 2 then [n] else
    let cands : List Label :=
      if stage == 0 then [if k = .signal then .invSignal tid else .invBroadcast tid]
      else pcLabels n.s tid (n.s.pc tid)
    let nexts := cands.filterMap fun l => (step n.s l).map fun s' =>
      let st := match l with
        | .resSignal _ | .resBroadcast _ => 2
        | _ => 1
      ({ n with s := s', tasks := setTask n.tasks i (.call tid k st) }, st)
    if nexts.isEmpty then (if stage == 0 then [] else [n])
    else nexts.flatMap fun (m, st) => chainCall fuel m i tid k st

/-- `L.Lock(); Signal/Broadcast; L.Unlock()` of thread `tid` (task `i`) as one block -/
def chainLCall : Nat → Node → Nat → Nat → Kind → Nat → List Node
  | 0, n, _, _, _, _ => [n]
  | fuel + 1, n, i, tid, k, stage =>
    if stage == 4 then [n] else
    let cands : List Label :=
      if stage == 0 then [.lockL tid]
      else if stage == 1 then [if k = .signal then .invSignal tid else .invBroadcast tid]
      else if stage == 2 then pcLabels n.s tid (n.s.pc tid)
      else [.unlockL tid]
    let nexts := cands.filterMap fun l => (step n.s l).map fun s' =>
      let st := match l with
        | .lockL _ => 1
        | .invSignal _ | .invBroadcast _ => 2
        | .resSignal _ | .resBroadcast _ => 3
        | .unlockL _ => 4
        | _ => 2
      ({ n with s := s', tasks := setTask n.tasks i (.lcall tid k st) }, st)
    if nexts.isEmpty then (if stage == 0 then [] else [n])
    else nexts.flatMap fun (m, st) => chainLCall fuel m i tid k st

def succTasks (n : Node) : List Node :=
  (List.range n.tasks.length).flatMap fun i =>
    match (n.tasks[i]? : Option Task) with
    | some (Task.call tid k 0) => chainCall 200 n i tid k 0
    | some (Task.call tid k 1) => (chainCall 200 n i tid k 1).filter fun m => m.key != n.key
    | some (Task.lcall tid k st) =>
      if st == 4 then [] else (chainLCall 200 n i tid k st).filter fun m => m.key != n.key
    | some (Task.expire w false) =>
      match step n.s (.expire w) with
      | some s' => [{ n with s := s', tasks := setTask n.tasks i (.expire w true) }]
      | none => []
    | some (Task.release w false) =>
      [{ (n.updW w fun x => { x with hold := false }) with
          frozen := n.frozen.erase w, tasks := setTask n.tasks i (.release w true) }]
    | _ => []

def succWaiters (n : Node) : List Node :=
  n.ws.flatMap fun w =>
    chainW 200 n w.id true ++
      (match n.s.pc w.id, fireTimer n w.id with
       | .wSelect _, some m => if w.phase == 2 && !n.frozen.contains w.id then chainW 200 m w.id true else []
       | _, _ => [])

def succ (n : Node) : List Node :=
  (succWaiters n ++ succTasks n).map fun m =>
    let m := dropDeadTimers m
    { m with s := m.s.compact m.tids }

def taskDone (n : Node) : Task → Bool
  | .call _ _ st => st == 2
  | .lcall _ _ st => st == 4
  | .expire _ d => d
  | .release _ d => d
  | .started w =>
    match n.ws.find? (·.id = w) with
    | some x => x.phase ≥ 3 || (x.phase == 2 && !(n.s.pc w).preUnlock)
    | none => true

def allDone (n : Node) : Bool := n.tasks.all (taskDone n)

/-- all nodes reachable from `start`; `none` when the budget is exceeded -/
partial def explore (start : List Node) (budget : Nat) : Option (Array Node) := Id.run do
  let mut seen : Std.HashSet (List Nat) := {}
  let mut out : Array Node := #[]
  let mut work : Array Node := #[]
  for n in start do
    let k := n.key
    if !seen.contains k then
      seen := seen.insert k
      work := work.push n
  let mut i := 0
  while i < work.size do
    if work.size > budget then return none
    let n := work[i]!
    i := i + 1
    out := out.push n
    for m in succ n do
      let k := m.key
      if !seen.contains k then
        seen := seen.insert k
        work := work.push m
  return some out

structure ModelSt where
  nodes : List Node := []
  lost : Bool := true         -- no case open / divergence already reported / budget exceeded

def initNode : Node := { s := Ekit.Cond.init, ws := [], frozen := [], timers := [], tasks := [] }

def budget : Nat := 30000

/-- advance the state set through a line whose effect is the given tasks -/
def advance (m : ModelSt) (prep : Node → Node) (tasks : List Task) (what : String) : ModelSt × Option String :=
  let start := m.nodes.map fun n => { prep n with tasks := tasks }
  match explore start budget with
  | none => ({ m with lost := true }, none)      -- budget exceeded: never a violation
  | some all =>
    let done := (all.toList.filter allDone).map fun n => { n with tasks := [] }
    if done.isEmpty then ({ nodes := [], lost := true }, some s!"model: {what} cannot complete in any interleaving of the model")
    else ({ m with nodes := done }, none)

def taskOfROp (tid : Nat) (kinds : Nat → Option String) (o : ROp) : List Task :=
  match o.kind with
  | "signal" => [.call tid .signal 0]
  | "broadcast" => [.call tid .broadcast 0]
  | "lsignal" => [.lcall tid .signal 0]
  | "lbroadcast" => [.lcall tid .broadcast 0]
  | "cancel" => match kinds o.w with
    | some k => if k = "bgn" then [] else [.expire o.w false]
    | none => []
  | "release" => match kinds o.w with
    | some _ => [.release o.w false]
    | none => []
  | _ => []

def kindOf (m : ModelSt) (w : Nat) : Option String :=
  match m.nodes with
  | n :: _ => (n.ws.find? (·.id = w)).map (·.kind)
  | [] => none

def nodeMatches (n : Node) (rs : List (Nat × String)) (obs : String) : Bool :=
  let perW := n.ws.all fun w =>
    match rs.find? (·.1 = w.id) with
    | some (_, "nil") => w.phase == 4 && w.res == some .nil
    | some (_, "err") => w.phase == 4 && w.res == some .ctxErr
    | some (_, "parked") => w.phase == 2 && (match n.s.pc w.id with | .wSelect _ => true | _ => false)
    | _ => false
  let len : Int := if n.s.inited then n.s.list.length else -1
  perW && rs.length == n.ws.length
    && fieldInt obs "len" == some len
    && fieldNat obs "dirty" == some 0
    && fieldNat obs "lfree" == some (if n.s.L.isNone then 1 else 0)
    && fieldNat obs "cnt" == some ((n.ws.filter (·.phase == 4)).length)

def describe (n : Node) : String :=
  let ws := n.ws.map fun w =>
    let st := match w.phase, w.res with
      | 4, some .nil => "nil"
      | 4, some .ctxErr => "err"
      | 2, _ => (match n.s.pc w.id with | .wSelect _ => "parked" | p => "at:" ++ p.code)
      | _, _ => s!"phase{w.phase}"
    s!"{w.id}:{st}"
  s!"[{",".intercalate ws} len={n.s.list.length}]"

def modelStep (m : ModelSt) (ws : List String) (obs : String) : ModelSt × Option String :=
  match ws with
  | ["new"] => ({ nodes := [initNode], lost := false }, none)
  | _ =>
  if m.lost then (m, none) else
  let res := resultTok obs
  if res = "noop" then (m, none) else
  match ws with
  | "wait" :: w :: k :: rest =>
    match w.toNat? with
    | none => (m, some "bad-op")
    | some w =>
      if res ≠ "ok" then ({ m with lost := true }, some s!"model: Wait of waiter {w} cannot fail before releasing L ({res})")
      else
        let kind := ctxKind k
        let hold := rest == ["hold"]
        let prep (n : Node) : Node :=
          { n with ws := n.ws ++ [{ id := w, kind := kind, hold := hold, phase := 0, res := none }],
                   timers := if kind = "to" then w :: n.timers else n.timers }
        advance m prep [.started w] s!"wait {w}"
  | ["cancel", w] =>
    advance m id (taskOfROp 0 (kindOf m) ⟨"cancel", w.toNat?.getD 0⟩) "cancel"
  | ["release", w] =>
    advance m id (taskOfROp 0 (kindOf m) ⟨"release", w.toNat?.getD 0⟩) "release"
  | ["signal"] =>
    if res ≠ "ok" then ({ m with lost := true }, some s!"model: Signal {res}") else advance m id [.call 0 .signal 0] "Signal"
  | ["broadcast"] =>
    if res ≠ "ok" then ({ m with lost := true }, some s!"model: Broadcast {res}") else advance m id [.call 0 .broadcast 0] "Broadcast"
  | ["lsignal"] =>
    if res ≠ "ok" then ({ m with lost := true }, some s!"model: Signal {res}") else advance m id [.lcall 0 .signal 0] "Signal"
  | ["lbroadcast"] =>
    if res ≠ "ok" then ({ m with lost := true }, some s!"model: Broadcast {res}") else advance m id [.lcall 0 .broadcast 0] "Broadcast"
  | ["race", a, b, _] =>
    match parseROp a, parseROp b with
    | some a, some b =>
      if res ≠ "ok" then ({ m with lost := true }, some s!"model: race {res}")
      else advance m id (taskOfROp 90 (kindOf m) a ++ taskOfROp 91 (kindOf m) b) "race"
    | _, _ => (m, some "bad-op")
  | ["sleep", _] => (m, none)
  | ["len"] =>
    -- an atomic read (under mu) of the list length at some moment: keep the compatible states, re-close
    let len := fieldInt obs "len"
    let ok := m.nodes.filter fun n =>
      len == some (if n.s.inited then (n.s.list.length : Int) else -1) && fieldNat obs "dirty" == some 0
    if ok.isEmpty then
      ({ nodes := [], lost := true }, some s!"model: observed {obs}, the model allows {(m.nodes.map describe).take 4}")
    else advance { m with nodes := ok } id [] "len"
  | ["settle"] =>
    match parseResults obs with
    | none => (m, some "bad-observation")
    | some rs =>
      -- everybody is released, every armed timer has fired
      let prep (n : Node) : Node :=
        let s := n.timers.foldl (fun s t => (step s (.expire t)).getD s) n.s
        { (n.ws.foldl (fun n w => n.updW w.id fun x => { x with hold := false }) n) with
            s := s, frozen := [], timers := [], tasks := [] }
      match explore (m.nodes.map prep) budget with
      | none => ({ m with lost := true }, none)
      | some all =>
        let quiet := all.toList.filter fun n => (succ n).isEmpty
        let ok := quiet.filter fun n => nodeMatches n rs obs
        if ok.isEmpty then
          ({ nodes := [], lost := true },
            some s!"model: the observed quiescent outcome is not reachable in the model; reachable: {(quiet.map describe).eraseDups.take 6}")
        else ({ m with nodes := ok }, none)
  | _ => (m, some "bad-op")

structure St where
  spec : SpecSt := {}
  model : ModelSt := {}

/-- `model := true`: reachability in `Ekit.Cond.step` + the laws; `model := false`: the laws only -/
def checker (model : Bool) : Checker where
  σ := St
  init := {}
  step st op obs :=
    let ws := words op
    let (sp, r1) : SpecSt × Option String :=
      if ws == ["new"] then ({}, none) else specStep st.spec ws obs
    if model then
      let (m, r2) := modelStep st.model ws obs
      let m := if r1.isSome then { m with lost := true } else m
      ({ spec := sp, model := m }, match r1, r2 with
        | some a, _ => some a
        | none, some b => some b
        | none, none => none)
    else ({ spec := sp, model := st.model }, r1)

end Driver.Cond
