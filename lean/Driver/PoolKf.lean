import Driver.Pool
/-! Reporting area for the recorded findings C12-F1 / C12-F2: run over the same trace as `pool`, it
emits one `bad known-finding …` line for every hang of the real code that falls into one of the two
recorded families (the `pool` area accepts those lines for C12; checklib/props/C12.py turns the lines
printed here into KNOWN-FINDING reports).  It never judges anything else. -/
namespace Driver.PoolKf
open Ekit.Pool Ekit.Pool.Spec Driver Driver.Pool

def note (cls : HangClass) (n : String) (how : String) : Option String :=
  match cls with
  | .idleExitWhileClosing => some s!"known-finding C12-F1 count={n} how={how} classification: {cls.text}"
  | .strandedQueuedTasks => some s!"known-finding C12-F2 count={n} how={how} classification: {cls.text}"
  | .other => none

structure Ctx where
  cfg : Cfg
  fire : Bool

def checker (_model : Bool) : Checker where
  σ := Option Ctx
  init := none
  step st op obs :=
    let ws := words op
    match ws with
    | "new" :: kind :: _ =>
      match parseCfg op with
      | .error _ => (none, none)
      | .ok c =>
        let fire := shortIdle op
        if kind == "seq" then (some ⟨c, fire⟩, none)
        else if kind == "conc" then
          if field obs "done" == some "hang" then
            match fieldNat obs "st", fieldNat obs "go", fieldNat obs "q" with
            | some s, some g, some q => (none, note (classify c fire s g q) "1" "conc")
            | _, _, _ => (none, none)
          else (none, none)
        else if kind == "aim" then
          let items := splitOnC ((field obs "classes").getD "-") ';'
          let r := items.findSome? fun item =>
            match item.splitOn ":" with
            | [cls, n] =>
              if cls == "hang/st3/go0/q0" then note (classify c true 3 0 0) n "aimed"
              else if cls == "hang/st3/go0/q+" then note (classify c true 3 0 1) n "aimed"
              else if cls == "running-go0-queued" && c.coreGo < c.maxGo then note .strandedQueuedTasks n "aimed-running"
              else none
            | _ => none
          (none, r)
        else (none, none)
    | ["waitdone"] =>
      match st with
      | some x =>
        if resultTok obs == "hang" then
          match fieldNat obs "st", fieldNat obs "go", fieldNat obs "q" with
          | some s, some g, some q => (st, note (classify x.cfg x.fire s g q) "1" "seq")
          | _, _, _ => (st, none)
        else (st, none)
      | none => (st, none)
    | _ => (st, none)

end Driver.PoolKf
