import Driver.SkipList
import Ekit.Generated.SkipListGo
/-! Trace acceptor for C05, skip list at the level of the translated source: same traces as area `skiplist` (harness/skiplist).

`model` mode runs the MiniGo interpreter (Ekit/MiniGo/LangSK.lean: nodes with a per-node array of forward pointers, the
receiver, method calls, the local `update` array) on the program that `harness/minigosk` translated from the CURRENT
`internal/list/skip_list.go` and compares after every call: the result of the translated calls (Insert/DeleteElement/Search/
Get/Peek/Len), and — read off the interpreter's heap by following the forward pointers from the header exactly as the
white-box hook `VerifDump` does on the real structure — the level-0 chain (values = AsSlice, tower heights), `level`, `size`,
`Len()`, the header height and the chain of EVERY level >= 1.  The tower height drawn by `randomLevel()` is the oracle: the
height of the new tower is read from the observation (first position where the dumped chain differs from the chain before
the call) and turned into the coin stream `true^(h-1), false` that the translated `randomLevel` consumes (its loop, its
`level < MaxLevel` cap are executed).  `NewSkipListFromSlice` (not translated) = the translated constructor followed by the
translated Insert of every element in order; the heights are attributed through the stable sorted insertion.
With the black-box stub hooks (`wb=na`) the heights are unknown: every tower gets height 1 and only AsSlice/Len/results are
compared (the level-0 chain does not depend on the heights).
`spec` mode is the sorted-sequence oracle of area `skiplist`. -/
namespace Driver.Skptr
open Ekit.MiniGo.SK Ekit.Gen.SkipListGo Driver

def fuel : Nat := 1000000

def emptySt : St := { h := fun _ => {}, alloc := 0, header := none, level := 0, size := 0, coins := [] }

/-- re-tabulate the closure heap after every call (driver-side only: the function denoted is the same on every address) -/
def compact (st : St) : St :=
  let arr : Array Node := Array.ofFn (n := st.alloc) fun i => st.h i.val
  { st with h := fun a => if h : a < arr.size then arr[a] else {} }

def failTok : Fail → String
  | .panic => "panic"
  | .fuel => "diverged"
  | .stuck => "stuck"

/-- the addresses on level `i` from `p` on (`n` bounds the walk); `none` at the end = a node linked above its own tower -/
def walk (st : St) (i : Nat) : Nat → Option Nat → List (Option Nat)
  | 0, _ => []
  | _, none => []
  | n + 1, some a =>
    if i ≥ (st.h a).fwd.length then [some a, none] else some a :: walk st i n ((st.h a).fwd.getD i none)

structure Dump where
  vals : List Int
  hs : List Int
  level : Int
  size : Int
  hdr : Nat
  chains : List (List Int)
  deriving DecidableEq

def dropTrailingEmpty (l : List (List Int)) : List (List Int) :=
  (l.reverse.dropWhile (·.isEmpty)).reverse

/-- what `VerifDump` prints, computed on the interpreter's heap -/
def dump (st : St) : Dump :=
  match st.header with
  | none => ⟨[], [], st.level, st.size, 0, []⟩
  | some hd =>
    let hf := (st.h hd).fwd
    let addrs : List Nat := (walk st 0 (st.alloc + 1) (hf.getD 0 none)).filterMap id
    let chains := (List.range (hf.length - 1)).map fun k =>
      (walk st (k + 1) (st.alloc + 1) (hf.getD (k + 1) none)).map fun
        | none => (-2 : Int)
        | some a => match addrs.idxOf? a with
          | some p => (p : Int) + 1
          | none => -1
    ⟨addrs.map fun a => (st.h a).val, addrs.map fun a => ((st.h a).fwd.length : Int), st.level, st.size, hf.length,
     dropTrailingEmpty chains⟩

def valErrTok : Val → String
  | .pair (.int v) (.ptr none) => s!"ok:{v}"
  | .pair _ (.errIdx l i) => s!"err:idx:{l}:{i}"
  | .pair _ .errNew => "err:empty"
  | _ => "?"

def boolTok : Val → String
  | .bool b => s!"ok:{b}"
  | _ => "?"

/-- the coin stream behind a tower of height `h` -/
def coinsOf (h : Nat) : List Bool := List.replicate (h - 1) true ++ [false]

def runP (cmp : Int → Int → Int) (st : St) (coins : List Bool) (fn : PName) (args : List Val) : Res (Val × St) :=
  (call cmp procs fuel fn args { st with coins := coins }).map fun (v, st1) => (v, compact st1)

/-- first position where two sequences of (value, height) differ -/
def firstDiff : List (Int × Int) → List (Int × Int) → Nat → Nat
  | a :: as, b :: bs, k => if a = b then firstDiff as bs (k + 1) else k
  | _, _, k => k

/-- `NewSkipListFromSlice`: final position of every input under the stable sorted insertion (new element in front of the
    first element that is not smaller) -/
def placeAll (cmp : Int → Int → Int) (vs : List Int) : List (Int × Nat) :=
  vs.zipIdx.foldl (fun l p => l.takeWhile (fun x => cmp x.1 p.1 < 0) ++ p :: l.dropWhile (fun x => cmp x.1 p.1 < 0)) []

structure S where
  cmp : Int → Int → Int
  st : St

def checker (model : Bool) : Checker :=
  if !model then Driver.SkipList.checker false else
  { σ := Option S
    init := none
    step := fun sg op obs =>
      let ws := words op
      let got := resultTok obs
      let white : Bool := field obs "wb" ≠ some "na"
      let obsHs : List Int := (fieldInts obs "hs").getD []
      /- compare the interpreter's heap with the observation -/
      let same (st : St) : Option String :=
        let d := dump st
        if field obs "statepanic" ≠ none then some "AsSlice/Len or the walk over the towers panicked after this call"
        else if fieldInts obs "vals" ≠ some d.vals then some s!"AsSlice want {renderInts d.vals}"
        else if fieldInt obs "len" ≠ some d.size then some s!"Len() want {d.size}"
        else if !white then none
        else if fieldNat obs "wvh" ≠ some (hashInts d.vals).toNat then some "dump: the level-0 chain differs from AsSlice"
        else if fieldInts obs "hs" ≠ some d.hs then some s!"tower heights want {renderInts d.hs}"
        else if fieldInt obs "level" ≠ some d.level then some s!"level want {d.level}"
        else if fieldInt obs "size" ≠ some d.size then some s!"size want {d.size}"
        else if fieldNat obs "hdr" ≠ some d.hdr then some s!"header height want {d.hdr}"
        else if (field obs "ch").bind Driver.SkipList.parseChains ≠ some d.chains then
          some s!"level chains want {"|".intercalate (d.chains.map renderInts)}"
        else none
      match ws with
      | "new" :: kind :: cname :: _seed :: rest =>
        match Ekit.Cmp.ofName cname with
        | none => (none, none)
        | some cmp =>
          let init : Option (List Int) := match kind, rest with
            | "sl", [] => some []
            | "slpub", [] => some []
            | "slof", [vs] => parseInts vs
            | _, _ => none
          match init with
          | none => (none, none)
          | some vs =>
            if got ≠ "ok" then (none, none) else
            match runP cmp emptySt [] .NewSkipList [.unit] with
            | .error e => (none, some s!"the translated constructor fails ({failTok e})")
            | .ok (_, s0) =>
              -- heights of the inputs, in input order
              let placed := placeAll cmp vs
              let hOf (k : Nat) : Nat :=
                if !white then 1 else
                match placed.findIdx? (fun p => p.2 = k) with
                | some pos => (obsHs.getD pos 1).toNat
                | none => 1
              let r := vs.zipIdx.foldl (init := (Except.ok s0 : Res St)) fun acc p =>
                match acc with
                | .error e => .error e
                | .ok st => (runP cmp st (coinsOf (hOf p.2)) .Insert [.int p.1]).map (·.2)
              match r with
              | .error e => (none, some s!"the translated Insert fails ({failTok e}) in NewSkipListFromSlice")
              | .ok s1 => (some ⟨cmp, s1⟩, same s1)
      | _ =>
        match sg with
        | none => (none, none)
        | some s =>
          let st := s.st
          let run (coins : List Bool) (fn : PName) (args : List Val) (tok : Val → String) : Option (Res (String × St)) :=
            some ((runP s.cmp st coins fn args).map fun (v, st1) => (tok v, st1))
          let r : Option (Res (String × St)) :=
            match ws with
            | ["ins", v] =>
              let before := dump st
              let after := (((fieldInts obs "vals").getD []).zip obsHs)
              let h : Nat := if !white then 1 else ((obsHs.getD (firstDiff (before.vals.zip before.hs) after 0) 1).toNat)
              v.toInt?.bind fun v => run (coinsOf h) .Insert [.int v] fun r => match r with | .unit => "ok" | _ => "?"
            | ["del", v] => v.toInt?.bind fun v => run [] .DeleteElement [.int v] boolTok
            | ["search", v] => v.toInt?.bind fun v => run [] .Search [.int v] boolTok
            | ["get", i] => i.toInt?.bind fun i => run [] .Get [.int i] valErrTok
            | ["peek"] => run [] .Peek [] valErrTok
            | ["len"] => run [] .Len [] fun v => match v with | .int n => s!"ok:{n}" | _ => "?"
            | ["asslice"] => some (.ok (s!"ok:{renderInts (dump st).vals}", st))   -- not translated: the level-0 chain, unchanged
            | _ => none
          match r with
          | none => (none, none)
          | some (.error e) =>
            (sg, some s!"the translated program fails ({failTok e}) where the implementation answered {got}")
          | some (.ok (tok, st1)) =>
            let res : Option String :=
              if tok ≠ "-" ∧ got ≠ "na" ∧ tok ≠ got then some s!"result want {tok} got {got}"
              else if st1.coins ≠ [] then some "randomLevel did not consume the whole coin stream of the observed tower height"
              else same st1
            (some { s with st := st1 }, res) }

end Driver.Skptr
