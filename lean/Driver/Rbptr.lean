import Driver.Tree
import Ekit.Generated.RBTreeGo
import Ekit.MiniGo.RBHeap
/-! Trace acceptor for C02, pointer level: same traces as areas `tree`/`treebal` (harness/tree).

`model` mode runs the MiniGo interpreter on the program that `harness/minigo` translated from the CURRENT
`internal/tree/red_black_tree.go` (`Ekit.Gen.RBTreeGo.procs`) — heap of nodes with left/right/parent pointers,
every nil dereference a panic — and compares after every call of the cases of kind `rbtree`, `pubtree` and
`treemap`: the call's result, the size field, and the colour/key/shape dump read off the model's heap by following
child pointers; besides, the model's own heap must satisfy the executable form `wfB` of the invariant that
`Ekit/Props/C02Ptr.lean` proves (parent links are the inverse of child links, the root has no parent).  This is the
check that ties the translator and the interpreter's semantics to the real code.
`spec` mode is the C02 specification oracle of area `treebal` (audit of the implementation incl. parent links). -/
namespace Driver.Rbptr
open Ekit.MiniGo Ekit.Gen.RBTreeGo Driver

def fuel : Nat := 1000000

structure S where
  kind : String
  cmp : Int → Int → Int
  st : St

def emptySt : St := { h := fun _ => {}, alloc := 0, root := none, size := 0 }

def run (s : S) (fn : PName) (args : List Val) : Res (Val × St) := call s.cmp procs fuel fn args s.st

/-- the interpreter's heap is a closure that grows by one `if` per write; re-tabulate it after every call so that a read
    stays O(1) (driver-side only: the function denoted is the same on every address) -/
def compact (st : St) : St :=
  let arr : Array Node := Array.ofFn (n := st.alloc) fun i => st.h i.val
  { st with h := fun a => if h : a < arr.size then arr[a] else {} }

def failTok : Fail → String
  | .panic => "panic:nil-dereference"
  | .fuel => "diverged"
  | .stuck => "stuck"

def errTok : Val → String
  | .ptr none => "ok"
  | .err c => if c == err_ErrRBTreeSameRBNode then "err:dup" else if c == err_ErrRBTreeNotRBNode then "err:absent" else s!"err:{c}"
  | _ => "?"

/-- colour/key/shape dump read off the heap by following child pointers (`fuel` bounds a cyclic heap) -/
def dumpP (h : Nat → Node) : Nat → Option Nat → String
  | 0, _ => "!"
  | _, none => "."
  | f + 1, some a =>
    let n := h a
    "(" ++ (if n.color then "B" else "R") ++ toString n.key ++ dumpP h f n.left ++ dumpP h f n.right ++ ")"

/-- result token of one call, the new state -/
def stepOp (s : S) (ws : List String) : Option (Res (String × St)) :=
  let int? (w : String) : Option Val := w.toInt?.map Val.int
  match s.kind, ws with
  | "treemap", ["put", k, v] =>
    match int? k, int? v with
    | some k, some v =>
      -- TreeMap.Put: `err := tree.Add(k, v); if err == ErrRBTreeSameRBNode { return tree.Set(k, v) }; return err`
      some <| match run s .Add [k, v] with
        | .ok (r, st1) =>
          if r == .err err_ErrRBTreeSameRBNode then
            match run { s with st := st1 } .Set [k, v] with
            | .ok (r2, st2) => .ok (errTok r2, st2)
            | .error e => .error e
          else .ok (errTok r, st1)
        | .error e => .error e
    | _, _ => none
  | "treemap", ["get", k] =>
    (int? k).map fun k =>
      match run s .Find [k] with
      | .ok (.pair (.int v) (.ptr none), st1) => .ok (s!"ok:{v}", st1)
      | .ok (.pair _ (.err _), st1) => .ok ("none", st1)
      | .ok (_, st1) => .ok ("?", st1)
      | .error e => .error e
  | "treemap", ["keys"] | "treemap", ["values"] | "treemap", ["len"] => some (.ok ("-", s.st))
  | _, ["add", k, v] =>
    match int? k, int? v with
    | some k, some v => some <| (run s .Add [k, v]).map fun (r, st1) => (errTok r, st1)
    | _, _ => none
  | _, ["set", k, v] =>
    match int? k, int? v with
    | some k, some v => some <| (run s .Set [k, v]).map fun (r, st1) => (errTok r, st1)
    | _, _ => none
  | _, ["find", k] =>
    (int? k).map fun k =>
      match run s .Find [k] with
      | .ok (.pair (.int v) (.ptr none), st1) => .ok (s!"ok:{v}", st1)
      | .ok (.pair _ (.err c), st1) => .ok (errTok (.err c), st1)
      | .ok (_, st1) => .ok ("?", st1)
      | .error e => .error e
  | _, ["delete", k] =>
    (int? k).map fun k =>
      match run s .Delete [k] with
      | .ok (.pair (.int v) (.bool true), st1) => .ok (s!"ok:{v}", st1)
      | .ok (.pair (.int v) (.bool false), st1) => .ok (if v == 0 then "none" else s!"none-but-value:{v}", st1)
      | .ok (_, st1) => .ok ("?", st1)
      | .error e => .error e
  | _, ["kvs"] | _, ["size"] => some (.ok ("-", s.st))
  | _, _ => none

def checker (model : Bool) : Checker :=
  if !model then Driver.Tree.checkerFor ⟨false, true⟩ else
  { σ := Option S
    init := none
    step := fun sg op obs =>
      let ws := words op
      let got := resultTok obs
      match ws with
      | "new" :: kind :: cmpName :: rest =>
        match Driver.Tree.cmpOf cmpName, rest with
        | some cmp, [] =>
          if kind == "rbtree" || kind == "pubtree" || kind == "treemap" then
            (some ⟨kind, cmp, emptySt⟩, none)
          else (none, none)
        | _, _ => (none, none)
      | _ =>
        match sg with
        | none => (none, none)          -- a container kind this area does not model
        | some s =>
          match stepOp s ws with
          | none => (sg, some s!"bad-op {op}")
          | some (.error e) => (sg, some s!"the translated program fails ({failTok e}) where the implementation answered {got}")
          | some (.ok (tok, st1)) =>
            let st1 := compact st1
            let s1 : S := { s with st := st1 }
            let n := (fieldNat obs "len").getD 0
            let r : Option String :=
              if tok ≠ "-" ∧ tok ≠ got then some s!"result want {tok} got {got}"
              else if fieldInt obs "len" ≠ some st1.size then some s!"size field want {st1.size}"
              else if !(RBHeap.wfB st1) then some "the translated program's heap violates the parent-link invariant"
              else
                match field obs "dump" with
                | some d =>
                  if d == "na" then none
                  else if Driver.Tree.short n (dumpP st1.h (n + 2) st1.root) ≠ d then
                    some s!"shape want {Driver.Tree.short n (dumpP st1.h (n + 2) st1.root)}"
                  else none
                | none => none
            (some s1, r) }

end Driver.Rbptr
