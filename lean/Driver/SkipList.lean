import Driver.Util
import Ekit.Model.SkipList
/-! Trace acceptor for C05, skip list part. Producer of the lines: harness/skiplist/main.go. -/
namespace Driver.SkipList
open Ekit.SkipList Ekit.Go Ekit.Cmp Driver

def renderOut : Out → String
  | .ok .unit => "ok"
  | .ok (.val v) => s!"ok:{v}"
  | .ok (.int n) => s!"ok:{n}"
  | .ok (.bool b) => s!"ok:{b}"
  | .ok (.slice vs) => s!"ok:{renderInts vs}"
  | .err e => e.render
  | .panic m => "panic:" ++ m.replace " " "_"

def parseOp (ws : List String) : Option Op :=
  match ws with
  | ["ins", v] => (parseInt? v).map .insert
  | ["del", v] => (parseInt? v).map .delete
  | ["search", v] => (parseInt? v).map .search
  | ["get", i] => (parseInt? i).map .get
  | ["peek"] => some .peek
  | ["asslice"] => some .asSlice
  | ["len"] => some .len
  | _ => none

/-- the observed result token as an `Out` (spec mode) -/
def parseOut (tok : String) : Op → Option Out
  | .insert _ => if tok = "ok" then some (.ok .unit) else none
  | .delete _ | .search _ =>
    if tok = "ok:true" then some (.ok (.bool true)) else if tok = "ok:false" then some (.ok (.bool false)) else none
  | .get _ | .peek =>
    if tok = "err:empty" then some (.err errEmpty)
    else if tok.startsWith "err:idx:" then
      match ((tok.drop 8).toString.splitOn ":").map parseInt? with
      | [some l, some i] => some (.err (.idx l i))
      | _ => none
    else if tok.startsWith "ok:" then (parseInt? (tok.drop 3).toString).map fun v => .ok (.val v) else none
  | .asSlice => if tok.startsWith "ok:" then (parseInts (tok.drop 3).toString).map fun v => .ok (.slice v) else none
  | .len => if tok.startsWith "ok:" then (parseInt? (tok.drop 3).toString).map fun v => .ok (.int v) else none

/-- "2,5|5" → [[2,5],[5]]; "-" → [] -/
def parseChains (s : String) : Option (List (List Int)) :=
  if s = "-" then some [] else (s.splitOn "|").mapM parseInts

/-- the chains of the levels 1, 2, … (up to the tallest tower) the list representation stands for -/
def expectedChains (nodes : List Node) : List (List Int) :=
  let maxH := nodes.foldl (fun m n => max m n.h) 0
  (List.range (maxH - 1)).map fun k => (chain nodes (k + 1)).map Int.ofNat

structure St where
  cmp : Cmp
  s : SL               -- model mode
  bag : List Int       -- spec mode

structure Dump where
  vals : List Int
  hs : List Nat
  level : Nat
  size : Int
  hdr : Nat
  chains : List (List Int)
  wvh : Nat
  len : Int

/-- the black-box part of an observation (always present): AsSlice() and Len() -/
def parseBlack (obs : String) : Option Dump := do
  let vals ← fieldInts obs "vals"
  let len ← fieldInt obs "len"
  pure { vals, hs := [], level := 0, size := 0, hdr := 0, chains := [], wvh := 0, len }

def parseDump (obs : String) : Option Dump := do
  let vals ← fieldInts obs "vals"
  let hsI ← fieldInts obs "hs"
  let hs ← hsI.mapM fun (i : Int) => if i < 0 then none else some i.toNat
  let level ← fieldNat obs "level"
  let size ← fieldInt obs "size"
  let hdr ← fieldNat obs "hdr"
  let chains ← (field obs "ch").bind parseChains
  let wvh ← fieldNat obs "wvh"
  let len ← fieldInt obs "len"
  pure { vals, hs, level, size, hdr, chains, wvh, len }

/-- compare the white-box dump with a model state -/
def diffDump (d : Dump) (s : SL) : Option String :=
  let nodes : List Node := (d.vals.zip d.hs).map fun p => ⟨p.1, p.2⟩
  if d.vals.length ≠ d.hs.length then some "dump: AsSlice and the level-0 chain differ in length"
  else if d.wvh ≠ (hashInts d.vals).toNat then some "dump: AsSlice differs from the level-0 chain"
  else if nodes ≠ s.nodes then
    some s!"nodes want {renderInts s.asSlice} heights {renderInts (s.nodes.map fun n => Int.ofNat n.h)}"
  else if d.level ≠ s.level then some s!"level want {s.level} got {d.level}"
  else if d.size ≠ s.size then some s!"size want {s.size} got {d.size}"
  else if d.len ≠ s.size then some s!"Len() want {s.size} got {d.len}"
  else if d.hdr ≠ MaxLevel then some s!"header height want {MaxLevel}"
  else if d.chains ≠ expectedChains s.nodes then some "level chains are not the towers of the level-0 chain"
  else none

def checker (model : Bool) : Checker where
  σ := Option St
  init := none
  step st op obs :=
    let ws := words op
    match (if model then parseDump obs else parseBlack obs) with
    | none =>
      match field obs "statepanic" with
      | some m => (st, some s!"AsSlice/Len or the walk over the towers panicked after this call: {m}")
      | none => (st, some s!"bad-observation {op}")
    | some d =>
    match ws with
    | ["new", "slof", cname, _seed, valsS] =>
      -- NewSkipListFromSlice: a loop of Inserts whose tower heights cannot be attributed call by
      -- call; the resulting list must be well formed and enumerate the sorted input
      match ofName cname, parseInts valsS with
      | some cmp, some vs =>
        let s0 : SL := ⟨(d.vals.zip d.hs).map fun p => ⟨p.1, p.2⟩, d.level, d.size⟩
        let st' : St := { cmp := cmp, s := s0, bag := d.vals }
        if resultTok obs ≠ "ok" then (none, some s!"constructor failed: {obs}")
        else if d.len ≠ (vs.length : Int) then (some st', some s!"constructor: Len() want {vs.length}")
        else if model then
          if d.vals ≠ Spec.fromSlice cmp vs then (some st', some s!"constructor: contents want {renderInts (Spec.fromSlice cmp vs)}")
          else if !s0.wfB cmp then (some st', some "constructor: list not well formed (order / heights / level / size)")
          else match diffDump d s0 with
            | some m => (some st', some ("constructor: " ++ m))
            | none => (some st', none)
        else if !(Spec.sorted cmp d.vals && Spec.permB d.vals vs) then
          (some st', some s!"constructor: AsSlice {renderInts d.vals} is not the sorted input")
        else (some st', none)
      | _, _ => (none, some s!"bad-op {op}")
    | ["new", kind, cname, _seed] =>
      match ofName cname with
      | some cmp =>
        if kind ≠ "sl" ∧ kind ≠ "slpub" then (none, some s!"bad-kind {kind}") else
        let st' : St := { cmp := cmp, s := SL.new, bag := [] }
        if resultTok obs ≠ "ok" then (none, some s!"constructor failed: {obs}")
        else if d.vals ≠ [] ∨ d.len ≠ 0 then (some st', some "constructor: list not empty")
        else if model then
          match diffDump d SL.new with
          | some m => (some st', some ("constructor: " ++ m))
          | none => (some st', none)
        else (some st', none)
      | none => (none, some s!"bad-comparator {cname}")
    | _ =>
      match st, parseOp ws with
      | none, _ => (none, some "no-container")
      | _, none => (st, some s!"bad-op {op}")
      | some x, some o =>
        let got := resultTok obs
        if model then
          -- the tower height of an Insert is the runtime's choice: read it off the dump at the
          -- position where the model links the node, and check the generator's contract
          let h : Nat := match o with
            | .insert v => d.hs.getD ((traverse x.cmp v x.s).2.getD 0 0) 0
            | _ => 1
          let resync : SL := ⟨(d.vals.zip d.hs).map fun p => ⟨p.1, p.2⟩, d.level, d.size⟩
          if h < 1 ∨ h > MaxLevel then (some { x with s := resync }, some s!"tower height {h} outside 1..{MaxLevel}")
          else
            let (s', out) := step x.cmp x.s h o
            let want := renderOut out
            if want ≠ got then (some { x with s := resync }, some s!"result want {want} got {got}")
            else match diffDump d s' with
              | some m => (some { x with s := resync }, some m)
              | none => (some { x with s := s' }, none)
        else
          -- `na`: Get/Peek are not reachable through the public wrapper when it is observed black-box;
          -- the enumeration must still be the unchanged sorted multiset
          let isGetPeek : Bool := match o with | .get _ => true | .peek => true | _ => false
          if got == "na" && isGetPeek then
            (if !Spec.check x.cmp x.bag .len (.ok (.int x.bag.length)) d.vals ∨ d.len ≠ (d.vals.length : Int) then
              (some { x with bag := d.vals }, some s!"AsSlice {renderInts d.vals} / Len not allowed after {renderInts x.bag}")
             else (some { x with bag := d.vals }, none))
          else
          match parseOut got o with
          | none => (some { x with bag := d.vals }, some s!"result {got} is not a possible result of this call")
          | some out =>
            if !Spec.check x.cmp x.bag o out d.vals then
              (some { x with bag := d.vals }, some s!"result {got} / AsSlice {renderInts d.vals} not allowed after {renderInts x.bag}")
            else if d.len ≠ (d.vals.length : Int) then (some { x with bag := d.vals }, some s!"Len() want {d.vals.length}")
            else (some { x with bag := d.vals }, none)

end Driver.SkipList
