import Driver.Heap
import Ekit.Generated.PQGo
/-! Trace acceptor for C05, priority queue at the level of the translated source: same traces as area `heap` (harness/heap).

`model` mode runs the MiniGo interpreter (Ekit/MiniGo/LangPQ.lean: aliasing slices, receiver, method calls; `slice.Shrink`
= the translated internal/slice.Shrink) on the program that `harness/minigopq` translated from the CURRENT
`internal/queue/priority_queue.go` and compares after every call: the result, `Len()`, the whole heap array (slot 0 included)
read off the interpreter's backing array and the slice capacity (white box); the runtime's capacity choice for an allocating
`append` is read from the observation.  Cases are abandoned beyond 2000 elements (list-based arrays).
`spec` mode is the bag-with-capacity oracle of area `heap`. -/
namespace Driver.Pqptr
open Ekit.MiniGo.PQ Ekit.Gen.PQGo Driver
open Ekit.MiniGo.SL (Val Fail Res)

def fuel : Nat := 100000

structure S where
  cmp : Int → Int → Int
  st : St

def failTok : Fail → String
  | .panic => "panic"
  | .fuel => "diverged"
  | .stuck => "stuck"

def emptySt : St := { mem := { arrs := fun _ => [], alloc := 0, grow := [] }, capacity := 0, data := .slice none 0 0 }

def dataOf (st : St) : List Int × Nat :=
  match st.data with
  | .slice (some a) l c => ((st.mem.arrs a).take l, c)
  | _ => ([], 0)

/-- keep only the live array -/
def compact (st : St) : St :=
  match st.data with
  | .slice (some a) _ _ =>
    let cur := st.mem.arrs a
    { st with mem := { st.mem with arrs := fun x => if x = a then cur else [] } }
  | _ => st

def errTok : Val → String
  | .nilErr => "ok"
  | .errIdx 1 _ => "err:cap"
  | .errIdx 2 _ => "err:empty"
  | _ => "?"

def valTok : Val → String
  | .pair (.int v) .nilErr => s!"ok:{v}"
  | .pair _ e => errTok e
  | _ => "?"

def stepOp (s : S) (obsCap : Nat) (ws : List String) : Option (Res (String × St)) :=
  let st0 : St := { s.st with mem := { s.st.mem with grow := [obsCap, obsCap] } }
  let run (fn : PName) (args : List Val) (tok : Val → String) : Res (String × St) :=
    (call s.cmp procs fuel fn args st0).map fun (v, st1) => (tok v, st1)
  match ws with
  | ["enq", t] => t.toInt?.map fun t => run .Enqueue [.int t] errTok
  | ["deq"] => some (run .Dequeue [] valTok)
  | ["peek"] => some (run .Peek [] valTok)
  | ["len"] => some (run .Len [] fun v => match v with | .int n => s!"ok:{n}" | _ => "?")
  | ["cap"] => some (run .Cap [] fun v => match v with | .int n => s!"ok:{n}" | _ => "?")
  | ["boundless"] => some (run .IsBoundless [] fun v => match v with | .bool b => s!"ok:{b}" | _ => "?")
  | _ => none

def checker (model : Bool) : Checker :=
  if !model then Driver.Heap.checker false else
  { σ := Option S
    init := none
    step := fun sg op obs =>
      let ws := words op
      let got := resultTok obs
      let obsCap := (fieldNat obs "cap").getD 0
      let same (st : St) : Option String :=
        let (d, c) := dataOf st
        let okData : Bool := match fieldInts obs "data", fieldNat obs "dh" with
          | some vs, _ => vs == d
          | none, some h => h == (hashInts d).toNat
          | none, none => true
        if fieldNat obs "cap" ≠ none ∧ fieldNat obs "cap" ≠ some c then some s!"slice capacity want {c}"
        else if !okData then some s!"heap array want {renderInts d}"
        else if fieldInt obs "len" ≠ some ((d.length : Int) - 1) then some s!"Len() want {(d.length : Int) - 1}"
        else none
      match ws with
      | ["new", kind, cname, capS] =>
        match Ekit.Cmp.ofName cname, capS.toInt? with
        | some cmp, some capacity =>
          if (kind ≠ "pq" ∧ kind ≠ "pqpub") ∨ got ≠ "ok" ∨ fieldNat obs "cap" == none then (none, none) else
          match call cmp procs fuel .NewPriorityQueue [.int capacity, .unit] emptySt with
          | .error e => (none, some s!"the translated constructor fails ({failTok e})")
          | .ok (_, st1) => (some ⟨cmp, compact st1⟩, same st1)
        | _, _ => (none, none)
      | _ =>
        match sg with
        | none => (none, none)
        | some s =>
          if (dataOf s.st).1.length > 2000 then (none, none) else
          if got == "na" then (sg, none) else
          match stepOp s obsCap ws with
          | none => (none, none)
          | some (.error e) =>
            (sg, some s!"the translated program fails ({failTok e}) where the implementation answered {got}")
          | some (.ok (tok, st1)) =>
            let st1 := compact st1
            let r : Option String := if tok ≠ got then some s!"result want {tok} got {got}" else same st1
            (some { s with st := st1 }, r) }

end Driver.Pqptr
