import Driver.HashMap
import Ekit.Generated.HashMapGo
/-! Trace acceptor for C03 at the level of the translated source: same traces as area `hashmap` (harness/hashmap).

`model` mode runs the MiniGo interpreter (Ekit/MiniGo/LangHM.lean: node heap, the Go map as a function code ↦ optional head
pointer, the node pool as a list of addresses with the `sync.Pool.Get` choice as an oracle) on the program that
`harness/minigohm` translated from the CURRENT `mapx/hashmap.go` (`Ekit.Gen.HashMapGo.procs`) on every `hash` case
(`HashMap[Key,int]`, all key kinds) and compares after every call: the result of the translated calls (Put/Get/Delete, the zero
value next to `false` included), `Len()`, the key and value listings as multisets, the chain dump per hash code read off the
interpreter's heap by following `next` from the head stored in the map (chain order kept, a present code with a nil head is
`nilhead`), and the fields of the node a successful `Delete` handed to the pool (read off the heap at the head of the pool
list).  `Len`/`Keys`/`Values` are not translated (they range over the Go map): on their lines the state must be unchanged.
The pool choice of a `Put` is tried over the pooled nodes with pairwise different fields and the factory; the first choice
that explains the chain dump is taken (as in area `hashmap`).
`spec` mode is the abstract Equals-keyed map of area `hashmap`. -/
namespace Driver.Hmptr
open Ekit.MiniGo.HM Ekit.Gen.HashMapGo Driver

def fuel : Nat := 1000000

def emptySt : St := { h := fun _ => {}, alloc := 0, map := fun _ => none, pool := [], choice := none }

structure S where
  ko : KeyOps
  st : St
  /-- every code a call of this case has computed: the only places where the Go map can hold a key -/
  codes : List Int

def insertSorted (c : Int) : List Int → List Int
  | [] => [c]
  | x :: r => if c < x then c :: x :: r else if c = x then x :: r else x :: insertSorted c r

/-- the interpreter's heap and map are closures that grow by one `if` per write; re-tabulate them after every call
    (driver-side only: the functions denoted are the same on every address / on every code of the case) -/
def compact (codes : List Int) (st : St) : St :=
  let arr : Array Node := Array.ofFn (n := st.alloc) fun i => st.h i.val
  let tbl : List (Int × Option (Option Nat)) := codes.filterMap fun c => (st.map c).map fun p => (c, some p)
  { st with
    h := fun a => if h : a < arr.size then arr[a] else {}
    map := fun c => (tbl.lookup c).getD none }

def failTok : Fail → String
  | .panic => "panic"
  | .fuel => "diverged"
  | .stuck => "stuck"

/-- the chain from `p`, following `next` (`n` bounds the walk; `none` = longer than that: cyclic) -/
def chain (st : St) : Nat → Option Nat → Option (List (Int × Int))
  | _, none => some []
  | 0, some _ => none
  | n + 1, some a => (chain st n (st.h a).next).map fun r => ((st.h a).key, (st.h a).value) :: r

def chainsOf (s : S) : List (Int × Option (List (Int × Int))) :=
  s.codes.filterMap fun c => (s.st.map c).map fun p => (c, chain s.st (s.st.alloc + 1) p)

def renderChains (cs : List (Int × Option (List (Int × Int)))) : String :=
  if cs.isEmpty then "-" else
  ";".intercalate (cs.map fun (c, ch) =>
    s!"{c}:" ++ (match ch with
      | none => "cyclic"
      | some [] => "nilhead"
      | some l => ",".intercalate (l.map fun (k, v) => s!"{k}/{v}")))

def entries (cs : List (Int × Option (List (Int × Int)))) : List (Int × Int) :=
  cs.flatMap fun (_, ch) => ch.getD []

def sortInts (xs : List Int) : List Int := xs.mergeSort fun a b => decide (a ≤ b)

/-- compare the state dump that follows every call -/
def same (s : S) (obs : String) : Option String :=
  let cs := chainsOf s
  let es := entries cs
  if field obs "cycle" == some "1" then some "a chain is cyclic" else
  if field obs "chains" ≠ some (renderChains cs) then some s!"chains want {renderChains cs}"
  else if fieldInt obs "len" ≠ some (es.length : Int) then some s!"Len want {es.length}"
  else if (fieldInts obs "keys").map sortInts ≠ some (sortInts (es.map (·.1))) then some s!"Keys want (as a multiset) {renderInts (es.map (·.1))}"
  else if (fieldInts obs "vals").map sortInts ≠ some (sortInts (es.map (·.2))) then some s!"Values want (as a multiset) {renderInts (es.map (·.2))}"
  else none

def okvTok : Val → String
  | .pair (.int v) (.bool true) => s!"ok:{v}"
  | .pair (.int v) (.bool false) => if v = 0 then "miss" else s!"miss-nonzero:{v}"
  | _ => "?"

def errTok : Val → String
  | .ptr none => "ok"
  | _ => "?"

/-- the `sync.Pool.Get` choices worth trying: pooled nodes with pairwise different fields, then the factory -/
def poolCands (st : St) : List (Option Nat) :=
  let idx := (List.range st.pool.length).filter fun i =>
    !((List.range i).any fun j => (st.pool[j]?.map st.h) == (st.pool[i]?.map st.h))
  idx.map some ++ [none]

def freedOf (st : St) : Option String :=
  st.pool.head?.map fun a => let n := st.h a; s!"{n.key}/{n.value}/{if n.next.isNone then 0 else 1}"

def checker (model : Bool) : Checker :=
  if !model then Driver.HashMap.checker false else
  { σ := Option S
    init := none
    step := fun sg op obs =>
      let ws := words op
      let got := resultTok obs
      match ws with
      | ["new", container, kind, size] =>
        match container, Ekit.HashMap.keyKind kind, size.toInt? with
        | "hash", some hk, some n =>
          if got ≠ "ok" then (none, some s!"constructor failed: {obs}") else
          let ko : KeyOps := ⟨hk.code, hk.equals⟩
          match call ko procs fuel .NewHashMap [.int n] emptySt with
          | .error e => (none, some s!"the translated constructor fails ({failTok e})")
          | .ok (_, s0) =>
            let s : S := ⟨ko, compact [] s0, []⟩
            (some s, same s obs)
        | _, _, _ => (none, none)          -- not a HashMap[Key,int] case
      | _ =>
        match sg with
        | none => (none, none)
        | some s =>
          if (words obs).contains "hang=1" then (none, some "the call did not return (a chain is cyclic)") else
          let finish (codes : List Int) (r : Res (String × St)) (pooled : Bool) : Option S × Option String :=
            match r with
            | .error .panic =>
              (none, if got.startsWith "panic:" then none
                     else some s!"the translated program panics (nil dereference) where the implementation answered {got}")
            | .error e => (none, some s!"the translated program fails ({failTok e}) where the implementation answered {got}")
            | .ok (tok, st1) =>
              let s1 : S := ⟨s.ko, compact codes st1, codes⟩
              if tok ≠ "-" ∧ tok ≠ got then (some s1, some s!"result want {tok} got {got}")
              else match same s1 obs with
                | some m => (some s1, some m)
                | none =>
                  let wantFreed := if pooled then freedOf s1.st else none
                  if field obs "freed" ≠ wantFreed then (some s1, some s!"pooled node want {wantFreed}")
                  else (some s1, none)
          let run (st : St) (fn : PName) (args : List Val) (tok : Val → String) : Res (String × St) :=
            (call s.ko procs fuel fn args st).map fun (v, st1) => (tok v, st1)
          match ws with
          | ["put", k, v] =>
            match k.toInt?, v.toInt? with
            | some k, some v =>
              let codes := insertSorted (s.ko.codeF k) s.codes
              let tries := (poolCands s.st).map fun c => run { s.st with choice := c } .Put [.int k, .int v] errTok
              let explains (r : Res (String × St)) : Bool := match r with
                | .ok (_, st1) => field obs "chains" == some (renderChains (chainsOf ⟨s.ko, st1, codes⟩))
                | .error _ => false
              let pick := (tries.find? explains).getD (tries.headD (.error .stuck))
              finish codes pick false
            | _, _ => (none, some s!"bad-op {op}")
          | ["get", k] =>
            match k.toInt? with
            | some k => finish (insertSorted (s.ko.codeF k) s.codes) (run s.st .Get [.int k] okvTok) false
            | none => (none, some s!"bad-op {op}")
          | ["delete", k] =>
            match k.toInt? with
            | some k =>
              let r := run s.st .Delete [.int k] okvTok
              let found := match r with | .ok (tok, _) => tok.startsWith "ok:" | _ => false
              finish (insertSorted (s.ko.codeF k) s.codes) r found
            | none => (none, some s!"bad-op {op}")
          | ["len"] | ["keys"] | ["values"] => finish s.codes (.ok ("-", s.st)) false   -- not translated; nothing may change
          | _ => (none, some s!"bad-op {op}") }

end Driver.Hmptr
