/-
Driver area `evtrace`: the transition-system models as acceptors of synchronisation-event traces of the
real code (harness/evinst + harness/evtrace).

A trace is the log of one concurrent scenario on one object:

    new evt abq cap=2 g=3 calls=5 seed=77                             => ok instrumented=true
    e <tid> inv enq <v> <ctx kind> | inv deq <k> | inv len | inv asslice  => -
    e <tid> <Type>_<Func>:<Action>(<target>)                          => <observed result | snapshot | ->
    e <tid> res ok | res val <v> | res ctxErr | res n <k> | res slice <l> | res err   => -
    end                                                               => ok

`model` mode replays the log on the model of the object (`Ekit.ArrayBQ`, `Ekit.LinkedBQ`): the thread's program
counter is advanced silently over the statements that are not synchronisation actions (they lie inside
the thread's critical section, where nobody else can interfere), then the logged action must be exactly
the synchronisation action the model performs at that program counter, the model's `step` must be
ENABLED in the model's current state (so the interleaving of the real execution is one the model has),
the snapshots taken inside the real critical sections must equal the model's fields, and every call must
return what the model's call returns.  A context is observed, not controlled: the first observation of
an ended context (`ctx.Err() != nil`, `Acquire` returning an error, the `<-ctx.Done()` arm) is replayed as
the model's `ctxEnd` label followed by the thread's step; a later observation of a live context is
rejected.

`spec` mode accepts every line: this correspondence ties the MODEL to the code; what the property says
about the observable behaviour is decided by the other areas.
-/
import Driver.Util
import Ekit.Model.ArrayBQ
import Ekit.Model.LinkedBQ

namespace Driver.EvTrace
open Driver Ekit Ekit.Conc Ekit.BQ

/-- "a/b/c" → [a,b,c]; "" → [] -/
def parseSlash (s : String) : Option (List Int) :=
  if s = "" then some [] else (s.splitOn "/").mapM (·.toInt?)

/-- "k1=v1,k2=v2" lookup -/
def snapField (snap key : String) : Option String :=
  (snap.splitOn ",").findSome? fun w =>
    if w.startsWith (key ++ "=") then some ((w.drop (key.length + 1)).toString) else none

def parseRet : List String → Option Ret
  | ["ok"] => some .ok
  | ["ctxErr"] => some .ctxErr
  | ["err"] => some .err
  | ["val", v] => v.toInt?.map .val
  | ["n", k] => k.toInt?.map .n
  | ["slice", l] => (parseInts l).map .slice
  | _ => none

def parseOp : List String → Option Op
  | "enq" :: v :: _ => v.toInt?.map .enq
  | "deq" :: _ => some .deq
  | ["len"] => some .len
  | ["asslice"] => some .asSlice
  | _ => none

/-! ### array blocking queue -/
namespace ABQ
open Ekit.ArrayBQ

/-- program counters whose next step is not a logged synchronisation action -/
def silent : Pc → Bool
  | .eStore _ | .eAdv _ | .dRead | .dAdv _ | .lRead | .aMake | .aLoop _ _ => true
  | _ => false

/-- advance `t` over silent steps -/
def advance (s : State) (t : Nat) : Nat → Except String State
  | 0 => .error "model: too many silent steps"
  | fuel + 1 =>
    if silent (s.pc t) then
      match step s (.tau t) with
      | some s' => advance s' t fuel
      | none => .error s!"model: thread {t} cannot perform the statement at {repr (s.pc t)}"
    else .ok s

def tau (s : State) (t : Nat) (what : String) : Except String State :=
  match step s (.tau t) with
  | some s' => if s'.panicked then .error s!"model: {what} makes the model panic" else .ok s'
  | none => .error s!"model: {what} by thread {t} is not enabled in the model's state (pc {repr (s.pc t)}, writer {repr s.writer}, readers {s.readers}, enqFree {s.enqFree}, deqFree {s.deqFree})"

/-- the context of `t`'s call was observed ended -/
def ended (s : State) (t : Nat) : Except String State :=
  if s.ctxDone t then .ok s else
  match step s (.ctxEnd t) with
  | some s' => .ok s'
  | none => .error "model: ctxEnd not enabled"

def checkSnap (s : State) (snap : String) : Except String Unit :=
  if snap = "na" ∨ snap = "-" ∨ snap = "" then .ok () else
  match (snapField snap "head").bind (·.toNat?), (snapField snap "tail").bind (·.toNat?),
        (snapField snap "count").bind (·.toInt?), (snapField snap "data").bind parseSlash with
  | some h, some tl, some c, some d =>
    if h = s.head ∧ tl = s.tail ∧ c = s.count ∧ d = s.data then .ok ()
    else .error s!"snapshot inside the critical section ({snap}) differs from the model: head={s.head} tail={s.tail} count={s.count} data={renderInts s.data}"
  | _, _, _, _ => .error s!"unreadable snapshot {snap}"

/-- one logged synchronisation action `fn:act` with result `res` of thread `t` -/
def sync (s : State) (t : Nat) (fn act res : String) : Except String State := do
  let s ← advance s t 10000
  let bad : Except String State :=
    .error s!"thread {t} logged {fn}:{act} ({res}) where the model is at {repr (s.pc t)}"
  match s.pc t, act with
  | .eAcq _, "SemAcquire(enqueueCap)" =>
    if res = "nil" then tau s t act
    else do
      let s ← ended s t
      match step s (.ctxArm t) with
      | some s' => pure s'
      | none => .error "model: Acquire cannot fail here"
  | .dAcq, "SemAcquire(dequeueCap)" =>
    if res = "nil" then tau s t act
    else do
      let s ← ended s t
      match step s (.ctxArm t) with
      | some s' => pure s'
      | none => .error "model: Acquire cannot fail here"
  | .eLock _, "Lock(mutex)" => tau s t act
  | .dLock, "Lock(mutex)" => tau s t act
  | .eChk _, "ctx.Err" | .dChk, "ctx.Err" =>
    if res = "nil" then
      if s.ctxDone t then .error s!"thread {t}: ctx.Err() = nil after the context had been observed ended" else tau s t act
    else do
      let s ← ended s t
      tau s t act
  | .eRelBack, "SemRelease(enqueueCap)" => tau s t act
  | .dRelBack, "SemRelease(dequeueCap)" => tau s t act
  | .eRel, "SemRelease(dequeueCap)" => tau s t act
  | .dRel _, "SemRelease(enqueueCap)" => tau s t act
  | .unlock .ctxErr, "ctx.Err" =>       -- the `return ctx.Err()` of the early exit
    if res = "nil" then .error s!"thread {t}: the early exit returns a nil ctx.Err()" else pure s
  | .unlock _, "Unlock(mutex)" =>
    do checkSnap s res; tau s t act
  | .lRLock, "RLock(mutex)" => tau s t act
  | .aRLock, "RLock(mutex)" => tau s t act
  | .runlock (.n _), "RUnlock(mutex)" => do checkSnap s res; tau s t act
  | .runlock (.slice _), "RUnlock(mutex)" => do checkSnap s res; tau s t act
  | _, _ => bad

def inv (s : State) (t : Nat) (op : Op) : Except String State :=
  match step s (.inv t op) with
  | some s' => .ok s'
  | none => .error s!"model: thread {t} starts a call while the model has it at {repr (s.pc t)}"

def res (s : State) (t : Nat) (r : Ret) : Except String State := do
  let s ← advance s t 10000
  match step s (.res t r) with
  | some s' => pure s'
  | none => .error s!"thread {t} returned {repr r} where the model is at {repr (s.pc t)}"

end ABQ

/-! ### linked blocking queue (+ cond) -/
namespace LBQ
open Ekit.LinkedBQ

def silent : Pc → Bool
  | .eGuard _ | .eSigRead _ | .eAppend _ | .dGuard | .dSigRead | .dDelete | .bcSwap _ _ | .lRead | .aRead => true
  | _ => false

def advance (s : State) (t : Nat) : Nat → Except String State
  | 0 => .error "model: too many silent steps"
  | fuel + 1 =>
    if silent (s.pc t) then
      match step s (.tau t) with
      | some s' => advance s' t fuel
      | none => .error s!"model: thread {t} cannot perform the statement at {repr (s.pc t)}"
    else .ok s

def tau (s : State) (t : Nat) (what : String) : Except String State :=
  match step s (.tau t) with
  | some s' => if s'.panicked then .error s!"model: {what} makes the model panic" else .ok s'
  | none => .error s!"model: {what} by thread {t} is not enabled in the model's state (pc {repr (s.pc t)}, writer {repr s.writer}, readers {s.readers}, notEmpty {repr s.notEmpty}, notFull {repr s.notFull})"

def ended (s : State) (t : Nat) : Except String State :=
  if s.ctxDone t then .ok s else
  match step s (.ctxEnd t) with
  | some s' => .ok s'
  | none => .error "model: ctxEnd not enabled"

def checkSnap (s : State) (snap : String) : Except String Unit :=
  if snap = "na" ∨ snap = "-" ∨ snap = "" then .ok () else
  match (snapField snap "max").bind (·.toInt?), (snapField snap "q").bind parseSlash with
  | some m, some q =>
    if m = s.maxSize ∧ q = s.q then .ok ()
    else .error s!"snapshot inside the critical section ({snap}) differs from the model: maxSize={s.maxSize} q={renderInts s.q}"
  | _, _ => .error s!"unreadable snapshot {snap}"

def ctxObs (s : State) (t : Nat) (res act : String) : Except String State :=
  if res = "nil" then
    if s.ctxDone t then .error s!"thread {t}: ctx.Err() = nil after the context had been observed ended" else tau s t act
  else do
    let s ← ended s t
    tau s t act

def sync (s : State) (t : Nat) (fn act res : String) : Except String State := do
  let s ← advance s t 10000
  let bad : Except String State :=
    .error s!"thread {t} logged {fn}:{act} ({res}) where the model is at {repr (s.pc t)}"
  match s.pc t, act with
  | .eCtx _, "ctx.Err" => ctxObs s t res act
  | .dCtx, "ctx.Err" => ctxObs s t res act
  | .ret .ctxErr, "ctx.Err" =>            -- `return ctx.Err()` after the check / the ctx.Done() arm
    if res = "nil" then .error s!"thread {t}: a context-error exit returns a nil ctx.Err()" else pure s
  | .eLock _, "Lock(mutex)" => tau s t act
  | .dLock, "Lock(mutex)" => tau s t act
  | .eSigUnlock _ _, "Unlock(l)" | .dSigUnlock _, "Unlock(l)" => tau s t act
  | .eSelect _ _, "Select:Recv(signal)" => tau s t act
  | .dSelect _, "Select:Recv(signal)" => tau s t act
  | .eSelect _ _, "Select:Recv(ctx.Done())" | .dSelect _, "Select:Recv(ctx.Done())" => do
      let s ← ended s t
      match step s (.ctxArm t) with
      | some s' => pure s'
      | none => .error "model: the ctx.Done() arm is not enabled"
  | .bcUnlock _ _ _, "Unlock(l)" => tau s t act
  | .bcClose _ _ _, "Close(old)" => tau s t act
  | .lRLock, "RLock(mutex)" => tau s t act
  | .aRLock, "RLock(mutex)" => tau s t act
  | .runlock (.n _), "RUnlock(mutex)" => do checkSnap s res; tau s t act
  | .runlock (.slice _), "RUnlock(mutex)" => do checkSnap s res; tau s t act
  | _, _ => bad

def inv (s : State) (t : Nat) (op : Op) : Except String State :=
  match step s (.inv t op) with
  | some s' => .ok s'
  | none => .error s!"model: thread {t} starts a call while the model has it at {repr (s.pc t)}"

def res (s : State) (t : Nat) (r : Ret) : Except String State := do
  let s ← advance s t 10000
  match step s (.res t r) with
  | some s' => pure s'
  | none => .error s!"thread {t} returned {repr r} where the model is at {repr (s.pc t)}"

end LBQ

/-! ### the checker -/

inductive St where
  | none
  | dead                      -- a line of this scenario was rejected: the rest of it is not judged again
  | abq (s : ArrayBQ.State)
  | lbq (s : LinkedBQ.State)

def argInt (ws : List String) (key : String) : Option Int :=
  ws.findSome? fun w => if w.startsWith (key ++ "=") then ((w.drop (key.length + 1)).toString).toInt? else none

/-- split "Type_Func:Action(target)" at the first ':' -/
def splitSite (site : String) : String × String :=
  match site.splitOn ":" with
  | fn :: rest => (fn, ":".intercalate rest)
  | [] => (site, "")

def liftE {σ} (wrap : σ → St) (r : Except String σ) : St × Option String :=
  match r with
  | .ok s => (wrap s, none)
  | .error m => (.dead, some m)

def checker (model : Bool) : Checker where
  σ := St
  init := .none
  step st op obs :=
    if !model then (st, none) else
    let ws := words op
    match ws with
    | "new" :: "evt" :: tgt :: rest =>
      if resultTok obs ≠ "ok" then (.dead, some s!"scenario failed: {obs}")
      else if field obs "instrumented" ≠ some "true" then (.dead, some "the harness was not built against an instrumented copy")
      else match tgt, argInt rest "cap" with
        | "abq", some c => if c < 1 then (.dead, some "capacity < 1") else (.abq (ArrayBQ.init c.toNat), none)
        | "lbq", some c => (.lbq (LinkedBQ.init c), none)
        | _, _ => (.dead, some s!"bad-op {op}")
    | ["end"] =>
      match st with
      | .abq s => if s.live.isEmpty then (.none, none) else (.none, some "calls still in flight in the model at the end of the scenario")
      | .lbq s => if s.live.isEmpty then (.none, none) else (.none, some "calls still in flight in the model at the end of the scenario")
      | _ => (.none, none)
    | "e" :: tid :: what :: args =>
      match st, tid.toNat? with
      | .dead, _ => (.dead, none)
      | .none, _ => (.none, some "event outside a scenario")
      | _, none =>
        -- the constructor runs on the harness's own goroutine before the threads start: the model's `init`
        if what.startsWith "New" then (st, none) else (.dead, some s!"event of an unregistered goroutine: {op}")
      | .abq s, some t =>
        if what = "inv" then
          match parseOp args with
          | some o => liftE .abq (ABQ.inv s t o)
          | none => (.dead, some s!"bad-op {op}")
        else if what = "res" then
          match parseRet args with
          | some r => liftE .abq (ABQ.res s t r)
          | none => (.dead, some s!"bad-op {op}")
        else
          let (fn, act) := splitSite what
          liftE .abq (ABQ.sync s t fn act obs)
      | .lbq s, some t =>
        if what = "inv" then
          match parseOp args with
          | some o => liftE .lbq (LBQ.inv s t o)
          | none => (.dead, some s!"bad-op {op}")
        else if what = "res" then
          match parseRet args with
          | some r => liftE .lbq (LBQ.res s t r)
          | none => (.dead, some s!"bad-op {op}")
        else
          let (fn, act) := splitSite what
          liftE .lbq (LBQ.sync s t fn act obs)
    | _ => (st, some s!"bad-op {op}")

end Driver.EvTrace
