/-
Driver area `evtrace`: the transition-system models as acceptors of synchronisation-event traces of the
real code (harness/evinst + harness/evtrace).

A trace is the log of one concurrent scenario on one object:

    new evt abq cap=2 g=3 calls=5 seed=77                             => ok instrumented=true
    e <tid> inv enq <v> <ctx kind> | inv deq <k> | inv len | inv asslice  => -
    e <tid> <Type>_<Func>:<Action>(<target>)                          => <observed result | snapshot | ->
    e <tid> res ok | res val <v> | res ctxErr | res n <k> | res slice <l> | res err   => -
    end                                                               => ok

`model` mode replays the log on the model of the object (`Ekit.ArrayBQ`, `Ekit.LinkedBQ`): the thread's program
counter is advanced silently over the statements that are not synchronisation actions (they lie inside
the thread's critical section, where nobody else can interfere), then the logged action must be exactly
the synchronisation action the model performs at that program counter, the model's `step` must be
ENABLED in the model's current state (so the interleaving of the real execution is one the model has),
the snapshots taken inside the real critical sections must equal the model's fields, and every call must
return what the model's call returns.  A context is observed, not controlled: the first observation of
an ended context (`ctx.Err() != nil`, `Acquire` returning an error, the `<-ctx.Done()` arm) is replayed as
the model's `ctxEnd` label followed by the thread's step; a later observation of a live context is
rejected.

`spec` mode accepts every line: this correspondence ties the MODEL to the code; what the property says
about the observable behaviour is decided by the other areas.
-/
import Driver.Util
import Driver.Ev.Core
import Driver.Ev.BQ
import Driver.Ev.Cond
import Driver.Ev.SyncX
import Driver.Ev.DelayQ
import Driver.Ev.CLQ
import Driver.Ev.LockWrapped
import Driver.Ev.Pool

namespace Driver.EvTrace
open Driver Driver.Ev

/-- the model state of the running scenario: one constructor per target -/
inductive St where
  | none
  | dead                      -- a line of this scenario was rejected: the rest of it is not judged again
  | abq (s : Ekit.ArrayBQ.State)
  | lbq (s : Ekit.LinkedBQ.State)
  | cond (s : Driver.Ev.Cond.State)
  | limit (s : Limit.State)
  | seg (s : Seg.State)
  | dq (s : Driver.Ev.DQ.State)
  | clq (s : Driver.Ev.CLQ.State)
  | clist (s : Driver.Ev.CList.State)
  | cow (s : Driver.Ev.Cow.State)
  | cpq (s : Driver.Ev.CPQ.State)
  | pool (s : Driver.Ev.Pool.State)

def liftE {σ} (wrap : σ → St) (r : Except String σ) : St × Option String :=
  match r with
  | .ok s => (wrap s, none)
  | .error m => (.dead, some m)

/-- `new evt <target> k=v …` -/
def start (tgt : String) (args : List String) : St × Option String :=
  match tgt with
  | "abq" => liftE .abq (ABQ.init args)
  | "lbq" => liftE .lbq (LBQ.init args)
  | "cond" => liftE .cond (Cond.init args)
  | "limit" => liftE .limit (Limit.init args)
  | "seg" => liftE .seg (Seg.init args)
  | "dq" => liftE .dq (DQ.init args)
  | "clq" => liftE .clq (CLQ.init args)
  | "clist" => liftE .clist (CList.init args)
  | "cow" => liftE .cow (Cow.init args)
  | "cpq" => liftE .cpq (CPQ.init args)
  | "pool" => liftE .pool (Pool.init args)
  | _ => (.dead, some s!"unknown target {tgt}")

/-- one event of thread `t` -/
def event (st : St) (t : Nat) (what : String) (args : List String) (obs : String) : St × Option String :=
  let (fn, act) := splitSite what
  match st with
  | .none => (.none, some "event outside a scenario")
  | .dead => (.dead, none)
  | .abq s =>
    if what = "inv" then liftE .abq (ABQ.invL s t args) else if what = "res" then liftE .abq (ABQ.resL s t args)
    else liftE .abq (ABQ.sync s t fn act obs)
  | .lbq s =>
    if what = "inv" then liftE .lbq (LBQ.invL s t args) else if what = "res" then liftE .lbq (LBQ.resL s t args)
    else liftE .lbq (LBQ.sync s t fn act obs)
  | .cond s =>
    if what = "inv" then liftE .cond (Cond.invL s t args) else if what = "res" then liftE .cond (Cond.resL s t args)
    else liftE .cond (Cond.sync s t fn act obs)
  | .limit s =>
    if what = "inv" then liftE .limit (Limit.invL s t args) else if what = "res" then liftE .limit (Limit.resL s t args)
    else liftE .limit (Limit.sync s t fn act obs)
  | .seg s =>
    if what = "inv" then liftE .seg (Seg.invL s t args) else if what = "res" then liftE .seg (Seg.resL s t args)
    else liftE .seg (Seg.sync s t fn act obs)
  | .dq s =>
    if what = "inv" then liftE .dq (DQ.invL s t args) else if what = "res" then liftE .dq (DQ.resL s t args)
    else liftE .dq (DQ.sync s t fn act obs)
  | .clq s =>
    if what = "inv" then liftE .clq (CLQ.invL s t args) else if what = "res" then liftE .clq (CLQ.resL s t args)
    else liftE .clq (CLQ.sync s t fn act obs)
  | .clist s =>
    if what = "inv" then liftE .clist (CList.invL s t args) else if what = "res" then liftE .clist (CList.resL s t args)
    else liftE .clist (CList.sync s t fn act obs)
  | .cow s =>
    if what = "inv" then liftE .cow (Cow.invL s t args) else if what = "res" then liftE .cow (Cow.resL s t args)
    else liftE .cow (Cow.sync s t fn act obs)
  | .cpq s =>
    if what = "inv" then liftE .cpq (CPQ.invL s t args) else if what = "res" then liftE .cpq (CPQ.resL s t args)
    else liftE .cpq (CPQ.sync s t fn act obs)
  | .pool s =>
    if what = "inv" then liftE .pool (Pool.invL s t args) else if what = "res" then liftE .pool (Pool.resL s t args)
    else liftE .pool (Pool.sync s t fn act obs)

/-- an event of a goroutine the harness did not start (the task pool's workers are created inside the library):
    only targets that model such goroutines take it -/
def eventG (st : St) (gid : String) (what : String) (obs : String) : Option (St × Option String) :=
  let (fn, act) := splitSite what
  match st with
  | .pool s => some (liftE .pool (Pool.syncG s gid fn act obs))
  | _ => none

def finish : St → Option String
  | .abq s => ABQ.atEnd s
  | .lbq s => LBQ.atEnd s
  | .cond s => Cond.atEnd s
  | .limit s => Limit.atEnd s
  | .seg s => Seg.atEnd s
  | .dq s => DQ.atEnd s
  | .clq s => CLQ.atEnd s
  | .clist s => CList.atEnd s
  | .cow s => Cow.atEnd s
  | .cpq s => CPQ.atEnd s
  | .pool s => Pool.atEnd s
  | _ => none

def checker (model : Bool) : Checker where
  σ := St
  init := .none
  step st op obs :=
    if !model then (st, none) else
    match words op with
    | "new" :: "evt" :: tgt :: rest =>
      if resultTok obs ≠ "ok" then (.dead, some s!"scenario failed: {obs}")
      else if field obs "instrumented" ≠ some "true" then (.dead, some "the harness was not built against an instrumented copy")
      else start tgt rest
    | ["end"] => (.none, finish st)
    | "e" :: tid :: what :: args =>
      match st, tid.toNat? with
      | .dead, _ => (.dead, none)
      | _, none =>
        -- the constructor runs on the harness's own goroutine before the threads start: the model's `init`
        if what.startsWith "New" then (st, none) else
        match eventG st tid what obs with
        | some r => r
        | none => (.dead, some s!"event of an unregistered goroutine: {op}")
      | _, some t => event st t what args obs
    | _ => (st, some s!"bad-op {op}")

end Driver.EvTrace
