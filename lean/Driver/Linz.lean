import Driver.Util
import Ekit.Model.LinzSpec
/-!
Trace acceptor for C06 (linearizability of ConcurrentLinkedQueue, ConcurrentPriorityQueue,
ConcurrentList, CopyOnWriteArrayList, syncx.Map).  Producer of the lines: harness/linz/main.go.

    new <kind> k=v …                     => ok        (map: `k=int|any v=int|any|err|ptr` = the instantiation of syncx.Map[K, V];
                                                       keys / values are tokens named by integers, see `mTok`)
    pre|call|post …                      => -
    run reps=R seed=S                    => h <events> | h <events> | …       (or `hang`)
    cowstack r=R n=N k=K seed=S          => writes=… reads=… … | ws init=<state> <events> | …  (list stack burst + witnesses)
    burst p=P c=C n=N seed=S             => ops=… empty=… … | w <events> | …  (clq permit burst: counters + witness projections)

Every history `h I<tid>:<op> … R<tid>:<result> …` is checked by an exhaustive linearizability search
(Wing–Gong with memoisation; a pure re-implementation of `Ekit.Conc.LinCheck.dfs`, which lives in `IO`)
against the executable specification of its container kind (`Ekit.Linz.fifoExec`, `pqExec`, `seqExec`,
`mapExec` — the very `step` functions the C06 theorems are stated against).

* `spec` mode: public calls only (white-box `dump` calls are dropped, `LoadOrStoreFunc`'s fn-call count ignored).
* `model` mode: additionally the facts the models of `Ekit/Model/CLQ.lean`, `LockWrapped.lean`,
  `SyncMap.lean` predict for a quiescent state: the linked queue's chain after `head` is exactly the
  abstract queue, `tail` is its last node and `tail.next = nil` (invariant `tail ≤ |nodes| ≤ tail+1` with
  nobody between the two CASes); the priority queue's array is a heap holding exactly the abstract
  multiset; `LoadOrStoreFunc` calls `fn` at most once, and exactly once when it stores or fails.
-/
namespace Driver.Linz
open Driver Ekit.Linz Ekit.Conc.LinCheck

/-! ### pure linearizability search -/

structure Memo where
  seen : Std.HashSet String
  fuel : Nat

partial def dfs {S Op Ret : Type} [Inhabited Op] (spec : ExecSpec S Op Ret) (calls : Array (Call Op Ret))
    (done : Nat) (s : S) : StateM Memo Bool := do
  let mut allDone := true
  for i in [0:calls.size] do
    if (done >>> i) % 2 == 0 && calls[i]!.res.isSome then allDone := false
  if allDone then return true
  let k := s!"{done}|{spec.key s}"
  if (← get).seen.contains k then return false
  if (← get).fuel == 0 then return false
  modify fun m => { seen := m.seen.insert k, fuel := m.fuel - 1 }
  let m := minRes calls done
  for i in [0:calls.size] do
    if (done >>> i) % 2 == 0 then
      let c := calls[i]!
      if c.inv < m then
        match c.res, c.ret with
        | some _, some r =>
          match spec.step s c.op r with
          | some s' => if (← dfs spec calls (done ||| (1 <<< i)) s') then return true
          | none => pure ()
        | _, _ =>
          for s' in spec.pend s c.op do
            if (← dfs spec calls (done ||| (1 <<< i)) s') then return true
  return false

def check {S Op Ret : Type} [Inhabited Op] (spec : ExecSpec S Op Ret) (calls : Array (Call Op Ret))
    (budget : Nat := 400000) : Verdict :=
  let (ok, m) := (dfs spec calls 0 spec.init).run ⟨{}, budget⟩
  if ok then .linearizable else if m.fuel == 0 then .budgetExceeded else .notLinearizable

/-! ### histories -/

/-- a call as recorded: op words, result text -/
abbrev Raw := Call (List String) String

/-- `I3:add:0:9` / `R3:ok` tokens → calls (positions = token indices).  `none` = malformed. -/
def parseHistory (toks : List String) : Option (Array Raw) := Id.run do
  let mut calls : Array Raw := #[]
  let mut openIdx : List (Nat × Nat) := []     -- tid ↦ index of its open call
  let mut pos := 0
  for t in toks do
    let parts := t.splitOn ":"
    match parts with
    | hd :: rest =>
      let tid? := (hd.drop 1).toString.toNat?
      match tid? with
      | none => return none
      | some tid =>
        if hd.startsWith "I" then
          if (openIdx.lookup tid).isSome then return none
          openIdx := (tid, calls.size) :: openIdx
          calls := calls.push ⟨tid, rest, pos, none, none⟩
        else if hd.startsWith "R" then
          match openIdx.lookup tid with
          | none => return none
          | some i =>
            calls := calls.modify i fun c => { c with res := some pos, ret := some (":".intercalate rest) }
            openIdx := openIdx.filter (·.1 != tid)
        else return none
    | [] => return none
    pos := pos + 1
  return some calls

/-- typed call from a raw one; a result the specification's answer type cannot express (a panic,
    an unknown error) makes the history unacceptable — reported by `unparsable`. -/
def convert {Op Ret : Type} (raw : Array Raw) (pOp : List String → Option Op) (pRet : List String → String → Option Ret) :
    Except String (Array (Call Op Ret)) :=
  raw.mapM fun c =>
    match pOp c.op with
    | none => .error s!"bad-op {c.op}"
    | some op =>
      match c.ret with
      | none => .ok ⟨c.tid, op, c.inv, c.res, none⟩
      | some r =>
        match pRet c.op r with
        | some ret => .ok ⟨c.tid, op, c.inv, c.res, some ret⟩
        | none => .error s!"thread {c.tid}: {":".intercalate c.op} answered `{r}`, which no call of the specification can answer"

def verdictMsg (v : Verdict) : Option String :=
  match v with
  | .notLinearizable => some "not linearizable"
  | _ => none          -- budgetExceeded is never a violation

/-! ### the white-box `dump` wrapper (model mode) -/

def withDump {S Op Ret D : Type} (spec : ExecSpec S Op Ret) (chk : S → D → Bool) : ExecSpec S (Op ⊕ Unit) (Ret ⊕ D) where
  init := spec.init
  step s op r := match op, r with
    | .inl o, .inl x => spec.step s o x
    | .inr _, .inr d => if chk s d then some s else none
    | _, _ => none
  pend s op := match op with
    | .inl o => spec.pend s o
    | .inr _ => [s]
  key := spec.key

instance {α β} [Inhabited α] : Inhabited (α ⊕ β) := ⟨.inl default⟩

/-! ### per-kind parsing -/

def pEl (s : String) : Option El :=
  match s.splitOn "." with
  | [p, i] => do pure ((← p.toInt?), (← i.toInt?))
  | _ => none

def qOp : List String → Option (QOp Int)
  | ["enq", v] => v.toInt?.map .enq
  | ["deq"] => some .deq
  | _ => none
def qRet (_ : List String) (r : String) : Option (QRet Int) :=
  match r.splitOn ":" with
  | ["ok"] => some .ok
  | ["empty"] => some .empty
  | ["v", x] => x.toInt?.map .val
  | _ => none

/-- `dump:<vals>:<tailPos>:<tailNextNil>` -/
def qDump (r : String) : Option (List Int × Int × Int) :=
  match r.splitOn ":" with
  | ["dump", vs, tp, tn] => do pure ((← parseInts vs), (← tp.toInt?), (← tn.toInt?))
  | _ => none

def pOp : List String → Option POp
  | ["enq", e] => (pEl e).map .enq
  | ["deq"] => some .deq
  | ["peek"] => some .peek
  | ["len"] => some .len
  | ["cap"] => some .cap
  | _ => none
def pRet (_ : List String) (r : String) : Option PRet :=
  match r.splitOn ":" with
  | ["ok"] => some .ok
  | ["full"] => some .full
  | ["empty"] => some .empty
  | ["v", e] => (pEl e).map .val
  | ["n", k] => k.toInt?.map .n
  | _ => none
def pDump (r : String) : Option (List El) :=
  match r.splitOn ":" with
  | ["dump", "-"] => some []
  | ["dump", es] => (es.splitOn ",").mapM pEl
  | _ => none

/-- 0-based binary heap order on the priorities: parent(i) = (i-1)/2 -/
def heapOrdered (d : List El) : Bool :=
  (List.range d.length).all fun i => i == 0 || (d.getD ((i - 1) / 2) (0, 0)).1 ≤ (d.getD i (0, 0)).1

def sOp : List String → Option SOp
  | ["get", i] => i.toInt?.map .get
  | ["append", ts] => (parseInts ts).map .append
  | ["add", i, t] => do pure (.add (← i.toInt?) (← t.toInt?))
  | ["set", i, t] => do pure (.set (← i.toInt?) (← t.toInt?))
  | ["delete", i] => i.toInt?.map .delete
  | ["len"] => some .len
  | ["asslice"] => some .asSlice
  | ["range"] => some .range
  | _ => none
def sRet (_ : List String) (r : String) : Option SRet :=
  match r.splitOn ":" with
  | ["ok"] => some (.ok .unit)
  | ["v", x] => x.toInt?.map fun v => .ok (.val v)
  | ["n", k] => k.toInt?.map fun v => .ok (.int v)
  | ["s", vs] => (parseInts vs).map fun l => .ok (.slice l)
  | ["err", "idx", l, i] => do pure (.err (.idx (← l.toInt?) (← i.toInt?)))
  | _ => none

/-- Keys and values of `syncx.Map[K, V]`.  The map specification (`mapExec`) is stated over `Int` keys and values and
    uses nothing but their equality (and an order on keys to keep the association list canonical), so any injective
    naming of the key / value domain of an instantiation by integers is faithful.  Tokens (harness/linz, codecs):
    the int `n` ↦ `8n`; `s<n>` (a string in an `any`) ↦ `8n+1`; `e<n>` (an error value) ↦ `8n+2`; `p<n>` (a non-nil
    pointer) ↦ `8n+3`; `nil` (the zero value of an interface- or pointer-typed K / V) ↦ `4`; `pnil` (a typed nil pointer
    in an `any`) ↦ `12`.  In particular `nil` is a value like any other: a key holding it is present.
    Anything else (`other`: a value of a type that was never stored) is no value of the domain. -/
def mTok (s : String) : Option Int :=
  if s == "nil" then some 4
  else if s == "pnil" then some 12
  else match s.toInt? with
    | some n => some (8 * n)
    | none =>
      let tag (k : Int) : Option Int := ((s.drop 1).toString.toInt?).map fun n => 8 * n + k
      if s.startsWith "s" then tag 1
      else if s.startsWith "e" then tag 2
      else if s.startsWith "p" then tag 3
      else none

def mOp : List String → Option MOp
  | ["load", k] => (mTok k).map .load
  | ["store", k, v] => do pure (.store (← mTok k) (← mTok v))
  | ["los", k, v] => do pure (.los (← mTok k) (← mTok v))
  | ["lad", k] => (mTok k).map .lad
  | ["del", k] => (mTok k).map .del
  | ["losf", k, v] => do pure (.losf (← mTok k) (some (← mTok v)))
  | ["losfe", k] => (mTok k).map (.losf · none)
  | ["range"] => some .snap
  | _ => none

/-- stable insertion by key (duplicates kept: a key reported twice never equals a state of the specification) -/
def insByKey (p : Int × Int) : List (Int × Int) → List (Int × Int)
  | [] => [p]
  | q :: qs => if p.1 < q.1 then p :: q :: qs else q :: insByKey p qs

/-- `k=v,…` as printed by the harness (raw key / value tokens) -/
def pRawPairs (s : String) : Option (List (String × String)) :=
  if s = "-" then some [] else
  (s.splitOn ",").mapM fun p =>
    match p.splitOn "=" with
    | [k, v] => some (k, v)
    | _ => none

/-- the pairs of a quiescent `Range`, named by integers and brought into the specification's canonical key order -/
def pPairs (s : String) : Option MapS := do
  let ps ← (← pRawPairs s).mapM fun (k, v) => do pure ((← mTok k), (← mTok v))
  pure (ps.foldl (fun acc p => insByKey p acc) [])

/-- `model`: the fn-call count after `/` must be what the `Load ; fn ; LoadOrStore` model predicts -/
def mRet (model : Bool) (op : List String) (r0 : String) : Option MRet :=
  let (r, cnt) := match r0.splitOn "/" with
    | [a, c] => (a, c.toNat?)
    | _ => (r0, none)
  let isF := op.head? == some "losf" || op.head? == some "losfe"
  let cntOk (must : Bool) : Bool :=
    !model || !isF || (match cnt with | some c => c ≤ 1 && (!must || c == 1) | none => false)
  match r.splitOn ":" with
  | ["v", x] => (mTok x).map .val
  | ["absent"] => some .absent
  | ["ok"] => some .ok
  | ["l", x] => if cntOk false then (mTok x).map .loaded else none
  | ["s", x] => if cntOk true then (mTok x).map .stored else none
  | ["err"] => if cntOk true then some .err else none
  | ["m", ps] => (pPairs ps).map .all
  | _ => none

/-- a concurrent `Range` (thread ≠ 0) is not one atomic read in `sync.Map`; the property only asks that
    every reported pair was present at some instant of the call: one `Load key → value` per pair,
    all with the interval of the `Range` call.  A key reported twice is rejected. -/
def expandRange (raw : Array Raw) : Except String (Array Raw) := do
  let mut out : Array Raw := #[]
  for c in raw do
    if c.op == ["range"] && c.tid != 0 then
      match c.ret with
      | none => pure ()
      | some r =>
        match r.splitOn ":" with
        | ["m", ps] =>
          match pRawPairs ps with
          | none => throw s!"bad range result {r}"
          | some pairs =>
            if (pairs.map (·.1)).eraseDups.length != pairs.length then
              throw s!"thread {c.tid}: Range reported a key twice: {r}"
            for (k, v) in pairs do
              out := out.push { c with op := ["load", k], ret := some s!"v:{v}" }
        | _ => throw s!"thread {c.tid}: range answered `{r}`, which no call of the specification can answer"
    else out := out.push c
  return out

structure Cfg where
  kind : String := ""
  cap : Int := 0
  init : List Int := []
  deriving Inhabited

def isDump (c : Raw) : Bool := c.op == ["dump"]

def withDumpOp {Op : Type} (f : List String → Option Op) : List String → Option (Op ⊕ Unit) :=
  fun w => if w == ["dump"] then some (.inr ()) else (f w).map .inl
def withDumpRet {Ret D : Type} (g : List String → String → Option Ret) (d : String → Option D) :
    List String → String → Option (Ret ⊕ D) :=
  fun w r => if w == ["dump"] then (d r).map .inr else (g w r).map .inl

def finish {S Op Ret : Type} [Inhabited Op] (spec : ExecSpec S Op Ret) (cs : Except String (Array (Call Op Ret))) :
    Option String :=
  match cs with
  | .error e => some e
  | .ok calls => verdictMsg (check spec calls)

def clqDumpOk (s : List Int) (d : List Int × Int × Int) : Bool :=
  d.1 == s && d.2.1 == s.length && d.2.2 == 1
def cpqDumpOk (s : PQS) (d : List El) : Bool :=
  d.foldl (fun acc e => insertSorted e acc) [] == s.els && heapOrdered d

def checkHistory (model : Bool) (cfg : Cfg) (toks : List String) : Option String :=
  match parseHistory toks with
  | none => some "malformed history"
  | some raw0 =>
    let pub := raw0.filter (!isDump ·)
    let raw := if model then raw0 else pub
    match cfg.kind with
    | "clq" => finish (withDump fifoExec clqDumpOk) (convert raw (withDumpOp qOp) (withDumpRet qRet qDump))
    | "cpq" => finish (withDump (pqExec cfg.cap) cpqDumpOk) (convert raw (withDumpOp pOp) (withDumpRet pRet pDump))
    | "clist" => finish (seqExec cfg.init) (convert pub sOp sRet)
    | "cow" => finish (seqExec cfg.init) (convert pub sOp sRet)
    | "map" =>
      match expandRange pub with
      | .error e => some e
      | .ok r => finish mapExec (convert r mOp (mRet model))
    | k => some s!"unknown kind {k}"

/-- the harness's whole-burst monitors: every counter named here counts events that cannot occur in a
    linearizable run (argument next to each use).  `none` = a counter is missing / unreadable,
    `some l` = the non-zero ones, rendered. -/
def anomalies (counters : String) (keys : List String) : Option (List String) :=
  keys.foldlM (fun acc k => (fieldNat counters k).map fun n => if n == 0 then acc else acc ++ [s!"{k}={n}"]) []

def burstCounters : List String := ["empty", "panic", "dup", "lost", "invented", "reordered"]
def stackCounters : List String := ["suspicious", "badwriter"]

def checker (model : Bool) : Checker where
  σ := Cfg
  init := {}
  step st op obs :=
    match words op with
    | "new" :: kind :: rest =>
      let get (k : String) : Option String := field (" ".intercalate rest) k
      let cfg : Cfg := { kind := kind, cap := ((get "cap").bind String.toInt?).getD 0,
                         init := ((get "init").bind parseInts).getD [] }
      if obs == "ok" then (cfg, none) else (cfg, some s!"constructor failed: {obs}")
    | "pre" :: _ => (st, none)
    | "call" :: _ => (st, none)
    | "post" :: _ => (st, none)
    | "run" :: _ =>
      if obs == "skipped" then (st, none)
      else
        let hs := obs.splitOn " | "
        let bad := hs.findSome? fun h =>
          match words h with
          | "h" :: toks => (checkHistory model st toks).map fun m => s!"{m}: {st.kind} {h}"
          | ["hang"] => some s!"hang: a call on {st.kind} never returned (all threads were runnable)"
          | _ => some s!"bad-observation {h}"
        (st, bad)
    | "burst" :: _ =>
      -- a long permit burst on the linked queue: counters followed by witness projections
      -- `w <events>` = the burst's history restricted to the calls on a few values (a restriction of a
      -- linearizable FIFO history to the calls on a subset of values is linearizable, so a projection
      -- that is not linearizable convicts the burst); each is decided by the same search as a history.
      -- The counters are the harness's monitors over the whole burst; each of them counts events no
      -- linearizable FIFO queue with unique values can produce (see `anomalies`), so a non-zero counter
      -- for which no witness convicts (none could be extracted, or more anomalies than witness slots)
      -- is a rejection as well — never an acceptance.
      if obs == "skipped" then (st, none)
      else
        let segs := obs.splitOn " | "
        let bad := segs.findSome? fun h =>
          match words h with
          | "w" :: toks => (checkHistory model st toks).map fun m =>
              s!"{m} (projection of a permit burst onto the calls on a few values): {st.kind} h {" ".intercalate toks}"
          | ["hang"] => some s!"hang: a call on {st.kind} never returned during a burst (all threads were runnable)"
          | _ => none
        match bad with
        | some m => (st, some m)
        | none =>
          match anomalies (segs.headD "") burstCounters with
          | none => (st, some s!"bad-observation {segs.headD ""}")
          | some [] => (st, none)
          | some l => (st, some s!"permit burst on {st.kind}: {" ".intercalate l} — impossible for a linearizable FIFO queue (every Dequeue held a permit published after an Enqueue had returned; values are unique; the drain ended with `empty`), no small witness projection was extracted: {segs.headD ""}")
    | "cowstack" :: _ =>
      -- a stack burst on a list (one writer, traversing readers): counters, then witnesses
      -- `ws init=<state> <events>`: the writer's calls overlapping one reader call, and that call, from the
      -- state the list had before the first of them (all mutators are the single writer's sequential calls,
      -- so that state is the same in every linearization); decided against the sequence specification.
      -- Counters: `suspicious` = traversals that panicked or were not strictly increasing (the list is
      -- strictly increasing at every instant), `badwriter` = answers of the single writer that differ from
      -- the sequential specification; non-zero without a convicting witness is a rejection.
      if obs == "skipped" then (st, none)
      else
        let segs := obs.splitOn " | "
        let bad := segs.findSome? fun h =>
          match words h with
          | "ws" :: i :: toks =>
            match (field i "init").bind parseInts with
            | some iv => (checkHistory model { st with init := iv } toks).map fun m =>
                s!"{m} (stack burst, list was {renderInts iv} before these calls): {st.kind} h {" ".intercalate toks}"
            | none => some s!"bad-observation {h}"
          | ["hang"] => some s!"hang: a call on {st.kind} never returned during a burst (all threads were runnable)"
          | _ => none
        match bad with
        | some m => (st, some m)
        | none =>
          match anomalies (segs.headD "") stackCounters with
          | none => (st, some s!"bad-observation {segs.headD ""}")
          | some [] => (st, none)
          | some l => (st, some s!"stack burst on {st.kind}: {" ".intercalate l} — a traversal that panicked or was not strictly increasing although the single writer keeps the list strictly increasing (or a writer answer differing from the sequence specification), no witness was extracted: {segs.headD ""}")
    | _ => (st, some s!"bad-op {op}")

end Driver.Linz
