import Driver.Util
import Ekit.Model.Lists
/-! Trace acceptor for C04 (lists). See harness/lists/main.go for the producer of the lines. -/
namespace Driver.Lists
open Ekit.Lists Ekit.Go Driver

def renderSlice (vs : List Int) : String :=
  if vs.length > 128 then s!"h{hashInts vs}" else renderInts vs

def renderOut : Out → String
  | .ok .unit => "ok"
  | .ok (.val v) => s!"ok:{v}"
  | .ok (.int n) => s!"ok:{n}"
  | .ok (.slice vs) => s!"ok:{renderSlice vs}"
  | .err e => e.render
  | .panic m => "panic:" ++ m.replace " " "_"

def parseOp (ws : List String) : Option Op :=
  match ws with
  | ["get", i] => (parseInt? i).map .get
  | ["append", ts] => (parseInts ts).map .append
  | ["add", i, t] => do pure (.add (← parseInt? i) (← parseInt? t))
  | ["set", i, t] => do pure (.set (← parseInt? i) (← parseInt? t))
  | ["delete", i] => (parseInt? i).map .delete
  | ["len"] => some .len
  | ["asslice"] => some .asSlice
  | ["range"] => some .range
  | _ => none

/-- the nested calls of `rangedo`: words separated by a lone `;` -/
def splitSemi (ws : List String) : List (List String) :=
  ws.foldr (fun w acc =>
    if w == ";" then [] :: acc
    else match acc with
      | [] => [[w]]
      | a :: r => (w :: a) :: r) [[]]

/-- `model := true`: the executable model the C04 theorems are about (checks capacity too);
    `model := false`: the abstract sequence only. -/
def checker (model : Bool) : Checker where
  σ := Option AnyList
  init := none
  step st op obs :=
    let ws := words op
    let obsVals := fieldInts obs "vals"
    let obsHash := fieldNat obs "vh"
    let obsCap := fieldNat obs "cap"
    let obsLen := fieldNat obs "len"
    -- does the observed content dump (or its hash, for long lists) describe `l`?
    let same (l : List Int) : Bool :=
      (match obsVals, obsHash with
        | some vs, _ => vs == l
        | none, some h => h == (hashInts l).toNat
        | none, none => false) && obsLen == some l.length
    let aliasOk : Bool := ws ≠ ["asslice"] || (field obs "nonnil" == some "1" && field obs "fresh" == some "1")
    match ws with
    | "new" :: kind0 :: rest =>
      -- `box-` (element type: an uncomparable struct) and `conc-` (ConcurrentList wrapper) do not change the model
      let kind := let k := if kind0.startsWith "box-" then (kind0.drop 4).toString else kind0
                  if k.startsWith "conc-" then (k.drop 5).toString else k
      let init : Option (List Int) := match kind, rest with
        | "array", [_] => some []
        | "linked", [] => some []
        | "cow", [] => some []
        | "arrayof", [ts] => parseInts ts
        | "linkedof", [ts] => parseInts ts
        | "cowof", [ts] => parseInts ts
        | _, _ => none
      match init, obsCap with
      | some iv, some c =>
        let st' : AnyList :=
          if kind.startsWith "array" then .array ⟨⟨iv, c⟩⟩
          else if kind.startsWith "cow" then .cow ⟨⟨iv, c⟩⟩ else .linked iv
        -- constructor contract: contents are the given elements; NewArrayList(cap) has exactly that capacity
        let capOk : Bool := match kind, rest with
          | "array", [cs] => (parseInt? cs) == some (c : Int)
          | "cowof", _ => c == iv.length
          | "cow", _ => c == 0
          | "linked", _ => c == 0
          | "linkedof", _ => c == iv.length
          | _, _ => iv.length ≤ c
        if resultTok obs ≠ "ok" then (none, some s!"constructor failed: {obs}")
        else if !same iv then (some st', some s!"constructor contents want {renderSlice iv}")
        else if model && !capOk then (some st', some s!"constructor capacity got {c}")
        else (some st', none)
      | _, _ => (none, some s!"bad-op-or-observation {op}")
    | ["rangemut", ks, ds, ts] =>
      -- Range whose callback, when shown index k, deletes the last element d times and appends ts
      -- (copy-on-write lists only): Range shows the contents at invocation (Spec.step .range), the
      -- nested calls are ordinary steps.
      match st, ks.toNat?, ds.toNat?, parseInts ts, obsCap with
      | some x, some k, some d, some tsv, some c =>
        let shown := renderOut (if model then (x.step c .range).2 else (Spec.step x.vals .range).2)
        let nested : List Op :=
          if k < x.vals.length then (List.replicate d ()).map (fun _ => Op.len) else []
        -- apply: d times delete(last), then append
        let x' : AnyList :=
          if k < x.vals.length then
            let afterDel := (List.range d).foldl (fun (y : AnyList) _ =>
              if model then (y.step c (.delete ((y.vals.length : Int) - 1))).1
              else match y with
                | .array a => .array ⟨⟨(Spec.step a.s.vals (.delete ((a.s.vals.length : Int) - 1))).1, a.s.cap⟩⟩
                | .cow a => .cow ⟨⟨(Spec.step a.s.vals (.delete ((a.s.vals.length : Int) - 1))).1, a.s.cap⟩⟩
                | .linked l => .linked (Spec.step l (.delete ((l.length : Int) - 1))).1) x
            if model then (afterDel.step c (.append tsv)).1
            else match afterDel with
              | .array a => .array ⟨⟨a.s.vals ++ tsv, a.s.cap⟩⟩
              | .cow a => .cow ⟨⟨a.s.vals ++ tsv, a.s.cap⟩⟩
              | .linked l => .linked (l ++ tsv)
          else x
        let _ := nested
        let got := resultTok obs
        if shown ≠ got then (some x', some s!"Range during re-entrant writes must show the snapshot: want {shown} got {got}")
        else if !same x'.vals then (some x', some s!"contents want {renderSlice x'.vals} len {x'.vals.length}")
        else if model && x'.cap ≠ c then (some x', some s!"capacity want {x'.cap} got {c}")
        else (some x', none)
      | _, _, _, _, _ => (st, some s!"bad-op {op}")
    | ["rangestop", ks] =>
      -- Range whose callback fails when shown index k: the sequence is shown in order up to and
      -- including position k, the callback's error comes back (`stop:`), nothing changes.  Both modes
      -- demand that; the model (all four Range loops return at once) also demands that nothing is
      -- shown after the failure (`more=0`).
      match st, parseInt? ks, obsCap with
      | some x, some k, some c =>
        let vs := x.vals
        let want :=
          if 0 ≤ k && k < (vs.length : Int) then s!"stop:{renderSlice (vs.take (k.toNat + 1))}"
          else s!"ok:{renderSlice vs}"
        let got := resultTok obs
        if want ≠ got then (st, some s!"Range with a failing callback: want {want} got {got}")
        else if !same vs then (st, some s!"contents want {renderSlice vs} len {vs.length}")
        else if model && x.cap ≠ c then (st, some s!"capacity want {x.cap} got {c}")
        else if model && fieldNat obs "more" ≠ some 0 then (st, some "Range went on after the callback failed")
        else (st, none)
      | _, _, _ => (st, some s!"bad-op {op}")
    | "rangedo" :: ks :: nestedWs =>
      -- Range whose callback, when shown index k, makes one or more ordinary calls (`op ; op ; …`;
      -- copy-on-write lists only): Range walks the sequence as it was when Range was called, whatever
      -- the list went through before (spare capacity left by earlier growth included) and whatever the
      -- re-entrant calls do; the nested calls are ordinary steps, each judged against the state the
      -- previous one left.
      match st, ks.toNat?, (splitSemi nestedWs).mapM parseOp, obsCap with
      | some x, some k, some os, some c =>
        let shown := s!"ok:{renderSlice x.vals}"
        let fires := decide (k < x.vals.length) && !os.isEmpty
        let (x', outs) : AnyList × List String :=
          if !fires then (x, [])
          else os.foldl (fun (acc : AnyList × List String) o =>
            let y := acc.1
            if model then let (y', out) := y.step c o; (y', acc.2 ++ [renderOut out])
            else
              let (s', out) := Spec.step y.vals o
              (match y with
                | .array a => .array ⟨⟨s', a.s.cap⟩⟩
                | .cow a => .cow ⟨⟨s', a.s.cap⟩⟩
                | .linked _ => .linked s', acc.2 ++ [renderOut out])) (x, [])
        let nestedWant := if fires then ";".intercalate outs else "-"
        let got := resultTok obs
        if shown ≠ got then (some x', some s!"Range during a re-entrant call must show the snapshot: want {shown} got {got}")
        else if field obs "nested" ≠ some nestedWant then (some x', some s!"nested call result want {nestedWant} got {field obs "nested"}")
        else if !same x'.vals then (some x', some s!"contents want {renderSlice x'.vals} len {x'.vals.length}")
        else if model && x'.cap ≠ c then (some x', some s!"capacity want {x'.cap} got {c}")
        else (some x', none)
      | _, _, _, _ => (st, some s!"bad-op {op}")
    | _ =>
      match st, parseOp ws with
      | none, _ => (none, some "no-container")
      | _, none => (st, some s!"bad-op {op}")
      | some x, some o =>
        match obsCap with
        | some c =>
          let got := resultTok obs
          -- resynchronise on the observation (when it is a full dump) so one divergence is reported once
          let resync : AnyList := match obsVals, x with
            | some vs, .array _ => .array ⟨⟨vs, c⟩⟩
            | some vs, .cow _ => .cow ⟨⟨vs, c⟩⟩
            | some vs, .linked _ => .linked vs
            | none, x => x
          if model then
            let (x', out) := x.step c o
            let want := renderOut out
            if want ≠ got then (some resync, some s!"result want {want} got {got}")
            else if !same x'.vals then (some resync, some s!"contents want {renderSlice x'.vals} len {x'.vals.length}")
            else if x'.cap ≠ c then (some resync, some s!"capacity want {x'.cap} got {c}")
            else if c < x'.vals.length then (some resync, some s!"capacity {c} below length")
            else if !aliasOk then (some x', some "AsSlice result is nil or shares storage with the list")
            else (some x', none)
          else
            let (s', out) := Spec.step x.vals o
            let want := renderOut out
            let keep : AnyList := match x with
              | .array _ => .array ⟨⟨s', c⟩⟩
              | .cow _ => .cow ⟨⟨s', c⟩⟩
              | .linked _ => .linked s'
            if want ≠ got then (some resync, some s!"result want {want} got {got}")
            else if !same s' then (some resync, some s!"contents want {renderSlice s'} len {s'.length}")
            else if !aliasOk then (some keep, some "AsSlice result is nil or shares storage with the list")
            else (some keep, none)
        | none => (st, some "bad-observation")

end Driver.Lists
