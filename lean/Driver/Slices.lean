import Driver.Util
import Ekit.Model.Slices
import Ekit.Model.SlicesKV
import Ekit.Spec.Slices
/-!
Trace acceptor for C16 (slice / mapx / pair helpers). Producer of the lines: harness/slices/main.go.

A case is `new <i|s> <src> <dst>` (element type int or string; a slice is `nil`, `-` (empty) or
`x,y,z`); every following line calls one function on fresh copies of that `src`/`dst`.
`model = true`: the observation must be what the executable model functions of
`Ekit/Model/Slices.lean`, `SlicesKV.lean` compute (results of the map-based functions up to the
runtime's enumeration order; results of the quadratic variants literally; white-box facts: non-nil
results, in-place effects, aliasing, capacity).  `model = false`: only `Ekit.Slices.Spec`.
-/
namespace Driver.Slices
open Ekit.Slices Ekit.Go Driver

/-- the element types of the harness and their function families (mirrored in harness/slices/main.go) -/
class Elem (α : Type) where
  parse : String → Option α
  render : α → String
  /-- `eq:k ne:k lt:k mod:m:r t f` -/
  pred : List String → Option (α → Bool)
  /-- equality functions `equal(src, dst)`, with "is an equivalence relation" -/
  eqv : List String → Option ((α → α → Bool) × Bool)
  /-- index-aware transformations `id addidx dbl` -/
  tf : List String → Option (Nat → α → α)
  /-- key functions -/
  kf : List String → Option (α → α)
  zero : α

instance : Elem Int where
  parse := String.toInt?
  render := toString
  zero := 0
  pred
    | ["eq", k] => k.toInt?.map fun k x => decide (x = k)
    | ["ne", k] => k.toInt?.map fun k x => decide (x ≠ k)
    | ["lt", k] => k.toInt?.map fun k x => decide (x < k)
    | ["mod", m, r] => do
      let m ← m.toInt?; let r ← r.toInt?
      if m = 0 then none else pure fun x => decide (Int.tmod x m = r)
    | ["t"] => some fun _ => true
    | ["f"] => some fun _ => false
    | _ => none
  eqv
    | ["eq"] => some (fun a b => decide (a = b), true)
    | ["mod", k] => do
      let k ← k.toInt?
      if k = 0 then none else pure (fun a b => decide (Int.tmod a k = Int.tmod b k), true)
    | ["abs"] => some (fun a b => decide (a.natAbs = b.natAbs), true)
    | ["le"] => some (fun a b => decide (a ≤ b), false)
    | ["t"] => some (fun _ _ => true, true)
    | ["f"] => some (fun _ _ => false, false)
    | _ => none
  tf
    | ["id"] => some fun _ x => x
    | ["addidx"] => some fun i x => x + (i : Int)
    | ["dbl"] => some fun _ x => 2 * x
    | _ => none
  kf
    | ["id"] => some fun x => x
    | ["mod", k] => do
      let k ← k.toInt?
      if k = 0 then none else pure fun x => Int.tmod x k
    | ["abs"] => some fun x => (x.natAbs : Int)
    | ["const"] => some fun _ => 0
    | ["dbl"] => some fun x => 2 * x
    | _ => none

instance : Elem String where
  parse s := if s = "" ∨ s = "nil" ∨ s = "-" then none else some s
  render s := s
  zero := ""
  pred
    | ["eq", k] => some fun x => decide (x = k)
    | ["ne", k] => some fun x => decide (x ≠ k)
    | ["lt", k] => some fun x => decide (x < k)
    | ["t"] => some fun _ => true
    | ["f"] => some fun _ => false
    | _ => none
  eqv
    | ["eq"] => some (fun a b => decide (a = b), true)
    | ["grp"] => some (fun a b => decide (a < "b") == decide (b < "b"), true)
    | ["le"] => some (fun a b => decide (a ≤ b), false)
    | ["t"] => some (fun _ _ => true, true)
    | ["f"] => some (fun _ _ => false, false)
    | _ => none
  tf
    | ["id"] => some fun _ x => x
    | ["addidx"] => some fun i x => x ++ toString i
    | ["dbl"] => some fun _ x => x ++ x
    | _ => none
  kf
    | ["id"] => some fun x => x
    | ["grp"] => some fun x => if x < "b" then "a" else "b"
    | ["const"] => some fun _ => "k"
    | ["dbl"] => some fun x => x ++ x
    | _ => none

section
variable {α : Type} [Elem α]

/-- `nil` / `-` / `x,y` ; outer `none` = unparsable -/
def parseSlice (s : String) : Option (Option (List α)) :=
  if s = "nil" then some none
  else if s = "-" then some (some [])
  else ((s.splitOn ",").mapM Elem.parse).map some

def renderList (l : List α) : String :=
  if l.isEmpty then "-" else ",".intercalate (l.map Elem.render)

def renderSlice : Option (List α) → String
  | none => "nil"
  | some l => renderList l

def renderPairs (l : List (α × α)) : String :=
  if l.isEmpty then "-" else ",".intercalate (l.map fun p => Elem.render p.1 ++ ":" ++ Elem.render p.2)

def parsePair (s : String) : Option (α × α) :=
  match s.splitOn ":" with
  | [k, v] => do pure ((← Elem.parse k), (← Elem.parse v))
  | _ => none

def parsePairs (s : String) : Option (Option (List (α × α))) :=
  if s = "nil" then some none
  else if s = "-" then some (some [])
  else ((s.splitOn ",").mapM parsePair).map some

/-- index-aware predicates: `ieven`, `ilt:k`, or a value predicate -/
def ipred (ws : List String) : Option (Nat → α → Bool) :=
  match ws with
  | ["ieven"] => some fun i _ => i % 2 == 0
  | ["ilt", k] => k.toNat?.map fun k i _ => decide (i < k)
  | _ => (Elem.pred ws : Option (α → Bool)).map fun p _ x => p x
end

def chk (b : Bool) (msg : String) : Option String := if b then none else some msg
def firstBad : List (Option String) → Option String
  | [] => none
  | some m :: _ => some m
  | none :: r => firstBad r

def renderPanic (m : String) : String :=
  if m = panicIndex then "panic:index" else if m = panicCast then "panic:type"
  else if m = "slice bounds out of range" then "panic:bounds" else "panic:other"

def okPayload (obs : String) : Option String :=
  let t := resultTok obs
  if t.startsWith "ok:" then some (t.drop 3).toString else none

def colon (s : String) : List String := s.splitOn ":"

/-- injective recoding of arbitrary elements as `Int` for the element-agnostic `internal/slice`
    models (`Ekit.Lists.sliceAdd/sliceDelete` are stated over `Int`); 0 is the zero value -/
def encode {α} [DecidableEq α] (tbl : List α) (x : α) : Int := (tbl.idxOf x : Int) + 1
def decode {α} [Elem α] (tbl : List α) (n : Int) : α :=
  if n ≤ 0 then Elem.zero else tbl.getD (n.toNat - 1) Elem.zero

/-- one call on the case's `src`, `dst`; `none` = accepted -/
def stepElem {α : Type} [DecidableEq α] [Elem α] (model : Bool) (ty : String)
    (src dst : Option (List α)) (ws : List String) (obs : String) : Option String :=
  let S := src.getD []
  let D := dst.getD []
  let tok := resultTok obs
  let mutOk := chk (field obs "mut" == some "0") "an argument was modified by a function that is not documented to work in place"
  let nn1 : Bool := field obs "nn" == some "1"
  -- white-box: every non-in-place function builds its result with `make` (model mode only)
  let freshOk := chk (!model || field obs "alias" == some "0") "result shares its backing array with an argument"
  let nnOk (fn : Fn) := chk (!promisedNonNil fn || nn1) "nil result where a non-nil one is promised"
  let gotList : Option (List α) := (okPayload obs).bind fun p => (parseSlice p).bind id
  let gotInts : Option (List Int) := (okPayload obs).bind parseInts
  let gotPairs : Option (List (α × α)) := (okPayload obs).bind fun p => (parsePairs p).bind id
  let argAfter : Option (List α) := (field obs "arg").bind fun p => (parseSlice p).bind id
  -- a result that came out of a Go map: any enumeration of the model's key set / exactly the set
  let setOp (keys : List α) (spec : List α → Bool) (fn : Fn) : Option String :=
    match gotList with
    | none => some "bad-observation"
    | some r => firstBad [mutOk, nnOk fn, freshOk,
        if model then chk (r.isPerm keys) s!"result want an enumeration of {renderList keys}"
        else chk (spec r) "result is not exactly the required set without duplicates"]
  -- a result of a quadratic variant: literally the model's list / representatives of the right classes
  let funcOp (e : List String) (f : (α → α → Bool) → List α) (want : (α → α → Bool) → List α) (fn : Fn) : Option String :=
    match gotList, (Elem.eqv e : Option ((α → α → Bool) × Bool)) with
    | some r, some (eq, isEquiv) => firstBad [mutOk, nnOk fn, freshOk,
        if model then chk (r == f eq) s!"result want {renderList (f eq)}"
        else chk (!isEquiv || Spec.isRepsOf r (S ++ D) (want eq) eq) "result is not one representative per required class"]
    | _, _ => some "bad-op-or-observation"
  -- the documentation only says "nil in, nil out": in spec mode an empty non-nil result may also be nil
  let sameNil (got : Option String) (want : String) : Bool :=
    got == some want || (!model && want == "-" && got == some "nil")
  let boolOp (m s : Bool) : Option String :=
    firstBad [mutOk, chk (tok == s!"ok:{if model then m else s}") s!"result want {if model then m else s}"]
  let intOp (m : Outcome Int) (s : Int) : Option String :=
    let want := if model then (match m with | .ok n => s!"ok:{n}" | .err e => e.render | .panic p => renderPanic p) else s!"ok:{s}"
    firstBad [mutOk, chk (tok == want) s!"result want {want}"]
  let listOp (m : Outcome (List α)) (s : List α) (fn : Fn) : Option String :=
    match (if model then m else .ok s) with
    | .ok w => firstBad [mutOk, nnOk fn, freshOk, chk (gotList == some w) s!"result want {renderList w}"]
    | .err e => some s!"model error {e.render}"
    | .panic p => chk (tok == renderPanic p) s!"result want {renderPanic p}"
  let mapOp (m : AMap α α) (kvs : List (α × α)) : Option String :=
    match gotPairs with
    | none => some "bad-observation"
    | some r => firstBad [mutOk, nnOk .toMap,
        if model then chk (r.isPerm m) s!"result want the map {renderPairs m}"
        else chk (Spec.isMapOf r kvs) "result is not the map in which later duplicates win"]
  match ws with
  | ["union"] => setOp (unionSet S D) (Spec.union · S D) .unionSet
  | ["intersect"] => setOp (intersectSet S D) (Spec.inter · S D) .intersectSet
  | ["diff"] => setOp (diffSet S D) (Spec.diff · S D) .diffSet
  | ["symdiff"] => setOp (symDiffSet S D) (Spec.symDiff · S D) .symDiffSet
  | ["unionf", e] => funcOp (colon e) (unionSetFunc S D) (fun _ => Spec.unionWant S D) .unionSetFunc
  | ["intersectf", e] => funcOp (colon e) (intersectSetFunc S D) (Spec.interWant S D) .intersectSetFunc
  | ["difff", e] => funcOp (colon e) (diffSetFunc S D) (Spec.diffWant S D) .diffSetFunc
  | ["symdifff", e] => funcOp (colon e) (symDiffSetFunc S D) (Spec.symWant S D) .symDiffSetFunc
  | ["containsany"] => boolOp (containsAny S D) (Spec.containsAny S D (fun a b => decide (a = b)))
  | ["containsall"] => boolOp (containsAll S D) (Spec.containsAll S D (fun a b => decide (a = b)))
  | ["containsanyf", e] =>
    match (Elem.eqv (colon e) : Option ((α → α → Bool) × Bool)) with
    | some (eq, _) => boolOp (containsAnyFunc S D eq) (Spec.containsAny S D eq)
    | none => some "bad-op"
  | ["containsallf", e] =>
    match (Elem.eqv (colon e) : Option ((α → α → Bool) × Bool)) with
    | some (eq, _) => boolOp (containsAllFunc S D eq) (Spec.containsAll S D eq)
    | none => some "bad-op"
  | ["contains", x] =>
    match (Elem.parse x : Option α) with
    | some x => boolOp (contains S x) (S.contains x)
    | none => some "bad-op"
  | ["containsf", p] =>
    match (Elem.pred (colon p) : Option (α → Bool)) with
    | some p => boolOp (containsFunc S p) (S.any p)
    | none => some "bad-op"
  | ["index", x] =>
    match (Elem.parse x : Option α) with
    | some x => intOp (.ok (index S x)) (Spec.index S (fun s => decide (s = x)))
    | none => some "bad-op"
  | ["indexf", p] =>
    match (Elem.pred (colon p) : Option (α → Bool)) with
    | some p => intOp (.ok (indexFunc S p)) (Spec.index S p)
    | none => some "bad-op"
  | ["lastindex", x] =>
    match (Elem.parse x : Option α) with
    | some x => intOp (lastIndex S x) (Spec.lastIndex S (fun s => decide (s = x)))
    | none => some "bad-op"
  | ["lastindexf", p] =>
    match (Elem.pred (colon p) : Option (α → Bool)) with
    | some p => intOp (lastIndexFunc S p) (Spec.lastIndex S p)
    | none => some "bad-op"
  | ["indexall", x] =>
    match (Elem.parse x : Option α) with
    | some x =>
      let w := if model then indexAll S x else Spec.indexAll S (fun s => decide (s = x))
      firstBad [mutOk, nnOk .indexAll, chk (gotInts == some w) s!"result want {renderInts w}"]
    | none => some "bad-op"
  | ["indexallf", p] =>
    match (Elem.pred (colon p) : Option (α → Bool)) with
    | some p =>
      let w := if model then indexAllFunc S p else Spec.indexAll S p
      firstBad [mutOk, nnOk .indexAll, chk (gotInts == some w) s!"result want {renderInts w}"]
    | none => some "bad-op"
  | ["find", p] =>
    match (Elem.pred (colon p) : Option (α → Bool)) with
    | some p =>
      let w := if model then find S p else S.find? p
      let want := match w with | some v => "ok:" ++ Elem.render v | none => "none"
      firstBad [mutOk, chk (tok == want) s!"result want {want}"]
    | none => some "bad-op"
  | ["findall", p] =>
    match (Elem.pred (colon p) : Option (α → Bool)) with
    | some p =>
      if model then
        match findAll S p with
        | some w => firstBad [mutOk, freshOk, chk nn1 "nil result where a non-nil one is promised", chk (gotList == some w) s!"result want {renderList w}"]
        | none => chk (!nn1) "result want nil"
      else listOp (.ok []) (S.filter p) .findAll
    | none => some "bad-op"
  | ["filtermap", t, p] =>
    match (Elem.tf (colon t) : Option (Nat → α → α)), (ipred (colon p) : Option (Nat → α → Bool)) with
    | some t, some p =>
      let m : Nat → α → α × Bool := fun i x => (t i x, p i x)
      listOp (.ok (filterMap S m)) (Spec.filterMap S m) .filterMap
    | _, _ => some "bad-op"
  | ["map", t] =>
    match (Elem.tf (colon t) : Option (Nat → α → α)) with
    | some t =>
      haveI : Inhabited α := ⟨Elem.zero⟩
      listOp (mapFn S t) (Spec.map S t) .map
    | none => some "bad-op"
  | ["reverse"] => listOp (reverse S) S.reverse .reverse
  | ["reverseself"] =>
    -- documented in-place: the argument afterwards is the reversal
    match (if model then reverseSelf S else .ok S.reverse) with
    | .ok w => firstBad [chk (tok == "ok") "result want ok", chk (argAfter == some w) s!"argument afterwards want {renderList w}",
                         chk (field obs "mutdst" == some "0") "the other argument was modified",
                         chk (!model || field obs "tail" == some "0") "slots beyond len(src) were written"]
    | .err e => some s!"model error {e.render}"
    | .panic p => chk (tok == renderPanic p) s!"result want {renderPanic p}"
  | ["filterdelete", p] =>
    match (ipred (colon p) : Option (Nat → α → Bool)) with
    | some p =>
      if model then
        match filterDelete S p with
        | .ok (res, arg) => firstBad [chk (gotList == some res) s!"result want {renderList res}",
            chk (argAfter == some arg) s!"argument afterwards want {renderList arg}",
            chk (field obs "tail" == some "0") "slots beyond len(src) were written"]
        | .err e => some s!"model error {e.render}"
        | .panic m => chk (tok == renderPanic m) s!"result want {renderPanic m}"
      else chk (gotList == some (Spec.filterDelete S p)) s!"result want {renderList (Spec.filterDelete S p)}"
    | none => some "bad-op"
  | ["add", x, i, extra] =>
    match (Elem.parse x : Option α), parseInt? i, extra.toNat? with
    | some x, some i, some extra =>
      if model then
        let tbl := S ++ [x]
        let enc := encode tbl
        let dec := decode tbl
        -- the runtime's capacity choice (oracle), constrained below by `capacity ≥ length`
        match some ((fieldNat obs "cap").getD 0) with
        | none => some "bad-observation"
        | some grow =>
          match addAt ⟨S.map enc, if src.isNone then 0 else S.length + extra⟩ (enc x) i grow with
          | .ok (r, arg, shares) =>
            firstBad [chk (gotList == some (r.vals.map dec)) s!"result want {renderList (r.vals.map dec)}",
              chk (r.cap == grow) s!"capacity want {r.cap}",
              chk (r.vals.length ≤ grow) "capacity below length",
              chk (argAfter == some (arg.map dec)) s!"argument afterwards want {renderList (arg.map dec)}",
              chk (field obs "alias" == some (if shares then "1" else "0")) s!"aliasing want {shares}",
              chk (shares || field obs "mut" == some "0") "the argument's backing array (capacity window) was written although append had to allocate"]
          | .err e => firstBad [chk (tok == e.render) s!"result want {e.render}", chk (argAfter == some S) "argument modified by a failing call",
              chk (field obs "mut" == some "0") "a failing call wrote into the argument's backing array (capacity window)"]
          | .panic m => chk (tok == renderPanic m) s!"result want {renderPanic m}"
      else
        match Spec.add S x i with
        | .ok w =>
          -- Add is not documented to work in place: the argument may only differ afterwards where the result itself
          -- lives in the argument's backing array (spare capacity)
          let shares := field obs "alias" == some "1"
          firstBad [chk (gotList == some w) s!"result want {renderList w}",
            chk (match argAfter with | some a => Spec.addArgOk S a w shares | none => false)
              s!"Add modified its argument (afterwards {(field obs "arg").getD "?"}, was {renderList S}) although the result does not live in the argument's backing array; Add is not documented to work in place",
            chk (shares || field obs "mut" == some "0")
              "Add wrote into its argument's backing array (capacity window) although the result lives elsewhere; Add is not documented to work in place"]
        | .err e => firstBad [chk (tok == e.render) s!"result want {e.render}", chk (argAfter == some S) "argument modified by a failing call",
              chk (field obs "mut" == some "0") "a failing call wrote into the argument's backing array (capacity window)"]
        | .panic _ => some "spec"
    | _, _, _ => some "bad-op"
  | ["add2", x, i, y, j, extra] =>
    -- two results derived from one base slice: r1 = Add(base, x, i), then r2 = Add(base, y, j), then r1 is read again
    match (Elem.parse x : Option α), parseInt? i, (Elem.parse y : Option α), parseInt? j, extra.toNat? with
    | some x, some i, some y, some j, some extra =>
      let listField (k : String) : Option (List α) := (field obs k).bind fun p => (parseSlice p).bind id
      let arg1 := listField "arg1"
      let r1after := listField "r1after"
      let r2 := field obs "r2"
      let failing (e : Err) := firstBad [chk (tok == e.render) s!"result want {e.render}", chk (argAfter == some S) "argument modified by a failing call",
              chk (field obs "mut" == some "0") "a failing call wrote into the argument's backing array (capacity window)"]
      if model then
        let tbl := S ++ [x, y]
        let enc := encode tbl
        let dec := decode tbl
        let cap0 := if src.isNone then 0 else S.length + extra
        match addAt ⟨S.map enc, cap0⟩ (enc x) i ((fieldNat obs "cap").getD 0) with
        | .ok (r1, a1, sh1) =>
          let first := firstBad [chk (gotList == some (r1.vals.map dec)) s!"first result want {renderList (r1.vals.map dec)}",
            chk (fieldNat obs "cap" == some r1.cap) s!"capacity want {r1.cap}",
            chk (r1.vals.length ≤ r1.cap) "capacity below length",
            chk (arg1 == some (a1.map dec)) s!"base after the first call want {renderList (a1.map dec)}",
            chk (field obs "alias" == some (if sh1 then "1" else "0")) s!"aliasing want {sh1}"]
          let second :=
            match addAt ⟨a1, cap0⟩ (enc y) j ((fieldNat obs "cap2").getD 0) with
            | .ok (r2m, a2, sh2) =>
              let r1a := if sh1 && sh2 then r2m.vals else r1.vals
              firstBad [chk (r2 == some ("ok:" ++ renderList (r2m.vals.map dec))) s!"second result want {renderList (r2m.vals.map dec)}",
                chk (fieldNat obs "cap2" == some r2m.cap) s!"second capacity want {r2m.cap}",
                chk (r2m.vals.length ≤ r2m.cap) "second capacity below length",
                chk (field obs "alias2" == some (if sh2 then "1" else "0")) s!"second aliasing want {sh2}",
                chk (field obs "alias12" == some (if sh1 && sh2 then "1" else "0")) s!"the two results share storage: want {sh1 && sh2}",
                chk (argAfter == some (a2.map dec)) s!"base afterwards want {renderList (a2.map dec)}",
                chk (r1after == some (r1a.map dec)) s!"first result read again want {renderList (r1a.map dec)}"]
            | .err e => firstBad [chk (r2 == some e.render) s!"second result want {e.render}",
                chk (field obs "nn2" == some "0") "non-nil result of a failing call",
                chk (argAfter == some (a1.map dec)) "base modified by a failing call",
                chk (r1after == some (r1.vals.map dec)) "first result modified by a failing call"]
            | .panic m => chk (r2 == some (renderPanic m)) s!"second result want {renderPanic m}"
          firstBad [first, second]
        | .err e => failing e
        | .panic m => chk (tok == renderPanic m) s!"result want {renderPanic m}"
      else
        match Spec.add S x i with
        | .ok w1 =>
          let sh1 := field obs "alias" == some "1"
          -- what the caller may see through its slice after the first call (see `Spec.addArgOk`)
          let base := if sh1 then w1.take S.length else S
          let first := firstBad [chk (gotList == some w1) s!"first result want {renderList w1}",
            chk (match arg1 with | some a => Spec.addArgOk S a w1 sh1 | none => false)
              s!"Add modified its argument (afterwards {(field obs "arg1").getD "?"}, was {renderList S}) although the result does not live in the argument's backing array; Add is not documented to work in place"]
          let second :=
            match Spec.add base y j with
            | .ok w2 => firstBad [
                chk (r2 == some ("ok:" ++ renderList w2))
                  s!"a second Add on the same base slice {renderList base} gave {(r2.getD "?")}, want {renderList w2}: the first Add changed its argument",
                chk (sh1 || r1after == some w1)
                  s!"the first result (in storage of its own) reads {(field obs "r1after").getD "?"} after the base slice was used again, want {renderList w1}"]
            | .err e => firstBad [chk (r2 == some e.render) s!"second result want {e.render}",
                chk (argAfter == some base) "base modified by a failing call",
                chk (r1after == some w1) "first result modified by a failing call"]
            | .panic _ => some "spec"
          firstBad [first, second]
        | .err e => failing e
        | .panic _ => some "spec"
    | _, _, _, _, _ => some "bad-op"
  | ["delete", i] =>
    match parseInt? i with
    | some i =>
      if model then
        let tbl := S
        let enc := encode tbl
        let dec := decode tbl
        match deleteAt ⟨S.map enc, S.length⟩ i with
        | .ok (r, arg) =>
          firstBad [chk (gotList == some (r.vals.map dec)) s!"result want {renderList (r.vals.map dec)}",
            chk (argAfter == some (arg.map dec)) s!"argument afterwards want {renderList (arg.map dec)}",
            chk (field obs "tail" == some "0") "slots beyond len(src) were written"]
        | .err e => firstBad [chk (tok == e.render) s!"result want {e.render}", chk (argAfter == some S) "argument modified by a failing call",
              chk (field obs "mut" == some "0") "a failing call wrote into the argument's backing array (capacity window)"]
        | .panic m => chk (tok == renderPanic m) s!"result want {renderPanic m}"
      else
        match Spec.delete S i with
        | .ok w => chk (gotList == some w) s!"result want {renderList w}"
        | .err e => firstBad [chk (tok == e.render) s!"result want {e.render}", chk (argAfter == some S) "argument modified by a failing call",
              chk (field obs "mut" == some "0") "a failing call wrote into the argument's backing array (capacity window)"]
        | .panic _ => some "spec"
    | none => some "bad-op"
  | ["tomap", k] =>
    match (Elem.kf (colon k) : Option (α → α)) with
    | some k => mapOp (toMapK S k) (S.map fun e => (k e, e))
    | none => some "bad-op"
  | ["tomapv", k, v] =>
    match (Elem.kf (colon k) : Option (α → α)), (Elem.kf (colon v) : Option (α → α)) with
    | some k, some v => mapOp (toMapV S fun e => (k e, v e)) (S.map fun e => (k e, v e))
    | _, _ => some "bad-op"
  -- mapx: keys = src, values = dst
  | ["mx.tomap"] =>
    if model then
      match mxToMap src dst with
      | .ok m =>
        match gotPairs with
        | some r => firstBad [mutOk, chk nn1 "nil map", chk (r.isPerm m) s!"result want the map {renderPairs m}"]
        | none => some s!"result want the map {renderPairs m}"
      | .err e => firstBad [mutOk, chk (tok == e.render) s!"result want {e.render}"]
      | .panic m => chk (tok == renderPanic m) s!"result want {renderPanic m}"
    else
      match src, dst with
      | some ks, some vs =>
        if ks.length ≠ vs.length then firstBad [mutOk, chk (tok.startsWith "err:") "result want an error (length mismatch)"]
        else
          match gotPairs with
          | some r => firstBad [mutOk, chk nn1 "nil map", chk (Spec.isMapOf r (ks.zip vs)) "result is not the map in which later duplicates win"]
          | none => some "result want a map"
      | _, _ => firstBad [mutOk, chk (tok.startsWith "err:") "result want an error (nil argument)"]
  | "mx.keys" :: _ | "mx.values" :: _ | "mx.keysvalues" :: _ | "mx.roundtrip" :: _ =>
    -- the argument map is the one binding src[i] ↦ dst[i] (later duplicates win), built by the harness itself
    if S.length ≠ D.length then some "bad-op (mapx case needs equally long src/dst)" else
    haveI : Inhabited α := ⟨Elem.zero⟩
    let m : AMap α α := (S.zip D).foldl (fun m e => amPut m e.1 e.2) []
    match ws with
    | ["mx.keys"] =>
      match gotList with
      | some r => firstBad [mutOk,
          if model then chk (r.isPerm (mxKeys (amKeys m))) s!"result want an enumeration of {renderList (amKeys m)}"
          else chk (Ekit.Slices.Spec.isSetOf r S (fun x => decide (x ∈ S))) "result is not exactly the key set"]
      | none => some "bad-observation"
    | ["mx.values"] =>
      match gotList with
      | some r => firstBad [mutOk,
          chk (r.isPerm (if model then mxValues m (amKeys m) else m.map (·.2))) s!"result want an enumeration of {renderList (m.map (·.2))}"]
      | none => some "bad-observation"
    | ["mx.keysvalues"] =>
      -- the harness prints the index-aligned (keys[i], values[i]) pairs
      match gotPairs with
      | some r =>
        let it := r.map (·.1)
        firstBad [mutOk, chk (field obs "lk" == field obs "lv") "keys and values differ in length",
          if model then
            firstBad [chk (it.isPerm (amKeys m)) s!"keys want an enumeration of {renderList (amKeys m)}",
                      chk ((mxKeysValues m it) == (it, r.map (·.2))) "values are not index-aligned with the keys"]
          else chk (r.isPerm m) s!"result want the entries {renderPairs m}"]
      | none => some "bad-observation"
    | ["mx.roundtrip"] =>
      -- ToMap(KeysValues(m)) is m again
      match gotPairs with
      | some r => firstBad [mutOk, chk (r.isPerm m) s!"result want the map {renderPairs m}"]
      | none => some "bad-observation"
    | _ => some "bad-op"
  -- pair: keys = src, values = dst
  | ["pr.new"] =>
    haveI : Inhabited α := ⟨Elem.zero⟩
    let want : Outcome (List (α × α)) :=
      if model then newPairs src dst
      else match src, dst with
        | some ks, some vs => if ks.length = vs.length then .ok (ks.zip vs) else .err errLen
        | _, _ => .err errNil
    match want with
    | .ok w => firstBad [mutOk, chk (gotPairs == some w) s!"result want {renderPairs w}"]
    | .err e => firstBad [mutOk, chk (if model then tok == e.render else tok.startsWith "err:") s!"result want {e.render}"]
    | .panic m => chk (tok == renderPanic m) s!"result want {renderPanic m}"
  | ["pr.split"] =>
    -- pairs = zip(src, dst) (nil when src is nil)
    haveI : Inhabited α := ⟨Elem.zero⟩
    let pairs : Option (List (α × α)) := src.map fun ks => ks.zip D
    let want : Outcome (Option (List α) × Option (List α)) :=
      if model then splitPairs pairs
      else .ok (pairs.map (·.map (·.1)), pairs.map (·.map (·.2)))
    match want with
    | .ok (ks, vs) =>
      firstBad [chk (field obs "mutp" == some "0") "the argument was modified",
        chk (tok == "ok") "result want ok",
        chk (sameNil (field obs "k") (renderSlice ks)) s!"keys want {renderSlice ks}",
        chk (sameNil (field obs "v") (renderSlice vs)) s!"values want {renderSlice vs}",
        chk (field obs "rt" == some "ok" || field obs "rt" == some "na" || field obs "rt" == none)
          s!"NewPairs(SplitPairs(p)) did not give p back for a non-nil p ({(field obs "rt").getD "?"}): the pair conversions are not mutually inverse"]
    | .err e => some s!"model error {e.render}"
    | .panic m => chk (tok == renderPanic m) s!"result want {renderPanic m}"
  | ["pr.flatten"] =>
    let pairs : Option (List (α × α)) := src.map fun ks => ks.zip D
    let inj : α → String := fun x => ty ++ ":" ++ Elem.render x
    let want : Option (List String) :=
      if model then flattenPairs inj inj pairs
      else pairs.map fun ps => ps.flatMap fun p => [inj p.1, inj p.2]
    let wantS := match want with | none => "nil" | some l => if l.isEmpty then "-" else ",".intercalate l
    firstBad [chk (field obs "mutp" == some "0") "the argument was modified", chk (sameNil (okPayload obs) wantS) s!"result want {wantS}"]
  | _ => some s!"bad-op {ws}"

/-- PackPairs[K,V] on a list of dynamically typed tokens `i:5`, `s:a`, `n` (independent of the case) -/
def stepPack (model : Bool) (kt vt flat : String) (obs : String) : Option String :=
  let tok := resultTok obs
  let packMutOk := chk (field obs "mut" == some "0") "PackPairs wrote into its argument (not documented to work in place)"
  let fl : Option (List String) := if flat = "nil" then none else if flat = "-" then some [] else some (flat.splitOn ",")
  let cast (t : String) (a : String) : Option String := if a.startsWith (t ++ ":") then some (a.drop 2).toString else none
  let render (l : Option (List (String × String))) : String :=
    match l with
    | none => "nil"
    | some l => if l.isEmpty then "-" else ",".intercalate (l.map fun p => p.1 ++ ":" ++ p.2)
  let wellTyped : Bool := match fl with
    | none => true
    | some l => (List.range (l.length / 2)).all fun i => (cast kt (l.getD (2 * i) "")).isSome && (cast vt (l.getD (2 * i + 1) "")).isSome
  if model then
    match packPairs (cast kt) (cast vt) fl with
    | .ok w => firstBad [chk (tok == "ok:" ++ render w) s!"result want {render w}", packMutOk]
    | .err e => some s!"model error {e.render}"
    | .panic m => chk (tok == renderPanic m) s!"result want {renderPanic m}"
  else if !wellTyped then none   -- documented: panics; nothing is demanded
  else
    let want : Option (List (String × String)) := fl.map fun l =>
      (List.range (l.length / 2)).map fun i => (((l.getD (2 * i) "").drop 2).toString, ((l.getD (2 * i + 1) "").drop 2).toString)
    firstBad [chk (tok == "ok:" ++ render want || (render want == "-" && tok == "ok:nil")) s!"result want {render want}", packMutOk]

def stepInts (model : Bool) (S : List Int) (ws : List String) (obs : String) : Option String :=
  let tok := resultTok obs
  let mutOk := chk (field obs "mut" == some "0") "an argument was modified by a function that is not documented to work in place"
  let gotInt : Option Int := (okPayload obs).bind parseInt?
  match ws with
  | ["max"] =>
    if model then
      match maxOf S with
      | .ok m => firstBad [mutOk, chk (tok == s!"ok:{m}") s!"result want {m}"]
      | .err e => some s!"model error {e.render}"
      | .panic p => chk (tok == renderPanic p) s!"result want {renderPanic p}"
    else if S.isEmpty then none     -- documented precondition: at least one value
    else match gotInt with
      | some m => firstBad [mutOk, chk (Spec.maxOk S m) "result is not the maximum"]
      | none => some "result want the maximum"
  | ["min"] =>
    if model then
      match minOf S with
      | .ok m => firstBad [mutOk, chk (tok == s!"ok:{m}") s!"result want {m}"]
      | .err e => some s!"model error {e.render}"
      | .panic p => chk (tok == renderPanic p) s!"result want {renderPanic p}"
    else if S.isEmpty then none
    else match gotInt with
      | some m => firstBad [mutOk, chk (Spec.minOk S m) "result is not the minimum"]
      | none => some "result want the minimum"
  | ["sum"] =>
    let w := if model then sumOf S else S.sum
    firstBad [mutOk, chk (tok == s!"ok:{w}") s!"result want {w}"]
  | _ => some "bad-op"

structure Case where
  ty : String
  src : String
  dst : String
  deriving Inhabited

def checker (model : Bool) : Checker where
  σ := Option Case
  init := none
  step st op obs :=
    let ws := words op
    match ws with
    | ["new", ty, src, dst] =>
      let okTy := ty == "i" || ty == "s"
      let okArgs := if ty == "i" then (parseSlice (α := Int) src).isSome && (parseSlice (α := Int) dst).isSome
                    else (parseSlice (α := String) src).isSome && (parseSlice (α := String) dst).isSome
      if okTy && okArgs && resultTok obs == "ok" then (some ⟨ty, src, dst⟩, none)
      else (none, some s!"bad-case {op} => {obs}")
    | ["pr.pack", kt, vt, flat] => (st, stepPack model kt vt flat obs)
    | _ =>
      match st with
      | none => (none, some "no-case")
      | some c =>
        if c.ty == "i" then
          match parseSlice (α := Int) c.src, parseSlice (α := Int) c.dst with
          | some s, some d =>
            match ws with
            | ["max"] | ["min"] | ["sum"] => (st, stepInts model (s.getD []) ws obs)
            | _ => (st, stepElem model "i" s d ws obs)
          | _, _ => (st, some "bad-case")
        else
          match parseSlice (α := String) c.src, parseSlice (α := String) c.dst with
          | some s, some d => (st, stepElem model "s" s d ws obs)
          | _, _ => (st, some "bad-case")

end Driver.Slices
