import Driver.Util
import Ekit.Model.Races
/-! Trace acceptor for C15 (data races). Producer of the lines: harness/races/main.go.

    new pair <Type> <M1> <M2> <iters> => clean | race:<frames> | panic:… | hang
    new stress <Type> <iters>        => clean | …      (4 workers, all methods)
    new seq <Type> <iters>           => clean | …      (writer sequences against readers)
    new directed <Type> <M1> <M2> <iters> => clean | … (directed search of checklib/props/C15.py)
    new fresh <Type> <Form> <rounds> => clean | …      (first uses of new, unprimed instances built in construction
                                                        form <Form> come from 2-4 goroutines; all method pairs in turn)
    new matrix <Type> <M1,M2,…>      => clean          (the methods the pair matrix goes through)
    new types <T1,T2,…>              => clean          (the types the matrix covers)

`spec` mode: the property itself — no data race (and no crash caused by one) was observed for the workload.
`model` mode: additionally the regenerated access table must know both methods and declare the pair
conflict-free (`pairOk`, the function `disciplinedBy_pairOk` / `c15_pairs_conflict_free` are about), and every
method the matrix lists must be an entry of the regenerated table (`listedVerdict`). -/
namespace Driver.Races
open Driver Ekit.Races Ekit.Conc.AccessTable

def checker (model : Bool) : Checker where
  σ := Unit
  init := ()
  step _ op obs :=
    let r := resultTok obs
    let dyn (what : String) : Option String :=
      -- `hang` = the workload did not finish within the (very generous) budget: no verdict, never a violation
      if r == "clean" || r == "hang" then none
      else if r.startsWith "race:" then some s!"DATA RACE in {what}: {r}"
      else some s!"{what} did not complete cleanly: {r}"
    match words op with
    | ["new", "pair", t, m₁, m₂, _] =>
      match dyn s!"{t}.{m₁} || {t}.{m₂}" with
      | some msg => ((), some msg)
      | none =>
        if model then ((), pairVerdict Ekit.Gen.AccessTable.accessTable Ekit.Gen.AccessTable.entries t m₁ m₂)
        else ((), none)
    | ["new", "directed", t, m₁, m₂, _] =>
      match dyn s!"{t}.{m₁} || (mutators of {t} ; {t}.{m₂})" with
      | some msg => ((), some msg)
      | none =>
        if model then ((), pairVerdict Ekit.Gen.AccessTable.accessTable Ekit.Gen.AccessTable.entries t m₁ m₂)
        else ((), none)
    | ["new", "matrix", t, ms] =>
      match dyn s!"method list of {t}" with
      | some msg => ((), some msg)
      | none =>
        -- every listed method must be an entry of the regenerated table; the converse (a public entry the matrix
        -- does not exercise, `unexercised`) is NOT an alarm — a correctly locked new method is a harmless change and
        -- is covered by the table obligation; checklib/props/C15.py records it in the evidence instead
        if model then ((), listedVerdict Ekit.Gen.AccessTable.entries t (ms.splitOn ",")) else ((), none)
    | ["new", "types", ts] =>
      match dyn "type list" with
      | some msg => ((), some msg)
      | none =>
        -- informational (see `uncoveredTypes`): accepted in both modes
        let _ := ts
        ((), none)
    | ["new", "stress", t, _] =>
      match dyn s!"mixed stress of {t}" with
      | some msg => ((), some msg)
      | none => if model then ((), stressVerdict Ekit.Gen.AccessTable.accessTable t) else ((), none)
    | ["new", "fresh", t, f, _] =>
      -- the property speaks of the type, however an instance was (legitimately) built: same verdicts as `stress`
      match dyn s!"first uses of a new {t} (construction form {f}) from several goroutines" with
      | some msg => ((), some msg)
      | none => if model then ((), stressVerdict Ekit.Gen.AccessTable.accessTable t) else ((), none)
    | ["new", "seq", t, _] =>
      match dyn s!"writer sequences || readers of {t}" with
      | some msg => ((), some msg)
      | none => if model then ((), stressVerdict Ekit.Gen.AccessTable.accessTable t) else ((), none)
    | _ => ((), some s!"bad-op {op}")

end Driver.Races
