import Driver.Util
import Ekit.Model.RBTree
/-! Trace acceptor for C01/C02 (red-black tree and the containers built on it).
See harness/tree/main.go for the producer of the lines.

`model` mode runs the model functions the C01/C02 theorems are about and compares, per call, the
result, `Len/Keys/Values`, the white-box colour/key/shape dump of the real tree and the number of
comparator calls.  `spec` mode uses only the abstract specification: the `cmp`-sorted association
list (insertion-ordered list for the linked map), the implementation-side invariant audit and the
`2*log2(n+1)` bound per locate. -/
namespace Driver.Tree
open Ekit.RB Driver

def cmpOf : String → Option (Int → Int → Int)
  | "asc" => some cmpAsc
  | "desc" => some cmpDesc
  | "half" => some cmpHalf
  | _ => none

/-! rendering -/
def listTok (vs : List Int) : String :=
  if vs.isEmpty then "e" else "/".intercalate (vs.map toString)
def listsTok (vss : List (List Int)) : String :=
  if vss.isEmpty then "-" else ",".intercalate (vss.map listTok)

def hashStr (s : String) : UInt64 := hashInts (s.toList.map fun c => (c.toNat : Int))
/-- fields of containers with more than 64 entries are compared through their hash -/
def short (n : Nat) (s : String) : String := if n ≤ 64 then s else s!"h{hashStr s}"

def dumpTree {β : Type} : Tree Int β → String
  | .nil => "."
  | .node c l k _ r => "(" ++ (if c == .red then "R" else "B") ++ toString k ++ dumpTree l ++ dumpTree r ++ ")"

def renderRet {β : Type} (rv : β → String) (rvs : List β → String) (absent : String) : Ret Int β → String
  | .ok => "ok"
  | .errDup => "err:dup"
  | .errAbsent => absent
  | .val v => "ok:" ++ rv v
  | .none => "none"
  | .kvs l => "ok:" ++ renderInts (l.map (·.1)) ++ "|" ++ rvs (l.map (·.2))
  | .keys l => "ok:" ++ renderInts l
  | .vals l => "ok:" ++ rvs l
  | .int n => s!"ok:{n}"
  | .bool b => if b then "ok:true" else "ok:false"

def sortInts (l : List Int) : List Int := l.mergeSort (fun a b => decide (a ≤ b))

/-! parsing of an observed dump (used for `NewTreeMapWithMap`, whose insertion order is Go's map
iteration order: the model adopts the observed tree after validating it) -/
def parseTree : Nat → List Char → Option (Tree Int Unit × List Char)
  | 0, _ => none
  | _ + 1, '.' :: rest => some (.nil, rest)
  | f + 1, '(' :: c :: rest =>
    let col : Option Color := if c == 'R' then some .red else if c == 'B' then some .black else none
    let digits := rest.takeWhile fun ch => ch == '-' || ch.isDigit
    let rest' := rest.dropWhile fun ch => ch == '-' || ch.isDigit
    match col, (String.ofList digits).toInt? with
    | some col, some key =>
      match parseTree f rest' with
      | some (l, r1) =>
        match parseTree f r1 with
        | some (r, ')' :: r3) => some (.node col l key () r, r3)
        | _ => none
      | none => none
    | _, _ => none
  | _, _ => none

/-- put the in-order value list back into a parsed shape -/
def fill : Tree Int Unit → List Int → Tree Int Int × List Int
  | .nil, vs => (.nil, vs)
  | .node c l k _ r, vs =>
    let (l', vs1) := fill l vs
    let v := vs1.headD 0
    let (r', vs2) := fill r vs1.tail
    (.node c l' k v r', vs2)

def validRB {β : Type} (cmp : Int → Int → Int) (t : Tree Int β) : Bool :=
  !t.isRed && t.noRedRedB && t.balancedB && Tree.sortedB cmp t.toList

def parsePairs (s : String) : Option (List (Int × Int)) :=
  if s = "-" ∨ s = "" then some [] else
    (s.splitOn ",").mapM fun p =>
      match p.splitOn ":" with
      | [a, b] => do pure ((← a.toInt?), (← b.toInt?))
      | _ => none

/-- all orders in which the runtime may iterate over the entries of the Go map given to
`NewTreeMapWithMap` (used only when two of its keys are equal under the comparator, where the order
decides which key and which value survive) -/
def insertAll {α : Type} (x : α) : List α → List (List α)
  | [] => [[x]]
  | y :: ys => (x :: y :: ys) :: (insertAll x ys).map (y :: ·)
def perms {α : Type} : List α → List (List α)
  | [] => [[]]
  | x :: xs => (perms xs).flatMap (insertAll x)

/-! states -/
inductive Box where
  | rb (t : RBTree Int Int)            -- rbtree, pubtree, treemap, treemapof
  | set (t : RBTree Int Unit)
  | linked (m : LinkedMap Int Int)
  | multi (t : RBTree Int (List Int))

inductive SBox where
  | smap (s : List (Int × Int))
  | sset (s : List (Int × Unit))
  | omap (s : List (Int × Int))
  | mmap (s : List (Int × List Int))

structure St where
  kind : String
  cmp : Int → Int → Int
  box : Box
  sbox : SBox

/-- what the model/spec predicts for one line -/
structure Pred where
  res : String
  len : Int
  keys : String
  vals : String
  dump : Option String        -- model mode only
  cmps : Option Nat           -- model mode only
  locates : Nat               -- how many times the call locates its key

def parseTreeOp (ws : List String) : Option (TreeOp Int Int) :=
  match ws with
  | ["add", k, v] => do pure (.add (← parseInt? k) (← parseInt? v))
  | ["set", k, v] => do pure (.set (← parseInt? k) (← parseInt? v))
  | ["find", k] => (parseInt? k).map .find
  | ["delete", k] => (parseInt? k).map .delete
  | ["kvs"] => some .keyValues
  | ["size"] => some .size
  | _ => none

def parseMapOp (ws : List String) : Option (MapOp Int Int) :=
  match ws with
  | ["put", k, v] => do pure (.put (← parseInt? k) (← parseInt? v))
  | ["get", k] => (parseInt? k).map .get
  | ["delete", k] => (parseInt? k).map .delete
  | ["keys"] => some .keys
  | ["values"] => some .values
  | ["len"] => some .len
  | _ => none

def parseMultiOp (ws : List String) : Option (MapOp Int (List Int)) :=
  match ws with
  | ["put", k, v] => do pure (.put (← parseInt? k) [← parseInt? v])
  | ["putmany", k, vs] => do pure (.put (← parseInt? k) (← parseInts vs))
  | ["get", k] => (parseInt? k).map .get
  | ["delete", k] => (parseInt? k).map .delete
  | ["keys"] => some .keys
  | ["values"] => some .values
  | ["len"] => some .len
  | _ => none

def parseSetOp (ws : List String) : Option (SetOp Int) :=
  match ws with
  | ["add", k] => (parseInt? k).map .add
  | ["delete", k] => (parseInt? k).map .delete
  | ["exist", k] => (parseInt? k).map .exist
  | ["keys"] => some .keys
  | _ => none

def mapLocates {β : Type} (putLocates : Nat) : MapOp Int β → Nat
  | .put .. => putLocates
  | .get _ | .delete _ => 1
  | _ => 0

def treeLocates : TreeOp Int Int → Nat
  | .keyValues | .size => 0
  | _ => 1

def intsR (l : List Int) : String := renderInts l

/-- run one op on the model -/
def stepModel (st : St) (ws : List String) : Option (St × Pred) :=
  let cmp := st.cmp
  match st.box with
  | .rb t =>
    if st.kind == "rbtree" || st.kind == "pubtree" then
      (parseTreeOp ws).map fun op =>
        let (t', r) := t.step cmp op
        ({ st with box := .rb t' },
         { res := renderRet toString intsR "err:absent" r, len := t'.size,
           keys := intsR (t'.root.toList.map (·.1)), vals := intsR (t'.root.toList.map (·.2)),
           dump := some (dumpTree t'.root), cmps := some (t.cmps cmp op), locates := treeLocates op })
    else
      (parseMapOp ws).map fun op =>
        let (t', r) := TreeMap.step cmp t op
        ({ st with box := .rb t' },
         { res := renderRet toString intsR "err:absent" r, len := t'.size,
           keys := intsR (t'.root.toList.map (·.1)), vals := intsR (t'.root.toList.map (·.2)),
           dump := some (dumpTree t'.root), cmps := some (TreeMap.cmps cmp t op), locates := mapLocates 2 op })
  | .set t =>
    (parseSetOp ws).map fun op =>
      let (t', r) := TreeSet.step cmp t op
      let loc := match op with
        | .add _ => 2
        | .keys => 0
        | _ => 1
      ({ st with box := .set t' },
       { res := renderRet (fun _ => "") (fun _ => "") "err:absent" r, len := t'.root.toList.length,
         keys := intsR (sortInts (t'.root.toList.map (·.1))), vals := "-",
         dump := some (dumpTree t'.root), cmps := some (TreeSet.cmps cmp t op), locates := loc })
  | .linked m =>
    (parseMapOp ws).map fun op =>
      let (m', r) := m.step cmp op
      ({ st with box := .linked m' },
       { res := renderRet toString intsR "err:absent" r, len := m'.length,
         keys := intsR (m'.cells.map (·.1)), vals := intsR (m'.cells.map (·.2)),
         dump := some (dumpTree m'.m.root), cmps := some (m.cmps cmp op), locates := mapLocates 2 op })
  | .multi t =>
    (parseMultiOp ws).map fun op =>
      let (t', r) := MultiMap.step cmp t op
      ({ st with box := .multi t' },
       { res := renderRet listTok listsTok "err:absent" r, len := t'.size,
         keys := intsR (t'.root.toList.map (·.1)), vals := listsTok (t'.root.toList.map (·.2)),
         dump := some (dumpTree t'.root), cmps := some (MultiMap.cmps cmp t op), locates := mapLocates 3 op })

/-- run one op on the abstract specification -/
def stepSpec (st : St) (ws : List String) : Option (St × Pred) :=
  let cmp := st.cmp
  match st.sbox with
  | .smap s =>
    if st.kind == "rbtree" || st.kind == "pubtree" then
      (parseTreeOp ws).map fun op =>
        let (s', r) := SMap.step cmp s op
        ({ st with sbox := .smap s' },
         { res := renderRet toString intsR "err:absent" r, len := s'.length,
           keys := intsR (s'.map (·.1)), vals := intsR (s'.map (·.2)),
           dump := none, cmps := none, locates := treeLocates op })
    else
      (parseMapOp ws).map fun op =>
        let (s', r) := SMap.mstep cmp s op
        ({ st with sbox := .smap s' },
         { res := renderRet toString intsR "err:absent" r, len := s'.length,
           keys := intsR (s'.map (·.1)), vals := intsR (s'.map (·.2)),
           dump := none, cmps := none, locates := mapLocates 2 op })
  | .sset s =>
    (parseSetOp ws).map fun op =>
      let (s', r) := SMap.sstep cmp s op
      -- TreeSet.Keys is documented as unordered: compare as a set
      let r' : Ret Int Unit := match r with
        | .keys l => .keys (sortInts l)
        | r => r
      let loc := match op with
        | .add _ => 2
        | .keys => 0
        | _ => 1
      ({ st with sbox := .sset s' },
       { res := renderRet (fun _ => "") (fun _ => "") "err:absent" r', len := s'.length,
         keys := intsR (sortInts (s'.map (·.1))), vals := "-",
         dump := none, cmps := none, locates := loc })
  | .omap s =>
    (parseMapOp ws).map fun op =>
      let (s', r) := OMap.step cmp s op
      ({ st with sbox := .omap s' },
       { res := renderRet toString intsR "err:absent" r, len := s'.length,
         keys := intsR (s'.map (·.1)), vals := intsR (s'.map (·.2)),
         dump := none, cmps := none, locates := mapLocates 2 op })
  | .mmap s =>
    (parseMultiOp ws).map fun op =>
      let (s', r) := SMap.multiStep cmp s op
      ({ st with sbox := .mmap s' },
       { res := renderRet listTok listsTok "err:absent" r, len := s'.length,
         keys := intsR (s'.map (·.1)), vals := listsTok (s'.map (·.2)),
         dump := none, cmps := none, locates := mapLocates 3 op })

def sizeOf (model : Bool) (st : St) : Nat :=
  if model then
    match st.box with
    | .rb t => t.root.count
    | .set t => t.root.count
    | .linked m => m.m.root.count
    | .multi t => t.root.count
  else
    match st.sbox with
    | .smap s => s.length
    | .sset s => s.length
    | .omap s => s.length
    | .mmap s => s.length

/-- in spec mode a TreeSet `keys` result is compared as a set -/
def canonRes (model : Bool) (st : St) (ws : List String) (got : String) : String :=
  if !model && st.kind == "treeset" && ws == ["keys"] && got.startsWith "ok:" then
    match parseInts ((got.drop 3).toString) with
    | some l => "ok:" ++ renderInts (sortInts l)
    | none => got
  else got

/-- which operations locate a key, and how often at most (per container kind): the C02 oracle needs
    this without running any functional specification -/
def maxLocates (kind : String) (ws : List String) : Nat :=
  match ws.headD "" with
  | "add" => if kind == "treeset" then 2 else 1
  | "set" | "find" | "get" | "exist" | "delete" => 1
  | "put" | "putmany" => if kind == "multimap" then 3 else 2
  | _ => 0

/-- the functional part (C01): result, length, keys, values -/
def judgeFunctional (p : Pred) (got : String) (obs : String) : Option String :=
  let n := (fieldNat obs "len").getD 0
  if p.res ≠ got then some s!"result want {p.res} got {got}"
  else if fieldInt obs "len" ≠ some p.len then some s!"len want {p.len}"
  else if field obs "keys" ≠ some (short n p.keys) then some s!"keys want {short n p.keys}"
  else if field obs "vals" ≠ some (short n p.vals) then some s!"vals want {short n p.vals}"
  else none

/-- the balance part (C02): the implementation-side audit and the comparator-call bound -/
def judgeBalance (cmp : Option (Int → Int → Int)) (nBefore locates : Nat) (obs : String) : Option String :=
  let bound := locates * (2 * Nat.log2 (nBefore + 1))
  let audit := (field obs "audit").getD "?"
  -- "na": the white-box hook is not available (black-box fallback); what remains observable of the
  -- invariant is checked instead: keys strictly ascending, reported size = number of keys
  let blackbox : Option String :=
    if audit ≠ "na" then none else
    match cmp, fieldInts obs "keys", fieldNat obs "len" with
    | some cmp, some ks, some n =>
      if ks.length ≠ n then some s!"reported size {n} but {ks.length} keys"
      else if !(Tree.sortedB cmp (ks.map fun k => (k, ()))) then some "keys not strictly ascending"
      else none
    | _, _, _ => none
  if audit ≠ "ok" ∧ audit ≠ "na" then some s!"red-black audit of the implementation failed: {audit}"
  else if blackbox.isSome then blackbox
  else match fieldNat obs "cmps" with
    | none => some "no cmps field"
    | some c =>
      if c > bound then some s!"{c} comparator calls on {nBefore} keys exceed {locates} x 2*log2(n+1) = {bound}"
      else none

/-- the white-box part (model mode): exact comparator-call count and colour/key/shape dump -/
def judgeWhite (p : Pred) (obs : String) : Option String :=
  let n := (fieldNat obs "len").getD 0
  if (field obs "laudit").getD "ok" ≠ "ok" then some s!"linked-list audit of the implementation failed: {(field obs "laudit").getD "?"}"
  else if p.cmps ≠ fieldNat obs "cmps" then some s!"comparator calls want {p.cmps.getD 0} got {(fieldNat obs "cmps").getD 0}"
  else if (p.dump.map (short n)) ≠ field obs "dump" then some s!"shape want {(p.dump.map (short n)).getD "?"}"
  else none

def orElse (a : Option String) (b : Unit → Option String) : Option String :=
  match a with
  | some m => some m
  | none => b ()

/-- `balance = false`: the C01 acceptor (spec mode: functional specification only);
    `balance = true`: the C02 acceptor (spec mode: audit + comparator bound only).
    In model mode both compare everything the model predicts. -/
structure Cfg where
  model : Bool
  balance : Bool

def judge (cfg : Cfg) (nBefore : Nat) (p : Pred) (got : String) (obs : String) : Option String :=
  if cfg.model then
    orElse (judgeFunctional p got obs) fun _ =>
    orElse (judgeBalance none nBefore p.locates obs) fun _ => judgeWhite p obs
  else if cfg.balance then judgeBalance none nBefore p.locates obs
  else judgeFunctional p got obs

structure Sigma where
  st : Option St
  lastLen : Nat          -- `len=` of the previous line (the C02 spec oracle's `n`)
  kind : String

def checkerFor (cfg : Cfg) : Checker where
  σ := Sigma
  init := ⟨none, 0, ""⟩
  step sg op obs :=
    let model := cfg.model
    let ws := words op
    let got := resultTok obs
    let obsLen := (fieldNat obs "len").getD 0
    let ret (st : Option St) (kind : String) (r : Option String) : Sigma × Option String := (⟨st, obsLen, kind⟩, r)
    match ws with
    | "new" :: kind :: cmpName :: rest =>
      match cmpOf cmpName with
      | none =>
        -- nil comparator: every public constructor must refuse it
        if cmpName == "nil" && kind ≠ "rbtree" && obs == "err:nilcmp" then ret none kind none
        else ret none kind (some s!"constructor with comparator {cmpName}: {obs}")
      | some cmp =>
        let mk (b : Box) (s : SBox) : Option St := some ⟨kind, cmp, b, s⟩
        let empty : Pred := ⟨"ok", 0, "-", "-", some ".", some 0, 0⟩
        match kind, rest with
        | "rbtree", [] | "pubtree", [] | "treemap", [] =>
          ret (mk (.rb RBTree.empty) (.smap [])) kind (judge cfg 0 empty got obs)
        | "treeset", [] => ret (mk (.set RBTree.empty) (.sset [])) kind (judge cfg 0 empty got obs)
        | "linkedmap", [] => ret (mk (.linked LinkedMap.empty) (.omap [])) kind (judge cfg 0 empty got obs)
        | "multimap", [] => ret (mk (.multi RBTree.empty) (.mmap [])) kind (judge cfg 0 empty got obs)
        | "treemapof", [ps] =>
          match parsePairs ps with
          | none => ret none kind (some s!"bad-op {op}")
          | some pairs =>
            -- the abstract map holding the given entries (keys of the Go map are distinct)
            let putAll (ps : List (Int × Int)) : List (Int × Int) :=
              ps.foldl (fun acc p => (SMap.mstep cmp acc (.put p.1 p.2)).1) []
            let s0 := putAll pairs
            -- keys equal under the comparator: `putAll` runs in Go's map iteration order, which decides the
            -- surviving key (first put) and value (last put) of the class. Oracle = that order, read off the
            -- observed contents and constrained to be the result of SOME order of the given entries.
            let s : List (Int × Int) :=
              if s0.length == pairs.length || pairs.length > 6 then s0 else
                ((perms pairs).map putAll |>.find? fun c =>
                  field obs "keys" == some (intsR (c.map (·.1))) && field obs "vals" == some (intsR (c.map (·.2)))).getD s0
            let n := s.length
            let pred : Pred := ⟨"ok", n, intsR (s.map (·.1)), intsR (s.map (·.2)), none, none, 0⟩
            -- adopt the observed shape (the insertion order is the runtime's), after validating it
            let d := (field obs "dump").getD ""
            let parsed : Option (Tree Int Unit × List Char) :=
              match parseTree (d.length + 1) d.toList with
              | some r => some r
              | none => if model then none else some (.nil, [])   -- black-box fallback: no dump to adopt
            match parsed with
            | some (shape, []) =>
              let t := (fill shape (s.map (·.2))).1
              let st' := mk (.rb ⟨t, n⟩) (.smap s)
              let functional : Option String :=
                if got ≠ "ok" then some s!"constructor failed: {obs}"
                else if fieldInt obs "len" ≠ some (n : Int) ∨ field obs "keys" ≠ some pred.keys ∨ field obs "vals" ≠ some pred.vals then
                  some s!"constructor contents want keys {pred.keys} vals {pred.vals}"
                else none
              let balance : Option String :=
                if field obs "audit" ≠ some "ok" ∧ field obs "audit" ≠ some "na" then
                  some s!"red-black audit of the implementation failed: {(field obs "audit").getD "?"}"
                else none
              let white : Option String :=
                if t.toList != s || !validRB cmp t then some "observed tree is not a valid red-black tree with the given entries"
                else none
              ret st' "treemap"
                (if model then orElse functional fun _ => orElse balance fun _ => white
                 else if cfg.balance then balance else functional)
            | _ => ret none kind (some "unparsable dump")
        | _, _ => ret none kind (some s!"bad-op {op}")
    | _ =>
      if !model && cfg.balance then
        -- C02 oracle: no functional state at all
        if sg.kind == "" then ret none "" (some "no-container")
        else
          -- a TreeSet's `keys=` is canonicalised (sorted numerically) by the harness: no order to check
          let cmp := if sg.kind == "treeset" || sg.kind == "linkedmap" then none else sg.st.map (·.cmp)
          ret sg.st sg.kind (judgeBalance cmp sg.lastLen (maxLocates sg.kind ws) obs)
      else
      match sg.st with
      | none => ret none sg.kind (some "no-container")
      | some s =>
        match (if model then stepModel s ws else stepSpec s ws) with
        | none => ret sg.st sg.kind (some s!"bad-op {op}")
        | some (s', p) => ret (some s') sg.kind (judge cfg (sizeOf model s) p (canonRes model s ws got) obs)

def checker (model : Bool) : Checker := checkerFor ⟨model, false⟩

end Driver.Tree
