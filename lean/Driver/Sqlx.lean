import Driver.Util
import Ekit.Model.Sqlx
/-!
Trace acceptor for C18 (sqlx.EncryptColumn / sqlx.JsonColumn); the producer is harness/sqlx/main.go.

`model = true`: every line is replayed on the model functions of Ekit/Model/Sqlx.lean (`value`, `scan`,
`JCol.value`, `JCol.scan`, `flipBit`).  The two parameters that are not ekit code are instantiated
with *oracle* instances built from the line's observation: the AEAD is the single point
`(key, nonce, sealed) ↦ plaintext` that the harness's own AES-GCM call reported (`pt=` / `open=`), the
JSON codec is the single point that the harness's own encoding/json call reported (`json=` / `dec=`).
Everything else (which bytes are sealed, how the stored value is split, which plaintext lengths are
errors, what `Val` / `Valid` hold afterwards, the error class) is the model's prediction.

`model = false`: only `Spec.scanExpect` / `Spec.jsonScanExpect` / `Spec.valueMustErr`.
-/
namespace Driver.Sqlx
open Ekit.Sqlx Ekit.Go Driver

/-! #### tokens -/

def hexVal (c : Char) : Option Nat :=
  if '0' ≤ c ∧ c ≤ '9' then some (c.toNat - '0'.toNat)
  else if 'a' ≤ c ∧ c ≤ 'f' then some (c.toNat - 'a'.toNat + 10)
  else none

def parseHexChars : List Char → Option Bytes
  | [] => some []
  | [_] => none
  | a :: b :: rest => do
    let x ← hexVal a
    let y ← hexVal b
    let r ← parseHexChars rest
    pure (UInt8.ofNat (16 * x + y) :: r)

/-- "-" is the empty byte string -/
def parseHex (s : String) : Option Bytes :=
  if s = "-" then some [] else parseHexChars s.toList

def hexDigit (n : Nat) : Char := if n < 10 then Char.ofNat (48 + n) else Char.ofNat (87 + n)

def renderHex (b : Bytes) : String :=
  if b.isEmpty then "-" else String.ofList (b.flatMap fun x => [hexDigit (x.toNat / 16), hexDigit (x.toNat % 16)])

def parseGoType : String → Option GoType
  | "string" => some .string | "bytes" => some .bytes
  | "int8" => some .int8 | "int16" => some .int16 | "int32" => some .int32 | "int64" => some .int64
  | "uint8" => some .uint8 | "uint16" => some .uint16 | "uint32" => some .uint32 | "uint64" => some .uint64
  | "int" => some .int | "uint" => some .uint | "float32" => some .float32 | "float64" => some .float64
  | "bool" => some .bool | "struct" => some .struct | "map" => some .map | "slice" => some .slice
  | _ => none

/-- value tokens: hex for string/[]byte, decimal for numbers (signed types signed, floats as the
    decimal of their bit pattern), an opaque canonical token for json-serialised types -/
def parseVal (ty : Ty) (tok : String) : Option (Val String) :=
  match ty with
  | .str => (parseHex tok).map .str
  | .bytes => (parseHex tok).map .bytes
  | .num k => (parseInt? tok).map fun i => .num k (BitVec.ofInt k.bits i)
  | .int => (parseInt? tok).map fun i => .int (BitVec.ofInt 64 i)
  | .uint => (parseInt? tok).map fun i => .uint (BitVec.ofInt 64 i)
  | .other => some (.other tok)

def renderVal : Val String → String
  | .str s => renderHex s
  | .bytes b => renderHex b
  | .num k v => if k.signed then toString v.toInt else toString v.toNat
  | .int v => toString v.toInt
  | .uint v => toString v.toNat
  | .other t => t

def errClass : Err → String
  | .other "eof" => "err:eof"
  | .other "ueof" => "err:ueof"
  | .other "auth" => "err:auth"
  | .other "json" => "err:json"
  | .other "keysize" => "err:keysize"
  | _ => "err:other"          -- ekit's own errors: invalid, keylen, short, srctype

def outClass {α} : Outcome α → String
  | .ok _ => "ok"
  | .err e => errClass e
  | .panic _ => "panic"

/-- result token of the observation reduced to its class: ok / err:<class> / panic -/
def obsClass (tok : String) : String :=
  if tok.startsWith "panic" then "panic" else if tok.startsWith "ok" then "ok" else tok

/-! #### oracle instances of the non-ekit parameters -/

/-- the AEAD known at one point: `(key, nonce, sealed) ↔ pt` -/
def pointAEAD (key nonce sealed : Bytes) (pt : Option Bytes) : AEAD where
  sealAE k n p := if k = key ∧ n = nonce ∧ some p = pt then sealed else []
  openAE k n c := if k = key ∧ n = nonce ∧ c = sealed then pt else none

/-- encoding/json known at one point each way -/
def pointCodec (cur : String) (marshalOf : Option Bytes) (dec : Option (String × Bool)) : JsonCodec String where
  marshal x := if x = cur then marshalOf else none
  unmarshal prior _ := match dec with
    | some r => r
    | none => (prior, false)

/-- "tok:1" / "tok:0" / "na" -/
def parseDec (s : String) : Option (String × Bool) :=
  match s.splitOn ":" with
  | [t, "1"] => some (t, true)
  | [t, "0"] => some (t, false)
  | _ => none

/-- "hex" → some (some b); "fail" → some none; "na" → none -/
def parseOpen (s : String) : Option (Option Bytes) :=
  if s = "na" then none else if s = "fail" then some none else (parseHex s).map some

/-! #### state -/

structure St where
  enc : Bool
  arm : Ty
  col : Col String                       -- EncryptColumn (enc = true)
  jcol : JCol String                     -- JsonColumn (enc = false)
  stored : Option (Spec.Stored String)   -- last genuine Value() output (for JsonColumn: key = [])

def parseSrc (srcty : String) (data : Option Bytes) : Option Src :=
  match srcty, data with
  | "bytes", some d => some (.bytes d)
  | "string", some d => some (.str d)
  | "nil", _ => some .null
  | "bytes", none => none
  | "string", none => none
  | t, _ => some (.other t)

/-- `flip:<n>` counts bits from the start, `flip:e<k>` from the last bit of the stored value -/
def flipIndex (i : String) (len : Nat) : Option Nat :=
  if i.startsWith "e" then
    ((i.drop 1).toString.toNat?).bind fun k => if k < 8 * len then some (8 * len - 1 - k) else none
  else i.toNat?

/-- "val,valid,class" of the real `Scan` of a `Value()` output into a fresh column -/
def parseFresh (s : String) : Option (String × String × String) :=
  match s.splitOn "," with
  | [v, b, c] => some (v, b, c)
  | _ => none

/-- `Scan(Value(x))` restores `x` with `Valid = true`: judged on every successful `Value()` by the REAL
`Scan` of its output into a fresh zero column of the same type and key (`fs=`), so it depends neither on
the receiver's prior state (json.Unmarshal merges) nor on the harness's own decoding of the output.
For types serialised with encoding/json it is demanded when `x` is JSON-representable, i.e. when
encoding/json's own Marshal-then-Unmarshal into a fresh value gives `x` back (`self=`). -/
def freshRoundTrip (obs curVal : String) (jsonTy : Bool) : Option String :=
  match (field obs "fs").bind parseFresh with
  | none => some "bad-observation: Value() succeeded but the line has no fs= field"
  | some (v, b, c) =>
    let representable : Bool := !jsonTy || field obs "self" == some (curVal ++ ",1")
    if !representable then none
    else if c ≠ "ok" then some s!"Scan(Value(x)) into a fresh column must succeed, got {c}"
    else if v ≠ curVal then some s!"Scan(Value(x)) into a fresh column must restore x = {curVal}, got {v}"
    else if b ≠ "1" then some "Scan(Value(x)) into a fresh column must set Valid = true"
    else none

/-- does `data` relate to the stored value the way the op says? (consistency of the harness) -/
def srcSpecOk (spec : String) (stored : Option Bytes) (data : Bytes) (openObs : Option (Option Bytes)) : Bool :=
  match spec.splitOn ":", stored with
  | ["stored"], some ct => data == ct
  | ["flip", i], some ct => ((flipIndex i ct.length).map fun n => data == flipBit ct n) == some true
  | ["trunc", n], some ct => (n.toNat?.map fun k => data == ct.take k) == some true
  | ["app", h], some ct => ((parseHex h).map fun x => data == ct ++ x) == some true
  | ["pt", p, n], _ =>
    match parseHex p, parseHex n, openObs with
    | some pb, some nb, some (some ob) => pb == ob && data.take 12 == nb
    | _, _, _ => false
  | ["raw", h], _ => parseHex h == some data
  | _, _ => false

def isDerived (spec : String) : Bool :=
  match spec.splitOn ":" with
  | "stored" :: _ | "flip" :: _ | "trunc" :: _ | "app" :: _ => true
  | _ => false

def checkExpect (e : Spec.Expect String) (cls : String) (obsVal obsValid : Option String) : Option String :=
  match e with
  | .restores v =>
    if cls ≠ "ok" then some s!"Scan of a genuine stored value must succeed, got {cls}"
    else if obsVal ≠ some (renderVal v) then some s!"Scan(Value(x)) must restore x = {renderVal v}"
    else if obsValid ≠ some "1" then some "Scan(Value(x)) must set Valid = true"
    else none
  | .mustErr => if cls.startsWith "err" then none else some s!"bad input must yield an error, got {cls}"
  | .noPanic => if cls == "panic" then some "panic" else none

def checker (model : Bool) : Checker where
  σ := Option St
  init := none
  step st op obs :=
    let ws := words op
    let rt := resultTok obs
    let cls := obsClass rt
    let obsVal := field obs "val"
    let obsValid := field obs "valid"
    let obsKey := (field obs "key").bind parseHex
    match ws with
    | ["new", "enc", ty, key] =>
      match parseGoType ty, parseHex key, obsVal with
      | some g, some k, some v =>
        match parseVal g.arm v with
        | some v0 =>
          let s : St := { enc := true, arm := g.arm, col := { val := v0, valid := false, key := k },
                          jcol := { val := "", valid := false }, stored := none }
          let zeroOk : Bool := g.arm == .other || renderVal (Val.zero "" g.arm) == v
          if rt ≠ "ok" then (none, some s!"constructor failed: {obs}")
          else if obsValid ≠ some "0" ∨ obsKey ≠ some k ∨ !zeroOk then (some s, some "fresh column is not the zero column")
          else (some s, none)
        | none => (none, some "bad-observation")
      | _, _, _ => (none, some s!"bad-op-or-observation {op}")
    | ["new", "json", _ty] =>
      match obsVal with
      | some v =>
        let s : St := { enc := false, arm := .other, col := { val := .other v, valid := false, key := [] },
                        jcol := { val := v, valid := false }, stored := none }
        if rt ≠ "ok" ∨ obsValid ≠ some "0" then (some s, some "fresh column is not the zero column") else (some s, none)
      | none => (none, some "bad-observation")
    | _ =>
      match st with
      | none => (none, some "no-column")
      | some s =>
        -- the state as observed after the call (resynchronisation point)
        let resync : St :=
          match obsVal, obsValid with
          | some v, some b =>
            if s.enc then
              match parseVal s.arm v with
              | some pv => { s with col := { val := pv, valid := b == "1", key := obsKey.getD s.col.key } }
              | none => s
            else { s with jcol := { val := v, valid := b == "1" } }
          | _, _ => s
        let curVal : String := if s.enc then renderVal s.col.val else s.jcol.val
        let curValid : Bool := if s.enc then s.col.valid else s.jcol.valid
        let stateIs (v : String) (b : Bool) : Bool := obsVal == some v && obsValid == some (if b then "1" else "0")
        match ws with
        | ["set", tok, b] =>
          -- harness-side assignment of the exported fields
          -- (json tokens are re-canonicalised by the harness: take the observed rendering)
          let want : Option String :=
            if s.enc ∧ s.arm ≠ .other then (parseVal s.arm tok).map renderVal else obsVal
          if rt = "ok" ∧ want.isSome ∧ obsVal = want ∧ obsValid = some b then (some resync, none)
          else (some resync, some "set: bad observation")
        | ["setkey", k] =>
          if rt = "ok" ∧ obsKey = parseHex k ∧ obsKey.isSome then (some resync, none)
          else (some resync, some "setkey: bad observation")
        | ["value"] =>
          let jsonObs : Option Bytes := (field obs "json").bind parseHex
          if s.enc then
            let ctO := (field obs "ct").bind parseHex
            let ptO := (field obs "pt").bind parseOpen
            let store (ct : Bytes) : St := { resync with stored := some { key := s.col.key, ct := ct, val := s.col.val } }
            if !stateIs curVal curValid then (some resync, some "Value() changed the column")
            else if model then
              match cls, ctO with
              | "ok", some ct =>
                let nonce := ct.take nonceSize
                let a := pointAEAD s.col.key nonce (ct.drop nonceSize) (ptO.getD none)
                let c := pointCodec curVal jsonObs none
                let wantPt := match serialize c s.col.val with
                  | .ok b => renderHex b
                  | o => outClass o
                match value a c s.col nonce with
                | .ok ct' =>
                  if rt ≠ "ok" then (some resync, some s!"value result want ok got {rt}")
                  else if ct.length < nonceSize then (some (store ct), some "value: output shorter than a nonce")
                  else if ct' ≠ ct then
                    (some (store ct), some s!"value: output is not nonce ++ seal(key, nonce, serialise(val)); plaintext want {wantPt} got {(field obs "pt").getD "?"}")
                  else (some (store ct), freshRoundTrip obs curVal (s.arm == .other))
                | o => (some (store ct), some s!"value result want {outClass o} got ok")
              | _, _ =>
                let a := pointAEAD [] [] [] none
                let c := pointCodec curVal jsonObs none
                let want := outClass (value a c s.col (List.replicate nonceSize 0))
                if want ≠ cls ∨ rt.startsWith "ok" then (some resync, some s!"value result want {want} got {rt}") else (some resync, none)
            else
              -- specification: bad input is rejected; a valid column of a binary-serialised type encrypts
              if Spec.valueMustErr s.col.valid s.col.key.length then
                (if cls.startsWith "err" then (some resync, none) else (some resync, some s!"Value() of an invalid column / bad key length must fail, got {rt}"))
              else if cls == "panic" then (some resync, some "panic")
              else match cls, ctO with
                | "ok", some ct => (some (store ct), freshRoundTrip obs curVal (s.arm == .other))
                | _, _ => if s.arm == .other && cls.startsWith "err" then (some resync, none)
                          else (some resync, some s!"Value() of a valid column must succeed, got {rt}")
          else
            -- JsonColumn
            let got : Option (Option Bytes) :=
              if rt = "ok:null" then some none
              else if rt.startsWith "ok:" then ((parseHex ((rt.drop 3).toString)).map some) else none
            let store : St := match got with
              | some (some b) => { resync with stored := some { key := [], ct := b, val := .other curVal } }
              | some none => { resync with stored := none }
              | none => resync
            if !stateIs curVal curValid then (some resync, some "Value() changed the column")
            else if model then
              let c := pointCodec curVal jsonObs none
              match JCol.value c s.jcol, got with
              | .ok w, some g =>
                if w = g then (some store, if g.isSome then freshRoundTrip obs curVal true else none) else (some store, some s!"json value want {(w.map renderHex).getD "null"} got {rt}")
              | o, _ => if outClass o = cls ∧ !rt.startsWith "ok" then (some store, none) else (some store, some s!"json value want {outClass o} got {rt}")
            else
              if !s.jcol.valid then
                (if rt = "ok:null" then (some store, none) else (some store, some s!"an invalid JsonColumn must yield SQL NULL, got {rt}"))
              else if cls == "panic" then (some store, some "panic")
              else match got with
                | some (some _) => (some store, freshRoundTrip obs curVal true)
                | _ => (some store, none)
        | ["value2"] =>
          if cls ≠ "ok" then
            -- same demands as a single Value()
            if model then
              let want := outClass (value (pointAEAD [] [] [] none) (pointCodec curVal none none) s.col (List.replicate nonceSize 0))
              if want ≠ cls then (some resync, some s!"value result want {want} got {rt}") else (some resync, none)
            else if Spec.valueMustErr s.col.valid s.col.key.length ∧ cls.startsWith "err" then (some resync, none)
            else if s.arm == .other ∧ cls.startsWith "err" then (some resync, none)
            else (some resync, some s!"Value() must succeed, got {rt}")
          else
            match (field obs "ct1").bind parseHex, (field obs "ct2").bind parseHex with
            | some c1, some c2 =>
              if model then
                let one (ct : Bytes) (ptf : String) : Bool :=
                  let nonce := ct.take nonceSize
                  let a := pointAEAD s.col.key nonce (ct.drop nonceSize) (((field obs ptf).bind parseOpen).getD none)
                  let c := pointCodec curVal ((field obs "json").bind parseHex) none
                  match value a c s.col nonce with
                  | .ok ct' => ct' == ct && nonceSize ≤ ct.length
                  | _ => false
                if !(one c1 "pt1" && one c2 "pt2") then (some resync, some "value2: an output is not nonce ++ seal(key, nonce, serialise(val))")
                else if c1.take nonceSize == c2.take nonceSize then (some resync, some "value2: the same nonce was used twice")
                else if c1 == c2 then (some resync, some "value2: equal ciphertexts")
                else (some resync, none)
              else if c1 == c2 then (some resync, some "two encryptions of the same value must differ")
              else (some resync, none)
            | _, _ => (some resync, some "bad-observation")
        | "scan" :: spec :: _ =>
          if rt = "no-stored" then (some s, none)
          else
            let dataO := (field obs "src").bind parseHex
            let srcty := (field obs "srcty").getD "?"
            let openObs := (field obs "open").bind parseOpen
            let decObs := (field obs "dec").bind parseDec
            -- the stored bytes belong to the caller: a second Scan of the very same buffer must answer as the first did and
            -- restore the same value, and the restored value must not depend on what the caller does with the buffer later
            let again := (field obs "again").getD "na"
            if again ≠ "na" ∧ again ≠ rt then
              (some resync, some s!"scanning the same stored bytes a second time answered {again} after {rt}: Scan damaged its argument, so Scan(Value(x)) no longer restores x")
            else if field obs "alias" == some "1" then
              (some resync, some "the restored value changed after the call (when the caller overwrote the buffer it had passed to Scan, or when other columns were scanned): it shares storage with something the column does not own")
            else
            match parseSrc srcty dataO with
            | none => (some resync, some "bad-observation")
            | some src =>
              let data := dataO.getD []
              let isData : Bool := match src with | .bytes _ | .str _ => true | _ => false
              -- (model mode only: the specification trusts the harness's description of the src)
              let specOk : Bool := !model || !isData || srcSpecOk spec (s.stored.map (·.ct)) data openObs
              if !specOk then (some resync, some "harness inconsistency: src does not match the op")
              else if s.enc then
                if model then
                  let a := pointAEAD s.col.key (data.take nonceSize) (data.drop nonceSize) (openObs.getD none)
                  let c := pointCodec curVal none decObs
                  let (col', out) := scan a c s.col src
                  if outClass out ≠ cls then (some resync, some s!"scan result want {outClass out} got {rt}")
                  else if !stateIs (renderVal col'.val) col'.valid then
                    (some resync, some s!"scan state want val={renderVal col'.val} valid={col'.valid}")
                  else (some resync, none)
                else
                  let repr : Bool := match s.stored, decObs with
                    | some sv, some (t, true) => t == renderVal sv.val
                    | _, _ => false
                  let e := Spec.scanExpect s.col.key src s.stored (isDerived spec) repr
                  (some resync, checkExpect e cls obsVal obsValid)
              else
                if model then
                  let c := pointCodec curVal none decObs
                  let (j', out) := JCol.scan c s.jcol src
                  if outClass out ≠ cls then (some resync, some s!"json scan result want {outClass out} got {rt}")
                  else if !stateIs j'.val j'.valid then (some resync, some s!"json scan state want val={j'.val} valid={j'.valid}")
                  else (some resync, none)
                else
                  let restore : Option String := match s.stored, decObs with
                    | some sv, some (t, true) =>
                      if spec == "stored" ∧ data == sv.ct ∧ t == renderVal sv.val then some t else none
                    | _, _ => none
                  let decOk : Bool := match decObs with | some (_, b) => b | none => true
                  let e := Spec.jsonScanExpect src restore decOk
                  (some resync, checkExpect e cls obsVal obsValid)
        | _ => (some s, some s!"bad-op {op}")

end Driver.Sqlx
