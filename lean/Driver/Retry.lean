import Driver.Util
import Ekit.Model.Retry
/-! Trace acceptor for C19 (retry). See harness/retry/main.go for the producer of the lines.

`model = true`: the lines are checked against the model functions the C19 theorems are about
(`newExp`/`newFixed`, `next`, `budgetOk`/`rawInterval`/`capHit` for concurrent batches, `retryLoop`
with the oracle `Env` reconstructed from the observed times), including the white-box fields
`retries` and `maxIntervalReached`.
`model = false`: only the abstract specification (`Spec.granted`, `Spec.grants`, `Spec.interval`,
bounds, and the sentence-by-sentence reading of the `Retry` contract).
Times are oracle values; only lower bounds are asserted. -/
namespace Driver.Retry
open Ekit.Retry Driver

structure DS where
  cfg : Option Cfg := none
  core : Core := Core.init
  calls : Nat := 0
  deriving Inhabited

def parseArch (obs : String) : Option Arch :=
  match field obs "ovf" with
  | some "min" => some .satMin
  | some "max" => some .satMax
  | _ => none

def renderCtor : Except CtorErr Cfg → String
  | .ok _ => "ok"
  | .error (.interval v) => s!"err:interval:{v}"
  | .error (.maxInterval m i) => s!"err:maxinterval:{m}:{i}"

def renderNext (r : Int × Bool) : String := if r.2 then s!"ok:{r.1}" else s!"stop:{r.1}"

/-- "ok:123" → (true, 123) -/
def parseNext (tok : String) : Option (Bool × Int) :=
  match tok.splitOn ":" with
  | ["ok", v] => v.toInt?.map fun i => (true, i)
  | ["stop", v] => v.toInt?.map fun i => (false, i)
  | _ => none

def obsCore (obs : String) : Option Core := do
  let r ← fieldInt obs "retries"
  let f ← fieldInt obs "flag"
  pure ⟨r, f != 0⟩

/-- remove one occurrence -/
def removeOne (x : Int) : List Int → Option (List Int)
  | [] => none
  | y :: ys => if x = y then some ys else (removeOne x ys).map (y :: ·)

/-- Concurrent batch of `n` calls starting from `core`: which multisets of granted intervals can the
    transition system produce?  Call `r` (counter value) is granted iff `budgetOk`; a granted call
    whose product hits the cap returns `max`; a granted call whose product does not returns the
    product, or `max` if it loaded the flag after somebody stored it (possible iff the flag was
    already set or some granted call of the batch hits the cap). -/
def concCheck (cfg : Cfg) (core : Core) (n : Nat) (grants : Nat) (ivs : List Int) : Option String :=
  let rs := (List.range n).map fun (j : Nat) => wrap32 (core.retries + 1 + (j : Int))
  let granted := rs.filter (budgetOk cfg)
  if granted.length ≠ grants then some s!"grants want {granted.length} got {grants}"
  else if ivs.length ≠ grants then some "number of intervals differs from grants"
  else match cfg.kind with
  | .fixed => if ivs.all (· == cfg.initial) then none else some "fixed strategy returned a different interval"
  | .exp =>
    let hits := granted.filter fun r => capHit cfg (rawInterval cfg r)
    let plain := (granted.filter fun r => !capHit cfg (rawInterval cfg r)).map (rawInterval cfg)
    let flagPossible := core.flag || !hits.isEmpty
    -- every non-hit call accounts for its own product, or (if the flag can be set) for one `max`
    let rest := plain.foldl (fun (acc : Option (List Int)) v =>
      match acc with
      | none => none
      | some l =>
        if core.flag then removeOne cfg.max l
        else match removeOne v l with
          | some l' => some l'
          | none => if flagPossible then removeOne cfg.max l else none) (some ivs)
    match rest with
    | none => some "an interval is not producible by any interleaving of the model"
    | some l => if l.all (· == cfg.max) ∧ l.length = hits.length then none
                else some "intervals not producible by any interleaving of the model"

def concFlagAfter (cfg : Cfg) (core : Core) (n : Nat) : Bool :=
  let rs := (List.range n).map fun (j : Nat) => wrap32 (core.retries + 1 + (j : Int))
  core.flag || (cfg.kind == .exp && (rs.filter (budgetOk cfg)).any fun r => capHit cfg (rawInterval cfg r))

/-- count the grants of `k` sequential calls with the model -/
def burnModel (cfg : Cfg) : Nat → Core → Nat → Core × Nat
  | 0, c, g => (c, g)
  | k + 1, c, g =>
    let r := next cfg c
    burnModel cfg k r.1 (if r.2.2 then g + 1 else g)

def natsOf (l : List Int) : Option (List Nat) := l.mapM fun i => if i < 0 then none else some i.toNat

structure RetryObs where
  res : String
  wrap : Int
  n : Nat
  nd : List Int
  nok : List Int
  starts : List Nat
  ends : List Nat
  ret : Nat
  cxlo : Int
  cxhi : Int

def parseRetryObs (obs : String) : Option RetryObs := do
  let res ← field obs "res"
  let wrap ← fieldInt obs "wrap"
  let n ← fieldNat obs "n"
  let nd ← fieldInts obs "nd"
  let nok ← fieldInts obs "nok"
  let starts ← (fieldInts obs "starts").bind natsOf
  let ends ← (fieldInts obs "ends").bind natsOf
  let ret ← fieldNat obs "ret"
  let cxlo ← fieldInt obs "cxlo"
  let cxhi ← fieldInt obs "cxhi"
  pure ⟨res, wrap, n, nd, nok, starts, ends, ret, cxlo, cxhi⟩

/-- an upper bound on the time the context ended (`none`: it had not ended when Retry returned) -/
def ctxUpper (o : RetryObs) : Option Nat :=
  let isCtx := o.res == "deadline" || o.res == "canceled"
  if o.cxhi ≥ 0 then some (if isCtx then Nat.min o.cxhi.toNat o.ret else o.cxhi.toNat)
  else if isCtx then some o.ret else none

def ctxKindOk (ckind res : String) : Bool :=
  (res == "deadline" && ckind == "timeout") || (res == "canceled" && (ckind == "cancel" || ckind == "pre"))

/-- model mode: rebuild the oracle from the observation, run `retryLoop`, compare -/
def retryModel (cfg : Cfg) (core : Core) (fails : Int) (ckind : String) (o : RetryObs) : Option String :=
  let m := o.nd.length
  let outs := outputs cfg m core
  let obsOuts := (o.nd.zip o.nok).map fun p => (p.1, p.2 != 0)
  if o.nok.length ≠ m then some "malformed nd/nok"
  else if o.starts.length ≠ o.n ∨ o.ends.length ≠ o.n ∨ o.n = 0 then some "bizFunc was not invoked or malformed starts/ends"
  else if outs ≠ obsOuts then some s!"Next results seen by Retry differ from the model: want {outs.map renderNext}"
  else
    let isCtx := o.res == "deadline" || o.res == "canceled"
    let d (k : Nat) : Nat := ((o.nd.getD k 0)).toNat
    -- the earliest the k-th timer can fire, and the observed start of the next invocation (or the return)
    let gapBad := (List.range (o.n - 1)).find? fun k => o.starts.getD (k + 1) 0 < o.ends.getD k 0 + d k
    match gapBad with
    | some k => some s!"gap after invocation {k}: next start {o.starts.getD (k + 1) 0} < end {o.ends.getD k 0} + interval {d k}"
    | none =>
      let env : Env := {
        biz := fun k => (o.ends.getD k 0 - o.starts.getD k 0, if fails < 0 ∨ (k : Int) < fails then some k else none)
        startLag := fun k => if k = 0 then o.starts.getD 0 0 else 0
        nextLag := fun _ => 0
        -- a timer arm: the most permissive reading is that the timer fired as early as it may and the
        -- goroutine ran later; the final ctx arm: the timer had not fired when Retry returned
        fireLate := fun k => if k + 1 < o.n then 0 else o.ret - (o.ends.getD k 0 + d k)
        arm := fun k => if k + 1 < o.n then .timer else if isCtx then .ctx else .timer
        wakeLag := fun k => if k + 1 < o.n then o.starts.getD (k + 1) 0 - (o.ends.getD k 0 + d k) else 0
        ctxEnd := ctxUpper o }
      let r := retryLoop (next cfg) env (o.n + 1) 0 0 core
      let log := r.2
      if r.1 = .invalid then
        some "select took an arm that is not enabled in the model (retried although the context had ended before the timer could fire, or returned ctx.Err() without an ended context)"
      else if log.length ≠ o.n then some s!"number of invocations: model {log.length} observed {o.n}"
      else if log.map (·.start) ≠ o.starts ∨ log.map (·.fin) ≠ o.ends then some "model run does not reproduce the observed times"
      else if log.filterMap (·.nxt) ≠ obsOuts then some "Next was not called once per failed invocation"
      else
        let resOk : Bool := match r.1 with
          | .nil => o.res == "nil" && o.wrap == -1
          | .exhausted e => o.res == "exhausted" && o.wrap == (e : Int)
          | .ctxErr => isCtx && ctxKindOk ckind o.res && o.cxlo ≥ 0 && o.cxlo ≤ (o.ret : Int)
          | _ => false
        if resOk then none else some s!"result: model {repr r.1} observed res={o.res} wrap={o.wrap}"

/-- spec mode: the sentences of the property, directly -/
def retrySpec (cfg : Cfg) (calls : Nat) (fails : Int) (ckind : String) (o : RetryObs) : Option String :=
  let m := o.nd.length
  let failed (k : Nat) : Bool := fails < 0 || (k : Int) < fails
  if o.nok.length ≠ m ∨ o.starts.length ≠ o.n ∨ o.ends.length ≠ o.n then some "malformed observation"
  else if o.n = 0 then some "the operation was never invoked"
  else
    -- the strategy: budget and intervals of the calls Retry made
    let stratBad := (List.range m).find? fun k =>
      let i := calls + k + 1
      let g := Spec.granted cfg.maxRetries i
      (o.nok.getD k 0 != 0) != g || (g && (o.nd.getD k 0 != Spec.interval cfg i || o.nd.getD k 0 < cfg.initial || o.nd.getD k 0 > cfg.max))
    if stratBad.isSome then some s!"strategy call {calls + stratBad.get! + 1} inside Retry: budget or interval wrong"
    else if (List.range (o.n - 1)).any fun k => !failed k then some "the operation was invoked again after it had succeeded"
    else
      let nFailed := ((List.range o.n).filter failed).length
      if m ≠ nFailed then some s!"Next was called {m} times for {nFailed} failed invocations"
      else if (List.range (m - 1)).any fun k => o.nok.getD k 0 == 0 ∧ k + 1 < o.n then some "the operation was invoked again after the strategy said stop"
      else
        let gapBad := (List.range (o.n - 1)).find? fun k =>
          ((o.starts.getD (k + 1) 0 : Nat) : Int) < (o.ends.getD k 0 : Nat) + o.nd.getD k 0
        match gapBad with
        | some k => some s!"gap after invocation {k}: next start {o.starts.getD (k + 1) 0} < end {o.ends.getD k 0} + interval {o.nd.getD k 0}"
        | none =>
          -- never start another invocation when the context certainly ended before the timer could fire
          let lateBad := match ctxUpper o with
            | none => false
            | some c => (List.range (o.n - 1)).any fun k =>
                o.nd.getD k 0 > 0 ∧ (c : Int) < (o.ends.getD k 0 : Nat) + o.nd.getD k 0
          if lateBad then some "the operation was invoked again although the context had ended before the wait was over"
          else
            let last := o.n - 1
            if !failed last then (if o.res == "nil" ∧ o.wrap == -1 then none else some s!"want nil after a successful invocation, got {o.res}")
            else if o.nok.getD (m - 1) 1 == 0 then
              (if o.res == "exhausted" ∧ o.wrap == (last : Int) then none
               else some s!"want ErrRetryExhausted wrapping error {last}, got {o.res} wrap={o.wrap}")
            else if (o.res == "deadline" || o.res == "canceled") ∧ ctxKindOk ckind o.res ∧ o.cxlo ≥ 0 ∧ o.cxlo ≤ (o.ret : Int) then none
            else some s!"Retry returned {o.res} although the operation failed, the strategy granted a retry and the context had not ended"

def checker (model : Bool) : Checker where
  σ := DS
  init := {}
  step st op obs :=
    let ws := words op
    let tok := resultTok obs
    match ws with
    | "new" :: kind :: args =>
      let arch := (parseArch obs).getD .satMin
      let ctor : Option (Except CtorErr Cfg × Cfg) := match kind, args.mapM parseInt? with
        | "exp", some [i, m, r] => some (newExp arch i m r, ⟨.exp, i, m, r, arch⟩)
        | "fixed", some [i, r] => some (newFixed arch i r, ⟨.fixed, i, i, r, arch⟩)
        | _, _ => none
      match ctor with
      | none => ({}, some s!"bad-op {op}")
      | some (c, raw) =>
        if model then
          let want := renderCtor c
          if want ≠ tok then ({}, some s!"constructor want {want} got {tok}")
          else match c with
            | .ok cfg =>
              if (parseArch obs).isNone then ({}, some "float->int64 overflow probe is neither MinInt64 nor MaxInt64")
              else if obsCore obs ≠ some Core.init then ({ cfg := some cfg }, some "fresh strategy has a non-zero counter or flag")
              else ({ cfg := some cfg }, none)
            | .error _ => ({}, none)
        else
          -- the property speaks about strategies; whatever the constructor accepts must satisfy it
          if tok = "ok" then ({ cfg := some raw }, none) else ({}, none)
    | _ =>
      match st.cfg with
      | none => (st, if tok = "no-strategy" ∧ !model then none else if tok = "no-strategy" then none else some "no-strategy")
      | some cfg =>
        let resync (calls : Nat) : DS := { cfg := some cfg, core := (obsCore obs).getD st.core, calls := calls }
        match ws with
        | ["next"] =>
          match parseNext tok with
          | none => (resync (st.calls + 1), some s!"unexpected result {tok}")
          | some (ok, iv) =>
            if model then
              let r := next cfg st.core
              let st' : DS := { st with core := r.1, calls := st.calls + 1 }
              if renderNext r.2 ≠ tok then (resync (st.calls + 1), some s!"Next want {renderNext r.2} got {tok}")
              else if obsCore obs ≠ some r.1 then (resync (st.calls + 1), some s!"state want retries={r.1.retries} flag={r.1.flag}")
              else (st', none)
            else
              let i := st.calls + 1
              let g := Spec.granted cfg.maxRetries i
              let st' : DS := { st with calls := i }
              if ok ≠ g then (st', some s!"call {i}: granted={ok} but the budget says {g}")
              else if g ∧ iv ≠ Spec.interval cfg i then (st', some s!"call {i}: interval {iv}, want {Spec.interval cfg i}")
              else if g ∧ (iv < cfg.initial ∨ iv > cfg.max) then (st', some s!"call {i}: interval {iv} outside [{cfg.initial},{cfg.max}]")
              else (st', none)
        | ["burn", ks] =>
          match ks.toNat?, fieldNat obs "grants" with
          | some k, some g =>
            if model then
              let r := burnModel cfg k st.core 0
              let st' : DS := { st with core := r.1, calls := st.calls + k }
              if r.2 ≠ g then (resync (st.calls + k), some s!"grants want {r.2} got {g}")
              else if obsCore obs ≠ some r.1 then (resync (st.calls + k), some s!"state want retries={r.1.retries} flag={r.1.flag}")
              else (st', none)
            else
              let want := Spec.grants cfg.maxRetries (st.calls + k) - Spec.grants cfg.maxRetries st.calls
              ({ st with calls := st.calls + k }, if want = g then none else some s!"grants want {want} got {g}")
          | _, _ => (st, some "bad-observation")
        | ["conc", _, _] =>
          match fieldNat obs "n", fieldNat obs "grants", fieldInts obs "ivs" with
          | some n, some g, some ivs =>
            if model then
              let core' : Core := ⟨wrap32 (st.core.retries + n), concFlagAfter cfg st.core n⟩
              let st' : DS := { st with core := core', calls := st.calls + n }
              match concCheck cfg st.core n g ivs with
              | some msg => (resync (st.calls + n), some msg)
              | none =>
                if obsCore obs ≠ some core' then (resync (st.calls + n), some s!"state want retries={core'.retries} flag={core'.flag}")
                else (st', none)
            else
              let want := Spec.grants cfg.maxRetries (st.calls + n) - Spec.grants cfg.maxRetries st.calls
              let st' : DS := { st with calls := st.calls + n }
              if want ≠ g ∨ ivs.length ≠ g then (st', some s!"{n} concurrent calls: grants want {want} got {g}")
              else match ivs.find? fun iv => iv < cfg.initial ∨ iv > cfg.max with
                | some iv => (st', some s!"concurrent calls: interval {iv} outside [{cfg.initial},{cfg.max}]")
                | none => (st', none)
          | _, _, _ => (st, some "bad-observation")
        | ["burst", _, _, _] =>
          -- rounds × (fresh strategy of this configuration, g goroutines released together, k calls each):
          -- gmin/gmax = fewest/most grants seen in one round of n calls; ivmin/ivmax = extreme granted intervals
          match fieldNat obs "n", fieldNat obs "gmin", fieldNat obs "gmax" with
          | some n, some gmin, some gmax =>
            let hist := (field obs "hist").getD ""
            let ivmin := fieldInt obs "ivmin"
            let ivmax := fieldInt obs "ivmax"
            if model then
              -- the transition system from the initial state: counter values 1..n are handed out once each
              let rs := (List.range n).map fun (j : Nat) => wrap32 (Core.init.retries + 1 + (j : Int))
              let granted := rs.filter (budgetOk cfg)
              let want := granted.length
              let producible (iv : Int) : Bool := match cfg.kind with
                | .fixed => iv == cfg.initial
                | .exp => iv == cfg.max || granted.any fun r => rawInterval cfg r == iv && !capHit cfg iv
              if gmin ≠ want ∨ gmax ≠ want then
                (st, some s!"a round of {n} simultaneous calls granted {if gmax ≠ want then gmax else gmin}, the model grants {want} under every interleaving (rounds by grants: {hist})")
              else if want > 0 ∧ (ivmin.isNone ∨ ivmax.isNone) then (st, some "bad-observation")
              else if want > 0 ∧ !(producible (ivmin.getD 0) && producible (ivmax.getD 0)) then
                (st, some s!"granted interval {ivmin.getD 0}..{ivmax.getD 0} is not producible by the model")
              else (st, none)
            else
              let want := Spec.grants cfg.maxRetries n
              if gmax > want then
                (st, some s!"a round of {n} simultaneous Next calls on a fresh strategy granted {gmax} retries, budget {cfg.maxRetries} allows exactly {want} (rounds by grants: {hist})")
              else if gmin < want then
                (st, some s!"a round of {n} simultaneous Next calls on a fresh strategy granted only {gmin} retries, exactly {want} are due (rounds by grants: {hist})")
              else if want > 0 ∧ (ivmin.isNone ∨ ivmax.isNone) then (st, some "bad-observation")
              else if want > 0 ∧ ((ivmin.getD 0) < cfg.initial ∨ (ivmax.getD 0) > cfg.max) then
                (st, some s!"simultaneous callers: interval outside [{cfg.initial},{cfg.max}]: {ivmin.getD 0}..{ivmax.getD 0}")
              else (st, none)
          | _, _, _ => (st, some "bad-observation")
        | ["race3", _] =>
          -- three goroutines, one call each on a fresh strategy of this configuration, repeated;
          -- `bad` is the first returned interval outside [initial, max] (or `-`)
          -- budget: every trial is three calls on a fresh strategy, so exactly `Spec.grants maxRetries 3` are granted
          -- under every interleaving (gmin/gmax = fewest/most grants seen in one trial; absent in old replays)
          let want := Spec.grants cfg.maxRetries 3
          let budgetBad : Option String :=
            match fieldNat obs "gmin", fieldNat obs "gmax" with
            | some gmin, some gmax =>
              if fieldNat obs "trials" == some 0 then none
              else if gmax > want then some s!"three concurrent Next calls on a fresh strategy granted {gmax} retries, budget {cfg.maxRetries} allows exactly {want}"
              else if gmin < want then some s!"three concurrent Next calls on a fresh strategy granted only {gmin} retries, exactly {want} are due"
              else none
            | _, _ => none
          if budgetBad.isSome then (st, budgetBad) else
          match field obs "bad" with
          | some "-" => (st, none)
          | some v =>
            match v.toInt? with
            | some iv =>
              if model then
                -- the transition system can return the raw product of call 1, 2 or 3 when it is not a cap hit
                let producible := cfg.kind == .exp && [1, 2, 3].any fun (r : Int) => rawInterval cfg r == iv && !capHit cfg iv
                (st, if producible then none else some s!"interval {iv} is not producible by three concurrent callers in the model")
              else (st, some s!"three concurrent callers on a fresh strategy: interval {iv} outside [{cfg.initial},{cfg.max}]")
            | none => (st, some "bad-observation")
          | none => (st, some "bad-observation")
        | ["retry", fs, _, ckind, _] =>
          if tok.startsWith "panic" then (resync st.calls, some s!"Retry panicked: {tok}")
          else match parseInt? fs, parseRetryObs obs with
          | some fails, some o =>
            let m := o.nd.length
            if model then
              let core' := iter cfg m st.core
              match retryModel cfg st.core fails ckind o with
              | some msg => (resync (st.calls + m), some msg)
              | none =>
                -- the white-box counter/flag are compared on the strategy lines (next/burn/conc) of the
                -- `next` part; here the strategy is checked through what Retry saw it return
                ({ st with core := core', calls := st.calls + m }, none)
            else
              ({ st with calls := st.calls + m }, retrySpec cfg st.calls fails ckind o)
          | _, _ => (st, some "bad-observation")
        | _ => (st, some s!"bad-op {op}")

end Driver.Retry
